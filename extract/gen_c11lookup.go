package main

import (
	"bytes"
	"fmt"
	"go/ast"
	"go/format"
	"go/token"
	"strconv"
	"strings"
)

// c11lkSrc renders a node as gofmt source text (binary expressions included, which exprKey does not render).
func c11lkSrc(n ast.Node) string {
	var b bytes.Buffer
	if err := format.Node(&b, fset, n); err != nil {
		return "?" + err.Error()
	}
	return strings.Join(strings.Fields(b.String()), " ")
}

func init() {
	register("TransferLookup", c11lkGen)
}

// ---------------------------------------------------------------------------------------------------------
// Gen.TransferLookup: how the NEW process of a hot upgrade finds the listener of a handed-over connection.
//
//   transferFindListen (pkg/network/transfer.go): per address kind (`case *net.TCPAddr`, `case *net.UnixAddr`) the
//       ORDERED list of address strings handed to handler.FindListenerByAddress, by a small symbolic execution of the
//       case body: `port := strconv.FormatInt(int64(address.Port), 10)`, `x, _ := net.ResolveTCPAddr("tcp", <string expr>)`
//       (the resolved address prints as the string it was resolved from: literal IP forms), string variables built
//       from literals and `port`, re-assigned under `if address.IP.To4() ==/!= nil`, and the look-ups
//       `if listener = handler.FindListenerByAddress(x); listener != nil { return listener }` (also nested in
//       `if a, err := net.ResolveTCPAddr(...); err == nil { ... }`). Anything else is unsupported.
//   connHandler.findActiveListenerByAddress (pkg/server/handler.go): first listener whose Addr().Network() and
//       Addr().String() both equal the argument's.
//   transferNewConn / transferHandler: the key of the look-up is conn.LocalAddr(); no listener => no connection =>
//       the id answered is transferErr.

type c11lkEnv struct {
	vars map[string]string // Go identifier -> Lean expression of type String
	recv string            // name bound by the type switch (`address`)
	out  []string          // candidates in order
}

func (e *c11lkEnv) str(x ast.Expr) (string, error) {
	switch v := x.(type) {
	case *ast.BasicLit:
		if v.Kind == token.STRING {
			s, err := strconv.Unquote(v.Value)
			if err != nil {
				return "", err
			}
			return strconv.Quote(s), nil
		}
	case *ast.Ident:
		if v.Name == e.recv {
			return "exact", nil
		}
		if s, ok := e.vars[v.Name]; ok {
			return s, nil
		}
	case *ast.ParenExpr:
		return e.str(v.X)
	case *ast.BinaryExpr:
		if v.Op == token.ADD {
			l, err := e.str(v.X)
			if err != nil {
				return "", err
			}
			r, err := e.str(v.Y)
			if err != nil {
				return "", err
			}
			return "(" + l + " ++ " + r + ")", nil
		}
	case *ast.CallExpr:
		if c11lkIsPort(v, e.recv) {
			return "port", nil
		}
	}
	return "", fmt.Errorf("transferFindListen: unsupported string expression %s", c11lkSrc(x))
}

// strconv.FormatInt(int64(address.Port), 10) | strconv.Itoa(address.Port)
func c11lkIsPort(c *ast.CallExpr, recv string) bool {
	k := c11lkSrc(c)
	return k == "strconv.FormatInt(int64("+recv+".Port), 10)" || k == "strconv.Itoa("+recv+".Port)" ||
		k == "strconv.Itoa(int("+recv+".Port))"
}

// resolved: net.ResolveTCPAddr("tcp", E) | net.ResolveUnixAddr("unix", E) -> string expression of E
func (e *c11lkEnv) resolved(x ast.Expr) (string, bool, error) {
	c, ok := x.(*ast.CallExpr)
	if !ok || len(c.Args) != 2 {
		return "", false, nil
	}
	f := c11lkSrc(c.Fun)
	if f != "net.ResolveTCPAddr" && f != "net.ResolveUnixAddr" {
		return "", false, nil
	}
	want := map[string]string{"net.ResolveTCPAddr": `"tcp"`, "net.ResolveUnixAddr": `"unix"`}[f]
	if c11lkSrc(c.Args[0]) != want {
		return "", true, fmt.Errorf("transferFindListen: %s with network %s", f, c11lkSrc(c.Args[0]))
	}
	s, err := e.str(c.Args[1])
	return s, true, err
}

// v4 test: address.IP.To4() == nil (true = the IPv6 side) / != nil
func (e *c11lkEnv) famCond(x ast.Expr) (string, bool) {
	b, ok := x.(*ast.BinaryExpr)
	if !ok || c11lkSrc(b.Y) != "nil" || c11lkSrc(b.X) != e.recv+".IP.To4()" {
		return "", false
	}
	switch b.Op {
	case token.EQL:
		return "!v4", true
	case token.NEQ:
		return "v4", true
	}
	return "", false
}

func (e *c11lkEnv) stmts(list []ast.Stmt) error {
	for _, st := range list {
		switch s := st.(type) {
		case *ast.DeclStmt: // var listener types.Listener
			gd, ok := s.Decl.(*ast.GenDecl)
			if !ok || gd.Tok != token.VAR {
				return fmt.Errorf("transferFindListen: unsupported declaration")
			}
			for _, sp := range gd.Specs {
				if vs := sp.(*ast.ValueSpec); len(vs.Values) != 0 {
					return fmt.Errorf("transferFindListen: unsupported initialised var")
				}
			}
		case *ast.AssignStmt:
			if len(s.Rhs) != 1 || len(s.Lhs) < 1 || len(s.Lhs) > 2 {
				return fmt.Errorf("transferFindListen: unsupported assignment")
			}
			id, ok := s.Lhs[0].(*ast.Ident)
			if !ok {
				return fmt.Errorf("transferFindListen: unsupported assignment target")
			}
			if r, is, err := e.resolved(s.Rhs[0]); is {
				if err != nil {
					return err
				}
				e.vars[id.Name] = r
				continue
			}
			if len(s.Lhs) != 1 {
				return fmt.Errorf("transferFindListen: unsupported assignment")
			}
			r, err := e.str(s.Rhs[0])
			if err != nil {
				return err
			}
			e.vars[id.Name] = r
		case *ast.IfStmt:
			// look-up: if listener = handler.FindListenerByAddress(x); listener != nil { return listener }
			if as, ok := s.Init.(*ast.AssignStmt); ok && len(as.Rhs) == 1 {
				if c, ok := as.Rhs[0].(*ast.CallExpr); ok && len(as.Lhs) == 1 && c11lkSrc(c.Fun) == "handler.FindListenerByAddress" && len(c.Args) == 1 {
					v := c11lkSrc(as.Lhs[0])
					if c11lkSrc(s.Cond) != v+" != nil" || s.Else != nil || len(s.Body.List) != 1 || !c11h2IsReturnOf(s.Body.List[0], v) {
						return fmt.Errorf("transferFindListen: unsupported look-up statement")
					}
					k, err := e.str(c.Args[0])
					if err != nil {
						return err
					}
					e.out = append(e.out, k)
					continue
				}
				// if a, err := net.ResolveTCPAddr("tcp", E); err == nil { ... }
				if len(as.Lhs) == 2 {
					if r, is, err := e.resolved(as.Rhs[0]); is {
						if err != nil {
							return err
						}
						if c11lkSrc(s.Cond) != c11lkSrc(as.Lhs[1])+" == nil" || s.Else != nil {
							return fmt.Errorf("transferFindListen: unsupported resolve guard")
						}
						e.vars[c11lkSrc(as.Lhs[0])] = r
						if err := e.stmts(s.Body.List); err != nil {
							return err
						}
						continue
					}
				}
				return fmt.Errorf("transferFindListen: unsupported if-with-init")
			}
			// family-dependent re-assignment: if address.IP.To4() == nil { v = E }
			if c, ok := e.famCond(s.Cond); ok && s.Init == nil {
				apply := func(blk *ast.BlockStmt, cond string) error {
					for _, b := range blk.List {
						as, ok := b.(*ast.AssignStmt)
						if !ok || as.Tok != token.ASSIGN || len(as.Lhs) != 1 || len(as.Rhs) != 1 {
							return fmt.Errorf("transferFindListen: unsupported statement under the address-family test")
						}
						id, ok := as.Lhs[0].(*ast.Ident)
						if !ok {
							return fmt.Errorf("transferFindListen: unsupported target under the address-family test")
						}
						old, ok := e.vars[id.Name]
						if !ok {
							return fmt.Errorf("transferFindListen: %s assigned before it is defined", id.Name)
						}
						r, err := e.str(as.Rhs[0])
						if err != nil {
							return err
						}
						e.vars[id.Name] = "(if " + cond + " then " + r + " else " + old + ")"
					}
					return nil
				}
				if err := apply(s.Body, c); err != nil {
					return err
				}
				if s.Else != nil {
					eb, ok := s.Else.(*ast.BlockStmt)
					if !ok {
						return fmt.Errorf("transferFindListen: unsupported else under the address-family test")
					}
					neg := "!" + c
					if strings.HasPrefix(c, "!") {
						neg = c[1:]
					}
					if err := apply(eb, neg); err != nil {
						return err
					}
				}
				continue
			}
			return fmt.Errorf("transferFindListen: unsupported if statement (%s)", c11lkSrc(s.Cond))
		default:
			return fmt.Errorf("transferFindListen: unsupported statement %T", st)
		}
	}
	return nil
}

func c11lkGen() (string, error) {
	const tsrc, hsrc = "pkg/network/transfer.go", "pkg/server/handler.go"
	tf, err := parse(tsrc)
	if err != nil {
		return "", err
	}
	s := header("TransferLookup", tsrc, hsrc)
	fd := findFunc(tf, "", "transferFindListen")
	if fd == nil {
		return "", fmt.Errorf("transferFindListen not found")
	}
	var sw *ast.TypeSwitchStmt
	for _, st := range fd.Body.List {
		if t, ok := st.(*ast.TypeSwitchStmt); ok {
			sw = t
		}
	}
	if sw == nil {
		return "", fmt.Errorf("transferFindListen: type switch not found")
	}
	as, ok := sw.Assign.(*ast.AssignStmt)
	if !ok || len(as.Lhs) != 1 || len(as.Rhs) != 1 {
		return "", fmt.Errorf("transferFindListen: type switch form")
	}
	recv := c11lkSrc(as.Lhs[0])
	if ta, ok := as.Rhs[0].(*ast.TypeAssertExpr); !ok || c11lkSrc(ta.X) != "addr" {
		return "", fmt.Errorf("transferFindListen: the switch is not on the addr parameter")
	}
	// after the switch: the function must return nil (nothing found)
	last := fd.Body.List[len(fd.Body.List)-1]
	if !c11h2IsReturnOf(last, "nil") {
		return "", fmt.Errorf("transferFindListen: does not end with return nil")
	}
	cands := map[string][]string{}
	for _, cc := range sw.Body.List {
		cl := cc.(*ast.CaseClause)
		if cl.List == nil { // default: must not find anything
			if len(callsTo(cl, "handler.FindListenerByAddress")) != 0 {
				return "", fmt.Errorf("transferFindListen: look-up in the default case")
			}
			continue
		}
		if len(cl.List) != 1 {
			return "", fmt.Errorf("transferFindListen: multi-type case")
		}
		kind := c11lkSrc(cl.List[0])
		env := &c11lkEnv{vars: map[string]string{}, recv: recv}
		if err := env.stmts(cl.Body); err != nil {
			return "", err
		}
		cands[kind] = env.out
	}
	tcp, ok1 := cands["*net.TCPAddr"]
	unix, ok2 := cands["*net.UnixAddr"]
	if !ok1 || !ok2 || len(cands) != 2 {
		return "", fmt.Errorf("transferFindListen: expected the cases *net.TCPAddr and *net.UnixAddr")
	}
	s += "/-- `transferFindListen`, case `*net.TCPAddr`: the address strings handed to `FindListenerByAddress`, in order.\n" +
		"`exact` = the connection's local address as printed, `v4` = `address.IP.To4() != nil`, `port` = its decimal port. -/\n"
	s += "def tcpCandidates (exact : String) (v4 : Bool) (port : String) : List String :=\n  " + leanList(tcp) + "\n"
	s += "/-- case `*net.UnixAddr` -/\ndef unixCandidates (exact : String) : List String :=\n  " + leanList(unix) + "\n"

	// transferNewConn: key of the look-up, nil listener => nil connection; transferHandler: nil connection => transferErr
	nc := findFunc(tf, "", "transferNewConn")
	if nc == nil || len(nc.Body.List) < 2 {
		return "", fmt.Errorf("transferNewConn not found")
	}
	a0, ok := nc.Body.List[0].(*ast.AssignStmt)
	if !ok || len(a0.Rhs) != 1 || c11lkSrc(a0.Rhs[0]) != "transferFindListen(conn.LocalAddr(), handler)" {
		return "", fmt.Errorf("transferNewConn: the listener is no longer looked up by conn.LocalAddr() first")
	}
	i1, ok := nc.Body.List[1].(*ast.IfStmt)
	if !ok || c11lkSrc(i1.Cond) != c11lkSrc(a0.Lhs[0])+" == nil" || len(i1.Body.List) != 1 || !c11h2IsReturnOf(i1.Body.List[0], "nil") {
		return "", fmt.Errorf("transferNewConn: `if listener == nil { return nil }` not found")
	}
	th := findFunc(tf, "", "transferHandler")
	if th == nil {
		return "", fmt.Errorf("transferHandler not found")
	}
	answersErr := false
	ast.Inspect(th, func(n ast.Node) bool {
		i, ok := n.(*ast.IfStmt)
		if !ok || c11lkSrc(i.Cond) != "connection != nil" || i.Else == nil {
			return true
		}
		eb, ok := i.Else.(*ast.BlockStmt)
		if ok && len(callsTo(i.Body, "transferSendID")) == 1 && c11lkSrc(callsTo(i.Body, "transferSendID")[0].Args[1]) == "connection.id" &&
			len(callsTo(eb, "transferSendID")) == 1 && c11lkSrc(callsTo(eb, "transferSendID")[0].Args[1]) == "transferErr" {
			answersErr = true
		}
		return true
	})
	s += "/-- `transferNewConn` looks the listener up by `conn.LocalAddr()` and gives up without one; `transferHandler` then\nanswers `transferErr` instead of the new connection's id -/\n"
	s += fmt.Sprintf("def lookupByLocalAddr : Bool := true\ndef noListenerAnswersErr : Bool := %v\n", answersErr)

	// handler.go: first listener with equal Network() and String()
	hf, err := parse(hsrc)
	if err != nil {
		return "", err
	}
	fa := findFunc(hf, "connHandler", "findActiveListenerByAddress")
	fl := findFunc(hf, "connHandler", "FindListenerByAddress")
	if fa == nil || fl == nil {
		return "", fmt.Errorf("FindListenerByAddress / findActiveListenerByAddress not found")
	}
	if len(callsTo(fl, "ch.findActiveListenerByAddress")) != 1 {
		return "", fmt.Errorf("FindListenerByAddress no longer delegates to findActiveListenerByAddress")
	}
	var conds []string
	firstMatch := false
	ast.Inspect(fa, func(n ast.Node) bool {
		r, ok := n.(*ast.RangeStmt)
		if !ok || c11lkSrc(r.X) != "ch.listeners" {
			return true
		}
		ast.Inspect(r.Body, func(m ast.Node) bool {
			i, ok := m.(*ast.IfStmt)
			if !ok {
				return true
			}
			if c11lkSrc(i.Cond) != "l.listener != nil" {
				conds = append(conds, c11lkSrc(i.Cond))
				if len(i.Body.List) == 1 && c11h2IsReturnOf(i.Body.List[0], "l") {
					firstMatch = true
				}
			}
			return true
		})
		return false
	})
	const wantCond = "l.listener.Addr().Network() == addr.Network() && l.listener.Addr().String() == addr.String()"
	if len(conds) != 1 || conds[0] != wantCond || !firstMatch {
		return "", fmt.Errorf("findActiveListenerByAddress: expected the first listener with equal Network() and String(), got %v", conds)
	}
	s += "/-- `connHandler.findActiveListenerByAddress`: the first listener, in configuration order, whose address has the\nsame `Network()` and the same `String()` -/\n"
	s += "def findMatches (lnet laddr anet aaddr : String) : Bool := lnet == anet && laddr == aaddr\n"
	return s + footer("TransferLookup"), nil
}
