-- translation-unsupported GaugeSites: open -out/pkg/proxy: no such file or directory
namespace MosnVerif.Gen.GaugeSites
end MosnVerif.Gen.GaugeSites
