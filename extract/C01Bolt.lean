-- translation-unsupported C01Bolt: open -out/pkg/protocol/xprotocol/bolt/decoder.go: no such file or directory
namespace MosnVerif.Gen.C01Bolt
end MosnVerif.Gen.C01Bolt
