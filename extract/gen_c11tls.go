package main

// C11 (hot upgrade, hand-over of a TLS connection): regenerated facts.
//   Gen/TlsHandover.lean : from pkg/mtls/crypto/tls/tls_custom.go and handshake_server.go
//     * GetTLSInfo: for each of the two buffered inputs (rawInput -> RawInput, input -> Input) the guard on the
//       buffer's length, the LENGTH argument of the `make([]byte, len[, cap])` the temporary buffer is built on (bytes
//       that are in the buffer before the copy), what is copied into it and how much of it is taken; the sources of
//       InSeq / OutSeq;
//     * TransferTLSConn / transferChangeCipherSpec: which transferred field each restored part is built from, the
//       nil guards, whether the version is marked as known (haveVers), the failure on an unknown cipher suite;
//     * serverHandshakeState.handshake / Conn.serverHandshake: where TransferSetTLSInfo records the keys (after the
//       key material exists, or before the handshake).

import (
	"fmt"
	"go/ast"
	"go/token"
)

func init() { register("TlsHandover", genC11tTlsHandover) }

// c11tCopyBlock recognises
//   if c.<buf>.Len() != 0 { tmpBuf := bytes.NewBuffer(make([]byte, L[, C])); io.Copy(tmpBuf, &c.<buf>); c.info.<F> = tmpBuf.Next(tmpBuf.Len()) }
// and returns the guard and L as Lean expressions over `n` (= c.<buf>.Len()).
func c11tCopyBlock(fd *ast.FuncDecl, buf, field string) (guard, preLen string, err error) {
	lenKey := "c." + buf + ".Len()"
	for _, st := range fd.Body.List {
		is, ok := st.(*ast.IfStmt)
		if !ok || is.Init != nil || is.Else != nil || !c11Mentions(is.Cond, lenKey) {
			continue
		}
		env := &Env{Names: map[string]string{lenKey: "n"}}
		guard, err = env.expr(is.Cond)
		if err != nil {
			return "", "", fmt.Errorf("guard of %s: %v", buf, err)
		}
		if len(is.Body.List) != 3 {
			return "", "", fmt.Errorf("copy block of %s: %d statements, 3 expected", buf, len(is.Body.List))
		}
		// 1. tmpBuf := bytes.NewBuffer(make([]byte, L[, C]))
		as, ok := is.Body.List[0].(*ast.AssignStmt)
		if !ok || as.Tok != token.DEFINE || len(as.Lhs) != 1 || len(as.Rhs) != 1 {
			return "", "", fmt.Errorf("copy block of %s: first statement is not a definition", buf)
		}
		tmp := exprKey(as.Lhs[0])
		nb, ok := as.Rhs[0].(*ast.CallExpr)
		if !ok || exprKey(nb.Fun) != "bytes.NewBuffer" || len(nb.Args) != 1 {
			return "", "", fmt.Errorf("copy block of %s: temporary is not bytes.NewBuffer(...)", buf)
		}
		mk, ok := nb.Args[0].(*ast.CallExpr)
		if !ok || exprKey(mk.Fun) != "make" || len(mk.Args) < 2 || len(mk.Args) > 3 {
			return "", "", fmt.Errorf("copy block of %s: NewBuffer argument is not make([]byte, len[, cap])", buf)
		}
		if at, ok := mk.Args[0].(*ast.ArrayType); !ok || at.Len != nil || exprKey(at.Elt) != "byte" {
			return "", "", fmt.Errorf("copy block of %s: make of a non-[]byte", buf)
		}
		preLen, err = env.expr(mk.Args[1]) // the LENGTH: bytes already in the buffer
		if err != nil {
			return "", "", fmt.Errorf("make length of %s: %v", buf, err)
		}
		// 2. io.Copy(tmp, &c.<buf>)
		es, ok := is.Body.List[1].(*ast.ExprStmt)
		if !ok {
			return "", "", fmt.Errorf("copy block of %s: second statement is not a call", buf)
		}
		cp, ok := es.X.(*ast.CallExpr)
		if !ok || exprKey(cp.Fun) != "io.Copy" || len(cp.Args) != 2 || exprKey(cp.Args[0]) != tmp || exprKey(cp.Args[1]) != "&c."+buf {
			return "", "", fmt.Errorf("copy block of %s: not io.Copy(%s, &c.%s)", buf, tmp, buf)
		}
		// 3. c.info.<F> = tmp.Next(tmp.Len())
		as2, ok := is.Body.List[2].(*ast.AssignStmt)
		if !ok || as2.Tok != token.ASSIGN || len(as2.Lhs) != 1 || exprKey(as2.Lhs[0]) != "c.info."+field ||
			exprKey(as2.Rhs[0]) != tmp+".Next("+tmp+".Len())" {
			return "", "", fmt.Errorf("copy block of %s: result is not c.info.%s = %s.Next(%s.Len())", buf, field, tmp, tmp)
		}
		return guard, preLen, nil
	}
	return "", "", fmt.Errorf("GetTLSInfo: no copy block for %s", buf)
}

// c11tAssigns: top-level-or-nested assignment `lhs = rhs` (exprKey forms) somewhere in fd.
func c11tAssigns(fd *ast.FuncDecl, lhs, rhs string) bool {
	found := false
	ast.Inspect(fd.Body, func(n ast.Node) bool {
		if as, ok := n.(*ast.AssignStmt); ok && as.Tok == token.ASSIGN && len(as.Lhs) == 1 && len(as.Rhs) == 1 &&
			exprKey(as.Lhs[0]) == lhs && exprKey(as.Rhs[0]) == rhs {
			found = true
		}
		return !found
	})
	return found
}

// c11tGuardedAssign: `if <cond> { lhs = rhs; ... }` at the top level of fd.
func c11tGuardedAssign(fd *ast.FuncDecl, cond, lhs, rhs string) bool {
	for _, st := range fd.Body.List {
		is, ok := st.(*ast.IfStmt)
		if !ok || is.Init != nil {
			continue
		}
		b, ok := is.Cond.(*ast.BinaryExpr)
		if !ok || exprKey(b.X)+" "+b.Op.String()+" "+exprKey(b.Y) != cond {
			continue
		}
		for _, s := range is.Body.List {
			if as, ok := s.(*ast.AssignStmt); ok && as.Tok == token.ASSIGN && len(as.Lhs) == 1 && exprKey(as.Lhs[0]) == lhs && exprKey(as.Rhs[0]) == rhs {
				return true
			}
		}
	}
	return false
}

func c11tBool(b bool) string {
	if b {
		return "true"
	}
	return "false"
}

func genC11tTlsHandover() (string, error) {
	const src = "pkg/mtls/crypto/tls/tls_custom.go"
	const hsrc = "pkg/mtls/crypto/tls/handshake_server.go"
	f, err := parse(src)
	if err != nil {
		return "", err
	}
	get := findFunc(f, "Conn", "GetTLSInfo")
	if get == nil {
		return "", fmt.Errorf("Conn.GetTLSInfo not found")
	}
	rawGuard, rawPre, err := c11tCopyBlock(get, "rawInput", "RawInput")
	if err != nil {
		return "", err
	}
	inGuard, inPre, err := c11tCopyBlock(get, "input", "Input")
	if err != nil {
		return "", err
	}
	s := header("TlsHandover", src, hsrc)
	s += "/-- GetTLSInfo: the buffered undecrypted input is serialised when this holds of its length `n` -/\n"
	s += "def rawCopied (n : Int) : Bool := " + rawGuard + "\n"
	s += "/-- GetTLSInfo: bytes that are in the temporary buffer BEFORE rawInput is copied into it (the length argument of make) -/\n"
	s += "def rawPreLen (n : Int) : Int := " + rawPre + "\n"
	s += "def inputCopied (n : Int) : Bool := " + inGuard + "\n"
	s += "def inputPreLen (n : Int) : Int := " + inPre + "\n"
	s += "/-- GetTLSInfo: InSeq / OutSeq are the read / write half's sequence numbers -/\n"
	s += "def inSeqFromIn : Bool := " + c11tBool(c11tAssigns(get, "c.info.InSeq", "c.in.seq")) + "\n"
	s += "def outSeqFromOut : Bool := " + c11tBool(c11tAssigns(get, "c.info.OutSeq", "c.out.seq")) + "\n"

	tr := findFunc(f, "", "TransferTLSConn")
	ccs := findFunc(f, "", "transferChangeCipherSpec")
	if tr == nil || ccs == nil {
		return "", fmt.Errorf("TransferTLSConn / transferChangeCipherSpec not found")
	}
	s += "/-- TransferTLSConn: the restored parts and the transferred fields they are built from -/\n"
	s += "def restoreRawFromRawInput : Bool := " + c11tBool(c11tGuardedAssign(tr, "info.RawInput != nil", "c.rawInput", "*bytes.NewBuffer(info.RawInput)")) + "\n"
	s += "def restoreInputFromInput : Bool := " + c11tBool(c11tGuardedAssign(tr, "info.Input != nil", "c.input", "*bytes.NewReader(info.Input)")) + "\n"
	s += "def restoreInSeqFromInSeq : Bool := " + c11tBool(c11tAssigns(ccs, "c.in.seq", "info.InSeq")) + "\n"
	s += "def restoreOutSeqFromOutSeq : Bool := " + c11tBool(c11tAssigns(ccs, "c.out.seq", "info.OutSeq")) + "\n"
	s += "def restoreVersFromVers : Bool := " + c11tBool(c11tAssigns(tr, "c.vers", "info.Vers")) + "\n"
	s += "/-- TransferTLSConn marks the protocol version as known (otherwise the record layer treats the next record as the first of a handshake) -/\n"
	s += "def restoreSetsHaveVers : Bool := " + c11tBool(c11tAssigns(tr, "c.haveVers", "true")) + "\n"
	s += "def restoreMarksHandshakeDone : Bool := " + c11tBool(c11tAssigns(tr, "c.handshakeStatus", "1")) + "\n"
	s += "/-- TransferTLSConn fails (nil) when the transferred cipher suite is not a known one -/\n"
	s += "def restoreFailsWithoutSuite : Bool := " + c11tBool(c11tGuardedReturnNil(tr, "suite == nil")) + "\n"

	// where the keys are recorded
	hf, err := parse(hsrc)
	if err != nil {
		return "", err
	}
	hsFn := findFunc(hf, "serverHandshakeState", "handshake")
	outer := findFunc(hf, "Conn", "serverHandshake")
	if hsFn == nil || outer == nil {
		return "", fmt.Errorf("serverHandshakeState.handshake / Conn.serverHandshake not found")
	}
	// in handshake(): a top-level call of TransferSetTLSInfo after the last top-level statement that mentions establishKeys
	lastKeys, rec := -1, -1
	for i, st := range hsFn.Body.List {
		if len(callsTo(st, "hs.establishKeys")) > 0 {
			lastKeys = i
		}
		if es, ok := st.(*ast.ExprStmt); ok {
			if c, ok := es.X.(*ast.CallExpr); ok && exprKey(c.Fun) == "TransferSetTLSInfo" && len(c.Args) == 1 &&
				(exprKey(c.Args[0]) == "*hs" || exprKey(c.Args[0]) == "hs") {
				rec = i
			}
		}
	}
	if lastKeys < 0 {
		return "", fmt.Errorf("handshake(): no establishKeys")
	}
	after := rec > lastKeys
	before := len(callsTo(outer, "TransferSetTLSInfo")) > 0
	s += "/-- TransferSetTLSInfo runs in handshake() after the keys were established (cipher suite, master secret and both randoms exist) -/\n"
	s += "def keysRecordedAfterHandshake : Bool := " + c11tBool(after) + "\n"
	s += "/-- TransferSetTLSInfo runs in serverHandshake() on the freshly built handshake state (no suite, no master secret) -/\n"
	s += "def keysRecordedBeforeHandshake : Bool := " + c11tBool(before) + "\n"
	s += footer("TlsHandover")
	return s, nil
}

// c11tGuardedReturnNil: `if <cond> { return nil }` at the top level of fd.
func c11tGuardedReturnNil(fd *ast.FuncDecl, cond string) bool {
	for _, st := range fd.Body.List {
		is, ok := st.(*ast.IfStmt)
		if !ok || is.Init != nil {
			continue
		}
		b, ok := is.Cond.(*ast.BinaryExpr)
		if !ok || exprKey(b.X)+" "+b.Op.String()+" "+exprKey(b.Y) != cond {
			continue
		}
		if len(is.Body.List) == 1 {
			if r, ok := is.Body.List[0].(*ast.ReturnStmt); ok && len(r.Results) == 1 && exprKey(r.Results[0]) == "nil" {
				return true
			}
		}
	}
	return false
}
