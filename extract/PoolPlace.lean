-- translation-unsupported PoolPlace: open -out/pkg/stream/http/connpool.go: no such file or directory
namespace MosnVerif.Gen.PoolPlace
end MosnVerif.Gen.PoolPlace
