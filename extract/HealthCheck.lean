-- translation-unsupported HealthCheck: open -out/pkg/upstream/healthcheck/session_checker.go: no such file or directory
namespace MosnVerif.Gen.HealthCheck
end MosnVerif.Gen.HealthCheck
