package main

// C11 round 5 (hot upgrade: hand-shake order, diverted-write queue, hand-over timing): regenerated facts.
//   Gen/UpgTiming.lean     : default TransferTimeout / GracefulTimeout / DefaultConnReadTimeout, the non-zero guards of
//                            NewServer and SetTransferTimeout, the path condition under which Mosn.TransferConnection
//                            executes SetTransferTimeout and its argument, WaitConnectionsDone's timer expression, the
//                            read loop's hand-over instant (pkg/mosn/mosn.go, pkg/server/{server,reconfigure}.go,
//                            pkg/network/{transfer,connection}.go, pkg/types/network.go)
//   Gen/HandoverQueue.lean : capacity of writeBufferChan, the enqueue form of writeDirectly while needTransfer, the
//                            forwarding loop of connection.transferWrite (pkg/network/connection.go)
//   Gen/UpgHandshake.lean  : the old process's step order in ReconfigureHandler (pkg/server/reconfigure.go), the new
//                            process's ready / ack-deadline / give-up steps in transferConnectionHandler and the
//                            order start -> inherit of the stage manager (pkg/mosn/mosn.go, pkg/stagemanager)

import (
	"fmt"
	"go/ast"
	"go/token"
	"strings"
)

func init() {
	register("UpgTiming", genC11r5Timing)
	register("HandoverQueue", genC11r5Queue)
	register("UpgHandshake", genC11r5Handshake)
}

// c11r5VarInit: initialiser expression of a package-level `var name = …` (also inside a var block).
func c11r5VarInit(f *ast.File, name string) ast.Expr {
	for _, d := range f.Decls {
		gd, ok := d.(*ast.GenDecl)
		if !ok || gd.Tok != token.VAR {
			continue
		}
		for _, sp := range gd.Specs {
			vs, ok := sp.(*ast.ValueSpec)
			if !ok {
				continue
			}
			for i, n := range vs.Names {
				if n.Name == name && i < len(vs.Values) {
					return vs.Values[i]
				}
			}
		}
	}
	return nil
}

func c11r5DurVar(src, name string) (int64, error) {
	f, err := parse(src)
	if err != nil {
		return 0, err
	}
	e := c11r5VarInit(f, name)
	if e == nil {
		return 0, fmt.Errorf("%s: var %s not found", src, name)
	}
	ms, err := durationMs(e)
	if err != nil {
		return 0, fmt.Errorf("%s: %s: %v", src, name, err)
	}
	return ms, nil
}

// c11r5NonZeroGuard recognises `if <x> != 0 { <target> = <x> }` as the only way <target> is assigned in stmts.
func c11r5NonZeroGuard(stmts []ast.Stmt, target, x string) bool {
	n := 0
	ok := false
	var walk func(l []ast.Stmt, guarded bool)
	walk = func(l []ast.Stmt, guarded bool) {
		for _, st := range l {
			switch s := st.(type) {
			case *ast.AssignStmt:
				for i, lhs := range s.Lhs {
					if exprKey(lhs) == target {
						n++
						if guarded && i < len(s.Rhs) && exprKey(s.Rhs[i]) == x {
							ok = true
						}
					}
				}
			case *ast.IfStmt:
				g := false
				if b, isb := s.Cond.(*ast.BinaryExpr); isb && b.Op == token.NEQ && exprKey(b.X) == x && exprKey(b.Y) == "0" && s.Init == nil {
					g = true
				}
				walk(s.Body.List, g)
				if s.Else != nil {
					if eb, isb := s.Else.(*ast.BlockStmt); isb {
						walk(eb.List, false)
					} else {
						n += 100
					}
				}
			case *ast.BlockStmt:
				walk(s.List, guarded)
			}
		}
	}
	walk(stmts, false)
	return ok && n == 1
}

// c11r5Arith renders + and * over int literals and the named leaves as a Lean Nat expression.
func c11r5Arith(e ast.Expr, leaf map[string]string) (string, error) {
	switch x := e.(type) {
	case *ast.ParenExpr:
		return c11r5Arith(x.X, leaf)
	case *ast.BasicLit:
		if v, ok := intLit(x); ok && v >= 0 {
			return fmt.Sprint(v), nil
		}
	case *ast.BinaryExpr:
		if x.Op == token.ADD || x.Op == token.MUL {
			a, err := c11r5Arith(x.X, leaf)
			if err != nil {
				return "", err
			}
			b, err := c11r5Arith(x.Y, leaf)
			if err != nil {
				return "", err
			}
			return "(" + a + " " + x.Op.String() + " " + b + ")", nil
		}
	}
	if l, ok := leaf[exprKey(e)]; ok {
		return l, nil
	}
	return "", fmt.Errorf("unsupported arithmetic %s", exprKey(e))
}

// c11r5PathCond: the conditions (with polarity) of the if statements enclosing the first call of `key` in body;
// found=false when there is none. A `return` textually before the call on the enclosing path makes it unsupported.
func c11r5CondKey(e ast.Expr) string {
	switch x := e.(type) {
	case *ast.ParenExpr:
		return c11r5CondKey(x.X)
	case *ast.BinaryExpr:
		if x.Op == token.NEQ || x.Op == token.EQL {
			return exprKey(x.X) + x.Op.String() + exprKey(x.Y)
		}
	}
	return exprKey(e)
}

type c11r5Guard struct {
	cond string
	then bool
}

func c11r5PathCond(body []ast.Stmt, key string) (gs []c11r5Guard, found bool, err error) {
	for _, st := range body {
		switch s := st.(type) {
		case *ast.IfStmt:
			if len(callsTo(s.Body, key)) > 0 {
				inner, _, e := c11r5PathCond(s.Body.List, key)
				return append([]c11r5Guard{{c11r5CondKey(s.Cond), true}}, inner...), true, e
			}
			if s.Else != nil && len(callsTo(s.Else, key)) > 0 {
				eb, ok := s.Else.(*ast.BlockStmt)
				if !ok {
					return nil, true, fmt.Errorf("%s under else-if", key)
				}
				inner, _, e := c11r5PathCond(eb.List, key)
				return append([]c11r5Guard{{c11r5CondKey(s.Cond), false}}, inner...), true, e
			}
			ret := false
			ast.Inspect(s, func(n ast.Node) bool {
				if _, ok := n.(*ast.ReturnStmt); ok {
					ret = true
				}
				return true
			})
			if ret {
				return nil, false, fmt.Errorf("a return precedes %s", key)
			}
		case *ast.ReturnStmt:
			if len(callsTo(s, key)) > 0 {
				return nil, true, nil
			}
			return nil, false, fmt.Errorf("a return precedes %s", key)
		default:
			if len(callsTo(st, key)) > 0 {
				if _, isBlock := st.(*ast.BlockStmt); isBlock {
					return nil, true, fmt.Errorf("%s inside a nested block", key)
				}
				switch st.(type) {
				case *ast.ExprStmt, *ast.AssignStmt:
					return nil, true, nil
				}
				return nil, true, fmt.Errorf("%s inside an unsupported statement", key)
			}
		}
	}
	return nil, false, nil
}

func genC11r5Timing() (string, error) {
	s := header("UpgTiming", "pkg/mosn/mosn.go", "pkg/server/server.go", "pkg/server/reconfigure.go", "pkg/network/transfer.go", "pkg/network/connection.go", "pkg/types/network.go") + "set_option linter.unusedVariables false\n"
	for _, v := range [][3]string{
		{"pkg/network/transfer.go", "TransferTimeout", "defaultTransferTimeoutMs"},
		{"pkg/server/reconfigure.go", "GracefulTimeout", "defaultGracefulTimeoutMs"},
		{"pkg/types/network.go", "DefaultConnReadTimeout", "defaultConnReadTimeoutMs"},
	} {
		ms, err := c11r5DurVar(v[0], v[1])
		if err != nil {
			return "", err
		}
		s += fmt.Sprintf("/-- `var %s` of %s, milliseconds -/\ndef %s : Nat := %d\n", v[1], v[0], v[2], ms)
	}
	// NewServer: GracefulTimeout = config.GracefulTimeout iff non-zero
	fs, err := parse("pkg/server/server.go")
	if err != nil {
		return "", err
	}
	ns := findFunc(fs, "", "NewServer")
	if ns == nil || !c11r5NonZeroGuard(ns.Body.List, "GracefulTimeout", "config.GracefulTimeout") {
		return "", fmt.Errorf("NewServer: `if config.GracefulTimeout != 0 { GracefulTimeout = config.GracefulTimeout }` not recognised")
	}
	s += "/-- `NewServer`: the configured graceful_timeout replaces the current value iff it is non-zero -/\n" +
		"def effectiveGraceful (cur cfg : Nat) : Nat := if cfg != 0 then cfg else cur\n"
	// SetTransferTimeout
	ft, err := parse("pkg/network/transfer.go")
	if err != nil {
		return "", err
	}
	st := findFunc(ft, "", "SetTransferTimeout")
	if st == nil || len(st.Type.Params.List) != 1 || len(st.Type.Params.List[0].Names) != 1 {
		return "", fmt.Errorf("SetTransferTimeout not found")
	}
	p := st.Type.Params.List[0].Names[0].Name
	if !c11r5NonZeroGuard(st.Body.List, "TransferTimeout", p) {
		return "", fmt.Errorf("SetTransferTimeout: `if t != 0 { TransferTimeout = t }` not recognised")
	}
	s += "/-- `SetTransferTimeout` -/\ndef setTransferTimeout (cur t : Nat) : Nat := if t != 0 then t else cur\n"
	// Mosn.TransferConnection: on which start paths SetTransferTimeout runs, with which argument
	fm, err := parse("pkg/mosn/mosn.go")
	if err != nil {
		return "", err
	}
	tc := findFunc(fm, "Mosn", "TransferConnection")
	if tc == nil {
		return "", fmt.Errorf("Mosn.TransferConnection not found")
	}
	calls := callsTo(tc, "network.SetTransferTimeout")
	lean := ""
	switch len(calls) {
	case 0:
		lean = "false"
	case 1:
		if len(calls[0].Args) != 1 || exprKey(calls[0].Args[0]) != "server.GracefulTimeout" {
			return "", fmt.Errorf("TransferConnection: SetTransferTimeout is not called with server.GracefulTimeout")
		}
		gs, _, err := c11r5PathCond(tc.Body.List, "network.SetTransferTimeout")
		if err != nil {
			return "", fmt.Errorf("TransferConnection: %v", err)
		}
		var parts []string
		for _, g := range gs {
			var c string
			switch g.cond {
			case "m.Upgrade.ListenSockConn!=nil", "m.isFromUpgrade", "m.IsFromUpgrade()":
				c = "inherited"
			case "m.Upgrade.ListenSockConn==nil", "!m.isFromUpgrade", "!m.IsFromUpgrade()":
				c = "!inherited"
			default:
				return "", fmt.Errorf("TransferConnection: SetTransferTimeout under unsupported condition %s", g.cond)
			}
			if !g.then {
				c = "!(" + c + ")"
			}
			parts = append(parts, "("+c+")")
		}
		if len(parts) == 0 {
			lean = "true"
		} else {
			lean = strings.Join(parts, " && ")
		}
	default:
		return "", fmt.Errorf("TransferConnection: several SetTransferTimeout calls")
	}
	s += "/-- `Mosn.TransferConnection`: is `network.SetTransferTimeout(server.GracefulTimeout)` executed on the start path of a\nprocess that did (`inherited`) / did not inherit from an old MOSN (the if-conditions enclosing the call) -/\n" +
		"def setOnStart (inherited : Bool) : Bool := " + lean + "\n"
	ic := findFunc(fm, "Mosn", "InheritConnections")
	if ic == nil {
		return "", fmt.Errorf("Mosn.InheritConnections not found")
	}
	gs, found, err := c11r5PathCond(ic.Body.List, "m.TransferConnection")
	if err != nil || !found || len(gs) != 0 {
		return "", fmt.Errorf("InheritConnections: m.TransferConnection() is not called unconditionally")
	}
	// WaitConnectionsDone: timer expression; ReconfigureHandler's argument
	wd := findFunc(fs, "", "WaitConnectionsDone")
	if wd == nil || len(wd.Type.Params.List) != 1 || len(wd.Type.Params.List[0].Names) != 1 {
		return "", fmt.Errorf("WaitConnectionsDone not found")
	}
	dp := wd.Type.Params.List[0].Names[0].Name
	nt := callsTo(wd, "time.NewTimer")
	if len(nt) != 1 || len(nt[0].Args) != 1 {
		return "", fmt.Errorf("WaitConnectionsDone: time.NewTimer call")
	}
	ex, err := c11r5Arith(nt[0].Args[0], map[string]string{dp: "duration", "types.DefaultConnReadTimeout": "readTimeout"})
	if err != nil {
		return "", fmt.Errorf("WaitConnectionsDone: %v", err)
	}
	s += "/-- `WaitConnectionsDone(duration)`: how long the old process lives on after StopConnection -/\n" +
		"def waitConnectionsDone (duration readTimeout : Nat) : Nat := " + ex + "\n"
	fr, err := parse("pkg/server/reconfigure.go")
	if err != nil {
		return "", err
	}
	rh := findFunc(fr, "", "ReconfigureHandler")
	if rh == nil {
		return "", fmt.Errorf("ReconfigureHandler not found")
	}
	wc := callsTo(rh, "WaitConnectionsDone")
	if len(wc) != 1 || len(wc[0].Args) != 1 || exprKey(wc[0].Args[0]) != "GracefulTimeout" {
		return "", fmt.Errorf("ReconfigureHandler: WaitConnectionsDone(GracefulTimeout) not found")
	}
	// read loop: transferTime = time.Now().Add(TransferTimeout).Add(randTime), randTime < TransferTimeout
	fc, err := parse("pkg/network/connection.go")
	if err != nil {
		return "", err
	}
	rl := findFunc(fc, "connection", "startReadLoop")
	if rl == nil {
		return "", fmt.Errorf("startReadLoop not found")
	}
	var tt, rnd ast.Expr
	ast.Inspect(rl, func(n ast.Node) bool {
		ifs, ok := n.(*ast.IfStmt)
		if !ok || !c11Mentions(ifs.Cond, "c.transferCallbacks") {
			return true
		}
		for _, st := range ifs.Body.List {
			if as, ok := st.(*ast.AssignStmt); ok && len(as.Lhs) == 1 && len(as.Rhs) == 1 {
				switch exprKey(as.Lhs[0]) {
				case "transferTime":
					tt = as.Rhs[0]
				case "randTime":
					rnd = as.Rhs[0]
				}
			}
		}
		return false
	})
	if tt == nil || rnd == nil {
		return "", fmt.Errorf("startReadLoop: transferTime / randTime assignments of the transferable branch not found")
	}
	// unroll the .Add chain
	var adds []string
	cur := tt
	for {
		c, ok := cur.(*ast.CallExpr)
		if !ok {
			return "", fmt.Errorf("startReadLoop: transferTime is not a time.Now().Add(…) chain")
		}
		if exprKey(c.Fun) == "time.Now" && len(c.Args) == 0 {
			break
		}
		sel, ok := c.Fun.(*ast.SelectorExpr)
		if !ok || sel.Sel.Name != "Add" || len(c.Args) != 1 {
			return "", fmt.Errorf("startReadLoop: transferTime is not a time.Now().Add(…) chain")
		}
		a, err := c11r5Arith(c.Args[0], map[string]string{"TransferTimeout": "T", "randTime": "r"})
		if err != nil {
			return "", fmt.Errorf("startReadLoop: %v", err)
		}
		adds = append([]string{a}, adds...)
		cur = sel.X
	}
	if len(adds) == 0 {
		return "", fmt.Errorf("startReadLoop: transferTime has no delay")
	}
	s += "/-- read loop, transferable connection: delay of the hand-over after the stop signal was seen (`T` = TransferTimeout, `r` = randTime) -/\n" +
		"def transferInstant (T r : Nat) : Nat := " + strings.Join(adds, " + ") + "\n"
	// randTime := time.Duration(rand.Intn(int(TransferTimeout.Nanoseconds())))
	ri := callsTo(rnd, "rand.Intn")
	if len(ri) != 1 || len(ri[0].Args) != 1 {
		return "", fmt.Errorf("startReadLoop: randTime is not rand.Intn(…)")
	}
	bound := unwrapConv(ri[0].Args[0])
	if c, ok := bound.(*ast.CallExpr); ok && len(c.Args) == 0 {
		if sel, ok := c.Fun.(*ast.SelectorExpr); ok && sel.Sel.Name == "Nanoseconds" {
			bound = sel.X
		}
	}
	bl, err := c11r5Arith(bound, map[string]string{"TransferTimeout": "T"})
	if err != nil {
		return "", fmt.Errorf("startReadLoop: randTime bound: %v", err)
	}
	s += "/-- exclusive upper bound of `randTime` -/\ndef randBound (T : Nat) : Nat := " + bl + "\n"
	return s + footer("UpgTiming"), nil
}

// ---------------------------------------------------------------------------------------------------------------------

func c11r5ChanCap(f *ast.File, field string) (int64, error) {
	var caps []int64
	bad := false
	ast.Inspect(f, func(n ast.Node) bool {
		kv, ok := n.(*ast.KeyValueExpr)
		if !ok || exprKey(kv.Key) != field {
			return true
		}
		c, ok := kv.Value.(*ast.CallExpr)
		if !ok || exprKey(c.Fun) != "make" {
			bad = true
			return true
		}
		if len(c.Args) == 1 {
			caps = append(caps, 0)
		} else if v, ok := intLit(c.Args[1]); ok && len(c.Args) == 2 {
			caps = append(caps, v)
		} else {
			bad = true
		}
		return true
	})
	if bad || len(caps) == 0 {
		return 0, fmt.Errorf("make(chan …) of %s not recognised", field)
	}
	for _, c := range caps {
		if c != caps[0] {
			return 0, fmt.Errorf("%s is made with different capacities", field)
		}
	}
	return caps[0], nil
}

func c11r5IsSendTo(st ast.Stmt, ch string) bool {
	s, ok := st.(*ast.SendStmt)
	return ok && exprKey(s.Chan) == ch
}

func genC11r5Queue() (string, error) {
	const src = "pkg/network/connection.go"
	f, err := parse(src)
	if err != nil {
		return "", err
	}
	s := header("HandoverQueue", src)
	cp, err := c11r5ChanCap(f, "writeBufferChan")
	if err != nil {
		return "", err
	}
	s += fmt.Sprintf("/-- capacity of `writeBufferChan` (every constructor) -/\ndef writeBufferCap : Nat := %d\n", cp)
	wd := findFunc(f, "connection", "writeDirectly")
	if wd == nil {
		return "", fmt.Errorf("writeDirectly not found")
	}
	var nt *ast.IfStmt
	ast.Inspect(wd, func(n ast.Node) bool {
		if i, ok := n.(*ast.IfStmt); ok && exprKey(i.Cond) == "c.needTransfer" && nt == nil {
			nt = i
		}
		return nt == nil
	})
	if nt == nil || len(nt.Body.List) == 0 {
		return "", fmt.Errorf("writeDirectly: `if c.needTransfer` not found")
	}
	mode := ""
	first := nt.Body.List[0]
	switch x := first.(type) {
	case *ast.SendStmt:
		if exprKey(x.Chan) == "c.writeBufferChan" {
			mode = "blocking"
		}
	case *ast.SelectStmt:
		send, def, other := 0, 0, 0
		for _, cl := range x.Body.List {
			cc := cl.(*ast.CommClause)
			switch {
			case cc.Comm == nil:
				def++
			case c11r5IsSendTo(cc.Comm, "c.writeBufferChan"):
				send++
			default:
				other++
			}
		}
		if send == 1 && def == 1 {
			mode = "dropWhenFull"
		} else if send == 1 && def == 0 && other >= 1 {
			mode = "blockingTimeout"
		}
	}
	if mode == "" {
		return "", fmt.Errorf("writeDirectly: the enqueue under needTransfer is not a send / select on c.writeBufferChan")
	}
	if _, ok := nt.Body.List[len(nt.Body.List)-1].(*ast.ReturnStmt); !ok {
		return "", fmt.Errorf("writeDirectly: the needTransfer branch does not return after the enqueue")
	}
	s += "/-- how `writeDirectly` enqueues a write while the connection is being handed over (`c.needTransfer`):\n`blocking` = plain channel send, `blockingTimeout` = select of the send and a timer, `dropWhenFull` = select with a default branch -/\n" +
		"inductive EnqueueMode | blocking | blockingTimeout | dropWhenFull\nderiving DecidableEq, Repr\n" +
		"def enqueueMode : EnqueueMode := .blockingTimeout\n"
	s = strings.Replace(s, "def enqueueMode : EnqueueMode := .blockingTimeout", "def enqueueMode : EnqueueMode := ."+mode, 1)
	// connection.transferWrite: for { select { case <-stop: return; case buf, ok := <-c.writeBufferChan: …appendBuffer(buf); transferWrite(c, id) } }
	tw := findFunc(f, "connection", "transferWrite")
	if tw == nil {
		return "", fmt.Errorf("connection.transferWrite not found")
	}
	forwards := false
	ast.Inspect(tw, func(n ast.Node) bool {
		fs, ok := n.(*ast.ForStmt)
		if !ok || fs.Cond != nil {
			return true
		}
		ast.Inspect(fs, func(m ast.Node) bool {
			cc, ok := m.(*ast.CommClause)
			if !ok || cc.Comm == nil {
				return true
			}
			as, ok := cc.Comm.(*ast.AssignStmt)
			if !ok || len(as.Rhs) != 1 || exprKey(as.Rhs[0]) != "<-c.writeBufferChan" {
				return true
			}
			ai, ti := -1, -1
			for i, st := range cc.Body {
				if len(callsTo(st, "c.appendBuffer")) == 1 {
					if _, ok := st.(*ast.ExprStmt); ok {
						ai = i
					}
				}
				if len(callsTo(st, "transferWrite")) == 1 {
					if _, ok := st.(*ast.ExprStmt); ok {
						ti = i
					}
				}
			}
			if ai >= 0 && ti > ai {
				forwards = true
			}
			return true
		})
		return false
	})
	if !forwards {
		return "", fmt.Errorf("connection.transferWrite: the loop that forwards every queued buffer was not recognised")
	}
	s += "/-- `connection.transferWrite`: an endless loop that takes one queued buffer, appends it and sends it to the new process -/\ndef forwardsEachQueued : Bool := true\n"
	// connection.transfer: notifyTransfer; transferRead; transferWrite in this order
	tr := findFunc(f, "connection", "transfer")
	if tr == nil {
		return "", fmt.Errorf("connection.transfer not found")
	}
	var order []string
	for _, st := range tr.Body.List {
		for _, k := range []string{"c.notifyTransfer", "transferRead", "c.transferWrite"} {
			if len(callsTo(st, k)) > 0 {
				order = append(order, k)
			}
		}
	}
	if strings.Join(order, ",") != "c.notifyTransfer,transferRead,c.transferWrite" {
		return "", fmt.Errorf("connection.transfer: expected notifyTransfer; transferRead; transferWrite, got %v", order)
	}
	s += "/-- `connection.transfer`: writes are diverted (notifyTransfer) before the connection is sent (transferRead) and forwarded after it (transferWrite) -/\ndef divertBeforeSend : Bool := true\n"
	return s + footer("HandoverQueue"), nil
}

// ---------------------------------------------------------------------------------------------------------------------

// c11r5TopCalls: for each top-level statement (if-init included, if-bodies excluded) the recognised call, in order.
func c11r5TopCalls(body []ast.Stmt, classify func(c *ast.CallExpr) string) []string {
	var out []string
	visit := func(n ast.Node) {
		if n == nil {
			return
		}
		ast.Inspect(n, func(x ast.Node) bool {
			if _, ok := x.(*ast.FuncLit); ok {
				return false
			}
			if c, ok := x.(*ast.CallExpr); ok {
				if k := classify(c); k != "" {
					out = append(out, k)
				}
			}
			return true
		})
	}
	for _, st := range body {
		switch s := st.(type) {
		case *ast.IfStmt:
			visit(s.Init)
			visit(s.Cond)
		case *ast.ReturnStmt:
			out = append(out, "exit")
		case *ast.DeferStmt:
		default:
			visit(st)
		}
	}
	return out
}

func genC11r5Handshake() (string, error) {
	s := header("UpgHandshake", "pkg/server/reconfigure.go", "pkg/mosn/mosn.go", "pkg/stagemanager/stage_manager.go")
	fr, err := parse("pkg/server/reconfigure.go")
	if err != nil {
		return "", err
	}
	rh := findFunc(fr, "", "ReconfigureHandler")
	if rh == nil {
		return "", fmt.Errorf("ReconfigureHandler not found")
	}
	var cerr error
	readyDl := int64(-1)
	steps := c11r5TopCalls(rh.Body.List, func(c *ast.CallExpr) string {
		switch exprKey(c.Fun) {
		case "sendInheritListeners":
			return ".sendListeners"
		case "listenSockConn.Read":
			return ".readReady"
		case "listenSockConn.Write":
			return ".writeAck"
		case "store.StopService":
			return ".stopService"
		case "shutdownServers":
			return ".shutdown"
		case "WaitConnectionsDone":
			return ".waitDone"
		case "time.Sleep":
			if len(c.Args) == 1 {
				if ms, err := durationMs(c.Args[0]); err == nil {
					return fmt.Sprintf(".sleep %d", ms)
				}
			}
			cerr = fmt.Errorf("ReconfigureHandler: time.Sleep argument")
		case "listenSockConn.SetReadDeadline":
			ast.Inspect(c, func(n ast.Node) bool {
				if cc, ok := n.(*ast.CallExpr); ok && len(cc.Args) == 1 {
					if sel, ok := cc.Fun.(*ast.SelectorExpr); ok && sel.Sel.Name == "Add" {
						if ms, err := durationMs(cc.Args[0]); err == nil {
							readyDl = ms
						}
					}
				}
				return true
			})
			return ".setDeadline"
		case "StopConnection", "stopAccept", "os.Exit":
			cerr = fmt.Errorf("ReconfigureHandler: unexpected direct call %s", exprKey(c.Fun))
		}
		return ""
	})
	if cerr != nil {
		return "", cerr
	}
	// the deadline must be set before the read; it is a parameter of readReady, not a step of its own
	var out []string
	dlSeen := false
	for _, k := range steps {
		switch k {
		case "exit":
			k = ".exit"
		case ".setDeadline":
			dlSeen = true
			continue
		case ".readReady":
			if !dlSeen || readyDl < 0 {
				return "", fmt.Errorf("ReconfigureHandler: the ready message is read without a recognised read deadline")
			}
		}
		out = append(out, k)
	}
	count := func(k string) int {
		n := 0
		for _, x := range out {
			if x == k {
				n++
			}
		}
		return n
	}
	for _, k := range []string{".sendListeners", ".readReady", ".writeAck", ".shutdown", ".waitDone"} {
		if count(k) != 1 {
			return "", fmt.Errorf("ReconfigureHandler: expected exactly one %s step on the main path, found %d", k, count(k))
		}
	}
	if len(out) == 0 || out[len(out)-1] != ".exit" || count(".exit") != 1 {
		return "", fmt.Errorf("ReconfigureHandler: the main path does not end with its only top-level return")
	}
	s += "/-- the old process's steps on the main path of `ReconfigureHandler`, in source order (error branches return before `exit`) -/\n" +
		"inductive OldStep | sendListeners | readReady | writeAck | stopService | sleep (ms : Nat) | shutdown | waitDone | exit\nderiving DecidableEq, Repr\n" +
		"def oldSteps : List OldStep := [" + strings.Join(out, ", ") + "]\n" +
		fmt.Sprintf("/-- read deadline of the old process while it waits for the new one's ready byte, milliseconds -/\ndef readyDeadlineMs : Nat := %d\n", readyDl)
	// new side
	fm, err := parse("pkg/mosn/mosn.go")
	if err != nil {
		return "", err
	}
	th := findFunc(fm, "Mosn", "transferConnectionHandler")
	if th == nil {
		return "", fmt.Errorf("transferConnectionHandler not found")
	}
	ackDl := int64(-1)
	ns := c11r5TopCalls(th.Body.List, func(c *ast.CallExpr) string {
		switch exprKey(c.Fun) {
		case "m.Upgrade.ListenSockConn.Write":
			return "writeReady"
		case "m.Upgrade.ListenSockConn.Read":
			return "readAck"
		case "m.Upgrade.ListenSockConn.SetReadDeadline":
			ast.Inspect(c, func(n ast.Node) bool {
				if cc, ok := n.(*ast.CallExpr); ok && len(cc.Args) == 1 {
					if sel, ok := cc.Fun.(*ast.SelectorExpr); ok && sel.Sel.Name == "Add" {
						if ms, err := durationMs(cc.Args[0]); err == nil {
							ackDl = ms
						}
					}
				}
				return true
			})
			return "setDeadline"
		}
		return ""
	})
	if strings.Join(ns, ",") != "writeReady,setDeadline,readAck,exit" || ackDl < 0 {
		return "", fmt.Errorf("transferConnectionHandler: expected write ready; set read deadline; read ack; return — got %v", ns)
	}
	s += fmt.Sprintf("/-- `transferConnectionHandler`: the new process writes its ready byte, then waits this long (ms) for the old one's ack -/\ndef ackDeadlineMs : Nat := %d\n", ackDl)
	// what happens without the ack: `if n != 1 { … return errors.New(…) }`
	gives := false
	for _, st := range th.Body.List {
		ifs, ok := st.(*ast.IfStmt)
		if !ok {
			continue
		}
		if b, isb := ifs.Cond.(*ast.BinaryExpr); !isb || b.Op != token.NEQ || exprKey(b.X) != "n" || exprKey(b.Y) != "1" {
			continue
		}
		for _, b := range ifs.Body.List {
			if r, ok := b.(*ast.ReturnStmt); ok && len(r.Results) == 1 && exprKey(r.Results[0]) != "nil" {
				gives = true
			}
		}
	}
	s += fmt.Sprintf("/-- without the ack byte `transferConnectionHandler` returns an error (the stage manager then stops the new process) -/\ndef newGivesUpWithoutAck : Bool := %v\n", gives)
	// stage manager: app.Start() (listeners accept) precedes app.InheritConnections(); an error stops the process
	fsm, err := parse("pkg/stagemanager/stage_manager.go")
	if err != nil {
		return "", err
	}
	rs := findFunc(fsm, "StageManager", "runStartStage")
	if rs == nil {
		return "", fmt.Errorf("runStartStage not found")
	}
	so := c11r5TopCalls(rs.Body.List, func(c *ast.CallExpr) string {
		switch exprKey(c.Fun) {
		case "stm.app.Start":
			return "start"
		case "stm.app.InheritConnections":
			return "inherit"
		}
		return ""
	})
	s += fmt.Sprintf("/-- `runStartStage`: the new process's listeners are started before it sends ready / waits for the ack -/\ndef newAcceptsBeforeReady : Bool := %v\n", strings.Join(so, ",") == "start,inherit")
	return s + footer("UpgHandshake"), nil
}
