package main

import (
	"bytes"
	"fmt"
	"go/ast"
	"go/printer"
	"go/token"
	"strings"
)

// Gen.ProxyGen (C02): the GENERATION TESTS of the asynchronous entry points of pkg/proxy that capture a pooled
// downStream object, and the sites that bump the generation / recycle the object.
//
//   timer callbacks     every function literal handed to utils.NewTimer / time.AfterFunc in pkg/proxy/downstream.go
//                       (exactly two are expected: setupPerReqTimeout -> perTryCb, onUpstreamRequestSent -> globalCb).
//                       The top-level statements of the literal, in order, over a CLOSED vocabulary:
//                         noReuse      atomic.StoreUint32(&s.reuseBuffer, 0)
//                         loadGen      <x> := atomic.LoadUint32(&s.ID)            INSIDE the callback (read at firing time)
//                         testCleaned  if atomic.LoadUint32(&s.downstreamCleaned) == 1 { return }
//                         testGen      if <x> != atomic.LoadUint32(&s.ID) { return }   x the captured / loaded variable
//                         markExpired  atomic.StoreUint32(&s.globalTimeoutExpired, 1)
//                         casResp      if !atomic.CompareAndSwapUint32(&s.upstreamResponseReceived, 0, 1) { return }
//                         act          s.onPerReqTimeout() / s.onResponseTimeout()
//                       (a call of verifTimerYield is skipped); anything else => translation-unsupported.
//                       <name>ArmCaptures: the variable compared by testGen is bound exactly once, by
//                       `x := atomic.LoadUint32(&s.ID)`, in the ARMING function outside the literal and before it.
//   worker task         downStream.OnReceive: `id := atomic.LoadUint32(&s.ID)` bound before the task literal, not inside;
//                       processError / waitNotify / onReentryExhausted begin with the test of s.ID against their id argument.
//   generation / pool   newActiveStream stores a fresh atomic.AddUint32(&currProxyID, 1) into stream.ID and sets
//                       reuseBuffer = 1; cleanStream's action order (CAS on downstreamCleaned, cleanUp = timers stopped,
//                       giveStream last); giveStream's guards; proxyBufferCtx.Reset zeroes the whole object.
// Other `go` statements / GoWithRecover / Schedule calls in pkg/proxy than OnReceive's task => translation-unsupported
// (a new asynchronous entry point has to be modelled first). All helpers are prefixed c02g10.

func init() { register("ProxyGen", c02g10Gen) }

func c02g10Src(n ast.Node) string {
	var b bytes.Buffer
	printer.Fprint(&b, fset, n)
	return strings.Join(strings.Fields(b.String()), " ")
}

// c02g10IsReturnOnly: a block consisting of exactly one bare `return`
func c02g10IsReturnOnly(b *ast.BlockStmt) bool {
	if b == nil || len(b.List) != 1 {
		return false
	}
	r, ok := b.List[0].(*ast.ReturnStmt)
	return ok && len(r.Results) == 0
}

const c02g10LoadID = "atomic.LoadUint32(&s.ID)"

// c02g10Steps classifies the top-level statements of a timer callback; genVar = the variable testGen compares
func c02g10Steps(lit *ast.FuncLit) (steps []string, genVar string, loadedInside bool, err error) {
	for _, st := range lit.Body.List {
		src := c02g10Src(st)
		switch x := st.(type) {
		case *ast.ExprStmt:
			switch {
			case strings.HasPrefix(src, "verifTimerYield("):
				continue
			case src == "atomic.StoreUint32(&s.reuseBuffer, 0)":
				steps = append(steps, "noReuse")
			case src == "atomic.StoreUint32(&s.globalTimeoutExpired, 1)":
				steps = append(steps, "markExpired")
			case src == "s.onPerReqTimeout()" || src == "s.onResponseTimeout()":
				steps = append(steps, "act")
			default:
				return nil, "", false, fmt.Errorf("statement outside the vocabulary in a timer callback at %s: %s", fset.Position(st.Pos()), src)
			}
		case *ast.AssignStmt:
			if x.Tok == token.DEFINE && len(x.Lhs) == 1 && len(x.Rhs) == 1 && c02g10Src(x.Rhs[0]) == c02g10LoadID {
				if id, ok := x.Lhs[0].(*ast.Ident); ok {
					if genVar != "" && genVar != id.Name {
						return nil, "", false, fmt.Errorf("two generation variables in a timer callback at %s", fset.Position(st.Pos()))
					}
					genVar, loadedInside = id.Name, true
					steps = append(steps, "loadGen")
					continue
				}
			}
			return nil, "", false, fmt.Errorf("assignment outside the vocabulary in a timer callback at %s: %s", fset.Position(st.Pos()), src)
		case *ast.IfStmt:
			if x.Init != nil || x.Else != nil || !c02g10IsReturnOnly(x.Body) {
				return nil, "", false, fmt.Errorf("if statement outside the vocabulary in a timer callback at %s: %s", fset.Position(st.Pos()), src)
			}
			cond := c02g10Src(x.Cond)
			switch {
			case cond == "atomic.LoadUint32(&s.downstreamCleaned) == 1":
				steps = append(steps, "testCleaned")
			case cond == "!atomic.CompareAndSwapUint32(&s.upstreamResponseReceived, 0, 1)":
				steps = append(steps, "casResp")
			default:
				be, ok := x.Cond.(*ast.BinaryExpr)
				if !ok || be.Op != token.NEQ {
					return nil, "", false, fmt.Errorf("test outside the vocabulary in a timer callback at %s: %s", fset.Position(st.Pos()), cond)
				}
				l, r := c02g10Src(be.X), c02g10Src(be.Y)
				var v ast.Expr
				if r == c02g10LoadID {
					v = be.X
				} else if l == c02g10LoadID {
					v = be.Y
				} else {
					return nil, "", false, fmt.Errorf("test outside the vocabulary in a timer callback at %s: %s", fset.Position(st.Pos()), cond)
				}
				id, ok := v.(*ast.Ident)
				if !ok {
					return nil, "", false, fmt.Errorf("generation test against a non-variable at %s: %s", fset.Position(st.Pos()), cond)
				}
				if genVar != "" && genVar != id.Name {
					return nil, "", false, fmt.Errorf("generation test against %s, loaded variable is %s at %s", id.Name, genVar, fset.Position(st.Pos()))
				}
				genVar = id.Name
				steps = append(steps, "testGen")
			}
		default:
			return nil, "", false, fmt.Errorf("statement outside the vocabulary in a timer callback at %s: %s", fset.Position(st.Pos()), src)
		}
	}
	return steps, genVar, loadedInside, nil
}

// c02g10BoundBefore: `name := atomic.LoadUint32(&s.ID)` is the ONLY binding / assignment of name in fd, it lies outside
// lit and textually before it
func c02g10BoundBefore(fd *ast.FuncDecl, lit *ast.FuncLit, name string) bool {
	n, good := 0, false
	ast.Inspect(fd.Body, func(x ast.Node) bool {
		a, ok := x.(*ast.AssignStmt)
		if !ok {
			return true
		}
		for i, l := range a.Lhs {
			if id, ok := l.(*ast.Ident); ok && id.Name == name {
				n++
				if a.Tok == token.DEFINE && len(a.Lhs) == len(a.Rhs) && c02g10Src(a.Rhs[i]) == c02g10LoadID &&
					a.End() <= lit.Pos() {
					good = true
				}
			}
		}
		return true
	})
	return n == 1 && good
}

func c02g10Lean(steps []string) string {
	var ls []string
	for _, s := range steps {
		ls = append(ls, "."+s)
	}
	return "[" + strings.Join(ls, ", ") + "]"
}

// c02g10FirstTestsGen: the first statement of the method is `if atomic.LoadUint32(&s.ID) != id …{ return … }` (possibly
// `x := atomic.LoadUint32(&s.ID)` followed by `if x != id { return … }`)
func c02g10FirstTestsGen(fd *ast.FuncDecl) bool {
	if fd == nil || fd.Body == nil || len(fd.Body.List) == 0 {
		return false
	}
	ifOK := func(st ast.Stmt, lhs string) bool {
		x, ok := st.(*ast.IfStmt)
		if !ok || x.Init != nil || len(x.Body.List) != 1 {
			return false
		}
		if _, ok := x.Body.List[0].(*ast.ReturnStmt); !ok {
			return false
		}
		c := c02g10Src(x.Cond)
		return c == lhs+" != id" || strings.HasPrefix(c, lhs+" != id || ")
	}
	if ifOK(fd.Body.List[0], c02g10LoadID) {
		return true
	}
	if a, ok := fd.Body.List[0].(*ast.AssignStmt); ok && len(fd.Body.List) > 1 && a.Tok == token.DEFINE && len(a.Lhs) == 1 &&
		c02g10Src(a.Rhs[0]) == c02g10LoadID {
		return ifOK(fd.Body.List[1], c02g10Src(a.Lhs[0]))
	}
	return false
}

func c02g10Gen() (string, error) {
	const file = "pkg/proxy/downstream.go"
	f, err := parse(file)
	if err != nil {
		return "", err
	}
	var b strings.Builder
	b.WriteString(header("ProxyGen", file, "pkg/proxy/upstream.go", "pkg/proxy/buffer.go"))
	b.WriteString("inductive Step | noReuse | loadGen | testCleaned | testGen | markExpired | casResp | act\n  deriving DecidableEq, Repr\n")

	// --- timer callbacks: every NewTimer / AfterFunc literal of the package
	type cb struct {
		steps    []string
		captures bool
		where    string
	}
	found := map[string]cb{}
	for _, rel := range []string{file, "pkg/proxy/upstream.go", "pkg/proxy/proxy.go", "pkg/proxy/streamfilters.go", "pkg/proxy/retrystate.go"} {
		pf, err := parse(rel)
		if err != nil {
			return "", err
		}
		for _, d := range pf.Decls {
			fd, ok := d.(*ast.FuncDecl)
			if !ok || fd.Body == nil {
				continue
			}
			var ferr error
			ast.Inspect(fd.Body, func(n ast.Node) bool {
				if ferr != nil {
					return false
				}
				switch x := n.(type) {
				case *ast.GoStmt:
					ferr = fmt.Errorf("go statement in %s (%s): an asynchronous entry point that is not modelled", fd.Name.Name, rel)
				case *ast.CallExpr:
					fn := c02g10Src(x.Fun)
					switch {
					case fn == "utils.NewTimer" || fn == "time.AfterFunc":
						if len(x.Args) != 2 {
							ferr = fmt.Errorf("%s with %d arguments in %s", fn, len(x.Args), fd.Name.Name)
							return false
						}
						lit, ok := x.Args[1].(*ast.FuncLit)
						if !ok {
							ferr = fmt.Errorf("%s in %s: the callback is not a function literal", fn, fd.Name.Name)
							return false
						}
						steps, gv, inside, err := c02g10Steps(lit)
						if err != nil {
							ferr = err
							return false
						}
						captures := gv != "" && !inside && c02g10BoundBefore(fd, lit, gv)
						if gv != "" && !inside && !captures {
							ferr = fmt.Errorf("%s: the generation variable %s of the timer callback is not bound once, before the timer is armed, by %s", fd.Name.Name, gv, c02g10LoadID)
							return false
						}
						if _, dup := found[fd.Name.Name]; dup {
							ferr = fmt.Errorf("two timers armed in %s", fd.Name.Name)
							return false
						}
						found[fd.Name.Name] = cb{steps, captures, rel}
						return false
					case strings.HasSuffix(fn, "GoWithRecover") || strings.HasSuffix(fn, ".Schedule") || strings.HasSuffix(fn, ".ScheduleAuto") || strings.HasSuffix(fn, ".ScheduleAlways"):
						if !(fd.Name.Name == "OnReceive" && len(x.Args) == 1 && c02g10Src(x.Args[0]) == "task") {
							ferr = fmt.Errorf("%s in %s (%s): an asynchronous entry point that is not modelled", fn, fd.Name.Name, rel)
						}
					}
				}
				return true
			})
			if ferr != nil {
				return "", ferr
			}
		}
	}
	want := []struct{ fn, lean string }{{"setupPerReqTimeout", "perTry"}, {"onUpstreamRequestSent", "global"}}
	if len(found) != len(want) {
		var names []string
		for k := range found {
			names = append(names, k)
		}
		return "", fmt.Errorf("timers are armed in %v, expected exactly setupPerReqTimeout and onUpstreamRequestSent", names)
	}
	for _, w := range want {
		c, ok := found[w.fn]
		if !ok {
			return "", fmt.Errorf("no timer armed in %s", w.fn)
		}
		fmt.Fprintf(&b, "/-- downStream.%s (%s): the statements of the timer callback, in order -/\ndef %sCb : List Step := %s\n", w.fn, c.where, w.lean, c02g10Lean(c.steps))
		fmt.Fprintf(&b, "/-- the generation compared by the callback was read when the timer was ARMED (bound once, outside and before the literal) -/\ndef %sArmCaptures : Bool := %v\n", w.lean, c.captures)
	}

	// --- the worker task of OnReceive
	on := findFunc(f, "downStream", "OnReceive")
	if on == nil || on.Body == nil {
		return "", fmt.Errorf("downStream.OnReceive not found")
	}
	var task *ast.FuncLit
	ast.Inspect(on.Body, func(n ast.Node) bool {
		if vs, ok := n.(*ast.ValueSpec); ok && len(vs.Names) == 1 && vs.Names[0].Name == "task" && len(vs.Values) == 1 {
			if l, ok := vs.Values[0].(*ast.FuncLit); ok {
				task = l
			}
		}
		return true
	})
	if task == nil {
		return "", fmt.Errorf("downStream.OnReceive: `var task = func() {…}` not found")
	}
	workerCaptures := c02g10BoundBefore(on, task, "id")
	// every call of s.receive / s.onReentryExhausted inside the task passes id
	passes := true
	ast.Inspect(task.Body, func(n ast.Node) bool {
		if c, ok := n.(*ast.CallExpr); ok {
			fn := c02g10Src(c.Fun)
			if fn == "s.receive" || fn == "s.onReentryExhausted" || fn == "s.processError" || fn == "s.waitNotify" {
				has := false
				for _, a := range c.Args {
					if c02g10Src(a) == "id" {
						has = true
					}
				}
				passes = passes && has
			}
		}
		return true
	})
	fmt.Fprintf(&b, "/-- downStream.OnReceive: `id := atomic.LoadUint32(&s.ID)` is bound once, before the worker task literal -/\ndef workerCaptures : Bool := %v\n", workerCaptures)
	fmt.Fprintf(&b, "/-- every s.receive / s.onReentryExhausted call of the worker task is given that id -/\ndef workerPassesGen : Bool := %v\n", passes)
	for _, m := range []string{"processError", "waitNotify", "onReentryExhausted"} {
		fmt.Fprintf(&b, "/-- downStream.%s begins with the test of s.ID against its id argument -/\ndef %sTestsGen : Bool := %v\n", m, m, c02g10FirstTestsGen(findFunc(f, "downStream", m)))
	}

	// --- generation bump, recycle
	na := findFunc(f, "", "newActiveStream")
	if na == nil || na.Body == nil {
		return "", fmt.Errorf("newActiveStream not found")
	}
	nsrc := c02g10Src(na.Body)
	fmt.Fprintf(&b, "/-- newActiveStream: stream.ID := atomic.AddUint32(&currProxyID, 1) (a fresh value of one process-wide counter) -/\ndef newStreamFreshGen : Bool := %v\n",
		strings.Contains(nsrc, "atomic.StoreUint32(&stream.ID, atomic.AddUint32(&currProxyID, 1))"))
	fmt.Fprintf(&b, "/-- newActiveStream: stream.reuseBuffer = 1 -/\ndef newStreamSetsReuse : Bool := %v\n", strings.Contains(nsrc, "stream.reuseBuffer = 1"))
	// who else writes ID / currProxyID
	writers := 0
	for _, d := range f.Decls {
		fd, ok := d.(*ast.FuncDecl)
		if !ok || fd.Body == nil {
			continue
		}
		s := c02g10Src(fd.Body)
		writers += strings.Count(s, "atomic.StoreUint32(&s.ID") + strings.Count(s, "atomic.StoreUint32(&stream.ID") + strings.Count(s, "s.ID =") -
			strings.Count(s, "s.ID ==") + strings.Count(s, "stream.ID =") - strings.Count(s, "stream.ID ==") + strings.Count(s, "atomic.AddUint32(&s.ID") + strings.Count(s, "&currProxyID")
	}
	fmt.Fprintf(&b, "/-- writes of downStream.ID and uses of currProxyID in downstream.go (2 = the one store in newActiveStream) -/\ndef genWriters : Nat := %d\n", writers)

	cs := findFunc(f, "downStream", "cleanStream")
	if cs == nil || cs.Body == nil {
		return "", fmt.Errorf("cleanStream not found")
	}
	var acts []string
	for i, st := range cs.Body.List {
		src := c02g10Src(st)
		switch {
		case i == 0 && strings.HasPrefix(src, "if !atomic.CompareAndSwapUint32(&s.downstreamCleaned, 0, 1) { return }"):
			acts = append(acts, "casCleaned")
		case strings.Contains(src, "s.upstreamRequest.resetStream()"):
			acts = append(acts, "resetUpstream")
		case src == "s.cleanUp()":
			acts = append(acts, "stopTimers")
		case src == "s.streamFilterChain.destroy()":
			acts = append(acts, "destroyFilters")
		case src == "s.delete()":
			acts = append(acts, "delete")
		case src == "s.giveStream()":
			acts = append(acts, "give")
		case strings.Contains(src, "giveStream") || strings.Contains(src, "cleanUp") || strings.Contains(src, "downstreamCleaned"):
			return "", fmt.Errorf("cleanStream: statement outside the vocabulary: %s", src)
		}
	}
	b.WriteString("inductive CleanAct | casCleaned | resetUpstream | stopTimers | destroyFilters | delete | give\n  deriving DecidableEq, Repr\n")
	fmt.Fprintf(&b, "/-- downStream.cleanStream: its actions in source order -/\ndef cleanOrder : List CleanAct := %s\n", c02g10Lean(acts))
	cu := findFunc(f, "downStream", "cleanUp")
	cusrc := ""
	if cu != nil && cu.Body != nil {
		cusrc = c02g10Src(cu.Body)
	}
	fmt.Fprintf(&b, "/-- downStream.cleanUp stops both timers -/\ndef cleanUpStopsTimers : Bool := %v\n",
		strings.Contains(cusrc, "s.perRetryTimer.Stop()") && strings.Contains(cusrc, "s.responseTimer.Stop()"))
	gs := findFunc(f, "downStream", "giveStream")
	if gs == nil || gs.Body == nil || len(gs.Body.List) < 2 {
		return "", fmt.Errorf("giveStream not found")
	}
	g0, g1 := c02g10Src(gs.Body.List[0]), c02g10Src(gs.Body.List[1])
	fmt.Fprintf(&b, "/-- giveStream returns at once unless reuseBuffer == 1 (first statement) -/\ndef giveNeedsReuse : Bool := %v\n",
		g0 == "if atomic.LoadUint32(&s.reuseBuffer) != 1 { return }")
	fmt.Fprintf(&b, "/-- … and unless neither reset flag is set (second statement) -/\ndef giveNeedsNoReset : Bool := %v\n",
		g1 == "if atomic.LoadUint32(&s.upstreamReset) == 1 || atomic.LoadUint32(&s.downstreamReset) == 1 { return }")
	gives := 0
	for _, d := range f.Decls {
		if fd, ok := d.(*ast.FuncDecl); ok && fd.Body != nil && fd.Name.Name != "giveStream" {
			gives += strings.Count(c02g10Src(fd.Body), ".Give()")
		}
	}
	fmt.Fprintf(&b, "/-- buffer-context Give() calls in downstream.go outside giveStream -/\ndef givesElsewhere : Nat := %d\n", gives)
	bf, err := parse("pkg/proxy/buffer.go")
	if err != nil {
		return "", err
	}
	rs := findFunc(bf, "proxyBufferCtx", "Reset")
	fmt.Fprintf(&b, "/-- proxyBufferCtx.Reset zeroes the whole pooled object (ID, downstreamCleaned, reuseBuffer, upstreamResponseReceived := 0) -/\ndef resetZeroes : Bool := %v\n",
		rs != nil && rs.Body != nil && strings.Contains(c02g10Src(rs.Body), "*buf = proxyBuffers{}"))
	b.WriteString(footer("ProxyGen"))
	return b.String(), nil
}
