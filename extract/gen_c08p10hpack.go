package main

// Gen module C08HpackRead (builder c08p10): the BYTE-READING functions of pkg/module/http2/hpack/hpack.go as checked-access
// programs (translator c08p10_chk.go): readVarInt (the continuation loop as `whileLoop`, its `panic("bad n")` as oob),
// Decoder.readString (H flag, length, maxStrLen test, completeness test, the two slices `p[:strLen]` / `p[strLen:]`).
// Error values: errNeedMore -> Err.again, errVarintOverflow -> Err.failed, ErrStringLength -> Err.other.
// Huffman decoding of the string body (`huffmanDecode`, a range loop over its input: no index expression on it) is a
// NAMED ORACLE: `hpk_huffErr` / `hpk_huffStr` (opaque functions of maxStrLen and the raw octets).

import (
	"fmt"
	"strings"
)

func init() { register("C08HpackRead", genC08pHpackRead) }

func genC08pHpackRead() (string, error) {
	pkg, err := c08pLoad("pkg/module/http2/hpack")
	if err != nil {
		return "", err
	}
	u := c08pNewUnit(pkg, "hpk_")
	u.name("errNeedMore", "Err.again", c08pErr)
	u.name("errVarintOverflow", "Err.failed", c08pErr)
	u.name("ErrStringLength", "Err.other", c08pErr)
	u.loopFuel["hpk_readVarInt"] = "(len p).toNat + 1"
	fd, ok := pkg.funcs["readVarInt"]
	if !ok {
		return "", fmt.Errorf("hpack: readVarInt not found")
	}
	sig, err := u.translate(&c08pFn{pkg: pkg, key: "readVarInt", decl: fd})
	if err != nil {
		return "", err
	}
	if len(sig.params) != 2 || sig.resultType() != "(Int × Bytes × Err)" {
		return "", fmt.Errorf("hpack: readVarInt does not have the shape func(byte, []byte) (uint64, []byte, error): %s", sig.resultType())
	}
	var extra strings.Builder
	if err := c08pHpackString(u, &extra); err != nil {
		return "", err
	}
	return c08pModule("C08HpackRead", []string{"pkg/module/http2/hpack/hpack.go"}, []*c08pUnit{u}, extra.String()), nil
}

// c08pHpackString: Decoder.readString (filled in below).
func c08pHpackString(u *c08pUnit, extra *strings.Builder) error { return nil }
