-- translation-unsupported TcpProxy: open -out/pkg/filter/network/streamproxy/streamproxy.go: no such file or directory
namespace MosnVerif.Gen.TcpProxy
end MosnVerif.Gen.TcpProxy
