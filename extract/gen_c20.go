package main

// Gen/ConfigGraph.lean: the Go type graph of pkg/config/v2 reachable from configmanager.effectiveConfig
// (field names, JSON keys, omitempty, kinds incl. untyped holes, custom (Un)MarshalJSON flags) — used by C20
// (redaction coverage is decided over this graph) and C19 (field tables of the generic codec) — plus the
// dump entry-point tables: which redaction function each section of getMOSNConfigRedacted / redactedCopy
// goes through, and the parameter forms of the admin ConfigDump handler.

import (
	"fmt"
	"go/ast"
	"go/constant"
	"go/parser"
	"go/token"
	"os"
	"path/filepath"
	"reflect"
	"sort"
	"strconv"
	"strings"
)

func init() {
	register("ConfigGraph", genConfigGraph)
}

type cgField struct {
	name, json          string
	omitempty, embedded bool
	ty                  string // Lean term of type GoTy
}

type cgStruct struct {
	name            string
	fields          []cgField
	marsh, unmarsh  bool
	refs            []string // named structs referenced
}

type cgCtx struct {
	specs   map[string]ast.Expr // v2 type name -> type expression
	methods map[string]map[string]bool
	structs map[string]*cgStruct
	order   []string
	err     error
}

func cgLeanStr(s string) string { return strconv.Quote(s) }

func (c *cgCtx) fail(format string, a ...interface{}) string {
	if c.err == nil {
		c.err = fmt.Errorf(format, a...)
	}
	return ".num"
}

// conv renders a Go type expression as a Lean `GoTy` term. owner is used to name anonymous structs.
func (c *cgCtx) conv(e ast.Expr, owner string, refs *[]string, depth int) string {
	if depth > 20 {
		return c.fail("type nesting too deep at %s", owner)
	}
	switch x := e.(type) {
	case *ast.ParenExpr:
		return c.conv(x.X, owner, refs, depth+1)
	case *ast.Ident:
		switch x.Name {
		case "string":
			return ".str"
		case "bool":
			return ".bool"
		case "int", "int8", "int16", "int32", "int64", "uint", "uint8", "uint16", "uint32", "uint64", "uintptr",
			"float32", "float64", "byte", "rune":
			return ".num"
		case "error":
			return ".ext \"error\""
		}
		spec, ok := c.specs[x.Name]
		if !ok {
			return c.fail("unknown type %s (in %s)", x.Name, owner)
		}
		if st, ok := spec.(*ast.StructType); ok {
			c.addStruct(x.Name, st)
			*refs = append(*refs, x.Name)
			return ".named " + cgLeanStr(x.Name)
		}
		return c.conv(spec, x.Name, refs, depth+1) // named non-struct type: its underlying type
	case *ast.SelectorExpr:
		pkg := exprKey(x.X)
		if pkg == "v2" {
			return c.conv(ast.NewIdent(x.Sel.Name), owner, refs, depth+1)
		}
		full := pkg + "." + x.Sel.Name
		if full == "json.RawMessage" {
			return ".hole " + cgLeanStr(full)
		}
		return ".ext " + cgLeanStr(full)
	case *ast.StarExpr:
		return ".ptr (" + c.conv(x.X, owner, refs, depth+1) + ")"
	case *ast.ArrayType:
		return ".slice (" + c.conv(x.Elt, owner, refs, depth+1) + ")"
	case *ast.MapType:
		if it, ok := x.Value.(*ast.InterfaceType); ok && (it.Methods == nil || len(it.Methods.List) == 0) {
			if exprKey(x.Key) == "string" {
				return ".hole \"map[string]interface{}\""
			}
		}
		return ".map (" + c.conv(x.Value, owner, refs, depth+1) + ")"
	case *ast.InterfaceType:
		if x.Methods == nil || len(x.Methods.List) == 0 {
			return ".hole \"interface{}\""
		}
		return ".ext \"interface\""
	case *ast.StructType:
		name := owner + "!"
		c.addStruct(name, x)
		*refs = append(*refs, name)
		return ".named " + cgLeanStr(name)
	case *ast.FuncType:
		return ".ext \"func\""
	case *ast.ChanType:
		return ".ext \"chan\""
	}
	return c.fail("unsupported type expression %T in %s", e, owner)
}

func (c *cgCtx) addStruct(name string, st *ast.StructType) {
	if _, ok := c.structs[name]; ok {
		return
	}
	s := &cgStruct{name: name}
	c.structs[name] = s
	c.order = append(c.order, name)
	if m := c.methods[name]; m != nil {
		s.marsh, s.unmarsh = m["MarshalJSON"], m["UnmarshalJSON"]
	}
	for _, f := range st.Fields.List {
		key, omit := "", false
		if f.Tag != nil {
			raw, _ := strconv.Unquote(f.Tag.Value)
			if tag, ok := reflect.StructTag(raw).Lookup("json"); ok {
				parts := strings.Split(tag, ",")
				key = parts[0]
				for _, p := range parts[1:] {
					if p == "omitempty" {
						omit = true
					}
				}
			}
		}
		if len(f.Names) == 0 { // embedded
			tn := exprKey(f.Type)
			tn = strings.TrimPrefix(tn, "*")
			if i := strings.LastIndex(tn, "."); i >= 0 {
				tn = tn[i+1:]
			}
			ty := c.conv(f.Type, name+"."+tn, &s.refs, 0)
			s.fields = append(s.fields, cgField{tn, key, omit, true, ty})
			continue
		}
		for _, n := range f.Names {
			k := key
			if !ast.IsExported(n.Name) {
				k = "-" // encoding/json ignores unexported fields
			}
			ty := c.conv(f.Type, name+"."+n.Name, &s.refs, 0)
			s.fields = append(s.fields, cgField{n.Name, k, omit, false, ty})
		}
	}
}

func parseDirFiles(rel string) ([]*ast.File, error) {
	ents, err := os.ReadDir(filepath.Join(repo, rel))
	if err != nil {
		return nil, err
	}
	var out []*ast.File
	for _, e := range ents {
		n := e.Name()
		if e.IsDir() || !strings.HasSuffix(n, ".go") || strings.HasSuffix(n, "_test.go") || n == "verif_hooks.go" {
			continue
		}
		f, err := parser.ParseFile(fset, filepath.Join(repo, rel, n), nil, 0)
		if err != nil {
			return nil, err
		}
		out = append(out, f)
	}
	return out, nil
}

func cgRecvType(fd *ast.FuncDecl) string {
	if fd.Recv == nil || len(fd.Recv.List) == 0 {
		return ""
	}
	t := fd.Recv.List[0].Type
	if s, ok := t.(*ast.StarExpr); ok {
		t = s.X
	}
	if id, ok := t.(*ast.Ident); ok {
		return id.Name
	}
	return ""
}

// callOf returns (function name, printed arguments) when e is a call of a plain or package-qualified function.
func callOf(e ast.Expr) (string, []string, []ast.Expr, bool) {
	ce, ok := e.(*ast.CallExpr)
	if !ok {
		return "", nil, nil, false
	}
	var args []string
	for _, a := range ce.Args {
		args = append(args, exprKey(a))
	}
	return exprKey(ce.Fun), args, ce.Args, true
}

func genConfigGraph() (string, error) {
	const v2dir = "pkg/config/v2"
	const effSrc = "pkg/configmanager/effectiveconfig.go"
	const redSrc = "pkg/configmanager/redact.go"
	const apiSrc = "pkg/admin/server/apis.go"
	files, err := parseDirFiles(v2dir)
	if err != nil {
		return "", err
	}
	c := &cgCtx{specs: map[string]ast.Expr{}, methods: map[string]map[string]bool{}, structs: map[string]*cgStruct{}}
	for _, f := range files {
		for _, d := range f.Decls {
			switch x := d.(type) {
			case *ast.GenDecl:
				if x.Tok != token.TYPE {
					continue
				}
				for _, sp := range x.Specs {
					ts := sp.(*ast.TypeSpec)
					c.specs[ts.Name.Name] = ts.Type
				}
			case *ast.FuncDecl:
				if r := cgRecvType(x); r != "" {
					if c.methods[r] == nil {
						c.methods[r] = map[string]bool{}
					}
					c.methods[r][x.Name.Name] = true
				}
			}
		}
	}
	eff, err := parse(effSrc)
	if err != nil {
		return "", err
	}
	var effStruct *ast.StructType
	for _, d := range eff.Decls {
		if gd, ok := d.(*ast.GenDecl); ok && gd.Tok == token.TYPE {
			for _, sp := range gd.Specs {
				if ts := sp.(*ast.TypeSpec); ts.Name.Name == "effectiveConfig" {
					effStruct, _ = ts.Type.(*ast.StructType)
				}
			}
		}
	}
	if effStruct == nil {
		return "", fmt.Errorf("struct effectiveConfig not found in %s", effSrc)
	}
	c.addStruct("effectiveConfig", effStruct)
	if c.err != nil {
		return "", c.err
	}
	// every struct of v2 (C19 field tables), reachable ones first in discovery order
	reach := append([]string{}, c.order...)
	var rest []string
	for n, sp := range c.specs {
		if st, ok := sp.(*ast.StructType); ok {
			if _, done := c.structs[n]; !done {
				rest = append(rest, n)
				_ = st
			}
		}
	}
	sort.Strings(rest)
	for _, n := range rest {
		if _, done := c.structs[n]; !done {
			c.addStruct(n, c.specs[n].(*ast.StructType))
		}
	}
	if c.err != nil {
		return "", c.err
	}

	// ---- dump entry points
	// DumpJSON: json.Marshal(<f>(conf))
	fullFn := ""
	if fd := findFunc(eff, "", "DumpJSON"); fd != nil {
		ast.Inspect(fd.Body, func(n ast.Node) bool {
			if name, _, args, ok := callOf2(n); ok && name == "json.Marshal" && len(args) == 1 {
				if in, inArgs, _, ok := callOf(args[0]); ok && len(inArgs) == 1 && inArgs[0] == "conf" {
					fullFn = in
				} else if exprKey(args[0]) == "conf" {
					fullFn = "-"
				}
			}
			return true
		})
	}
	if fullFn == "" {
		return "", fmt.Errorf("DumpJSON: json.Marshal(f(conf)) not recognised")
	}
	// getMOSNConfigRedacted: switch typ { case CfgTypeX: return f(conf.F) | conf.F }
	type sec struct{ typ, fn, field string }
	var secs []sec
	fd := findFunc(eff, "", "getMOSNConfigRedacted")
	if fd == nil {
		return "", fmt.Errorf("getMOSNConfigRedacted not found")
	}
	var sw *ast.SwitchStmt
	for _, st := range fd.Body.List {
		if s, ok := st.(*ast.SwitchStmt); ok {
			sw = s
		}
	}
	if sw == nil || len(fd.Body.List) != 1 {
		return "", fmt.Errorf("getMOSNConfigRedacted is not a single switch")
	}
	for _, cl := range sw.Body.List {
		cc := cl.(*ast.CaseClause)
		if len(cc.Body) != 1 {
			return "", fmt.Errorf("getMOSNConfigRedacted: case body is not a single return")
		}
		rs, ok := cc.Body[0].(*ast.ReturnStmt)
		if !ok || len(rs.Results) != 1 {
			return "", fmt.Errorf("getMOSNConfigRedacted: case body is not a single return")
		}
		if cc.List == nil { // default
			if exprKey(rs.Results[0]) != "nil" {
				return "", fmt.Errorf("getMOSNConfigRedacted: default does not return nil")
			}
			continue
		}
		for _, lab := range cc.List {
			typ := exprKey(lab)
			if fn, args, _, ok := callOf(rs.Results[0]); ok && len(args) == 1 && strings.HasPrefix(args[0], "conf.") {
				secs = append(secs, sec{typ, fn, strings.TrimPrefix(args[0], "conf.")})
			} else if k := exprKey(rs.Results[0]); strings.HasPrefix(k, "conf.") && !strings.Contains(k, "?") {
				secs = append(secs, sec{typ, "-", strings.TrimPrefix(k, "conf.")})
			} else {
				return "", fmt.Errorf("getMOSNConfigRedacted: unrecognised result for %s", typ)
			}
		}
	}
	// redactedCopy: dst := src; dst.F = f(src.F) ...; return dst
	red, err := parse(redSrc)
	if err != nil {
		return "", err
	}
	type asg struct{ field, fn string }
	var copyAsg []asg
	rc := findFunc(red, "", "redactedCopy")
	if rc == nil {
		return "", fmt.Errorf("redactedCopy not found")
	}
	for i, st := range rc.Body.List {
		switch x := st.(type) {
		case *ast.AssignStmt:
			if len(x.Lhs) != 1 || len(x.Rhs) != 1 {
				return "", fmt.Errorf("redactedCopy: unsupported assignment")
			}
			l := exprKey(x.Lhs[0])
			if i == 0 && x.Tok == token.DEFINE && l == "dst" && exprKey(x.Rhs[0]) == "src" {
				continue
			}
			fn, args, _, ok := callOf(x.Rhs[0])
			if !ok || !strings.HasPrefix(l, "dst.") || len(args) != 1 || args[0] != "src."+strings.TrimPrefix(l, "dst.") {
				return "", fmt.Errorf("redactedCopy: statement %d is not dst.F = f(src.F)", i)
			}
			copyAsg = append(copyAsg, asg{strings.TrimPrefix(l, "dst."), fn})
		case *ast.ReturnStmt:
			if len(x.Results) != 1 || exprKey(x.Results[0]) != "dst" {
				return "", fmt.Errorf("redactedCopy: does not return dst")
			}
		default:
			return "", fmt.Errorf("redactedCopy: unsupported statement %T", st)
		}
	}
	// ConfigDump: parameter forms
	api, err := parse(apiSrc)
	if err != nil {
		return "", err
	}
	cd := findFunc(api, "", "ConfigDump")
	if cd == nil {
		return "", fmt.Errorf("ConfigDump not found")
	}
	type ep struct {
		param, typ string
		single     bool
	}
	var eps []ep
	usesDumpJSON := false
	var bad error
	ast.Inspect(cd.Body, func(n ast.Node) bool {
		if name, _, _, ok := callOf2(n); ok && name == "configmanager.DumpJSON" {
			usesDumpJSON = true
		}
		s, ok := n.(*ast.SwitchStmt)
		if !ok || exprKey(s.Tag) != "key" {
			return true
		}
		for _, cl := range s.Body.List {
			cc := cl.(*ast.CaseClause)
			if cc.List == nil {
				continue
			}
			for _, lab := range cc.List {
				bl, ok := lab.(*ast.BasicLit)
				if !ok || bl.Kind != token.STRING {
					bad = fmt.Errorf("ConfigDump: non-literal case label")
					return false
				}
				param, _ := strconv.Unquote(bl.Value)
				if len(cc.Body) != 1 {
					bad = fmt.Errorf("ConfigDump: case %q is not a single call", param)
					return false
				}
				es, ok := cc.Body[0].(*ast.ExprStmt)
				if !ok {
					bad = fmt.Errorf("ConfigDump: case %q is not a call", param)
					return false
				}
				name, args, raw, ok := callOf(es.X)
				if !ok || name != "configmanager.HandleMOSNConfig" || len(args) != 2 {
					bad = fmt.Errorf("ConfigDump: case %q does not go through configmanager.HandleMOSNConfig", param)
					return false
				}
				_, isLit := raw[1].(*ast.FuncLit)
				if !isLit && args[1] != "handle" {
					bad = fmt.Errorf("ConfigDump: case %q: unrecognised handler", param)
					return false
				}
				eps = append(eps, ep{param, strings.TrimPrefix(args[0], "configmanager."), isLit})
			}
		}
		return false
	})
	if bad != nil {
		return "", bad
	}
	if len(eps) == 0 {
		return "", fmt.Errorf("ConfigDump: switch over the parameter key not found")
	}

	// ---- constants of the redactor
	cs, err := pkgConsts("pkg/configmanager")
	if err != nil {
		return "", err
	}
	strConst := func(n string) (string, error) {
		v, ok := cs[n]
		if !ok || v.Kind() != constant.String {
			return "", fmt.Errorf("string constant %s not found in pkg/configmanager", n)
		}
		return constant.StringVal(v), nil
	}
	placeholder, err := strConst("redactedPrivateKey")
	if err != nil {
		return "", err
	}
	pkKey, err := strConst("privateKeyJSONKey")
	if err != nil {
		return "", err
	}

	// ---- render
	var b strings.Builder
	b.WriteString("-- GENERATED by /verif/extract from " + v2dir + "/*.go, " + effSrc + ", " + redSrc + ", " + apiSrc + " — do not edit; regenerated on every check\n")
	b.WriteString("import MosnVerif.Model.GoTypes\nnamespace MosnVerif.Gen.ConfigGraph\nopen MosnVerif.Model.GoTypes\n\n")
	var names []string
	for _, n := range c.order {
		s := c.structs[n]
		id := "s_" + strings.NewReplacer(".", "_", "!", "_anon").Replace(n)
		names = append(names, id)
		fmt.Fprintf(&b, "def %s : StructDecl := { name := %s, customMarshal := %v, customUnmarshal := %v, fields := [\n", id, cgLeanStr(n), s.marsh, s.unmarsh)
		for i, f := range s.fields {
			sep := ","
			if i == len(s.fields)-1 {
				sep = ""
			}
			fmt.Fprintf(&b, "  { name := %s, json := %s, omitempty := %v, embedded := %v, ty := %s }%s\n", cgLeanStr(f.name), cgLeanStr(f.json), f.omitempty, f.embedded, f.ty, sep)
		}
		b.WriteString("] }\n")
	}
	b.WriteString("\n/-- every struct of pkg/config/v2 plus configmanager.effectiveConfig (first) -/\ndef graph : Graph := [" + strings.Join(names, ", ") + "]\n")
	b.WriteString("def root : String := \"effectiveConfig\"\n")
	var q []string
	for _, n := range reach {
		q = append(q, cgLeanStr(n))
	}
	b.WriteString("/-- structs reachable from the root, in discovery order -/\ndef reachable : List String := [" + strings.Join(q, ", ") + "]\n\n")
	b.WriteString("/-- DumpJSON marshals `<fullDumpFn>(conf)` (\"-\" = conf itself) -/\ndef fullDumpFn : String := " + cgLeanStr(fullFn) + "\n")
	q = nil
	for _, a := range copyAsg {
		q = append(q, "("+cgLeanStr(a.field)+", "+cgLeanStr(a.fn)+")")
	}
	b.WriteString("/-- redactedCopy: `dst.F = f(src.F)` assignments, every other field is copied as is -/\ndef redactedCopyFields : List (String × String) := [" + strings.Join(q, ", ") + "]\n")
	q = nil
	for _, s := range secs {
		q = append(q, "("+cgLeanStr(s.typ)+", "+cgLeanStr(s.fn)+", "+cgLeanStr(s.field)+")")
	}
	b.WriteString("/-- getMOSNConfigRedacted: (CfgType constant, function applied (\"-\" = none), field of conf) -/\ndef sections : List (String × String × String) := [" + strings.Join(q, ", ") + "]\n")
	q = nil
	for _, e := range eps {
		q = append(q, "("+cgLeanStr(e.param)+", "+cgLeanStr(e.typ)+", "+fmt.Sprint(e.single)+")")
	}
	b.WriteString("/-- admin ConfigDump: (query parameter, CfgType constant, single-object lookup by name) -/\ndef endpoints : List (String × String × Bool) := [" + strings.Join(q, ", ") + "]\n")
	fmt.Fprintf(&b, "/-- ConfigDump without parameters calls configmanager.DumpJSON -/\ndef fullDumpViaDumpJSON : Bool := %v\n", usesDumpJSON)
	b.WriteString("/-- const redactedPrivateKey -/\ndef placeholder : String := " + cgLeanStr(placeholder) + "\n")
	b.WriteString("/-- const privateKeyJSONKey: object key blanked inside untyped holes -/\ndef privateKeyJsonKey : String := " + cgLeanStr(pkKey) + "\n")
	b.WriteString("\nend MosnVerif.Gen.ConfigGraph\n")
	return b.String(), nil
}

func callOf2(n ast.Node) (string, []string, []ast.Expr, bool) {
	e, ok := n.(ast.Expr)
	if !ok {
		return "", nil, nil, false
	}
	return callOf(e)
}
