-- translation-unsupported DispatchCtx: open -out/pkg/stream/xprotocol/conn.go: no such file or directory
namespace MosnVerif.Gen.DispatchCtx
end MosnVerif.Gen.DispatchCtx
