-- translation-unsupported HpackHuff: open -out/pkg/module/http2/hpack/huffman.go: no such file or directory
namespace MosnVerif.Gen.HpackHuff
end MosnVerif.Gen.HpackHuff
