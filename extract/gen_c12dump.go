package main

import (
	"fmt"
	"go/ast"
	"go/token"
	"os"
	"path/filepath"
	"sort"
	"strings"
)

func init() { register("DumpProto", genDumpProto) }

// genDumpProto regenerates the protocol that keeps the dumped file behind the effective config by at most one pending
// request (pkg/configmanager/dump_action.go, effectiveconfig.go, featuregate.go):
//   - `DumpConfig` (one dump round) and `setDump` (what a mutator does after writing the effective config) as decision
//     trees of atomic actions on the `dumping` flag, the snapshot (`transferConfig`) and the file write
//     (`utils.WriteFileSafety`), in source order, with the calls of file-local helpers (`getDump`, `setDump`, …) inlined;
//   - for every function of effectiveconfig.go that takes the config write lock: does it request a dump (`tryDump`) and
//     does the request come after its writes to `conf`;
//   - `tryDump` is `if enableAutoWrite { setDump() }`; `transferConfig` reads under the config read lock.
// Error exits of the snapshot / yaml conversion (`if err != nil { log; return }`) are not part of the tree: the snapshot
// is modelled as total (assumption of C12's dump theorems). Anything outside this vocabulary is rejected.

type c12dCtx struct {
	funcs map[string]*ast.FuncDecl
	depth int
}

const c12dFlag = "&dumping"

func c12dIntLit(e ast.Expr) (string, bool) {
	switch x := e.(type) {
	case *ast.BasicLit:
		if x.Kind == token.INT {
			return x.Value, true
		}
	case *ast.ParenExpr:
		return c12dIntLit(x.X)
	}
	return "", false
}

// c12dTest recognises a boolean expression that is one atomic access of the flag:
//   atomic.CompareAndSwapInt32(&dumping, a, b)        -> ("cas a b", positive)
//   atomic.LoadInt32(&dumping) == v  /  != v          -> ("load v", positive / negated)
//   F() for a file-local func whose body is `return <one of the above>`
// and a leading `!`. Returns the Lean head (without branches) and whether the expression is negated.
func (c *c12dCtx) c12dTest(e ast.Expr) (head string, neg bool, ok bool) {
	switch x := e.(type) {
	case *ast.ParenExpr:
		return c.c12dTest(x.X)
	case *ast.UnaryExpr:
		if x.Op == token.NOT {
			h, n, ok := c.c12dTest(x.X)
			return h, !n, ok
		}
	case *ast.BinaryExpr:
		if x.Op == token.EQL || x.Op == token.NEQ {
			l, r := x.X, x.Y
			if _, isLit := c12dIntLit(l); isLit {
				l, r = r, l
			}
			v, isLit := c12dIntLit(r)
			if ce, isCall := l.(*ast.CallExpr); isLit && isCall && exprKey(ce.Fun) == "atomic.LoadInt32" && len(ce.Args) == 1 && exprKey(ce.Args[0]) == c12dFlag {
				return ".load " + v, x.Op == token.NEQ, true
			}
		}
	case *ast.CallExpr:
		if exprKey(x.Fun) == "atomic.CompareAndSwapInt32" && len(x.Args) == 3 && exprKey(x.Args[0]) == c12dFlag {
			a, ok1 := c12dIntLit(x.Args[1])
			b, ok2 := c12dIntLit(x.Args[2])
			if ok1 && ok2 {
				return ".cas " + a + " " + b, false, true
			}
		}
		if id, isId := x.Fun.(*ast.Ident); isId && len(x.Args) == 0 {
			if fd := c.funcs[id.Name]; fd != nil && fd.Recv == nil && len(fd.Body.List) == 1 {
				if r, isRet := fd.Body.List[0].(*ast.ReturnStmt); isRet && len(r.Results) == 1 {
					return c.c12dTest(r.Results[0])
				}
			}
		}
	}
	return "", false, false
}

func c12dIsLog(st ast.Stmt) bool {
	es, ok := st.(*ast.ExprStmt)
	if !ok {
		// if log.DefaultLogger.GetLogLevel() >= log.DEBUG { log… }
		if is, ok := st.(*ast.IfStmt); ok && is.Init == nil && is.Else == nil && strings.HasPrefix(exprKey(condLeft(is.Cond)), "log.") {
			for _, s := range is.Body.List {
				if !c12dIsLog(s) {
					return false
				}
			}
			return true
		}
		return false
	}
	ce, ok := es.X.(*ast.CallExpr)
	if !ok {
		return false
	}
	k := exprKey(ce.Fun)
	return strings.HasPrefix(k, "log.") || k == "verifDumpYield"
}

// c12dErrCond: `err != nil` -> (true, true), `err == nil` -> (false, true)
func c12dErrCond(e ast.Expr) (isErr bool, ok bool) {
	be, isBin := e.(*ast.BinaryExpr)
	if !isBin || exprKey(be.X) != "err" || exprKey(be.Y) != "nil" {
		return false, false
	}
	switch be.Op {
	case token.NEQ:
		return true, true
	case token.EQL:
		return false, true
	}
	return false, false
}

// c12dOnlyLogReturn: a block of logging statements ending in a bare return
func c12dOnlyLogReturn(b *ast.BlockStmt) bool {
	if len(b.List) == 0 {
		return false
	}
	for i, s := range b.List {
		if i == len(b.List)-1 {
			r, ok := s.(*ast.ReturnStmt)
			return ok && len(r.Results) == 0
		}
		if !c12dIsLog(s) {
			return false
		}
	}
	return false
}

// c12dStmts renders a statement list as a `Prog` term. `k` is the term for falling off the end of the list, `ret` the term a
// `return` stands for (`.done` in DumpConfig itself, the call site's continuation inside an inlined helper). errState:
// "" = err holds nothing that matters, "total" = err of the snapshot / conversion (its check is dropped),
// "ok" / "fail" = the result of the file write on this path.
func (c *c12dCtx) c12dStmts(stmts []ast.Stmt, k, ret, errState string) (string, error) {
	if len(stmts) == 0 {
		return k, nil
	}
	st, rest := stmts[0], stmts[1:]
	bad := func(why string) (string, error) {
		return "", fmt.Errorf("dump protocol: %s at %s", why, fset.Position(st.Pos()))
	}
	cont := func(es string) (string, error) { return c.c12dStmts(rest, k, ret, es) }
	if c12dIsLog(st) {
		return cont(errState)
	}
	switch x := st.(type) {
	case *ast.ReturnStmt:
		if len(x.Results) == 0 {
			return ret, nil
		}
		if len(x.Results) == 1 {
			// `return <flag test>` of an inlined helper called as a statement: perform the access, ignore the result
			if h, _, ok := c.c12dTest(x.Results[0]); ok {
				return "(" + h + " " + ret + " " + ret + ")", nil
			}
		}
		return bad("unsupported return")
	case *ast.ExprStmt:
		ce, ok := x.X.(*ast.CallExpr)
		if !ok {
			return bad("unsupported expression statement")
		}
		if h, _, ok := c.c12dTest(ce); ok {
			r, err := cont(errState)
			if err != nil {
				return "", err
			}
			return "(" + h + " " + r + " " + r + ")", nil
		}
		if exprKey(ce.Fun) == "atomic.StoreInt32" && len(ce.Args) == 2 && exprKey(ce.Args[0]) == c12dFlag {
			v, ok := c12dIntLit(ce.Args[1])
			if !ok {
				return bad("store of a non-literal")
			}
			r, err := cont(errState)
			if err != nil {
				return "", err
			}
			return "(.store " + v + " " + r + ")", nil
		}
		if id, isId := ce.Fun.(*ast.Ident); isId && len(ce.Args) == 0 {
			if fd := c.funcs[id.Name]; fd != nil && fd.Recv == nil {
				if c.depth > 4 {
					return bad("helper calls nested too deeply")
				}
				r, err := cont(errState)
				if err != nil {
					return "", err
				}
				c.depth++
				defer func() { c.depth-- }()
				return c.c12dStmts(fd.Body.List, r, r, "")
			}
		}
		return bad("unsupported call " + exprKey(ce.Fun))
	case *ast.AssignStmt:
		if len(x.Rhs) != 1 {
			return bad("unsupported assignment")
		}
		ce, ok := x.Rhs[0].(*ast.CallExpr)
		if !ok {
			return bad("unsupported assignment")
		}
		switch exprKey(ce.Fun) {
		case "transferConfig":
			if len(x.Lhs) != 2 || exprKey(x.Lhs[0]) != "content" || exprKey(x.Lhs[1]) != "err" {
				return bad("snapshot not of the form `content, err := transferConfig()`")
			}
			r, err := cont("total")
			if err != nil {
				return "", err
			}
			return "(.snapshot " + r + ")", nil
		case "utils.WriteFileSafety":
			if len(x.Lhs) != 1 || exprKey(x.Lhs[0]) != "err" || len(ce.Args) != 3 || exprKey(ce.Args[0]) != "configPath" || exprKey(ce.Args[1]) != "content" {
				return bad("write not of the form `err = utils.WriteFileSafety(configPath, content, …)`")
			}
			okB, err := cont("ok")
			if err != nil {
				return "", err
			}
			failB, err := cont("fail")
			if err != nil {
				return "", err
			}
			return "(.write " + okB + " " + failB + ")", nil
		}
		return bad("unsupported assignment from " + exprKey(ce.Fun))
	case *ast.IfStmt:
		if x.Init != nil {
			return bad("if with init")
		}
		// the yaml conversion: local to `content`, its error exit is dropped like the snapshot's
		if ce, ok := x.Cond.(*ast.CallExpr); ok && exprKey(ce.Fun) == "yamlFormat" && x.Else == nil {
			for _, s := range x.Body.List {
				if as, ok := s.(*ast.AssignStmt); ok && len(as.Rhs) == 1 {
					if c2, ok := as.Rhs[0].(*ast.CallExpr); ok && exprKey(c2.Fun) == "yaml.JSONToYAML" {
						continue
					}
				}
				if is, ok := s.(*ast.IfStmt); ok && is.Init == nil && is.Else == nil {
					if isErr, ok := c12dErrCond(is.Cond); ok && isErr && c12dOnlyLogReturn(is.Body) {
						continue
					}
				}
				return bad("unsupported statement in the yaml conversion")
			}
			return cont(errState)
		}
		if isErr, ok := c12dErrCond(x.Cond); ok {
			switch errState {
			case "total":
				if !isErr || x.Else != nil || !c12dOnlyLogReturn(x.Body) {
					return bad("the error exit of the snapshot is not `if err != nil { log; return }`")
				}
				return cont("")
			case "ok", "fail":
				taken := isErr == (errState == "fail")
				r, err := cont(errState)
				if err != nil {
					return "", err
				}
				if taken {
					return c.c12dStmts(x.Body.List, r, ret, errState)
				}
				switch e := x.Else.(type) {
				case nil:
					return r, nil
				case *ast.BlockStmt:
					return c.c12dStmts(e.List, r, ret, errState)
				default:
					return c.c12dStmts([]ast.Stmt{e}, r, ret, errState)
				}
			}
			return bad("test of an error that is neither the snapshot's nor the write's")
		}
		if h, neg, ok := c.c12dTest(x.Cond); ok {
			r, err := cont(errState)
			if err != nil {
				return "", err
			}
			thn, err := c.c12dStmts(x.Body.List, r, ret, errState)
			if err != nil {
				return "", err
			}
			els := r
			switch e := x.Else.(type) {
			case nil:
			case *ast.BlockStmt:
				if els, err = c.c12dStmts(e.List, r, ret, errState); err != nil {
					return "", err
				}
			default:
				if els, err = c.c12dStmts([]ast.Stmt{e}, r, ret, errState); err != nil {
					return "", err
				}
			}
			if neg {
				thn, els = els, thn
			}
			return "(" + h + " " + thn + " " + els + ")", nil
		}
		return bad("unsupported condition " + exprKey(x.Cond))
	}
	return bad("statement outside the dump vocabulary")
}

func genDumpProto() (string, error) {
	const dir = "pkg/configmanager"
	df, err := parse(dir + "/dump_action.go")
	if err != nil {
		return "", err
	}
	ctx := &c12dCtx{funcs: map[string]*ast.FuncDecl{}}
	for _, d := range df.Decls {
		if fd, ok := d.(*ast.FuncDecl); ok && fd.Recv == nil && fd.Body != nil && len(fd.Type.Params.List) == 0 {
			ctx.funcs[fd.Name.Name] = fd
		}
	}
	dc, sd := ctx.funcs["DumpConfig"], ctx.funcs["setDump"]
	if dc == nil || sd == nil {
		return "", fmt.Errorf("DumpConfig / setDump not found")
	}
	// the flag is touched only through sync/atomic in this package's non-test files (checked for dump_action.go here;
	// the name is unexported and no other file of the package mentions it — see c12dFlagUsers)
	if err := c12dFlagUsers(dir); err != nil {
		return "", err
	}
	dumpProg, err := ctx.c12dStmts(dc.Body.List, ".done", ".done", "")
	if err != nil {
		return "", err
	}
	setProg, err := ctx.c12dStmts(sd.Body.List, ".done", ".done", "")
	if err != nil {
		return "", err
	}
	// transferConfig reads under the read lock
	tc := findFunc(df, "", "transferConfig")
	if tc == nil {
		return "", fmt.Errorf("transferConfig not found")
	}
	rlock := countCalls(tc.Body, "configLock.RLock") >= 1

	// tryDump: `if enableAutoWrite { setDump() }`
	ff, err := parse(dir + "/featuregate.go")
	if err != nil {
		return "", err
	}
	td := findFunc(ff, "", "tryDump")
	gated := false
	if td != nil && len(td.Body.List) == 1 {
		if is, ok := td.Body.List[0].(*ast.IfStmt); ok && is.Init == nil && is.Else == nil && exprKey(is.Cond) == "enableAutoWrite" &&
			len(is.Body.List) == 1 && isCallStmt(is.Body.List[0], "setDump", 0) {
			gated = true
		}
	}
	if !gated {
		return "", fmt.Errorf("tryDump is not `if enableAutoWrite { setDump() }`")
	}

	// writers of the effective config
	ef, err := parse(dir + "/effectiveconfig.go")
	if err != nil {
		return "", err
	}
	var noReq, early []string
	writers := 0
	for _, d := range ef.Decls {
		fd, ok := d.(*ast.FuncDecl)
		if !ok || fd.Body == nil || countCalls(fd.Body, "configLock.Lock") == 0 {
			continue
		}
		writers++
		var lastWrite, firstReq token.Pos
		ast.Inspect(fd.Body, func(n ast.Node) bool {
			switch x := n.(type) {
			case *ast.AssignStmt:
				for _, l := range x.Lhs {
					if k := exprKey(l); strings.HasPrefix(k, "conf.") || strings.HasPrefix(c12dBase(l), "conf.") {
						if x.Pos() > lastWrite {
							lastWrite = x.Pos()
						}
					}
				}
			case *ast.CallExpr:
				if exprKey(x.Fun) == "delete" && len(x.Args) == 2 && strings.HasPrefix(exprKey(x.Args[0]), "conf.") && x.Pos() > lastWrite {
					lastWrite = x.Pos()
				}
				if (exprKey(x.Fun) == "tryDump" || exprKey(x.Fun) == "setDump") && (firstReq == token.NoPos || x.Pos() < firstReq) {
					firstReq = x.Pos()
				}
			}
			return true
		})
		if firstReq == token.NoPos {
			noReq = append(noReq, fd.Name.Name)
		} else if firstReq < lastWrite {
			early = append(early, fd.Name.Name)
		}
	}
	if writers == 0 {
		return "", fmt.Errorf("no writer of the effective config found")
	}
	sort.Strings(noReq)
	sort.Strings(early)
	q := func(xs []string) string {
		var p []string
		for _, x := range xs {
			p = append(p, fmt.Sprintf("%q", x))
		}
		return "[" + strings.Join(p, ", ") + "]"
	}

	s := header("DumpProto", dir+"/dump_action.go (DumpConfig, getDump, setDump, transferConfig)", dir+"/featuregate.go (tryDump)", dir+"/effectiveconfig.go (writers)")
	s += "/-- a dump round / a dump request as a decision tree of atomic actions (vocabulary = fixed text of the extractor):\n"
	s += "`cas old new ok fail` = `atomic.CompareAndSwapInt32(&dumping, old, new)` then by its result; `load v eq ne` =\n"
	s += "`atomic.LoadInt32(&dumping) == v` then by its result; `store v k` = `atomic.StoreInt32(&dumping, v)`; `snapshot k` =\n"
	s += "`content := transferConfig()`; `write ok err` = `utils.WriteFileSafety(configPath, content, …)` then by its result. -/\n"
	s += "inductive Prog where\n  | cas (old new : Int) (ok fail : Prog)\n  | load (v : Int) (eq ne : Prog)\n  | store (v : Int) (k : Prog)\n  | snapshot (k : Prog)\n  | write (ok err : Prog)\n  | done\nderiving DecidableEq, Repr, Inhabited\n\n"
	s += "open Prog in\n/-- `DumpConfig()`: one dump round, helpers inlined, source order. -/\ndef dumpConfig : Prog := " + strings.TrimSuffix(strings.TrimPrefix(dumpProg, "("), ")") + "\n\n"
	s += "open Prog in\n/-- `setDump()`: what a mutator runs (through `tryDump`) after it has written the effective config. -/\ndef setDump : Prog := " + strings.TrimSuffix(strings.TrimPrefix(setProg, "("), ")") + "\n\n"
	s += "/-- `transferConfig` takes the config read lock (`configLock.RLock`). -/\ndef snapshotUnderReadLock : Bool := " + boolLit(rlock) + "\n"
	s += "/-- `tryDump` is `if enableAutoWrite { setDump() }` (feature gate `auto_config`). -/\ndef tryDumpGated : Bool := true\n"
	s += fmt.Sprintf("/-- functions of effectiveconfig.go that take the config write lock (%d) and never request a dump. -/\ndef writersWithoutDumpRequest : List String := %s\n", writers, q(noReq))
	s += "/-- … and those whose first dump request precedes their last write to `conf`. -/\ndef writersRequestingBeforeWrite : List String := " + q(early) + "\n"
	s += footer("DumpProto")
	return s, nil
}

// c12dBase: the printed base of an index expression chain (`conf.Cluster[name]` -> `conf.Cluster`)
func c12dBase(e ast.Expr) string {
	for {
		switch x := e.(type) {
		case *ast.IndexExpr:
			e = x.X
			continue
		case *ast.ParenExpr:
			e = x.X
			continue
		}
		return exprKey(e)
	}
}

// c12dFlagUsers: every mention of `dumping` in non-test files of the package is the operand `&dumping` of a sync/atomic call
// in dump_action.go (or the declaration itself, or a verif hook file).
func c12dFlagUsers(dir string) error {
	files, err := c12dGoFiles(dir)
	if err != nil {
		return err
	}
	for _, rel := range files {
		if strings.Contains(rel, "verif_") {
			continue
		}
		f, err := parse(rel)
		if err != nil {
			return err
		}
		var bad error
		ast.Inspect(f, func(n ast.Node) bool {
			switch x := n.(type) {
			case *ast.CallExpr:
				if strings.HasPrefix(exprKey(x.Fun), "atomic.") {
					for i, a := range x.Args {
						if exprKey(a) == c12dFlag && i == 0 {
							// fine: do not descend into this argument
							for _, b := range x.Args[1:] {
								ast.Inspect(b, func(m ast.Node) bool {
									if id, ok := m.(*ast.Ident); ok && id.Name == "dumping" {
										bad = fmt.Errorf("dump protocol: `dumping` used as a value at %s", fset.Position(id.Pos()))
									}
									return true
								})
							}
							return false
						}
					}
				}
			case *ast.ValueSpec:
				for _, nm := range x.Names {
					if nm.Name == "dumping" {
						return false
					}
				}
			case *ast.Ident:
				if x.Name == "dumping" {
					bad = fmt.Errorf("dump protocol: `dumping` accessed outside sync/atomic at %s", fset.Position(x.Pos()))
				}
			}
			return true
		})
		if bad != nil {
			return bad
		}
	}
	return nil
}

// c12dGoFiles: the non-test Go files of a package directory, relative to the repo root.
func c12dGoFiles(dir string) ([]string, error) {
	ents, err := os.ReadDir(filepath.Join(repo, dir))
	if err != nil {
		return nil, err
	}
	var out []string
	for _, e := range ents {
		if n := e.Name(); strings.HasSuffix(n, ".go") && !strings.HasSuffix(n, "_test.go") {
			out = append(out, filepath.Join(dir, n))
		}
	}
	sort.Strings(out)
	return out, nil
}
