package main

// Gen/DispatchCtx.lean (C02, C07): the per-frame context discipline of streamConn.Dispatch
// (pkg/stream/xprotocol/conn.go) and of stream.ContextManager (pkg/stream/context.go): where the stream-level context
// is fetched (inside the decode loop or before it), behind which frame kinds ctxManager.Next() is reached, which
// context Decode and handleFrame are given.
//
// Gen/C01Retain.lean (C01): for every encode function of the five xprotocol codecs the buffer each successful return
// hands out: a buffer the decoded frame still points at with its reference count raised (`retain`), the same without
// (`bare`), or a buffer built for this call (`fresh`); and whether connection.doWriteIo recycles what it wrote.
//
// Both are read by a small symbolic walk that REJECTS every shape it does not know (the Gen module is then empty and the
// dependent theorems stop checking). All helpers carry the prefix xconn.

import (
	"fmt"
	"go/ast"
	"go/token"
	"strings"
)

func init() {
	register("DispatchCtx", xconnGenDispatchCtx)
	register("C01Retain", xconnGenRetain)
}

// ---------------------------------------------------------------------------------------------------------------
// Dispatch

// three-valued condition evaluation on the path "a complete, well-formed frame of stream type T was decoded"
type xconnTri int

const (
	xconnFalse xconnTri = iota
	xconnTrue
	xconnUnknown
)

func xconnNot(t xconnTri) xconnTri {
	switch t {
	case xconnFalse:
		return xconnTrue
	case xconnTrue:
		return xconnFalse
	}
	return xconnUnknown
}

type xconnWalk struct {
	stype   string // Request | RequestOneWay | Response
	frameV  string // variable Decode's frame result is assigned to
	errV    string // variable Decode's error result is assigned to
	xframeV string // variable of the api.XFrame assertion
	okV     string
	bufV    string // Dispatch's parameter
	events  []string
	inLoop  bool
	loops   int
	ended   string // "" (fell through) | continue | return
}

func (w *xconnWalk) cond(e ast.Expr) xconnTri {
	switch x := e.(type) {
	case *ast.ParenExpr:
		return w.cond(x.X)
	case *ast.UnaryExpr:
		if x.Op == token.NOT {
			return xconnNot(w.cond(x.X))
		}
	case *ast.Ident:
		if x.Name == w.okV && w.okV != "" {
			return xconnTrue
		}
	case *ast.BinaryExpr:
		switch x.Op {
		case token.LAND:
			a, b := w.cond(x.X), w.cond(x.Y)
			if a == xconnFalse || b == xconnFalse {
				return xconnFalse
			}
			if a == xconnTrue && b == xconnTrue {
				return xconnTrue
			}
			return xconnUnknown
		case token.LOR:
			a, b := w.cond(x.X), w.cond(x.Y)
			if a == xconnTrue || b == xconnTrue {
				return xconnTrue
			}
			if a == xconnFalse && b == xconnFalse {
				return xconnFalse
			}
			return xconnUnknown
		case token.EQL, token.NEQ:
			l, r := exprKey(x.X), exprKey(x.Y)
			eq := xconnUnknown
			switch {
			case l == w.bufV+".Len()" && r == "0":
				eq = xconnFalse // there are bytes: a frame is about to be decoded
			case l == w.frameV && r == "nil" && w.frameV != "":
				eq = xconnFalse
			case l == w.errV && r == "nil" && w.errV != "":
				eq = xconnTrue
			case w.xframeV != "" && l == w.xframeV+".GetStreamType()" && strings.HasPrefix(r, "api."):
				switch r {
				case "api.Request", "api.RequestOneWay", "api.Response":
					if r == "api."+w.stype {
						eq = xconnTrue
					} else {
						eq = xconnFalse
					}
				}
			}
			if x.Op == token.NEQ {
				return xconnNot(eq)
			}
			return eq
		}
	}
	return xconnUnknown
}

// xconnTouches reports whether n mentions the context manager, Decode, handleFrame, or changes the control flow.
func xconnTouches(n ast.Node) bool {
	hit := false
	ast.Inspect(n, func(m ast.Node) bool {
		switch x := m.(type) {
		case *ast.SelectorExpr:
			k := exprKey(x)
			if strings.Contains(k, "ctxManager") || k == "sc.protocol.Decode" || k == "sc.handleFrame" {
				hit = true
			}
		case *ast.BranchStmt, *ast.ReturnStmt, *ast.GoStmt, *ast.DeferStmt, *ast.LabeledStmt:
			hit = true
		}
		return true
	})
	return hit
}

func (w *xconnWalk) call(c *ast.CallExpr, lhs []ast.Expr) error {
	k := exprKey(c.Fun)
	switch k {
	case "sc.ctxManager.Get":
		if len(lhs) != 1 || len(c.Args) != 0 {
			return fmt.Errorf("ctxManager.Get() not assigned to one variable")
		}
		w.events = append(w.events, "get:"+exprKey(lhs[0]))
	case "sc.ctxManager.Next":
		if len(lhs) != 0 || len(c.Args) != 0 {
			return fmt.Errorf("ctxManager.Next() in an unexpected position")
		}
		w.events = append(w.events, "next")
	case "sc.protocol.Decode":
		if len(lhs) != 2 || len(c.Args) != 2 || exprKey(c.Args[1]) != w.bufV {
			return fmt.Errorf("protocol.Decode call not recognised")
		}
		w.frameV, w.errV = exprKey(lhs[0]), exprKey(lhs[1])
		w.events = append(w.events, "decode:"+exprKey(c.Args[0]))
	case "sc.handleFrame":
		if len(lhs) != 0 || len(c.Args) != 2 || exprKey(c.Args[1]) != w.xframeV || w.xframeV == "" {
			return fmt.Errorf("handleFrame call not recognised")
		}
		w.events = append(w.events, "handle:"+exprKey(c.Args[0]))
	default:
		if xconnTouches(c) {
			return fmt.Errorf("call %s involves the context manager / decoder in a way that is not recognised", k)
		}
	}
	return nil
}

func (w *xconnWalk) stmts(l []ast.Stmt) error {
	for _, s := range l {
		if w.ended != "" {
			return nil
		}
		if err := w.stmt(s); err != nil {
			return err
		}
	}
	return nil
}

func (w *xconnWalk) stmt(s ast.Stmt) error {
	switch x := s.(type) {
	case *ast.AssignStmt:
		if len(x.Rhs) == 1 {
			switch r := x.Rhs[0].(type) {
			case *ast.CallExpr:
				return w.call(r, x.Lhs)
			case *ast.TypeAssertExpr:
				if exprKey(r.X) == w.frameV && w.frameV != "" && len(x.Lhs) == 2 && exprKey(r.Type) == "api.XFrame" {
					w.xframeV, w.okV = exprKey(x.Lhs[0]), exprKey(x.Lhs[1])
					return nil
				}
			}
		}
		if xconnTouches(x) {
			return fmt.Errorf("assignment at %v not recognised", fset.Position(x.Pos()))
		}
		// a plain assignment must not overwrite a variable the walk tracks
		for _, l := range x.Lhs {
			k := exprKey(l)
			for _, e := range w.events {
				if strings.HasPrefix(e, "get:") && strings.TrimPrefix(e, "get:") == k {
					return fmt.Errorf("context variable %s reassigned at %v", k, fset.Position(x.Pos()))
				}
			}
		}
		return nil
	case *ast.ExprStmt:
		if c, ok := x.X.(*ast.CallExpr); ok {
			return w.call(c, nil)
		}
		if xconnTouches(x) {
			return fmt.Errorf("statement at %v not recognised", fset.Position(x.Pos()))
		}
		return nil
	case *ast.DeclStmt:
		if xconnTouches(x) {
			return fmt.Errorf("declaration at %v not recognised", fset.Position(x.Pos()))
		}
		return nil
	case *ast.IfStmt:
		if x.Init != nil {
			if xconnTouches(x.Init) {
				return fmt.Errorf("if-initialiser at %v not recognised", fset.Position(x.Pos()))
			}
		}
		switch w.cond(x.Cond) {
		case xconnTrue:
			return w.stmts(x.Body.List)
		case xconnFalse:
			if x.Else == nil {
				return nil
			}
			if b, ok := x.Else.(*ast.BlockStmt); ok {
				return w.stmts(b.List)
			}
			return w.stmt(x.Else)
		}
		if xconnTouches(x.Body) || (x.Else != nil && xconnTouches(x.Else)) {
			return fmt.Errorf("the branch at %v depends on a condition the walk cannot decide and touches the context discipline", fset.Position(x.Pos()))
		}
		return nil
	case *ast.ForStmt:
		if w.inLoop || x.Init != nil || x.Cond != nil || x.Post != nil {
			return fmt.Errorf("loop at %v is not the plain decode loop", fset.Position(x.Pos()))
		}
		w.loops++
		w.events = append(w.events, "loop")
		w.inLoop = true
		if err := w.stmts(x.Body.List); err != nil {
			return err
		}
		if w.ended == "return" {
			return fmt.Errorf("the decode loop returns after a complete %s frame", w.stype)
		}
		// one iteration is enough: the loop is `for { … }` and the walk describes one complete frame
		w.ended = "iteration-done"
		return nil
	case *ast.BranchStmt:
		if x.Tok == token.CONTINUE && x.Label == nil && w.inLoop {
			w.ended = "continue"
			return nil
		}
		return fmt.Errorf("branch statement at %v not supported", fset.Position(x.Pos()))
	case *ast.ReturnStmt:
		w.ended = "return"
		return nil
	case *ast.BlockStmt:
		return w.stmts(x.List)
	}
	if xconnTouches(s) {
		return fmt.Errorf("statement %T at %v not supported", s, fset.Position(s.Pos()))
	}
	return nil
}

// xconnShape = (Get inside the loop?, Next reached?) for one stream type
func xconnShape(fd *ast.FuncDecl, stype string) (getInLoop bool, next bool, err error) {
	if fd.Type.Params == nil || len(fd.Type.Params.List) != 1 || len(fd.Type.Params.List[0].Names) != 1 {
		return false, false, fmt.Errorf("Dispatch: unexpected signature")
	}
	w := &xconnWalk{stype: stype, bufV: fd.Type.Params.List[0].Names[0].Name}
	if err := w.stmts(fd.Body.List); err != nil {
		return false, false, err
	}
	if w.loops != 1 {
		return false, false, fmt.Errorf("Dispatch: expected exactly one decode loop")
	}
	// accepted event lists:  [get:v] loop decode:v handle:v [next]   |   loop get:v decode:v handle:v [next]
	ev := w.events
	ctxV := ""
	i := 0
	if i < len(ev) && strings.HasPrefix(ev[i], "get:") {
		ctxV = strings.TrimPrefix(ev[i], "get:")
		i++
	}
	if i >= len(ev) || ev[i] != "loop" {
		return false, false, fmt.Errorf("Dispatch(%s): event list %v not recognised", stype, ev)
	}
	i++
	if i < len(ev) && strings.HasPrefix(ev[i], "get:") {
		// a Get inside the loop (re)defines the variable for this iteration
		ctxV = strings.TrimPrefix(ev[i], "get:")
		getInLoop = true
		i++
	}
	if ctxV == "" {
		return false, false, fmt.Errorf("Dispatch(%s): no ctxManager.Get() before Decode: %v", stype, ev)
	}
	if i+1 >= len(ev) || ev[i] != "decode:"+ctxV || ev[i+1] != "handle:"+ctxV {
		return false, false, fmt.Errorf("Dispatch(%s): Decode / handleFrame are not given the context of ctxManager.Get(): %v", stype, ev)
	}
	i += 2
	if i < len(ev) && ev[i] == "next" {
		next = true
		i++
	}
	if i != len(ev) {
		return false, false, fmt.Errorf("Dispatch(%s): event list %v not recognised", stype, ev)
	}
	return getInLoop, next, nil
}

func xconnBool(b bool) string {
	if b {
		return "true"
	}
	return "false"
}

func xconnGenDispatchCtx() (string, error) {
	const conn, cm = "pkg/stream/xprotocol/conn.go", "pkg/stream/context.go"
	f, err := parse(conn)
	if err != nil {
		return "", err
	}
	fd := findFunc(f, "streamConn", "Dispatch")
	if fd == nil {
		return "", fmt.Errorf("streamConn.Dispatch not found")
	}
	var sb strings.Builder
	sb.WriteString(header("DispatchCtx", conn, cm))
	gets := map[bool]bool{}
	for _, t := range []struct{ go_, lean string }{{"Request", "nextAfterRequest"}, {"RequestOneWay", "nextAfterOneWay"}, {"Response", "nextAfterResponse"}} {
		g, n, err := xconnShape(fd, t.go_)
		if err != nil {
			return "", err
		}
		gets[g] = true
		fmt.Fprintf(&sb, "/-- streamConn.Dispatch: ctxManager.Next() is reached after a complete frame of stream type api.%s -/\ndef %s : Bool := %s\n", t.go_, t.lean, xconnBool(n))
	}
	if len(gets) != 1 {
		return "", fmt.Errorf("Dispatch: the position of ctxManager.Get() depends on the frame kind")
	}
	fmt.Fprintf(&sb, "/-- streamConn.Dispatch: `streamCtx := sc.ctxManager.Get()` is a statement of the decode loop (false: it precedes the loop) -/\ndef getInLoop : Bool := %s\n", xconnBool(gets[true]))

	// handleFrame: which stream types create a server stream (handleRequest) and which are looked up as a response
	hf := findFunc(f, "streamConn", "handleFrame")
	if hf == nil || len(hf.Body.List) != 1 {
		return "", fmt.Errorf("streamConn.handleFrame: not a single switch")
	}
	sw, ok := hf.Body.List[0].(*ast.SwitchStmt)
	if !ok || exprKey(sw.Tag) != "frame.GetStreamType()" {
		return "", fmt.Errorf("streamConn.handleFrame: not a switch over frame.GetStreamType()")
	}
	target := map[string]string{}
	for _, c := range sw.Body.List {
		cc := c.(*ast.CaseClause)
		if len(cc.List) != 1 || len(cc.Body) != 1 {
			return "", fmt.Errorf("streamConn.handleFrame: case not recognised")
		}
		es, ok := cc.Body[0].(*ast.ExprStmt)
		if !ok {
			return "", fmt.Errorf("streamConn.handleFrame: case body not recognised")
		}
		call, ok := es.X.(*ast.CallExpr)
		if !ok || len(call.Args) < 2 || exprKey(call.Args[0]) != "ctx" || exprKey(call.Args[1]) != "frame" {
			return "", fmt.Errorf("streamConn.handleFrame: handler is not given (ctx, frame)")
		}
		target[exprKey(cc.List[0])] = callKey(call)
	}
	want := map[string]string{"api.Request": "sc.handleRequest(ctx,frame,false)", "api.RequestOneWay": "sc.handleRequest(ctx,frame,true)", "api.Response": "sc.handleResponse(ctx,frame)"}
	for k, v := range want {
		if target[k] != v {
			return "", fmt.Errorf("streamConn.handleFrame: %s is handled by %q, expected %q", k, target[k], v)
		}
	}
	if len(target) != len(want) {
		return "", fmt.Errorf("streamConn.handleFrame: unexpected cases")
	}
	sb.WriteString("/-- streamConn.handleFrame hands Request / RequestOneWay frames to handleRequest(ctx, frame, oneway) and Response frames to handleResponse(ctx, frame), with the context it was given -/\ndef handleFrameShape : Bool := true\n")

	// newServerStream takes the stream object out of the context's pooled buffers and gives it the frame's id
	ns := findFunc(f, "streamConn", "newServerStream")
	if ns == nil {
		return "", fmt.Errorf("streamConn.newServerStream not found")
	}
	pooled, idFromFrame, origin := false, false, ""
	ast.Inspect(ns.Body, func(n ast.Node) bool {
		if a, ok := n.(*ast.AssignStmt); ok && len(a.Lhs) == 1 && len(a.Rhs) == 1 {
			l, r := exprKey(a.Lhs[0]), exprKey(a.Rhs[0])
			if l == "serverStream" {
				if origin != "" {
					origin = "?"
				} else if u, ok := a.Rhs[0].(*ast.UnaryExpr); ok && u.Op == token.AND {
					if _, lit := u.X.(*ast.CompositeLit); lit {
						origin = "new"
					} else {
						origin = r
					}
				} else {
					origin = "?"
				}
			}
			if l == "buffers" && r != "streamBuffersByContext(ctx)" {
				origin = "?"
			}
			if l == "serverStream.id" && r == "frame.GetRequestId()" {
				idFromFrame = true
			}
		}
		return true
	})
	if !idFromFrame {
		return "", fmt.Errorf("streamConn.newServerStream: the stream id is not frame.GetRequestId()")
	}
	switch origin {
	case "&buffers.serverStream":
		pooled = true // the object pooled in the buffers of the context handleRequest was given
	case "new":
		pooled = false // &xStream{...}: an object of its own
	default:
		return "", fmt.Errorf("streamConn.newServerStream: where the server stream object comes from is not recognised (%s)", origin)
	}
	fmt.Fprintf(&sb, "/-- streamConn.newServerStream: the server stream is the object pooled in the context's buffers (false: a new object per request) -/\ndef serverStreamPooled : Bool := %s\n", xconnBool(pooled))

	// ContextManager: Get returns curr; Next replaces curr by a context built from base
	cf, err := parse(cm)
	if err != nil {
		return "", err
	}
	get := findFunc(cf, "ContextManager", "Get")
	if get == nil || len(get.Body.List) != 1 {
		return "", fmt.Errorf("ContextManager.Get: not a single statement")
	}
	if r, ok := get.Body.List[0].(*ast.ReturnStmt); !ok || len(r.Results) != 1 || exprKey(r.Results[0]) != "cm.curr" {
		return "", fmt.Errorf("ContextManager.Get does not return cm.curr")
	}
	nx := findFunc(cf, "ContextManager", "Next")
	if nx == nil || len(nx.Body.List) == 0 {
		return "", fmt.Errorf("ContextManager.Next not found")
	}
	for i, s := range nx.Body.List {
		a, ok := s.(*ast.AssignStmt)
		if !ok || len(a.Lhs) != 1 || len(a.Rhs) != 1 || exprKey(a.Lhs[0]) != "cm.curr" {
			return "", fmt.Errorf("ContextManager.Next: statement %d is not an assignment to cm.curr", i)
		}
		k := exprKey(a.Rhs[0])
		if i == 0 && k != "buffer.NewBufferPoolContext(cm.base)" {
			return "", fmt.Errorf("ContextManager.Next: curr is not rebuilt from base (%s)", k)
		}
		if i > 0 && k != "variable.NewVariableContext(cm.curr)" {
			return "", fmt.Errorf("ContextManager.Next: statement %d not recognised (%s)", i, k)
		}
	}
	if len(nx.Body.List) != 2 {
		return "", fmt.Errorf("ContextManager.Next: expected buffer context + variable context")
	}
	sb.WriteString("/-- ContextManager.Get returns curr; ContextManager.Next replaces curr by a NEW buffer-pool context over base wrapped in a NEW variable context -/\ndef nextIsFresh : Bool := true\n")
	sb.WriteString(footer("DispatchCtx"))
	return sb.String(), nil
}

// ---------------------------------------------------------------------------------------------------------------
// encode return policies

// xconnReturns lists, in source order, what each successful `return <buf>, nil` of fd hands out.
func xconnReturns(fd *ast.FuncDecl) ([]string, error) {
	if fd.Type.Params == nil || len(fd.Type.Params.List) != 2 || len(fd.Type.Params.List[1].Names) != 1 {
		return nil, fmt.Errorf("%s: unexpected signature", fd.Name.Name)
	}
	frameV := fd.Type.Params.List[1].Names[0].Name
	// local variables and what they were created by
	origin := map[string]string{}
	ast.Inspect(fd.Body, func(n ast.Node) bool {
		if a, ok := n.(*ast.AssignStmt); ok && len(a.Lhs) == 1 && len(a.Rhs) == 1 {
			if id, ok := a.Lhs[0].(*ast.Ident); ok {
				if c, ok := a.Rhs[0].(*ast.CallExpr); ok {
					k := exprKey(c.Fun)
					if prev, seen := origin[id.Name]; seen && prev != k {
						origin[id.Name] = "?"
					} else {
						origin[id.Name] = k
					}
				} else {
					origin[id.Name] = "?"
				}
			}
		}
		return true
	})
	fresh := map[string]bool{"buffer.GetIoBuffer": true, "buffer.NewIoBuffer": true, "buffer.NewIoBufferBytes": true}
	var out []string
	var err error
	var visit func(l []ast.Stmt)
	visit = func(l []ast.Stmt) {
		for i, s := range l {
			switch x := s.(type) {
			case *ast.ReturnStmt:
				if len(x.Results) != 2 {
					err = fmt.Errorf("%s: return with %d results", fd.Name.Name, len(x.Results))
					return
				}
				if exprKey(x.Results[1]) != "nil" {
					continue // error return
				}
				switch r := x.Results[0].(type) {
				case *ast.SelectorExpr:
					k := exprKey(r)
					if !strings.HasPrefix(k, frameV+".") {
						err = fmt.Errorf("%s: returns %s", fd.Name.Name, k)
						return
					}
					pol := "bare"
					for _, p := range l[:i] {
						if es, ok := p.(*ast.ExprStmt); ok {
							if c, ok := es.X.(*ast.CallExpr); ok && exprKey(c.Fun) == k+".Count" && len(c.Args) == 1 && exprKey(c.Args[0]) == "1" {
								pol = "retain"
							}
						}
					}
					out = append(out, pol)
				case *ast.Ident:
					if !fresh[origin[r.Name]] {
						err = fmt.Errorf("%s: returns %s of unknown origin %q", fd.Name.Name, r.Name, origin[r.Name])
						return
					}
					out = append(out, "fresh")
				case *ast.CallExpr:
					if !fresh[exprKey(r.Fun)] {
						err = fmt.Errorf("%s: returns the result of %s", fd.Name.Name, exprKey(r.Fun))
						return
					}
					out = append(out, "fresh")
				default:
					err = fmt.Errorf("%s: returned buffer %T not recognised", fd.Name.Name, r)
					return
				}
			case *ast.IfStmt:
				visit(x.Body.List)
				if b, ok := x.Else.(*ast.BlockStmt); ok {
					visit(b.List)
				} else if x.Else != nil {
					visit([]ast.Stmt{x.Else})
				}
			case *ast.BlockStmt:
				visit(x.List)
			case *ast.ForStmt, *ast.RangeStmt, *ast.SwitchStmt, *ast.TypeSwitchStmt, *ast.SelectStmt:
				has := false
				ast.Inspect(x, func(n ast.Node) bool {
					if _, ok := n.(*ast.ReturnStmt); ok {
						has = true
					}
					return true
				})
				if has {
					err = fmt.Errorf("%s: return inside %T not supported", fd.Name.Name, x)
					return
				}
			}
			if err != nil {
				return
			}
		}
	}
	visit(fd.Body.List)
	if err != nil {
		return nil, err
	}
	if len(out) == 0 {
		return nil, fmt.Errorf("%s: no successful return found", fd.Name.Name)
	}
	return out, nil
}

func xconnGenRetain() (string, error) {
	type fn struct{ dir, name, lean string }
	fns := []fn{
		{"bolt", "encodeRequest", "boltRequest"}, {"bolt", "encodeResponse", "boltResponse"},
		{"boltv2", "encodeRequest", "boltv2Request"}, {"boltv2", "encodeResponse", "boltv2Response"},
		{"dubbo", "encodeFrame", "dubboFrame"}, {"dubbothrift", "encodeFrame", "thriftFrame"},
		{"tars", "encodeRequest", "tarsRequest"}, {"tars", "encodeResponse", "tarsResponse"},
	}
	var srcs []string
	seen := map[string]bool{}
	for _, f := range fns {
		p := "pkg/protocol/xprotocol/" + f.dir + "/encoder.go"
		if !seen[p] {
			seen[p] = true
			srcs = append(srcs, p)
		}
	}
	srcs = append(srcs, "pkg/network/connection.go")
	var sb strings.Builder
	sb.WriteString(header("C01Retain", srcs...))
	sb.WriteString("/-- what a successful return of an encode function hands out: the buffer the decoded frame keeps pointing at with its\nreference count raised by one (`retain`), the same buffer as it is (`bare`), or a buffer made for this call (`fresh`) -/\ninductive Ret | retain | bare | fresh\n  deriving DecidableEq, Repr\n")
	for _, f := range fns {
		af, err := parse("pkg/protocol/xprotocol/" + f.dir + "/encoder.go")
		if err != nil {
			return "", err
		}
		fd := findFunc(af, "", f.name)
		if fd == nil {
			return "", fmt.Errorf("%s.%s not found", f.dir, f.name)
		}
		rs, err := xconnReturns(fd)
		if err != nil {
			return "", fmt.Errorf("%s: %v", f.dir, err)
		}
		var items []string
		for _, r := range rs {
			items = append(items, "."+r)
		}
		fmt.Fprintf(&sb, "/-- %s.%s: the successful returns in source order -/\ndef %s : List Ret := [%s]\n", f.dir, f.name, f.lean, strings.Join(items, ", "))
	}
	// connection.doWriteIo: every written buffer goes through buffer.PutIoBuffer
	cf, err := parse("pkg/network/connection.go")
	if err != nil {
		return "", err
	}
	dw := findFunc(cf, "connection", "doWriteIo")
	if dw == nil {
		return "", fmt.Errorf("connection.doWriteIo not found")
	}
	recycles := false
	for _, s := range dw.Body.List {
		r, ok := s.(*ast.RangeStmt)
		if !ok || exprKey(r.X) != "c.ioBuffers" || r.Value == nil {
			continue
		}
		v := exprKey(r.Value)
		ast.Inspect(r.Body, func(n ast.Node) bool {
			if c, ok := n.(*ast.CallExpr); ok && exprKey(c.Fun) == "buffer.PutIoBuffer" && len(c.Args) == 1 && exprKey(c.Args[0]) == v {
				recycles = true
			}
			return true
		})
	}
	fmt.Fprintf(&sb, "/-- connection.doWriteIo hands every buffer it has written to buffer.PutIoBuffer (reference count - 1, recycled at 0) -/\ndef writeRecycles : Bool := %s\n", xconnBool(recycles))
	sb.WriteString(footer("C01Retain"))
	return sb.String(), nil
}
