-- translation-unsupported ConfigCb: open -out/pkg/upstream/cluster/resource_manager.go: no such file or directory
namespace MosnVerif.Gen.ConfigCb
end MosnVerif.Gen.ConfigCb
