-- translation-unsupported WeightedCluster: open -out/pkg/router/base_rule.go: no such file or directory
namespace MosnVerif.Gen.WeightedCluster
end MosnVerif.Gen.WeightedCluster
