package main

import (
	"fmt"
	"go/ast"
	"go/token"
	"strings"
)

func init() { register("PubVal", genC05wPubVal) }

// genC05wPubVal regenerates WHAT every publish inside the cluster manager's update handlers publishes
// (cluster_manager.go; the handlers are found exactly as Gen/ClusterPub finds them, package-level handlers inlined):
//   - `X := NewHostSet(e)`      => .build <number of X> <src e>
//   - `c.UpdateHosts(X)`        => .publish (.var <number of X>)      (X built before in the same body)
//   - `c.UpdateHosts(NewHostSet(e))` => .publish (.fresh <src e>)
//   - `nc.UpdateHosts(oc.Snapshot().HostSet())` => .inherit
//   - any other UpdateHosts argument => .publish .unknown
//
// src e = what the host list handed to NewHostSet holds at that point of the handler:
//
//	.full    a slice variable whose filling statements (append / assignment from a filled slice) all lie before the call and
//	         not in a loop around the call — the complete list the handler computes;
//	.empty   nil, an empty literal, make(…), or a slice variable that is never filled;
//	.filling a slice variable that is still being filled (a filling statement behind the call or in a loop around it);
//	.unknown anything else (slice expressions, calls, parameters …).
func genC05wPubVal() (string, error) {
	const dir = "pkg/upstream/cluster"
	f, err := parse(dir + "/cluster_manager.go")
	if err != nil {
		return "", err
	}
	type hd struct{ lean, fn, callee string }
	var defs []string
	for _, h := range []hd{{"primaryHandlerV", "AddOrUpdatePrimaryCluster", "cm.UpdateCluster"},
		{"clusterAndHostHandlerV", "AddOrUpdateClusterAndHost", "cm.UpdateCluster"},
		{"newSimpleHostHandlerV", "UpdateClusterHosts", "cm.UpdateHosts"},
		{"appendSimpleHostHandlerV", "AppendClusterHosts", "cm.UpdateHosts"},
		{"removeHostsHandlerV", "RemoveClusterHosts", "cm.UpdateHosts"}} {
		fd := findFunc(f, "clusterManager", h.fn)
		if fd == nil {
			return "", fmt.Errorf("clusterManager.%s not found", h.fn)
		}
		body, err := c05pHandlerBody(f, fd, h.callee)
		if err != nil {
			return "", err
		}
		next := 0
		steps, err := c05wSteps(f, body, 0, &next)
		if err != nil {
			return "", fmt.Errorf("%s: %v", h.fn, err)
		}
		defs = append(defs, fmt.Sprintf("/-- what the handler `%s` passes to `%s` builds and publishes, in source order. -/\ndef %s : List HStep := [%s]\n", h.fn, h.callee, h.lean, strings.Join(steps, ", ")))
	}
	s := header("PubVal", dir+"/cluster_manager.go (the argument of every UpdateHosts publish inside the updaters' handlers)")
	s += "/-- what the list handed to `NewHostSet` holds (fixed text of the extractor). -/\n"
	s += "inductive Src where\n  | full | empty | filling | unknown\nderiving DecidableEq, Repr, Inhabited\n\n"
	s += "inductive Arg where\n  | var (x : Nat) | fresh (s : Src) | unknown\nderiving DecidableEq, Repr, Inhabited\n\n"
	s += "inductive HStep where\n  | build (x : Nat) (s : Src) | publish (a : Arg) | inherit\nderiving DecidableEq, Repr, Inhabited\n\n"
	s += strings.Join(defs, "")
	hw, hf, err := c05wHealthShape(dir)
	if err != nil {
		return "", err
	}
	s += "/-- `simpleHost.Health` is the single statement `return atomic.LoadUint64(sh.healthFlags) == 0`: health is read from the\nper-address flag word on every probe. -/\n"
	s += fmt.Sprintf("def healthIsWordRead : Bool := %v\n", hw)
	s += "/-- fields of `hostSet` besides `once`, `mux`, `allHosts` (a cached healthy subset would be one). -/\n"
	s += fmt.Sprintf("def hostSetExtraFields : Nat := %d\n", hf)
	s += footer("PubVal")
	return s, nil
}

// c05wPath returns the chain of nodes from root down to target (inclusive), nil when target is not below root.
func c05wPath(root, target ast.Node) []ast.Node {
	var stack, found []ast.Node
	ast.Inspect(root, func(n ast.Node) bool {
		if found != nil {
			return false
		}
		if n == nil {
			stack = stack[:len(stack)-1]
			return true
		}
		stack = append(stack, n)
		if n == target {
			found = append([]ast.Node(nil), stack...)
			return false
		}
		return true
	})
	return found
}

func c05wIsLoop(n ast.Node) bool {
	switch n.(type) {
	case *ast.ForStmt, *ast.RangeStmt, *ast.FuncLit:
		return true
	}
	return false
}

func c05wEmptyExpr(e ast.Expr) bool {
	switch x := e.(type) {
	case *ast.Ident:
		return x.Name == "nil"
	case *ast.CompositeLit:
		return len(x.Elts) == 0
	case *ast.CallExpr:
		return exprKey(x.Fun) == "make"
	}
	return false
}

// c05wConvArg: `T(x)` with one identifier argument and a type-like callee (pkg.Type or []T) => x.
func c05wConvArg(e ast.Expr) (*ast.Ident, bool) {
	c, ok := e.(*ast.CallExpr)
	if !ok || len(c.Args) != 1 {
		return nil, false
	}
	id, ok := c.Args[0].(*ast.Ident)
	if !ok {
		return nil, false
	}
	switch fn := c.Fun.(type) {
	case *ast.SelectorExpr:
		if p, ok := fn.X.(*ast.Ident); ok && p.Name == "types" && fn.Sel.Name == "SortedHosts" {
			return id, true
		}
	case *ast.ArrayType:
		return id, true
	}
	return nil, false
}

// c05wSrc classifies the list expression e handed to NewHostSet by the call `at` inside body.
func c05wSrc(body *ast.BlockStmt, e ast.Expr, at ast.Node, depth int) string {
	if depth > 3 {
		return ".unknown"
	}
	if c05wEmptyExpr(e) {
		return ".empty"
	}
	id, ok := e.(*ast.Ident)
	if !ok {
		if cid, ok := c05wConvArg(e); ok {
			return c05wSrc(body, cid, at, depth+1)
		}
		return ".unknown"
	}
	atPath := c05wPath(body, at)
	loops := map[ast.Node]bool{}
	for _, n := range atPath {
		if c05wIsLoop(n) {
			loops[n] = true
		}
	}
	writes, fills := 0, 0
	partial, unknown := false, false
	ast.Inspect(body, func(x ast.Node) bool {
		as, ok := x.(*ast.AssignStmt)
		if !ok {
			return true
		}
		for i, l := range as.Lhs {
			li, ok := l.(*ast.Ident)
			if !ok || li.Name != id.Name {
				continue
			}
			writes++
			if len(as.Rhs) != len(as.Lhs) {
				unknown = true
				continue
			}
			r := as.Rhs[i]
			if c05wEmptyExpr(r) {
				continue
			}
			fill := false
			if c, ok := r.(*ast.CallExpr); ok && exprKey(c.Fun) == "append" && len(c.Args) >= 1 {
				// append(L, …) / append(L[:i], L[i+1:]...) : (re)fills L
				fill = true
			} else if cid, ok := c05wConvArg(r); ok {
				switch c05wSrc(body, cid, as, depth+1) {
				case ".full":
					fill = true
				case ".empty":
				default:
					unknown = true
				}
			} else {
				unknown = true
			}
			if !fill {
				continue
			}
			fills++
			if as.Pos() > at.Pos() {
				partial = true
			}
			for _, n := range c05wPath(body, as) {
				if loops[n] {
					partial = true
				}
			}
		}
		return true
	})
	switch {
	case unknown || writes == 0:
		return ".unknown"
	case partial:
		return ".filling"
	case fills == 0:
		return ".empty"
	}
	return ".full"
}

func c05wSteps(f *ast.File, body *ast.BlockStmt, depth int, next *int) ([]string, error) {
	if depth > 4 {
		return nil, fmt.Errorf("handler nesting too deep")
	}
	var out []string
	var err error
	vars := map[string]int{}
	skip := map[ast.Node]bool{}
	ast.Inspect(body, func(x ast.Node) bool {
		if err != nil || x == nil || skip[x] {
			return false
		}
		switch n := x.(type) {
		case *ast.AssignStmt:
			if len(n.Lhs) == 1 && len(n.Rhs) == 1 {
				if id, ok := n.Lhs[0].(*ast.Ident); ok && isCallExpr(n.Rhs[0], "NewHostSet", 1) {
					if n.Tok == token.DEFINE || vars[id.Name] == 0 {
						*next++
						vars[id.Name] = *next
					}
					call := n.Rhs[0].(*ast.CallExpr)
					out = append(out, fmt.Sprintf(".build %d %s", vars[id.Name], c05wSrc(body, call.Args[0], call, 0)))
					skip[n.Rhs[0]] = true
				}
			}
		case *ast.CallExpr:
			key := exprKey(n.Fun)
			if strings.HasSuffix(key, ".UpdateHosts") && len(n.Args) == 1 {
				arg := n.Args[0]
				switch {
				case isCallExpr(arg, "NewHostSet", 1):
					call := arg.(*ast.CallExpr)
					out = append(out, fmt.Sprintf(".publish (.fresh %s)", c05wSrc(body, call.Args[0], call, 0)))
				case exprKey(arg) == "oc.Snapshot().HostSet()":
					out = append(out, ".inherit")
				default:
					if id, ok := arg.(*ast.Ident); ok && vars[id.Name] != 0 {
						out = append(out, fmt.Sprintf(".publish (.var %d)", vars[id.Name]))
					} else {
						out = append(out, ".publish .unknown")
					}
				}
				return false
			}
			if id, ok := n.Fun.(*ast.Ident); ok {
				if h := findFunc(f, "", id.Name); h != nil {
					sub, e := c05wSteps(f, h.Body, depth+1, next)
					if e != nil {
						err = e
						return false
					}
					out = append(out, sub...)
				}
			}
		}
		return true
	})
	for i, s := range out {
		if depth == 0 && strings.Contains(s, " ") {
			out[i] = "(" + s + ")"
		}
	}
	return out, err
}

// c05wHealthShape: is simpleHost.Health a direct read of the flag word, and how many fields does hostSet have besides the
// immutable list (a derived healthy-host list would need a rebuild-then-swap protocol of its own).
func c05wHealthShape(dir string) (bool, int, error) {
	hf, err := parse(dir + "/host.go")
	if err != nil {
		return false, 0, err
	}
	fd := findFunc(hf, "simpleHost", "Health")
	if fd == nil {
		return false, 0, fmt.Errorf("simpleHost.Health not found")
	}
	word := false
	if len(fd.Body.List) == 1 {
		if r, ok := fd.Body.List[0].(*ast.ReturnStmt); ok && len(r.Results) == 1 {
			recv := fd.Recv.List[0].Names[0].Name
			if b, ok := r.Results[0].(*ast.BinaryExpr); ok && b.Op == token.EQL && exprKey(b.Y) == "0" &&
				isCallExpr(b.X, "atomic.LoadUint64", 1) && exprKey(b.X.(*ast.CallExpr).Args[0]) == recv+".healthFlags" {
				word = true
			}
		}
	}
	sf, err := parse(dir + "/host_set.go")
	if err != nil {
		return false, 0, err
	}
	extra, found := 0, false
	ast.Inspect(sf, func(x ast.Node) bool {
		ts, ok := x.(*ast.TypeSpec)
		if !ok || ts.Name.Name != "hostSet" {
			return true
		}
		st, ok := ts.Type.(*ast.StructType)
		if !ok {
			return true
		}
		found = true
		for _, fl := range st.Fields.List {
			if len(fl.Names) == 0 {
				extra++
			}
			for _, nm := range fl.Names {
				if nm.Name != "once" && nm.Name != "mux" && nm.Name != "allHosts" {
					extra++
				}
			}
		}
		return false
	})
	if !found {
		return false, 0, fmt.Errorf("type hostSet not found")
	}
	return word, extra, nil
}
