package main

// C01 (round 6): the framing decision of the HTTP/1 streams.
//
//   C01HttpFraming — dropsTransferEncoding: under which condition (a Bool expression over `endStream`)
//                    clientStream.AppendHeaders removes `Transfer-Encoding` from the header that is sent: a
//                    `<headers>.Del("Transfer-Encoding")` on the working header map BEFORE it is copied with CopyTo, or on
//                    `s.request.Header` AFTER the copy; the enclosing if conditions are translated (c01r5M.cond).
//                    headSkipsBody: serverStream.endStream sets `s.response.SkipBody = true` under `s.request.Header.IsHead()`.
//
// All helpers carry the prefix c01f6.

import (
	"fmt"
	"go/ast"
	"go/token"
	"strconv"
	"strings"
)

func init() {
	register("C01HttpFraming", c01f6GenHttpFraming)
}

func c01f6IsTEKey(e ast.Expr) bool {
	switch x := e.(type) {
	case *ast.BasicLit:
		if x.Kind == token.STRING {
			s, err := strconv.Unquote(x.Value)
			return err == nil && strings.EqualFold(s, "Transfer-Encoding")
		}
	case *ast.SelectorExpr:
		return x.Sel.Name == "HeaderTransferEncoding"
	}
	return false
}

type c01f6W struct {
	g       *c01r5M
	copyPos token.Pos
	terms   []string
}

// delTE: is this call a removal of Transfer-Encoding that reaches the header that is sent?
func (w *c01f6W) delTE(call *ast.CallExpr) (bool, error) {
	sel, ok := call.Fun.(*ast.SelectorExpr)
	if !ok || (sel.Sel.Name != "Del" && sel.Sel.Name != "DelBytes") || len(call.Args) != 1 || !c01f6IsTEKey(call.Args[0]) {
		return false, nil
	}
	recv := w.g.exprString(sel.X)
	switch {
	case recv == w.g.hdr && call.Pos() < w.copyPos:
		return true, nil
	case recv == w.g.out && call.Pos() > w.copyPos:
		return true, nil
	case recv == w.g.hdr || recv == w.g.out:
		return false, nil // removed from a header that is overwritten / no longer copied: no effect on what is sent
	}
	return false, fmt.Errorf("Transfer-Encoding is deleted from %s: not supported", recv)
}

func (w *c01f6W) contains(n ast.Node) bool {
	found := false
	ast.Inspect(n, func(x ast.Node) bool {
		if c, ok := x.(*ast.CallExpr); ok {
			if sel, ok := c.Fun.(*ast.SelectorExpr); ok && (sel.Sel.Name == "Del" || sel.Sel.Name == "DelBytes") && len(c.Args) == 1 && c01f6IsTEKey(c.Args[0]) {
				found = true
			}
		}
		return !found
	})
	return found
}

func (w *c01f6W) walk(stmts []ast.Stmt, cond string) error {
	for _, st := range stmts {
		if !w.contains(st) {
			continue
		}
		switch x := st.(type) {
		case *ast.ExprStmt:
			call, ok := x.X.(*ast.CallExpr)
			if !ok {
				return fmt.Errorf("statement %s not supported", exprKey(x.X))
			}
			hit, err := w.delTE(call)
			if err != nil {
				return err
			}
			if hit {
				w.terms = append(w.terms, cond)
			}
		case *ast.IfStmt:
			if x.Init != nil {
				return fmt.Errorf("if with an init statement around the Transfer-Encoding removal")
			}
			c, err := w.g.cond(x.Cond, "\"\"")
			if err != nil {
				return err
			}
			if err := w.walk(x.Body.List, "("+cond+" && "+c+")"); err != nil {
				return err
			}
			switch e := x.Else.(type) {
			case nil:
			case *ast.BlockStmt:
				if err := w.walk(e.List, "("+cond+" && !"+c+")"); err != nil {
					return err
				}
			case *ast.IfStmt:
				if err := w.walk([]ast.Stmt{e}, "("+cond+" && !"+c+")"); err != nil {
					return err
				}
			}
		default:
			return fmt.Errorf("a Transfer-Encoding removal inside a %T is not supported", st)
		}
	}
	return nil
}

func c01f6GenHttpFraming() (string, error) {
	const src = "pkg/stream/http/stream.go"
	f, err := parse(src)
	if err != nil {
		return "", err
	}
	ah := findFunc(f, "clientStream", "AppendHeaders")
	if ah == nil || len(ah.Type.Params.List) != 3 || len(ah.Type.Params.List[2].Names) != 1 {
		return "", fmt.Errorf("clientStream.AppendHeaders(context, headersIn, endStream) not found")
	}
	hdr := ""
	for _, st := range ah.Body.List {
		if as, ok := st.(*ast.AssignStmt); ok && len(as.Lhs) == 1 && len(as.Rhs) == 1 {
			if ta, ok := as.Rhs[0].(*ast.TypeAssertExpr); ok {
				if id, ok := ta.X.(*ast.Ident); ok && id.Name == ah.Type.Params.List[1].Names[0].Name {
					if l, ok := as.Lhs[0].(*ast.Ident); ok {
						hdr = l.Name
					}
				}
			}
		}
	}
	if hdr == "" {
		return "", fmt.Errorf("clientStream.AppendHeaders: the type assertion of the header map was not found")
	}
	g := &c01r5M{hdr: hdr, out: "s.request.Header", bools: map[string]string{ah.Type.Params.List[2].Names[0].Name: "endStream"}, strs: map[string]string{}}
	w := &c01f6W{g: g}
	copies := 0
	ast.Inspect(ah.Body, func(n ast.Node) bool {
		if c, ok := n.(*ast.CallExpr); ok && g.callKind(c) == "copy" {
			copies++
			w.copyPos = c.Pos()
		}
		return true
	})
	if copies != 1 {
		return "", fmt.Errorf("clientStream.AppendHeaders: expected exactly one CopyTo of the header map to s.request.Header, found %d", copies)
	}
	if err := w.walk(ah.Body.List, "true"); err != nil {
		return "", fmt.Errorf("clientStream.AppendHeaders: %v", err)
	}
	expr := "false"
	if len(w.terms) > 0 {
		expr = strings.Join(w.terms, " || ")
	}
	// serverStream.endStream: if s.request.Header.IsHead() { s.response.SkipBody = true }
	es := findFunc(f, "serverStream", "endStream")
	if es == nil {
		return "", fmt.Errorf("serverStream.endStream not found")
	}
	headSkips := false
	for _, st := range es.Body.List {
		is, ok := st.(*ast.IfStmt)
		if !ok || is.Init != nil || exprKey(is.Cond) != "s.request.Header.IsHead()" {
			continue
		}
		for _, b := range is.Body.List {
			if as, ok := b.(*ast.AssignStmt); ok && len(as.Lhs) == 1 && len(as.Rhs) == 1 &&
				exprKey(as.Lhs[0]) == "s.response.SkipBody" && exprKey(as.Rhs[0]) == "true" {
				headSkips = true
			}
		}
	}
	s := "-- GENERATED by /verif/extract from " + src + " (clientStream.AppendHeaders, serverStream.endStream) — do not edit; regenerated on every check\n" +
		"namespace MosnVerif.Gen.C01HttpFraming\n"
	s += "/-- clientStream.AppendHeaders removes `Transfer-Encoding` from the header that is sent (Del on the working header map\n    before CopyTo, or on s.request.Header after it), as a condition over `endStream` -/\n"
	arg := "endStream"
	if !strings.Contains(expr, "endStream") {
		arg = "_endStream"
	}
	s += "def dropsTransferEncoding (" + arg + " : Bool) : Bool := " + expr + "\n"
	s += "/-- serverStream.endStream sets Response.SkipBody for a HEAD request -/\n"
	s += fmt.Sprintf("def headSkipsBody : Bool := %v\n", headSkips)
	s += footer("C01HttpFraming")
	return s, nil
}
