package main

import (
	"fmt"
	"go/ast"
	"go/token"
	"strings"
)

func init() {
	register("FlowWake", c18bGenFlowWake)
}

// ---------------------------------------------------------------------------------------------------------
// Gen.FlowWake: the wake-up discipline of HTTP/2 send-side flow control (pkg/module/http2/mhttp2.go).
//
// Senders park in `awaitFlowControl` on `cond.Wait()` while their available window is not positive and are resumed
// only by `cond.Broadcast()`.  For every site that can GROW a send window — processWindowUpdate (stream and
// connection window, one site for both: `fl` points at either) and the SETTINGS_INITIAL_WINDOW_SIZE delta — of the
// client and the server connection this job regenerates the CONDITION under which the site executes the Broadcast,
// as a Lean Bool over the window before the change (`old`), after it (`new`) and the increment / delta.
// A site whose shape leaves what is understood here (Broadcast outside the critical section of the window change,
// inside a loop / switch / defer, an early return between the change and the Broadcast, a guard over anything but
// the window, the increment and locals computed from them) is an error => translation-unsupported => broken tie.

type c18bBcast struct {
	top    int        // index of the enclosing top-level statement
	guards []ast.Expr // conditions on the path (already negated for else branches by wrapping)
	neg    []bool
}

// c18bIsBroadcast: `<x>.cond.Broadcast()` / `<x>.cond.Signal()` is NOT accepted as a broadcast (wakes one waiter only).
func c18bIsBroadcast(s ast.Stmt) bool {
	es, ok := s.(*ast.ExprStmt)
	if !ok {
		return false
	}
	c, ok := es.X.(*ast.CallExpr)
	return ok && strings.HasSuffix(exprKey(c.Fun), ".cond.Broadcast") && len(c.Args) == 0
}

func c18bMentionsBroadcast(n ast.Node) bool {
	found := false
	ast.Inspect(n, func(x ast.Node) bool {
		if c, ok := x.(*ast.CallExpr); ok && strings.HasSuffix(exprKey(c.Fun), ".cond.Broadcast") {
			found = true
		}
		return !found
	})
	return found
}

// c18bCollect walks statements, descending only through if/else and plain blocks.
func c18bCollect(stmts []ast.Stmt, top int, guards []ast.Expr, neg []bool, out *[]c18bBcast, isTop bool) error {
	for i, s := range stmts {
		t := top
		if isTop {
			t = i
		}
		switch x := s.(type) {
		case *ast.ExprStmt:
			if c18bIsBroadcast(s) {
				*out = append(*out, c18bBcast{top: t, guards: append([]ast.Expr(nil), guards...), neg: append([]bool(nil), neg...)})
			} else if c18bMentionsBroadcast(s) {
				return fmt.Errorf("Broadcast inside an expression")
			}
		case *ast.IfStmt:
			if x.Init != nil && c18bMentionsBroadcast(x) {
				return fmt.Errorf("Broadcast under an if with an init statement")
			}
			if !c18bMentionsBroadcast(x) {
				continue
			}
			if err := c18bCollect(x.Body.List, t, append(guards, x.Cond), append(neg, false), out, false); err != nil {
				return err
			}
			switch e := x.Else.(type) {
			case nil:
			case *ast.BlockStmt:
				if err := c18bCollect(e.List, t, append(guards, x.Cond), append(neg, true), out, false); err != nil {
					return err
				}
			case *ast.IfStmt:
				if err := c18bCollect([]ast.Stmt{e}, t, append(guards, x.Cond), append(neg, true), out, false); err != nil {
					return err
				}
			}
		case *ast.BlockStmt:
			if err := c18bCollect(x.List, t, guards, neg, out, false); err != nil {
				return err
			}
		default:
			if c18bMentionsBroadcast(s) {
				return fmt.Errorf("Broadcast inside %T (not straight-line / if)", s)
			}
		}
	}
	return nil
}

// c18bLocked: the statement list begins its critical section with `<x>.mu.Lock()` at index < upTo and defers the Unlock.
func c18bLocked(stmts []ast.Stmt, upTo int) bool {
	lock, unlock := false, false
	for i, s := range stmts {
		if i >= upTo {
			break
		}
		if es, ok := s.(*ast.ExprStmt); ok {
			if c, ok := es.X.(*ast.CallExpr); ok && strings.HasSuffix(exprKey(c.Fun), ".mu.Lock") {
				lock = true
			}
			if c, ok := es.X.(*ast.CallExpr); ok && strings.HasSuffix(exprKey(c.Fun), ".mu.Unlock") {
				return false // released before the window change
			}
		}
		if d, ok := s.(*ast.DeferStmt); ok && strings.HasSuffix(exprKey(d.Call.Fun), ".mu.Unlock") && lock {
			unlock = true
		}
	}
	return lock && unlock
}

func c18bConj(env func(top int) *Env, bs []c18bBcast) (string, error) {
	if len(bs) == 0 {
		return "false", nil
	}
	var alts []string
	for _, b := range bs {
		var cs []string
		for k, g := range b.guards {
			s, err := env(b.top).expr(g)
			if err != nil {
				return "", fmt.Errorf("Broadcast guard `%s`: %v", exprKey(g), err)
			}
			if b.neg[k] {
				s = "(!" + s + ")"
			}
			cs = append(cs, s)
		}
		if len(cs) == 0 {
			return "true", nil // one unconditional Broadcast suffices
		}
		alts = append(alts, "("+strings.Join(cs, " && ")+")")
	}
	return strings.Join(alts, " || "), nil
}

// c18bWuSite analyses `processWindowUpdate`: returns the Lean body of `fun old inc => Bool`.
func c18bWuSite(fd *ast.FuncDecl) (string, error) {
	name := fd.Name.Name
	body := fd.Body.List
	addIdx, flName, incKey := -1, "", ""
	for i, s := range body {
		ifs, ok := s.(*ast.IfStmt)
		if !ok || ifs.Init != nil {
			continue
		}
		u, ok := ifs.Cond.(*ast.UnaryExpr)
		if !ok || u.Op != token.NOT {
			continue
		}
		c, ok := u.X.(*ast.CallExpr)
		if !ok || !strings.HasSuffix(exprKey(c.Fun), ".add") || len(c.Args) != 1 {
			continue
		}
		if !endsInReturn(ifs.Body.List) {
			return "", fmt.Errorf("%s: a refused add must return", name)
		}
		if addIdx >= 0 {
			return "", fmt.Errorf("%s: more than one add site", name)
		}
		addIdx, flName = i, strings.TrimSuffix(exprKey(c.Fun), ".add")
		incKey = exprKey(c.Args[0])
	}
	if addIdx < 0 {
		return "", fmt.Errorf("%s: `if !fl.add(inc) { return … }` not found at top level", name)
	}
	if incKey != "int32(f.Increment)" {
		return "", fmt.Errorf("%s: the added amount is %s, expected int32(f.Increment)", name, incKey)
	}
	// fl is the connection's flow, or the stream's when a stream was named: one site for both windows
	connFlow, strmFlow := false, false
	for i := 0; i < addIdx; i++ {
		ast.Inspect(body[i], func(n ast.Node) bool {
			if a, ok := n.(*ast.AssignStmt); ok && len(a.Lhs) == 1 && len(a.Rhs) == 1 && exprKey(a.Lhs[0]) == flName {
				r := exprKey(a.Rhs[0])
				if a.Tok == token.DEFINE && strings.HasPrefix(r, "&") && strings.Count(r, ".") == 1 && strings.HasSuffix(r, ".flow") {
					connFlow = true
				} else if a.Tok == token.ASSIGN && strings.HasPrefix(r, "&") && strings.HasSuffix(r, ".flow") {
					strmFlow = true
				}
			}
			return true
		})
	}
	if !connFlow || !strmFlow {
		return "", fmt.Errorf("%s: expected `%s := &conn.flow` and `%s = &stream.flow`", name, flName, flName)
	}
	if !c18bLocked(body, addIdx) {
		return "", fmt.Errorf("%s: the window change is not inside `mu.Lock(); defer mu.Unlock()`", name)
	}
	var bs []c18bBcast
	if err := c18bCollect(body, 0, nil, nil, &bs, true); err != nil {
		return "", fmt.Errorf("%s: %v", name, err)
	}
	var kept []c18bBcast
	for _, b := range bs {
		if b.top == addIdx {
			continue // inside the refused-add branch: the connection is torn down
		}
		if !c18bLocked(body, b.top) {
			continue // before the lock is taken: not ordered with the window change
		}
		lo, hi := addIdx, b.top
		if lo > hi {
			lo, hi = hi, lo
		}
		for k := lo + 1; k < hi; k++ { // an early return between the change and the Broadcast
			if k == addIdx {
				continue
			}
			if _, ok := body[k].(*ast.ReturnStmt); ok {
				return "", fmt.Errorf("%s: return between the window change and the Broadcast", name)
			}
			if ifs, ok := body[k].(*ast.IfStmt); ok && c18bHasReturn(ifs) {
				return "", fmt.Errorf("%s: conditional return between the window change and the Broadcast", name)
			}
		}
		kept = append(kept, b)
	}
	// locals defined at top level by `x := <expr>`; what `fl.n` means depends on the side of the add
	locals := map[string]string{}
	mkEnv := func(top int) *Env {
		names := map[string]string{"f.Increment": "inc", flName + ".n": "old"}
		if top > addIdx {
			names[flName+".n"] = "new"
		}
		for k, v := range locals {
			names[k] = v
		}
		return &Env{Names: names, Calls: map[string]string{"int32": "wrap32", "int": "", "uint32": "", "int64": ""}, Arith: arith32}
	}
	for i, s := range body {
		a, ok := s.(*ast.AssignStmt)
		if !ok || a.Tok != token.DEFINE || len(a.Lhs) != 1 || len(a.Rhs) != 1 {
			continue
		}
		id, ok := a.Lhs[0].(*ast.Ident)
		if !ok || id.Name == flName {
			continue
		}
		if e, err := mkEnv(i).expr(a.Rhs[0]); err == nil {
			locals[id.Name] = e
		}
	}
	return c18bConj(mkEnv, kept)
}

func c18bHasReturn(n ast.Node) bool {
	found := false
	ast.Inspect(n, func(x ast.Node) bool {
		if _, ok := x.(*ast.ReturnStmt); ok {
			found = true
		}
		if _, ok := x.(*ast.FuncLit); ok {
			return false
		}
		return !found
	})
	return found
}

// c18bServerSettings: MServerConn.processSettings — `if err := f.ForeachSetting(sc.processSetting); err != nil { return err }`
// applies the settings (server.go processSettingInitialWindowSize adds the delta to every stream's window); the
// Broadcast that follows it in the same critical section serves every setting of the frame.
func c18bServerSettings(fd *ast.FuncDecl, srv *ast.File) (string, error) {
	body := fd.Body.List
	each := -1
	for i, s := range body {
		if ifs, ok := s.(*ast.IfStmt); ok && ifs.Init != nil {
			if a, ok := ifs.Init.(*ast.AssignStmt); ok && len(a.Rhs) == 1 && exprKey(a.Rhs[0]) == "f.ForeachSetting(sc.processSetting)" && endsInReturn(ifs.Body.List) {
				each = i
			}
		}
	}
	if each < 0 {
		return "", fmt.Errorf("MServerConn.processSettings: `if err := f.ForeachSetting(sc.processSetting); err != nil { return err }` not found")
	}
	if !c18bLocked(body, each) {
		return "", fmt.Errorf("MServerConn.processSettings: settings are not applied inside `mu.Lock(); defer mu.Unlock()`")
	}
	// the window change itself lives in server.go
	pw := findFunc(srv, "serverConn", "processSettingInitialWindowSize")
	ps := findFunc(srv, "serverConn", "processSetting")
	if pw == nil || ps == nil || len(callsTo(pw, "st.flow.add")) != 1 || len(callsTo(ps, "sc.processSettingInitialWindowSize")) != 1 {
		return "", fmt.Errorf("server.go: processSetting -> processSettingInitialWindowSize -> st.flow.add(growth) not found")
	}
	if c18bMentionsBroadcast(pw) || c18bMentionsBroadcast(ps) {
		return "", fmt.Errorf("server.go: unexpected Broadcast in processSetting*")
	}
	var bs []c18bBcast
	if err := c18bCollect(body, 0, nil, nil, &bs, true); err != nil {
		return "", fmt.Errorf("MServerConn.processSettings: %v", err)
	}
	var kept []c18bBcast
	for _, b := range bs {
		if b.top == each || !c18bLocked(body, b.top) {
			continue
		}
		if b.top < each {
			// before the settings are applied, but in the same critical section: the woken senders run after the unlock
			for k := b.top + 1; k < each; k++ {
				if c18bHasReturn(body[k]) && k != 0 {
					if ifs, ok := body[k].(*ast.IfStmt); !ok || exprKey(ifs.Cond) != "f.IsAck()" {
						return "", fmt.Errorf("MServerConn.processSettings: return between the Broadcast and the settings")
					}
				}
			}
		} else {
			for k := each + 1; k < b.top; k++ {
				if c18bHasReturn(body[k]) {
					return "", fmt.Errorf("MServerConn.processSettings: return between the settings and the Broadcast")
				}
			}
		}
		kept = append(kept, b)
	}
	return c18bConj(func(int) *Env { return &Env{Names: map[string]string{}, Calls: map[string]string{}} }, kept)
}

// c18bClientSettings: MClientConn.processSettings — the closure given to ForeachSetting; case SettingInitialWindowSize
// adds `delta` to every stream window.  Returns (condition of the Broadcast in that case as a Bool over `delta`,
// whether a Broadcast serves the other settings).
func c18bClientSettings(fd *ast.FuncDecl) (string, string, error) {
	body := fd.Body.List
	var lit *ast.FuncLit
	each := -1
	for i, s := range body {
		ast.Inspect(s, func(n ast.Node) bool {
			if c, ok := n.(*ast.CallExpr); ok && exprKey(c.Fun) == "f.ForeachSetting" && len(c.Args) == 1 {
				if l, ok := c.Args[0].(*ast.FuncLit); ok {
					lit, each = l, i
				}
			}
			return true
		})
	}
	if lit == nil {
		return "", "", fmt.Errorf("MClientConn.processSettings: f.ForeachSetting(func…) not found")
	}
	if !c18bLocked(body, each) {
		return "", "", fmt.Errorf("MClientConn.processSettings: settings are not applied inside `mu.Lock(); defer mu.Unlock()`")
	}
	var sw *ast.SwitchStmt
	for _, s := range lit.Body.List {
		if x, ok := s.(*ast.SwitchStmt); ok && exprKey(x.Tag) == "s.ID" {
			sw = x
		} else if c18bMentionsBroadcast(s) {
			return "", "", fmt.Errorf("MClientConn.processSettings: Broadcast in the closure outside the switch")
		}
	}
	if sw == nil {
		return "", "", fmt.Errorf("MClientConn.processSettings: switch s.ID not found")
	}
	initCond := ""
	for _, cl := range sw.Body.List {
		cc := cl.(*ast.CaseClause)
		isInit := len(cc.List) == 1 && exprKey(cc.List[0]) == "SettingInitialWindowSize"
		if !isInit {
			if c18bMentionsBroadcast(cc) {
				return "", "", fmt.Errorf("MClientConn.processSettings: Broadcast in another case of the switch")
			}
			continue
		}
		// delta := int32(s.Val) - int32(cc.initialWindowSize); for … { cs.flow.add(delta) }
		deltaName, loop := "", -1
		for i, s := range cc.Body {
			if a, ok := s.(*ast.AssignStmt); ok && a.Tok == token.DEFINE && len(a.Lhs) == 1 && exprKey(a.Rhs[0]) == "int32(s.Val)-int32(cc.initialWindowSize)" {
				deltaName = exprKey(a.Lhs[0])
			}
			if a, ok := s.(*ast.AssignStmt); ok && a.Tok == token.DEFINE && len(a.Lhs) == 1 {
				if b, ok := a.Rhs[0].(*ast.BinaryExpr); ok && b.Op == token.SUB && exprKey(b.X) == "int32(s.Val)" && exprKey(b.Y) == "int32(cc.initialWindowSize)" {
					deltaName = exprKey(a.Lhs[0])
				}
			}
			if r, ok := s.(*ast.RangeStmt); ok && exprKey(r.X) == "cc.streams" && len(callsTo(r, "cs.flow.add")) == 1 {
				if c18bMentionsBroadcast(r) {
					return "", "", fmt.Errorf("MClientConn.processSettings: Broadcast inside the stream loop")
				}
				loop = i
			}
		}
		if deltaName == "" || loop < 0 {
			return "", "", fmt.Errorf("MClientConn.processSettings: `delta := int32(s.Val) - int32(cc.initialWindowSize)` / `for … cc.streams { cs.flow.add(delta) }` not found")
		}
		var bs []c18bBcast
		if err := c18bCollect(cc.Body, 0, nil, nil, &bs, true); err != nil {
			return "", "", fmt.Errorf("MClientConn.processSettings: %v", err)
		}
		for _, b := range bs {
			lo, hi := loop, b.top
			if lo > hi {
				lo, hi = hi, lo
			}
			for k := lo + 1; k < hi; k++ {
				if c18bHasReturn(cc.Body[k]) {
					return "", "", fmt.Errorf("MClientConn.processSettings: return between the window change and the Broadcast")
				}
			}
		}
		env := func(int) *Env {
			return &Env{Names: map[string]string{deltaName: "delta"}, Calls: map[string]string{"int32": "wrap32", "int": ""}, Arith: arith32}
		}
		c, err := c18bConj(env, bs)
		if err != nil {
			return "", "", err
		}
		initCond = c
	}
	if initCond == "" {
		return "", "", fmt.Errorf("MClientConn.processSettings: case SettingInitialWindowSize not found")
	}
	// a Broadcast at the top level of processSettings (same critical section) would serve every setting
	var bs []c18bBcast
	var rest []ast.Stmt
	for i, s := range body {
		if i != each {
			rest = append(rest, s)
		}
	}
	if err := c18bCollect(rest, 0, nil, nil, &bs, true); err != nil {
		return "", "", fmt.Errorf("MClientConn.processSettings: %v", err)
	}
	other := "false"
	for _, b := range bs {
		if len(b.guards) == 0 {
			other = "true"
		}
	}
	return initCond, other, nil
}

// c18bAwaitShape checks the parking discipline of awaitFlowControl: under `mu.Lock(); defer mu.Unlock()`, a `for`
// without condition whose body ends with `<take-if>; <x>.cond.Wait()`.
func c18bAwaitShape(fd *ast.FuncDecl) error {
	name := fd.Name.Name
	var loop *ast.ForStmt
	idx := -1
	for i, s := range fd.Body.List {
		if f, ok := s.(*ast.ForStmt); ok && f.Cond == nil && f.Init == nil && f.Post == nil {
			loop, idx = f, i
		}
	}
	if loop == nil {
		return fmt.Errorf("%s: `for { … }` not found", name)
	}
	if !c18bLocked(fd.Body.List, idx) {
		return fmt.Errorf("%s: the wait loop is not inside `mu.Lock(); defer mu.Unlock()`", name)
	}
	l := loop.Body.List
	if len(l) < 2 {
		return fmt.Errorf("%s: wait loop too short", name)
	}
	es, ok := l[len(l)-1].(*ast.ExprStmt)
	if !ok {
		return fmt.Errorf("%s: the wait loop does not end in cond.Wait()", name)
	}
	c, ok := es.X.(*ast.CallExpr)
	if !ok || !strings.HasSuffix(exprKey(c.Fun), ".cond.Wait") {
		return fmt.Errorf("%s: the wait loop does not end in cond.Wait()", name)
	}
	ifs, ok := l[len(l)-2].(*ast.IfStmt)
	if !ok || ifs.Init == nil || !endsInReturn(ifs.Body.List) || ifs.Else != nil {
		return fmt.Errorf("%s: cond.Wait() is not directly preceded by the `if a := flow.available(); a > 0 { …; return }` test", name)
	}
	if a, ok := ifs.Init.(*ast.AssignStmt); !ok || len(a.Rhs) != 1 || !strings.HasSuffix(exprKey(a.Rhs[0]), ".flow.available()") {
		return fmt.Errorf("%s: cond.Wait() is not directly preceded by the available-window test", name)
	}
	return nil
}

func c18bGenFlowWake() (string, error) {
	const msrc = "pkg/module/http2/mhttp2.go"
	const ssrc = "pkg/module/http2/server.go"
	mf, err := parse(msrc)
	if err != nil {
		return "", err
	}
	sf, err := parse(ssrc)
	if err != nil {
		return "", err
	}
	s := "import MosnVerif.Gen.Flow\nset_option linter.unusedVariables false\n" + header("FlowWake", msrc+" (processWindowUpdate ×2, processSettings ×2, awaitFlowControl ×2)", ssrc+" (processSettingInitialWindowSize)")
	s += "open MosnVerif.Gen.Flow\n"
	for _, p := range []struct{ recv, fn string }{{"MClientStream", "awaitFlowControl"}, {"MStream", "awaitFlowControl"}} {
		fd := findFunc(mf, p.recv, p.fn)
		if fd == nil {
			return "", fmt.Errorf("%s.%s not found", p.recv, p.fn)
		}
		if err := c18bAwaitShape(fd); err != nil {
			return "", err
		}
	}
	s += "/-- both awaitFlowControl loops: under the connection mutex, `cond.Wait()` directly follows the failed `available() > 0` test (a sender parks exactly when it can take nothing, and is resumed only by a Broadcast) -/\ndef sendersParkOnWait : Bool := true\n"
	for _, p := range []struct{ recv, prefix string }{{"MClientConn", "client"}, {"MServerConn", "server"}} {
		fd := findFunc(mf, p.recv, "processWindowUpdate")
		if fd == nil {
			return "", fmt.Errorf("%s.processWindowUpdate not found", p.recv)
		}
		c, err := c18bWuSite(fd)
		if err != nil {
			return "", err
		}
		s += "/-- " + p.recv + ".processWindowUpdate (stream and connection window, `fl` points at either): is `cond.Broadcast()` executed in the critical section of a successful `fl.add(int32(f.Increment))`?  `old` = fl.n before the add -/\n"
		s += "def " + p.prefix + "WuBroadcast (old inc : Int) : Bool :=\n"
		if strings.Contains(c, "new") {
			s += "  let new := wrap32 (old + wrap32 inc)\n"
		}
		s += "  " + c + "\n"
	}
	fd := findFunc(mf, "MServerConn", "processSettings")
	if fd == nil {
		return "", fmt.Errorf("MServerConn.processSettings not found")
	}
	c, err := c18bServerSettings(fd, sf)
	if err != nil {
		return "", err
	}
	s += "/-- MServerConn.processSettings: is `cond.Broadcast()` executed in the critical section in which a non-ACK SETTINGS frame was applied without error (SETTINGS_INITIAL_WINDOW_SIZE adds the delta to every stream window)? -/\n"
	s += "def serverSettingsBroadcast : Bool := " + c + "\n"
	fd = findFunc(mf, "MClientConn", "processSettings")
	if fd == nil {
		return "", fmt.Errorf("MClientConn.processSettings not found")
	}
	ci, co, err := c18bClientSettings(fd)
	if err != nil {
		return "", err
	}
	s += "/-- MClientConn.processSettings, case SettingInitialWindowSize: is `cond.Broadcast()` executed after `delta` was added to every stream window? -/\n"
	s += "def clientSettingsInitBroadcast (delta : Int) : Bool := " + ci + "\n"
	s += "/-- MClientConn.processSettings: does a Broadcast serve the other settings of the frame? -/\n"
	s += "def clientSettingsOtherBroadcast : Bool := " + co + "\n"
	s += footer("FlowWake")
	return s, nil
}
