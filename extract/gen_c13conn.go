package main

// C13 (c13r8, no downgrade): regenerates Gen/TlsConnect.lean from
//   - pkg/network/connection.go  clientConnection.tryConnect   -> tryConnect   (dial, TLS manager, the guard of the plaintext re-dial)
//   - pkg/mtls/tls_context_manager.go clientContextManager.Conn / Fallback -> clientMngConn / mngFallback
//   - pkg/server/handler.go      activeListener.OnAccept: what is served after al.tlsMng.Conn(rawc) -> acceptDecision
// The conditions are rendered as boolean expressions over NAMED predicates of the handshake error
// (err == io.EOF -> errIsEOF, `ne, ok := err.(net.Error)` -> errIsNetError, ne.Timeout() / os.IsTimeout(err) -> errIsTimeout),
// the manager's fallback flag and the nil tests; any other sub-expression / statement shape is an error =>
// translation-unsupported => broken tie. Helper names carry the prefix c13k.

import (
	"fmt"
	"go/ast"
	"go/token"
	"strings"
)

func init() { register("TlsConnect", genC13kConnect) }

type c13kTry struct {
	dials     int  // number of cc.connect() calls seen so far
	afterConn bool // the tlsMng.Conn assignment was seen: `err` is the handshake error
	seenConn  int
}

func c13kAssign(l, r string) ast.Stmt {
	return &ast.AssignStmt{Tok: token.ASSIGN, Lhs: []ast.Expr{ident(l)}, Rhs: []ast.Expr{ident(r)}}
}

func (t *c13kTry) dial() []ast.Stmt {
	t.dials++
	k := fmt.Sprint(t.dials)
	return []ast.Stmt{
		c13kAssign("event", "__dialEvent"+k),
		c13kAssign("failed", "__dialFailed"+k),
		c13kAssign("conn", "__dialConn"+k),
		&ast.IncDecStmt{X: ident("dials"), Tok: token.INC},
	}
}

// cond rewrites a condition of tryConnect into named predicates; netErr / netOK are the names bound by an if-init
// `netErr, netOK := err.(net.Error)` ("" when absent).
func (t *c13kTry) cond(e ast.Expr, netErr, netOK string) (ast.Expr, error) {
	var bad error
	errPred := func(name string) ast.Expr {
		if !t.afterConn {
			bad = fmt.Errorf("tryConnect: predicate %s on an error that is not the handshake error", name)
		}
		return ident(name)
	}
	not := func(x ast.Expr) ast.Expr { return &ast.UnaryExpr{Op: token.NOT, X: x} }
	r := rewriteExpr(e, func(e ast.Expr) ast.Expr {
		switch x := e.(type) {
		case *ast.BinaryExpr:
			if x.Op != token.EQL && x.Op != token.NEQ {
				return e
			}
			l, rr := exprKey(x.X), exprKey(x.Y)
			var p ast.Expr
			switch {
			case l == "err" && rr == "nil":
				p = not(ident("failed")) // err == nil
			case l == "cc.tlsMng" && rr == "nil":
				p = not(ident("hasMng"))
			case l == "err" && rr == "io.EOF":
				p = errPred("errIsEOF")
			default:
				return e
			}
			if x.Op == token.NEQ {
				if u, ok := p.(*ast.UnaryExpr); ok {
					return u.X
				}
				return not(p)
			}
			return p
		case *ast.Ident:
			if netOK != "" && x.Name == netOK {
				return errPred("errIsNetError")
			}
		case *ast.CallExpr:
			switch {
			case isCall(e, "cc.tlsMng.Fallback"):
				return ident("fallback")
			case netErr != "" && isCall(e, netErr+".Timeout"):
				return errPred("errIsTimeout")
			case isCall(e, "os.IsTimeout", "err"):
				return errPred("errIsTimeout")
			case isCall(e, "errors.Is", "err", "io.EOF"):
				return errPred("errIsEOF")
			}
		}
		return e
	})
	return r, bad
}

func (t *c13kTry) stmts(l []ast.Stmt) ([]ast.Stmt, error) {
	var out []ast.Stmt
	for _, s := range l {
		switch x := s.(type) {
		case *ast.AssignStmt:
			switch {
			case len(x.Lhs) == 2 && len(x.Rhs) == 1 && x.Tok == token.ASSIGN &&
				exprKey(x.Lhs[0]) == "event" && exprKey(x.Lhs[1]) == "err" && isCall(x.Rhs[0], "cc.connect"):
				out = append(out, t.dial()...)
			case len(x.Lhs) == 2 && len(x.Rhs) == 1 && x.Tok == token.ASSIGN &&
				exprKey(x.Lhs[0]) == "cc.rawConnection" && exprKey(x.Lhs[1]) == "err" && isCall(x.Rhs[0], "cc.tlsMng.Conn", "cc.rawConnection"):
				t.afterConn = true
				t.seenConn++
				out = append(out, c13kAssign("conn", "__mngConn"), c13kAssign("failed", "__mngFailed"))
			case len(x.Lhs) == 1 && len(x.Rhs) == 1 && x.Tok == token.ASSIGN && exprKey(x.Lhs[0]) == "event":
				out = append(out, x)
			default:
				return nil, fmt.Errorf("tryConnect: unexpected assignment %s", exprKey(x.Lhs[0]))
			}
		case *ast.ReturnStmt:
			switch {
			case len(x.Results) == 0:
				out = append(out, x)
			case len(x.Results) == 1 && isCall(x.Results[0], "cc.connect"):
				out = append(out, t.dial()...)
				out = append(out, &ast.ReturnStmt{})
			default:
				return nil, fmt.Errorf("tryConnect: unexpected return")
			}
		case *ast.IfStmt:
			netErr, netOK := "", ""
			if x.Init != nil {
				as, ok := x.Init.(*ast.AssignStmt)
				if !ok || as.Tok != token.DEFINE || len(as.Lhs) != 2 || len(as.Rhs) != 1 {
					return nil, fmt.Errorf("tryConnect: unexpected if-init")
				}
				ta, ok := as.Rhs[0].(*ast.TypeAssertExpr)
				if !ok || exprKey(ta.X) != "err" || exprKey(ta.Type) != "net.Error" {
					return nil, fmt.Errorf("tryConnect: if-init is not err.(net.Error)")
				}
				netErr, netOK = exprKey(as.Lhs[0]), exprKey(as.Lhs[1])
			}
			c, err := t.cond(x.Cond, netErr, netOK)
			if err != nil {
				return nil, err
			}
			n := &ast.IfStmt{Cond: c}
			b, err := t.stmts(x.Body.List)
			if err != nil {
				return nil, err
			}
			n.Body = &ast.BlockStmt{List: b}
			switch eb := x.Else.(type) {
			case nil:
			case *ast.BlockStmt:
				b, err := t.stmts(eb.List)
				if err != nil {
					return nil, err
				}
				n.Else = &ast.BlockStmt{List: b}
			case *ast.IfStmt:
				b, err := t.stmts([]ast.Stmt{eb})
				if err != nil {
					return nil, err
				}
				n.Else = b[0]
			}
			out = append(out, n)
		case *ast.ExprStmt:
			c, ok := x.X.(*ast.CallExpr)
			if !ok || !strings.HasPrefix(exprKey(c.Fun), "log.DefaultLogger.") {
				return nil, fmt.Errorf("tryConnect: unexpected statement %s", exprKey(x.X))
			}
		default:
			return nil, fmt.Errorf("tryConnect: unexpected statement %T", s)
		}
	}
	return out, nil
}

func genC13kConnect() (string, error) {
	const (
		connSrc = "pkg/network/connection.go"
		mngSrc  = "pkg/mtls/tls_context_manager.go"
		hdlSrc  = "pkg/server/handler.go"
	)
	s := header("TlsConnect", connSrc, mngSrc, hdlSrc)
	s += `/-- the api.ConnectionEvent tryConnect reports: dialError stands for whatever cc.connect() chose for a failed dial
(RemoteClose / ConnectTimeout / ConnectFailed) -/
inductive Event where
  | init | connected | connectFailed | dialError
  deriving DecidableEq, Repr
/-- what cc.rawConnection is: nothing, a plaintext TCP connection, a TLS connection -/
inductive Transport where
  | none | plain | tls
  deriving DecidableEq, Repr
/-- result of tryConnect: the event, err ≠ nil, cc.rawConnection, the number of dials (cc.connect() calls) -/
structure Try where
  event : Event
  failed : Bool
  conn : Transport
  dials : Nat
  deriving DecidableEq, Repr
/-- cc.connect(): a dial that succeeds reports Connected and leaves a plaintext connection -/
def dialEvent (ok : Bool) : Event := if ok then .connected else .dialError
def dialConn (ok : Bool) : Transport := if ok then .plain else .none
`

	// ---- 1. clientConnection.tryConnect
	{
		f, err := parse(connSrc)
		if err != nil {
			return "", err
		}
		fd := findFunc(f, "clientConnection", "tryConnect")
		if fd == nil {
			return "", fmt.Errorf("tryConnect not found")
		}
		if fd.Type.Results == nil || len(fd.Type.Results.List) != 2 ||
			len(fd.Type.Results.List[0].Names) != 1 || fd.Type.Results.List[0].Names[0].Name != "event" ||
			len(fd.Type.Results.List[1].Names) != 1 || fd.Type.Results.List[1].Names[0].Name != "err" {
			return "", fmt.Errorf("tryConnect: results are not (event, err)")
		}
		t := &c13kTry{}
		body, err := t.stmts(fd.Body.List)
		if err != nil {
			return "", err
		}
		if t.dials > 2 || t.seenConn != 1 {
			return "", fmt.Errorf("tryConnect: %d dials, %d tlsMng.Conn calls", t.dials, t.seenConn)
		}
		env := &Env{Names: map[string]string{
			"event": "event", "failed": "failed", "conn": "conn", "dials": "dials",
			"hasMng": "hasMng", "fallback": "fallback",
			"errIsEOF": "errIsEOF", "errIsNetError": "errIsNetError", "errIsTimeout": "errIsTimeout",
			"__dialEvent1": "(dialEvent dial1)", "__dialFailed1": "(!dial1)", "__dialConn1": "(dialConn dial1)",
			"__dialEvent2": "(dialEvent dial2)", "__dialFailed2": "(!dial2)", "__dialConn2": "(dialConn dial2)",
			"__mngConn": "mngConn", "__mngFailed": "mngFailed",
			"api.ConnectFailed": "Event.connectFailed", "api.Connected": "Event.connected",
		}, Calls: map[string]string{},
			Ret: func(rs []string) string {
				if len(rs) != 0 {
					return "ERR_return"
				}
				return "(⟨event, failed, conn, dials⟩ : Try)"
			}, Fall: "ERR_falls_off"}
		lb, err := env.block(body, "  ")
		if err != nil {
			return "", fmt.Errorf("tryConnect: %v", err)
		}
		s += "/-- `clientConnection.tryConnect`: dial1 / dial2 = the first / second cc.connect() succeeds; hasMng = cc.tlsMng ≠ nil;\n"
		s += "(mngConn, mngFailed) = what cc.tlsMng.Conn returned; errIs* = named predicates of the handshake error;\n"
		s += "fallback = cc.tlsMng.Fallback() -/\n"
		s += "def tryConnect (dial1 hasMng : Bool) (mngConn : Transport) (mngFailed errIsEOF errIsNetError errIsTimeout fallback dial2 : Bool) : Try :=\n"
		s += "  let event := Event.init\n  let failed := false\n  let conn := Transport.none\n  let dials : Nat := 0\n  " + lb + "\n"
	}

	// ---- 2. clientContextManager.Conn / Fallback
	{
		f, err := parse(mngSrc)
		if err != nil {
			return "", err
		}
		fd := findFunc(f, "clientContextManager", "Conn")
		if fd == nil {
			return "", fmt.Errorf("clientContextManager.Conn not found")
		}
		if len(fd.Type.Params.List) != 1 || len(fd.Type.Params.List[0].Names) != 1 {
			return "", fmt.Errorf("clientContextManager.Conn: unexpected parameters")
		}
		cn := fd.Type.Params.List[0].Names[0].Name
		tlsName := ""
		var cs []ast.Stmt
		for _, st := range fd.Body.List {
			switch x := st.(type) {
			case *ast.IfStmt:
				if x.Init != nil {
					as, ok := x.Init.(*ast.AssignStmt)
					if !ok || len(as.Rhs) != 1 {
						return "", fmt.Errorf("clientContextManager.Conn: unexpected if-init")
					}
					if ta, ok := as.Rhs[0].(*ast.TypeAssertExpr); ok && len(as.Lhs) == 2 && exprKey(ta.X) == cn && exprKey(ta.Type) == "*net.TCPConn" {
						okName := exprKey(as.Lhs[1])
						cond := rewriteExpr(x.Cond, func(e ast.Expr) ast.Expr {
							if id, ok := e.(*ast.Ident); ok && id.Name == okName {
								return ident("isTCP")
							}
							return e
						})
						cs = append(cs, &ast.IfStmt{Cond: cond, Body: x.Body, Else: x.Else})
						continue
					}
					if len(as.Lhs) == 1 && exprKey(as.Lhs[0]) == "err" && tlsName != "" && isCall(as.Rhs[0], tlsName+".Handshake") {
						if b, ok := x.Cond.(*ast.BinaryExpr); ok && b.Op == token.NEQ && exprKey(b.X) == "err" && exprKey(b.Y) == "nil" {
							cs = append(cs, &ast.IfStmt{Cond: &ast.UnaryExpr{Op: token.NOT, X: ident("hsOk")}, Body: x.Body, Else: x.Else})
							continue
						}
					}
					return "", fmt.Errorf("clientContextManager.Conn: unexpected if-init")
				}
				cs = append(cs, x)
			case *ast.AssignStmt:
				if len(x.Lhs) == 1 && len(x.Rhs) == 1 && x.Tok == token.DEFINE {
					if c, ok := x.Rhs[0].(*ast.CallExpr); ok && exprKey(c.Fun) == "tls.Client" && len(c.Args) == 2 && exprKey(c.Args[0]) == cn &&
						strings.HasPrefix(exprKey(c.Args[1]), "mng.provider.GetTLSConfigContext(true)") {
						tlsName = exprKey(x.Lhs[0])
						continue
					}
				}
				return "", fmt.Errorf("clientContextManager.Conn: unexpected assignment")
			case *ast.ExprStmt:
				if tlsName == "" || !isCall(x.X, tlsName+".SetReadDeadline", "time.Now().Add(handshakeTimeout)") {
					return "", fmt.Errorf("clientContextManager.Conn: unexpected statement %s", exprKey(x.X))
				}
			case *ast.ReturnStmt:
				cs = append(cs, x)
			default:
				return "", fmt.Errorf("clientContextManager.Conn: unexpected statement %T", st)
			}
		}
		var rerr error
		cs, err = rewriteStmts(cs, func(e ast.Expr) ast.Expr {
			if u, ok := e.(*ast.UnaryExpr); ok && u.Op == token.AND {
				if cl, ok := u.X.(*ast.CompositeLit); ok && exprKey(cl.Type) == "TLSConn" && len(cl.Elts) == 1 && exprKey(cl.Elts[0]) == tlsName && tlsName != "" {
					return ident("__tls")
				}
				rerr = fmt.Errorf("clientContextManager.Conn: unexpected returned value")
			}
			return e
		}, nil)
		if err != nil {
			return "", err
		}
		if rerr != nil {
			return "", rerr
		}
		env := &Env{Names: map[string]string{
			"isTCP": "isTCP", "mng.Enabled()": "enabled", "hsOk": "hsOk", "nil": "none", "err": "err",
			cn: "Transport.plain", "__tls": "Transport.tls",
		}, Calls: map[string]string{}, SkipCalls: map[string]bool{cn + ".Close": true},
			Ret: func(rs []string) string {
				switch {
				case len(rs) == 2 && rs[1] == "none":
					return "(" + rs[0] + ", false)"
				case len(rs) == 2 && rs[0] == "none" && rs[1] == "err":
					return "(Transport.none, true)"
				}
				return "ERR_return"
			}, Fall: "ERR_falls_off"}
		cb, err := env.block(cs, "  ")
		if err != nil {
			return "", fmt.Errorf("clientContextManager.Conn: %v", err)
		}
		s += "/-- `clientContextManager.Conn`: (the connection handed back, err ≠ nil); isTCP = the dialled connection is a\n*net.TCPConn, enabled = mng.Enabled(), hsOk = tlsconn.Handshake() returned nil -/\n"
		s += "def clientMngConn (isTCP enabled hsOk : Bool) : Transport × Bool :=\n  " + cb + "\n"

		ff := findFunc(f, "clientContextManager", "Fallback")
		if ff == nil || len(ff.Body.List) != 1 {
			return "", fmt.Errorf("clientContextManager.Fallback not found / unexpected shape")
		}
		rs, ok := ff.Body.List[0].(*ast.ReturnStmt)
		if !ok || len(rs.Results) != 1 {
			return "", fmt.Errorf("clientContextManager.Fallback: unexpected shape")
		}
		envF := &Env{Names: map[string]string{"mng.fallback": "cfgFallback"}, Calls: map[string]string{}}
		fb, err := envF.expr(rs.Results[0])
		if err != nil {
			return "", fmt.Errorf("clientContextManager.Fallback: %v", err)
		}
		// NewTLSClientContextManager: `fallback: cfg.Fallback` of the manager literal
		fn := findFunc(f, "", "NewTLSClientContextManager")
		if fn == nil {
			return "", fmt.Errorf("NewTLSClientContextManager not found")
		}
		src := ""
		ast.Inspect(fn, func(n ast.Node) bool {
			if cl, ok := n.(*ast.CompositeLit); ok && exprKey(cl.Type) == "clientContextManager" {
				for _, e := range cl.Elts {
					if kv, ok := e.(*ast.KeyValueExpr); ok && exprKey(kv.Key) == "fallback" {
						src = exprKey(kv.Value)
					}
				}
			}
			return true
		})
		if src != "cfg.Fallback" {
			return "", fmt.Errorf("NewTLSClientContextManager: fallback field is initialised from %q", src)
		}
		s += "/-- `clientContextManager.Fallback()` over the manager built by NewTLSClientContextManager (`fallback: cfg.Fallback`) -/\n"
		s += "def mngFallback (cfgFallback : Bool) : Bool := " + fb + "\n"
	}

	// ---- 3. activeListener.OnAccept: the block around al.tlsMng.Conn(rawc)
	{
		f, err := parse(hdlSrc)
		if err != nil {
			return "", err
		}
		fd := findFunc(f, "activeListener", "OnAccept")
		if fd == nil {
			return "", fmt.Errorf("OnAccept not found")
		}
		var blk *ast.IfStmt
		n := 0
		ast.Inspect(fd, func(nd ast.Node) bool {
			if is, ok := nd.(*ast.IfStmt); ok && is.Init == nil {
				for _, st := range is.Body.List {
					if as, ok := st.(*ast.AssignStmt); ok && len(as.Rhs) == 1 && isCall(as.Rhs[0], "al.tlsMng.Conn", "rawc") {
						blk = is
						n++
					}
				}
			}
			return true
		})
		if blk == nil || n != 1 || blk.Else != nil {
			return "", fmt.Errorf("OnAccept: the block calling al.tlsMng.Conn(rawc) not found / not unique")
		}
		cond := rewriteExpr(blk.Cond, func(e ast.Expr) ast.Expr {
			if b, ok := e.(*ast.BinaryExpr); ok && (b.Op == token.EQL || b.Op == token.NEQ) && exprKey(b.Y) == "nil" {
				var p ast.Expr
				switch exprKey(b.X) {
				case "al.tlsMng":
					p = ident("hasMng")
				case "ch":
					p = ident("transferred")
				default:
					return e
				}
				if b.Op == token.EQL {
					return &ast.UnaryExpr{Op: token.NOT, X: p}
				}
				return p
			}
			return e
		})
		l := blk.Body.List
		if len(l) != 3 {
			return "", fmt.Errorf("OnAccept: TLS block has %d statements", len(l))
		}
		a0, ok0 := l[0].(*ast.AssignStmt)
		i1, ok1 := l[1].(*ast.IfStmt)
		a2, ok2 := l[2].(*ast.AssignStmt)
		if !ok0 || !ok1 || !ok2 || a0.Tok != token.DEFINE || len(a0.Lhs) != 2 || exprKey(a0.Lhs[1]) != "err" ||
			len(a2.Lhs) != 1 || exprKey(a2.Lhs[0]) != "rawc" || len(a2.Rhs) != 1 || exprKey(a2.Rhs[0]) != exprKey(a0.Lhs[0]) || a2.Tok != token.ASSIGN {
			return "", fmt.Errorf("OnAccept: TLS block is not `conn, err := …; if err != nil {…}; rawc = conn`")
		}
		b1, okb := i1.Cond.(*ast.BinaryExpr)
		if !okb || i1.Init != nil || i1.Else != nil || b1.Op != token.NEQ || exprKey(b1.X) != "err" || exprKey(b1.Y) != "nil" {
			return "", fmt.Errorf("OnAccept: error test of the TLS block")
		}
		closes, returns := false, false
		for _, st := range i1.Body.List {
			switch x := st.(type) {
			case *ast.IfStmt: // logging
			case *ast.ExprStmt:
				if isCall(x.X, "rawc.Close") {
					closes = true
				} else if c, ok := x.X.(*ast.CallExpr); !ok || !strings.HasPrefix(exprKey(c.Fun), "log.") {
					return "", fmt.Errorf("OnAccept: unexpected statement in the error branch")
				}
			case *ast.ReturnStmt:
				returns = len(x.Results) == 0
			default:
				return "", fmt.Errorf("OnAccept: unexpected statement in the error branch")
			}
		}
		if !closes || !returns {
			return "", fmt.Errorf("OnAccept: the error branch does not close and return")
		}
		env := &Env{Names: map[string]string{"hasMng": "hasMng", "transferred": "transferred"}, Calls: map[string]string{}}
		c, err := env.expr(cond)
		if err != nil {
			return "", fmt.Errorf("OnAccept: %v", err)
		}
		s += "/-- what the listener does with an accepted connection: serve it as it is, serve what al.tlsMng.Conn returned, or\nclose it (Conn returned an error) -/\n"
		s += "inductive Accept where\n  | serveRaw | serveMng | closed\n  deriving DecidableEq, Repr\n"
		s += "/-- `activeListener.OnAccept`: hasMng = al.tlsMng ≠ nil, transferred = ch ≠ nil (connection handed over by the old\nprocess), mngErr = al.tlsMng.Conn(rawc) returned an error -/\n"
		s += "def acceptDecision (hasMng transferred mngErr : Bool) : Accept :=\n  if " + c + " then (if mngErr then Accept.closed else Accept.serveMng) else Accept.serveRaw\n"
	}
	s += footer("TlsConnect")
	return s, nil
}
