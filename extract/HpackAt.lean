-- translation-unsupported HpackAt: open -out/pkg/module/http2/hpack/hpack.go: no such file or directory
namespace MosnVerif.Gen.HpackAt
end MosnVerif.Gen.HpackAt
