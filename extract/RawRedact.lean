-- translation-unsupported RawRedact: open -out/pkg/configmanager/redact.go: no such file or directory
namespace MosnVerif.Gen.RawRedact
end MosnVerif.Gen.RawRedact
