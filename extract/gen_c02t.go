package main

// Gen.H2ClientTable (C02): the two stream tables of an HTTP/2 client connection and the ids they are keyed by.
//
//   pkg/module/http2/mhttp2.go   MClientConn.streams  (module table: id -> clientStream; guards what HandleFrame returns)
//   pkg/stream/http2/stream.go   clientStreamConnection.streams (stream-layer table: id -> *clientStream; who is notified)
//
// CLOSED WORLD: every syntactic use of `<x>.streams` inside a method of the client types (MClientConn, MClientStream /
// clientStreamConnection, clientStream) must be one of
//   insert   <x>.streams[key] = v          lookup  v := <x>.streams[key]         delete  delete(<x>.streams, key)
//   range    for … := range <x>.streams    len     len(<x>.streams)              make    <x>.streams = make(…)
// at the places listed below; anything else (another site, another shape) is translation-unsupported. For every insert /
// lookup / delete site the KEY expression is translated to a Lean function of the one id the site has at hand
// (the frame's stream id, the error's stream id, the stream object's own id) — `id`, `id-2`, `err.StreamID+2` … are all
// in the subset, with uint32 arithmetic; other operands are not. Besides the sites: the id allocation of
// MClientConn.newStream / NewClientConn, Framer validStreamID, the action order of MClientConn.WriteHeaders, streamByID,
// the module's call sites of streamByID (key + remove flag), processData's "never sent" test, processGoAway, and from the
// stream layer the guards of ResetStream (GOAWAY reason override, table delete) and handleFrame's GOAWAY test.
// All helpers are prefixed c02t.

import (
	"fmt"
	"go/ast"
	"go/token"
	"sort"
	"strconv"
	"strings"
)

func init() { register("H2ClientTable", c02tGen) }

const c02tMod = "pkg/module/http2/mhttp2.go"
const c02tStr = "pkg/stream/http2/stream.go"

func c02tRecvName(fd *ast.FuncDecl) string {
	if fd.Recv == nil || len(fd.Recv.List) == 0 {
		return ""
	}
	t := fd.Recv.List[0].Type
	if s, ok := t.(*ast.StarExpr); ok {
		t = s.X
	}
	if id, ok := t.(*ast.Ident); ok {
		return id.Name
	}
	return ""
}

// c02tKeyEnv: uint32 arithmetic over the named ids
func c02tKeyEnv(names map[string]string) *Env {
	return &Env{Names: names, Calls: map[string]string{"uint32": "u32", "int": "", "uint64": ""},
		Arith: func(op, l, r string) string { return "(u32 (" + l + " " + op + " " + r + "))" },
		Ret: func(rs []string) string {
			if len(rs) == 0 {
				return "ERR"
			}
			return rs[0]
		}, Fall: "ERR"}
}

type c02tSite struct {
	fn, kind string
	key      ast.Expr
	node     ast.Node
	pos      token.Pos
}

func c02tIsStreams(e ast.Expr) bool {
	sel, ok := e.(*ast.SelectorExpr)
	return ok && sel.Sel.Name == "streams"
}

// c02tSites lists every use of `<x>.streams` in the methods of the given receiver types, classified; an unclassifiable
// use is an error.
func c02tSites(f *ast.File, recvs map[string]bool) ([]c02tSite, error) {
	var out []c02tSite
	for _, d := range f.Decls {
		fd, ok := d.(*ast.FuncDecl)
		if !ok || fd.Body == nil || !recvs[c02tRecvName(fd)] {
			continue
		}
		fn := c02tRecvName(fd) + "." + fd.Name.Name
		claimed := map[ast.Expr]bool{}
		var err error
		ast.Inspect(fd.Body, func(n ast.Node) bool {
			switch x := n.(type) {
			case *ast.AssignStmt:
				for i, l := range x.Lhs {
					if ix, ok := l.(*ast.IndexExpr); ok && c02tIsStreams(ix.X) {
						if x.Tok != token.ASSIGN || len(x.Lhs) != 1 {
							err = fmt.Errorf("%s: table write of an unknown shape at %s", fn, fset.Position(x.Pos()))
						}
						claimed[ix.X] = true
						out = append(out, c02tSite{fn, "insert", ix.Index, x, x.Pos()})
					}
					if c02tIsStreams(l) {
						claimed[l] = true
						if c, ok := x.Rhs[i].(*ast.CallExpr); ok && exprKey(c.Fun) == "make" {
							out = append(out, c02tSite{fn, "make", nil, x, x.Pos()})
						} else {
							err = fmt.Errorf("%s: the table is replaced at %s", fn, fset.Position(x.Pos()))
						}
					}
				}
				for _, r := range x.Rhs {
					if ix, ok := r.(*ast.IndexExpr); ok && c02tIsStreams(ix.X) {
						claimed[ix.X] = true
						out = append(out, c02tSite{fn, "lookup", ix.Index, x, x.Pos()})
					}
				}
			case *ast.CallExpr:
				if id, ok := x.Fun.(*ast.Ident); ok && len(x.Args) >= 1 && c02tIsStreams(x.Args[0]) {
					switch {
					case id.Name == "delete" && len(x.Args) == 2:
						claimed[x.Args[0]] = true
						out = append(out, c02tSite{fn, "delete", x.Args[1], x, x.Pos()})
					case id.Name == "len" && len(x.Args) == 1:
						claimed[x.Args[0]] = true
						out = append(out, c02tSite{fn, "len", nil, x, x.Pos()})
					}
				}
			case *ast.RangeStmt:
				if c02tIsStreams(x.X) {
					claimed[x.X] = true
					out = append(out, c02tSite{fn, "range", nil, x, x.Pos()})
				}
			}
			return true
		})
		if err != nil {
			return nil, err
		}
		// anything left over?
		ast.Inspect(fd.Body, func(n ast.Node) bool {
			if e, ok := n.(ast.Expr); ok && c02tIsStreams(e) && !claimed[e] {
				err = fmt.Errorf("%s: use of the stream table of an unknown shape at %s", fn, fset.Position(e.Pos()))
			}
			return true
		})
		if err != nil {
			return nil, err
		}
	}
	sort.SliceStable(out, func(i, j int) bool { return out[i].pos < out[j].pos })
	return out, nil
}

// c02tDefOf: the single `name := expr` in the body (nil when none / several / reassigned)
func c02tDefOf(fd *ast.FuncDecl, name string) ast.Expr {
	var defs []ast.Expr
	bad := false
	ast.Inspect(fd.Body, func(n ast.Node) bool {
		switch a := n.(type) {
		case *ast.AssignStmt:
			for i, l := range a.Lhs {
				if id, ok := l.(*ast.Ident); ok && id.Name == name {
					if a.Tok == token.DEFINE && len(a.Lhs) == len(a.Rhs) {
						defs = append(defs, a.Rhs[i])
					} else {
						bad = true
					}
				}
			}
		case *ast.IncDecStmt:
			if id, ok := a.X.(*ast.Ident); ok && id.Name == name {
				bad = true
			}
		}
		return true
	})
	if bad || len(defs) != 1 {
		return nil
	}
	return defs[0]
}

// c02tKey renders a key expression as a Lean term over `param`; atoms maps the Go atoms that denote the site's id.
func c02tKey(fd *ast.FuncDecl, key ast.Expr, atoms map[string]string) (string, error) {
	names := map[string]string{}
	for k, v := range atoms {
		names[k] = v
	}
	// local identifiers bound once to an expression over the atoms (e.g. `id := f.Header().StreamID`)
	ast.Inspect(key, func(n ast.Node) bool {
		if id, ok := n.(*ast.Ident); ok {
			if _, known := names[id.Name]; !known {
				if def := c02tDefOf(fd, id.Name); def != nil {
					if s, err := c02tKeyEnv(atoms).expr(def); err == nil {
						names[id.Name] = s
					}
				}
			}
		}
		return true
	})
	return c02tKeyEnv(names).expr(key)
}

func c02tFind(f *ast.File, recv, name string) (*ast.FuncDecl, error) {
	fd := findFunc(f, recv, name)
	if fd == nil || fd.Body == nil {
		return nil, fmt.Errorf("%s.%s not found", recv, name)
	}
	return fd, nil
}

// c02tEnclosingIfs: conditions of the if statements whose BODY (not else) contains pos, outermost first
func c02tEnclosingIfs(fd *ast.FuncDecl, pos token.Pos) []ast.Expr {
	var out []ast.Expr
	ast.Inspect(fd.Body, func(n ast.Node) bool {
		if i, ok := n.(*ast.IfStmt); ok && i.Body.Pos() <= pos && pos < i.Body.End() {
			out = append(out, i.Cond)
		}
		return true
	})
	return out
}

func c02tGen() (string, error) {
	mf, err := parse(c02tMod)
	if err != nil {
		return "", err
	}
	sf, err := parse(c02tStr)
	if err != nil {
		return "", err
	}
	ff, err := parse("pkg/module/http2/frame.go")
	if err != nil {
		return "", err
	}
	var b strings.Builder
	b.WriteString(header("H2ClientTable", c02tMod, "pkg/module/http2/frame.go", c02tStr))
	b.WriteString("set_option linter.unusedVariables false\ndef u32 (x : Int) : Int := x % 4294967296\n")

	// ---- ids -----------------------------------------------------------------------------------------------------
	nc, err := c02tFind(mf, "", "NewClientConn")
	if err != nil {
		return "", err
	}
	init := ""
	ast.Inspect(nc.Body, func(n ast.Node) bool {
		if a, ok := n.(*ast.AssignStmt); ok && len(a.Lhs) == 1 && exprKey(a.Lhs[0]) == "cc.nextStreamID" {
			if l, ok := a.Rhs[0].(*ast.BasicLit); ok && a.Tok == token.ASSIGN && init == "" {
				init = l.Value
			} else {
				init = "?"
			}
		}
		return true
	})
	if _, e := strconv.ParseUint(init, 0, 32); e != nil {
		return "", fmt.Errorf("NewClientConn: cc.nextStreamID is not set once to a literal")
	}
	fmt.Fprintf(&b, "/-- NewClientConn: cc.nextStreamID -/\ndef idInit : Int := %s\n", init)
	ns, err := c02tFind(mf, "MClientConn", "newStream")
	if err != nil {
		return "", err
	}
	var idPos, stepPos token.Pos
	step := ""
	nAssign := 0
	ast.Inspect(ns.Body, func(n ast.Node) bool {
		switch x := n.(type) {
		case *ast.KeyValueExpr:
			if exprKey(x.Key) == "ID" {
				if exprKey(x.Value) == "cc.nextStreamID" && idPos == 0 {
					idPos = x.Pos()
				} else {
					idPos = -1
				}
			}
		case *ast.AssignStmt:
			for _, l := range x.Lhs {
				if exprKey(l) == "cc.nextStreamID" {
					nAssign++
					if lit, ok := x.Rhs[0].(*ast.BasicLit); ok && x.Tok == token.ADD_ASSIGN {
						step, stepPos = lit.Value, x.Pos()
					}
				}
				if exprKey(l) == "cs.ID" {
					idPos = -1
				}
			}
		case *ast.IncDecStmt:
			if exprKey(x.X) == "cc.nextStreamID" {
				nAssign++
			}
		}
		return true
	})
	if idPos <= 0 || nAssign != 1 || step == "" {
		return "", fmt.Errorf("MClientConn.newStream: expected `ID: cc.nextStreamID` and one `cc.nextStreamID += <literal>`")
	}
	if idPos < stepPos {
		fmt.Fprintf(&b, "/-- MClientConn.newStream: (id of the new stream, new value of cc.nextStreamID); uint32 -/\ndef newStreamId (next : Int) : Int × Int :=\n  (next, u32 (next + %s))\n", step)
	} else {
		fmt.Fprintf(&b, "/-- MClientConn.newStream: (id of the new stream, new value of cc.nextStreamID); uint32 -/\ndef newStreamId (next : Int) : Int × Int :=\n  (u32 (next + %s), u32 (next + %s))\n", step, step)
	}
	// validStreamID: `streamID != 0 && streamID&(1<<K) == 0`
	vs, err := c02tFind(ff, "", "validStreamID")
	if err != nil {
		return "", err
	}
	valid := ""
	if len(vs.Body.List) == 1 {
		if r, ok := vs.Body.List[0].(*ast.ReturnStmt); ok && len(r.Results) == 1 {
			src := c02gSrc(r.Results[0])
			var k int
			if n, _ := fmt.Sscanf(src, "streamID != 0 && streamID&(1<<%d) == 0", &k); n == 1 && k > 0 && k < 32 &&
				src == fmt.Sprintf("streamID != 0 && streamID&(1<<%d) == 0", k) {
				p := uint64(1) << uint(k)
				valid = fmt.Sprintf("((decide (id ≠ 0)) && (decide ((id / %d) %% 2 = 0)))", p)
			}
		}
	}
	if valid == "" {
		return "", fmt.Errorf("validStreamID: body is not `return streamID != 0 && streamID&(1<<K) == 0`")
	}
	fmt.Fprintf(&b, "/-- Framer validStreamID (uint32 argument): non-zero and bit K clear -/\ndef validStreamID (id : Int) : Bool :=\n  %s\n", valid)
	// MFramer.writeHeaders refuses an invalid id before anything is written
	mw, err := c02tFind(mf, "MFramer", "writeHeaders")
	if err != nil {
		return "", err
	}
	guard := false
	if len(mw.Body.List) > 0 {
		if i, ok := mw.Body.List[0].(*ast.IfStmt); ok && c02gSrc(i.Cond) == "!validStreamID(p.StreamID)" && len(i.Body.List) == 1 {
			if r, ok := i.Body.List[0].(*ast.ReturnStmt); ok && len(r.Results) == 1 && exprKey(r.Results[0]) == "errStreamID" {
				guard = true
			}
		}
	}
	fmt.Fprintf(&b, "/-- MFramer.writeHeaders starts with `if !validStreamID(p.StreamID) { return errStreamID }` -/\ndef writeRefusesInvalidId : Bool := %v\n", guard)

	// ---- MClientConn.WriteHeaders: action order ---------------------------------------------------------------------
	wh, err := c02tFind(mf, "MClientConn", "WriteHeaders")
	if err != nil {
		return "", err
	}
	var acts []string
	var aerr error
	ast.Inspect(wh.Body, func(n ast.Node) bool {
		switch x := n.(type) {
		case *ast.GoStmt, *ast.FuncLit:
			aerr = fmt.Errorf("MClientConn.WriteHeaders: go statement / function literal")
			return false
		case *ast.CallExpr:
			switch exprKey(x.Fun) {
			case "cc.newStream":
				acts = append(acts, ".alloc")
			case "cc.encodeHeaders":
				acts = append(acts, ".encode")
			case "cc.writeHeaders":
				if len(x.Args) < 1 || exprKey(x.Args[0]) != "cs.ID" {
					aerr = fmt.Errorf("MClientConn.WriteHeaders: the HEADERS frame is not written with cs.ID")
				}
				acts = append(acts, ".write")
			}
		case *ast.AssignStmt:
			for _, l := range x.Lhs {
				if ix, ok := l.(*ast.IndexExpr); ok && c02tIsStreams(ix.X) {
					acts = append(acts, ".insert")
				}
			}
		case *ast.IfStmt:
			// `if err != nil { return nil, err }` after the write: the insert is only reached on success
			if c02gSrc(x.Cond) == "err != nil" && len(x.Body.List) == 1 {
				if _, ok := x.Body.List[0].(*ast.ReturnStmt); ok && len(acts) > 0 && acts[len(acts)-1] == ".write" {
					acts = append(acts, ".failReturns")
				}
			}
		}
		return true
	})
	if aerr != nil {
		return "", aerr
	}
	b.WriteString("inductive WAct | alloc | encode | write | failReturns | insert\n  deriving DecidableEq, Repr\n")
	fmt.Fprintf(&b, "/-- MClientConn.WriteHeaders, in source order (all under cc.mu): allocate the id, encode, write HEADERS with cs.ID, return on a write error, register -/\ndef writeHeadersActs : List WAct := [%s]\n", strings.Join(acts, ", "))

	// ---- module table sites ------------------------------------------------------------------------------------------
	msites, err := c02tSites(mf, map[string]bool{"MClientConn": true, "MClientStream": true})
	if err != nil {
		return "", err
	}
	var mdesc []string
	sb, err := c02tFind(mf, "MClientConn", "streamByID")
	if err != nil {
		return "", err
	}
	for _, s := range msites {
		mdesc = append(mdesc, fmt.Sprintf("%q", s.fn+":"+s.kind))
		switch {
		case s.fn == "MClientConn.WriteHeaders" && s.kind == "insert":
			k, err := c02tKey(wh, s.key, map[string]string{"cs.ID": "csId"})
			if err != nil {
				return "", fmt.Errorf("WriteHeaders insert key: %v", err)
			}
			fmt.Fprintf(&b, "/-- MClientConn.WriteHeaders: cc.streams[KEY] = cs -/\ndef modInsertKey (csId : Int) : Int :=\n  %s\n", k)
		case s.fn == "MClientConn.streamByID" && s.kind == "lookup":
			k, err := c02tKey(sb, s.key, map[string]string{"id": "id"})
			if err != nil {
				return "", fmt.Errorf("streamByID lookup key: %v", err)
			}
			fmt.Fprintf(&b, "/-- MClientConn.streamByID: cs := cc.streams[KEY] -/\ndef streamByIDKey (id : Int) : Int :=\n  %s\n", k)
		case s.fn == "MClientConn.streamByID" && s.kind == "delete":
			k, err := c02tKey(sb, s.key, map[string]string{"id": "id"})
			if err != nil {
				return "", fmt.Errorf("streamByID delete key: %v", err)
			}
			conds := c02tEnclosingIfs(sb, s.pos)
			if len(conds) != 1 {
				return "", fmt.Errorf("streamByID: the delete is not under exactly one if")
			}
			env := boolEnv(map[string]string{"andRemove": "andRemove"})
			env.Names["cs != nil"] = "found"
			c, err := c02tCond(env, conds[0], map[string]string{"cs != nil": "found"})
			if err != nil {
				return "", fmt.Errorf("streamByID: %v", err)
			}
			fmt.Fprintf(&b, "/-- MClientConn.streamByID: delete(cc.streams, KEY) -/\ndef streamByIDDeleteKey (id : Int) : Int :=\n  %s\n", k)
			fmt.Fprintf(&b, "/-- MClientConn.streamByID: the entry is removed -/\ndef streamByIDRemoves (andRemove found : Bool) : Bool :=\n  %s\n", c)
		case s.fn == "NewClientConn" || s.kind == "make":
		case s.fn == "MClientConn.processSettings" && s.kind == "range": // window adjustment of every open stream: the table is not changed
		default:
			return "", fmt.Errorf("module table: unexpected %s in %s at %s", s.kind, s.fn, fset.Position(s.pos))
		}
	}
	fmt.Fprintf(&b, "/-- every use of cc.streams in the methods of MClientConn / MClientStream -/\ndef modTableSites : List String := [%s]\n", strings.Join(mdesc, ", "))
	// call sites of streamByID
	type call struct{ lean, recv, fn, atom, param string }
	calls := []call{
		{"modHeaders", "MClientConn", "processHeaders", "f.StreamID", "frameId"},
		{"modData", "MClientConn", "processData", "f.StreamID", "frameId"},
		{"modRst", "MClientConn", "processResetStream", "f.StreamID", "frameId"},
		{"modWindow", "MClientConn", "processWindowUpdate", "f.StreamID", "frameId"},
		{"modReset", "MClientConn", "resetStream", "se.StreamID", "errId"},
		{"modOwnReset", "MClientStream", "Reset", "ms.ID", "ownId"},
	}
	seen := map[string]bool{}
	for _, c := range calls {
		fd, err := c02tFind(mf, c.recv, c.fn)
		if err != nil {
			return "", err
		}
		var cs []*ast.CallExpr
		ast.Inspect(fd.Body, func(n ast.Node) bool {
			if x, ok := n.(*ast.CallExpr); ok && strings.HasSuffix(exprKey(x.Fun), ".streamByID") {
				cs = append(cs, x)
			}
			return true
		})
		if len(cs) != 1 || len(cs[0].Args) != 2 {
			return "", fmt.Errorf("%s.%s: expected exactly one streamByID(id, andRemove) call", c.recv, c.fn)
		}
		seen[c.recv+"."+c.fn] = true
		k, err := c02tKey(fd, cs[0].Args[0], map[string]string{c.atom: c.param})
		if err != nil {
			return "", fmt.Errorf("%s.%s: key: %v", c.recv, c.fn, err)
		}
		env := boolEnv(map[string]string{})
		env.Names["f.StreamEnded()"] = "ended"
		r, err := env.expr(cs[0].Args[1])
		if err != nil {
			return "", fmt.Errorf("%s.%s: remove flag: %v", c.recv, c.fn, err)
		}
		fmt.Fprintf(&b, "/-- %s.%s: streamByID(KEY, REMOVE) -/\ndef %sKey (%s : Int) : Int :=\n  %s\ndef %sRemove (ended : Bool) : Bool :=\n  %s\n", c.recv, c.fn, c.lean, c.param, k, c.lean, r)
	}
	// no other caller of streamByID among the client methods
	for _, d := range mf.Decls {
		fd, ok := d.(*ast.FuncDecl)
		if !ok || fd.Body == nil {
			continue
		}
		rn := c02tRecvName(fd)
		if rn != "MClientConn" && rn != "MClientStream" {
			continue
		}
		n := 0
		ast.Inspect(fd.Body, func(m ast.Node) bool {
			if x, ok := m.(*ast.CallExpr); ok && strings.HasSuffix(exprKey(x.Fun), ".streamByID") {
				n++
			}
			return true
		})
		if n > 0 && !seen[rn+"."+fd.Name.Name] {
			return "", fmt.Errorf("%s.%s: a streamByID call site that is not modelled", rn, fd.Name.Name)
		}
	}
	// MClientStream.Reset: nothing happens without a registered module stream
	mr, _ := c02tFind(mf, "MClientStream", "Reset")
	needs := false
	if len(mr.Body.List) > 0 {
		if i, ok := mr.Body.List[0].(*ast.IfStmt); ok && c02gSrc(i.Cond) == "ms.clientStream == nil" && len(i.Body.List) == 1 {
			_, needs = i.Body.List[0].(*ast.ReturnStmt)
		}
	}
	fmt.Fprintf(&b, "/-- MClientStream.Reset returns at once when WriteHeaders never succeeded (clientStream == nil) -/\ndef ownResetNeedsModuleStream : Bool := %v\n", needs)
	// processData: unknown stream: connection error iff the id was never sent
	pd, err := c02tFind(mf, "MClientConn", "processData")
	if err != nil {
		return "", err
	}
	def := c02tDefOf(pd, "neverSent")
	if def == nil || exprKey(def) != "cc.nextStreamID" {
		return "", fmt.Errorf("processData: neverSent := cc.nextStreamID not found")
	}
	var unk *ast.IfStmt
	for _, i := range ifs(pd.Body) {
		if strings.Contains(c02gSrc(i.Cond), "neverSent") {
			unk = i
		}
	}
	if unk == nil || !strings.Contains(c02gSrc(unk.Body), "ConnectionError(") {
		return "", fmt.Errorf("processData: the never-sent test was not found")
	}
	outer := c02tEnclosingIfs(pd, unk.Pos())
	if len(outer) != 1 || c02gSrc(outer[0]) != "cs == nil" {
		return "", fmt.Errorf("processData: the never-sent test is not directly under `if cs == nil`")
	}
	uc, err := boolEnv(map[string]string{"f.StreamID": "frameId", "neverSent": "next"}).expr(unk.Cond)
	if err != nil {
		return "", fmt.Errorf("processData: %v", err)
	}
	fmt.Fprintf(&b, "/-- MClientConn.processData, no module stream: connection error (else a stream error STREAM_CLOSED) -/\ndef unknownDataIsConnError (frameId next : Int) : Bool :=\n  %s\n", uc)
	// processData: DATA before HEADERS is a stream error
	early := false
	for _, i := range ifs(pd.Body) {
		if c02gSrc(i.Cond) == "!cs.firstByte" && strings.Contains(c02gSrc(i.Body), "return false, StreamError{") {
			early = true
		}
	}
	fmt.Fprintf(&b, "/-- MClientConn.processData: `if !cs.firstByte { … return false, StreamError{…} }` -/\ndef dataBeforeHeadersIsStreamError : Bool := %v\n", early)
	// processGoAway
	pg, err := c02tFind(mf, "MClientConn", "processGoAway")
	if err != nil {
		return "", err
	}
	no, err := intConst("pkg/module/http2", "ErrCodeNo")
	if err != nil {
		return "", err
	}
	genv := &Env{Names: map[string]string{"f.ErrCode": "errCode", "ErrCodeNo": "errCodeNo", "f.LastStreamID": "last", "nil": "0"},
		Calls: map[string]string{}, Ret: func(rs []string) string {
			if len(rs) != 2 {
				return "ERR"
			}
			return rs[0]
		}, Fall: "ERR"}
	gbody, err := genv.block(pg.Body.List, "  ")
	if err != nil || strings.Contains(gbody, "ERR") {
		return "", fmt.Errorf("processGoAway: %v", err)
	}
	fmt.Fprintf(&b, "def errCodeNo : Int := %d\n/-- MClientConn.processGoAway: the last-stream-id handed to the stream layer -/\ndef goawayLast (errCode last : Int) : Int :=\n  %s\n", no, gbody)

	// ---- stream-layer table sites ---------------------------------------------------------------------------------------
	ssites, err := c02tSites(sf, map[string]bool{"clientStreamConnection": true, "clientStream": true})
	if err != nil {
		return "", err
	}
	hf, err := c02tFind(sf, "clientStreamConnection", "handleFrame")
	if err != nil {
		return "", err
	}
	he, err := c02tFind(sf, "clientStreamConnection", "handleError")
	if err != nil {
		return "", err
	}
	es, err := c02tFind(sf, "clientStream", "endStream")
	if err != nil {
		return "", err
	}
	rs, err := c02tFind(sf, "clientStream", "ResetStream")
	if err != nil {
		return "", err
	}
	var sdesc []string
	nDel := 0
	frameAtoms := map[string]string{"f.Header().StreamID": "frameId"}
	for _, s := range ssites {
		sdesc = append(sdesc, fmt.Sprintf("%q", s.fn+":"+s.kind))
		switch {
		case s.fn == "clientStream.endStream" && s.kind == "insert":
			k, err := c02tKey(es, s.key, map[string]string{"s.id": "ownId"})
			if err != nil {
				return "", fmt.Errorf("endStream insert key: %v", err)
			}
			a := s.node.(*ast.AssignStmt)
			if exprKey(a.Rhs[0]) != "s" {
				return "", fmt.Errorf("endStream: the table entry is not the stream itself")
			}
			fmt.Fprintf(&b, "/-- clientStream.endStream: s.sc.streams[KEY] = s -/\ndef insertKey (ownId : Int) : Int :=\n  %s\n", k)
			// s.id = s.h2s.GetID() directly before, both under `if err == nil` of the first Encode
			idFromModule := false
			conds := c02tEnclosingIfs(es, s.pos)
			ast.Inspect(es.Body, func(n ast.Node) bool {
				if blk, ok := n.(*ast.BlockStmt); ok {
					for i := 1; i < len(blk.List); i++ {
						if blk.List[i] == s.node {
							if p, ok := blk.List[i-1].(*ast.AssignStmt); ok && len(p.Lhs) == 1 && exprKey(p.Lhs[0]) == "s.id" &&
								p.Tok == token.ASSIGN && c02gSrc(p.Rhs[0]) == "s.h2s.GetID()" {
								idFromModule = true
							}
						}
					}
				}
				return true
			})
			onOk := len(conds) == 1 && c02gSrc(conds[0]) == "err == nil"
			fmt.Fprintf(&b, "/-- clientStream.endStream: `s.id = s.h2s.GetID()` directly before the insert -/\ndef insertIdIsModuleId : Bool := %v\n", idFromModule)
			fmt.Fprintf(&b, "/-- clientStream.endStream: the insert is under `if err == nil` of the Encode that writes HEADERS -/\ndef insertOnlyOnSuccess : Bool := %v\n", onOk)
		case s.fn == "clientStreamConnection.handleFrame" && s.kind == "lookup":
			k, err := c02tKey(hf, s.key, frameAtoms)
			if err != nil {
				return "", fmt.Errorf("handleFrame lookup key: %v", err)
			}
			fmt.Fprintf(&b, "/-- clientStreamConnection.handleFrame: stream := conn.streams[KEY] -/\ndef frameLookupKey (frameId : Int) : Int :=\n  %s\n", k)
		case s.fn == "clientStreamConnection.handleFrame" && s.kind == "delete":
			k, err := c02tKey(hf, s.key, frameAtoms)
			if err != nil {
				return "", fmt.Errorf("handleFrame delete key: %v", err)
			}
			var cs []string
			for _, c := range c02tEnclosingIfs(hf, s.pos) {
				cs = append(cs, c02gSrc(c))
			}
			nDel++
			switch {
			case nDel == 1 && strings.Join(cs, " / ") == "rsp != nil / endStream":
				fmt.Fprintf(&b, "/-- clientStreamConnection.handleFrame, response HEADERS with END_STREAM: delete(conn.streams, KEY) -/\ndef hdrEndDeleteKey (frameId : Int) : Int :=\n  %s\n", k)
			case nDel == 2 && strings.Join(cs, " / ") == "endStream":
				fmt.Fprintf(&b, "/-- clientStreamConnection.handleFrame, END_STREAM on DATA / trailers: delete(conn.streams, KEY) -/\ndef endDeleteKey (frameId : Int) : Int :=\n  %s\n", k)
			default:
				return "", fmt.Errorf("handleFrame: delete #%d under [%s] is not a known site", nDel, strings.Join(cs, " / "))
			}
		case s.fn == "clientStreamConnection.handleError" && s.kind == "lookup":
			conds := c02tEnclosingIfs(he, s.pos)
			_ = conds
			k, err := c02tKey(he, s.key, map[string]string{"err.StreamID": "errId"})
			if err != nil {
				return "", fmt.Errorf("handleError lookup key: %v", err)
			}
			fmt.Fprintf(&b, "/-- clientStreamConnection.handleError, StreamError: s := conn.streams[KEY] -/\ndef errLookupKey (errId : Int) : Int :=\n  %s\n", k)
		case s.fn == "clientStream.ResetStream" && s.kind == "delete":
			k, err := c02tKey(rs, s.key, map[string]string{"s.id": "ownId"})
			if err != nil {
				return "", fmt.Errorf("ResetStream delete key: %v", err)
			}
			conds := c02tEnclosingIfs(rs, s.pos)
			c := "true"
			if len(conds) == 1 {
				if c, err = boolEnv(map[string]string{"s.connReset": "connReset"}).expr(conds[0]); err != nil {
					return "", fmt.Errorf("ResetStream: %v", err)
				}
			} else if len(conds) > 1 {
				return "", fmt.Errorf("ResetStream: the delete is nested under several ifs")
			}
			fmt.Fprintf(&b, "/-- clientStream.ResetStream: delete(s.sc.streams, KEY) -/\ndef resetDeleteKey (ownId : Int) : Int :=\n  %s\n/-- … is executed -/\ndef resetDeletes (connReset : Bool) : Bool :=\n  %s\n", k, c)
		case s.kind == "range" && (s.fn == "clientStreamConnection.Reset" || s.fn == "clientStreamConnection.OnEvent"):
		case s.kind == "len" && s.fn == "clientStreamConnection.ActiveStreamsNum":
		case s.kind == "make":
		default:
			return "", fmt.Errorf("stream table: unexpected %s in %s at %s", s.kind, s.fn, fset.Position(s.pos))
		}
	}
	if nDel != 2 {
		return "", fmt.Errorf("handleFrame: expected two delete sites, found %d", nDel)
	}
	fmt.Fprintf(&b, "/-- every use of the stream table in the methods of clientStreamConnection / clientStream -/\ndef tableSites : List String := [%s]\n", strings.Join(sdesc, ", "))
	// clientStreamConnection.Reset: connReset is set before ResetStream, nothing else touches the streams
	rf, err := c02tFind(sf, "clientStreamConnection", "Reset")
	if err != nil {
		return "", err
	}
	marks := false
	for _, n := range rf.Body.List {
		if r, ok := n.(*ast.RangeStmt); ok && c02tIsStreams(r.X) && len(r.Body.List) == 2 {
			marks = c02gSrc(r.Body.List[0]) == "stream.connReset = true" && c02gSrc(r.Body.List[1]) == "stream.ResetStream(reason)"
		}
	}
	fmt.Fprintf(&b, "/-- clientStreamConnection.Reset: for every stream of the table `connReset = true; ResetStream(reason)` -/\ndef connResetMarksThenResets : Bool := %v\n", marks)
	// ResetStream: GOAWAY override
	var ov *ast.IfStmt
	for _, i := range ifs(rs.Body) {
		if strings.Contains(c02gSrc(i.Cond), "lastStream") {
			ov = i
		}
	}
	ovc := "false"
	if ov != nil {
		if !(len(ov.Body.List) >= 1 && strings.Contains(c02gSrc(ov.Body), "reason = types.StreamConnectionFailed")) {
			return "", fmt.Errorf("ResetStream: the GOAWAY branch does not set reason = types.StreamConnectionFailed")
		}
		if ovc, err = boolEnv(map[string]string{"s.sc.lastStream": "lastStream", "s.id": "id"}).expr(ov.Cond); err != nil {
			return "", fmt.Errorf("ResetStream: %v", err)
		}
	}
	fmt.Fprintf(&b, "/-- clientStream.ResetStream: the reason becomes StreamConnectionFailed (retry after GOAWAY) -/\ndef goawayOverrides (lastStream id : Int) : Bool :=\n  %s\n", ovc)
	// ResetStream order: module reset, table delete, base reset
	var ro []string
	ast.Inspect(rs.Body, func(n ast.Node) bool {
		if c, ok := n.(*ast.CallExpr); ok {
			switch c02gSrc(c.Fun) {
			case "s.h2s.Reset":
				ro = append(ro, ".moduleReset")
			case "delete":
				ro = append(ro, ".tableDelete")
			case "s.stream.ResetStream":
				ro = append(ro, ".notify")
			}
		}
		return true
	})
	b.WriteString("inductive RAct | moduleReset | tableDelete | notify\n  deriving DecidableEq, Repr\n")
	fmt.Fprintf(&b, "/-- clientStream.ResetStream, in source order -/\ndef resetActs : List RAct := [%s]\n", strings.Join(ro, ", "))
	// handleFrame: GOAWAY
	var ga *ast.IfStmt
	for _, i := range ifs(hf.Body) {
		if strings.HasPrefix(c02gSrc(i.Cond), "lastStream ") && strings.Contains(c02gSrc(i.Body), "conn.lastStream = lastStream") {
			ga = i
		}
	}
	if ga == nil || !strings.Contains(c02gSrc(ga.Body), "OnGoAway()") || !endsInReturn(ga.Body.List) {
		return "", fmt.Errorf("handleFrame: the GOAWAY branch (conn.lastStream = lastStream; OnGoAway(); return) was not found")
	}
	touches := false
	ast.Inspect(ga.Body, func(n ast.Node) bool {
		if e, ok := n.(ast.Expr); ok && c02tIsStreams(e) {
			touches = true
		}
		if c, ok := n.(*ast.CallExpr); ok && strings.HasSuffix(c02gSrc(c.Fun), "ResetStream") {
			touches = true
		}
		return true
	})
	gc, err := boolEnv(map[string]string{"lastStream": "lastStream"}).expr(ga.Cond)
	if err != nil {
		return "", fmt.Errorf("handleFrame: %v", err)
	}
	fmt.Fprintf(&b, "/-- clientStreamConnection.handleFrame: a GOAWAY is recorded (conn.lastStream, OnGoAway) -/\ndef goawayActs (lastStream : Int) : Bool :=\n  %s\n", gc)
	fmt.Fprintf(&b, "/-- … and that branch neither reads the stream table nor resets a stream -/\ndef goawayTouchesStreams : Bool := %v\n", touches)
	b.WriteString(footer("H2ClientTable"))
	return b.String(), nil
}

// c02tCond translates a condition in which the given sub-expressions (by source text) are opaque Bool atoms.
func c02tCond(env *Env, e ast.Expr, atoms map[string]string) (string, error) {
	if v, ok := atoms[c02gSrc(e)]; ok {
		return v, nil
	}
	switch x := e.(type) {
	case *ast.ParenExpr:
		return c02tCond(env, x.X, atoms)
	case *ast.BinaryExpr:
		if x.Op == token.LAND || x.Op == token.LOR {
			l, err := c02tCond(env, x.X, atoms)
			if err != nil {
				return "", err
			}
			r, err := c02tCond(env, x.Y, atoms)
			if err != nil {
				return "", err
			}
			op := "&&"
			if x.Op == token.LOR {
				op = "||"
			}
			return "(" + l + " " + op + " " + r + ")", nil
		}
	case *ast.UnaryExpr:
		if x.Op == token.NOT {
			s, err := c02tCond(env, x.X, atoms)
			return "(!" + s + ")", err
		}
	}
	return env.expr(e)
}
