-- translation-unsupported FrameOwn: open -out/pkg/protocol/xprotocol/bolt/decoder.go: no such file or directory
namespace MosnVerif.Gen.FrameOwn
end MosnVerif.Gen.FrameOwn
