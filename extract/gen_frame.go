package main

// Gen modules of the framing family (C07 segmentation independence, C08 malformed input contained):
//   FrameLen    — per xprotocol decoder: offsets of the length fields (read off the
//                 binary.BigEndian.UintNN(<slice>[lo:hi]) expressions), the frame-length expression, every length
//                 test of Decode / decodeRequest / decodeResponse / decodeFrame translated to a Lean Bool function,
//                 the argument of data.Drain(...), the dispatch bytes and the cmd-type switch of bolt/boltv2.
//   FrameConsts — header lengths, magic bytes, protocol codes, matcher constants, the HTTP/1 method table,
//                 the HTTP/2 client preface, TarsGo's package-length limits.
// All integers are emitted as Lean `Nat`: the translated expressions may only use + and * and comparisons
// (a subtraction or division makes the job fail => broken tie), values are lengths/offsets (non-negative).

import (
	"bytes"
	"fmt"
	"go/ast"
	"go/constant"
	"go/printer"
	"go/token"
	"os"
	"path/filepath"
	"regexp"
	"sort"
	"strconv"
	"strings"
)

func init() {
	register("FrameLen", genFrameLen)
	register("FrameConsts", genFrameConsts)
}

const xp = "pkg/protocol/xprotocol/"

// intConsts returns name -> decimal for every integer constant of a package directory, optionally prefixed.
func intConsts(dir, prefix string, into map[string]string) error {
	cs, err := pkgConsts(dir)
	if err != nil {
		return err
	}
	for n, v := range cs {
		if v.Kind() != constant.Int {
			continue
		}
		if i, ok := constant.Int64Val(v); ok && i >= 0 {
			into[prefix+n] = strconv.FormatInt(i, 10)
		}
	}
	return nil
}

func hasBadOp(e ast.Expr) bool {
	bad := false
	ast.Inspect(e, func(n ast.Node) bool {
		switch x := n.(type) {
		case *ast.BinaryExpr:
			switch x.Op {
			case token.SUB, token.QUO, token.REM, token.SHL, token.SHR, token.AND, token.OR, token.XOR:
				bad = true
			}
		case *ast.UnaryExpr:
			if x.Op == token.SUB {
				bad = true
			}
		}
		return true
	})
	return bad
}

func hasBadOpExceptSub(e ast.Expr) bool {
	bad := false
	ast.Inspect(e, func(n ast.Node) bool {
		if x, ok := n.(*ast.BinaryExpr); ok {
			switch x.Op {
			case token.QUO, token.REM, token.SHL, token.SHR, token.AND, token.OR, token.XOR:
				bad = true
			}
		}
		if x, ok := n.(*ast.UnaryExpr); ok && x.Op == token.SUB {
			bad = true
		}
		return true
	})
	return bad
}

// evalNat evaluates a constant non-negative integer expression (literals, named constants, +, *).
func evalNat(e ast.Expr, consts map[string]string) (int64, error) {
	switch x := e.(type) {
	case nil:
		return 0, nil
	case *ast.ParenExpr:
		return evalNat(x.X, consts)
	case *ast.BasicLit:
		if x.Kind == token.INT {
			return strconv.ParseInt(x.Value, 0, 64)
		}
	case *ast.Ident, *ast.SelectorExpr:
		if v, ok := consts[exprKey(x)]; ok {
			return strconv.ParseInt(v, 10, 64)
		}
		return 0, fmt.Errorf("not a known constant: %s", exprKey(x))
	case *ast.BinaryExpr:
		l, err := evalNat(x.X, consts)
		if err != nil {
			return 0, err
		}
		r, err := evalNat(x.Y, consts)
		if err != nil {
			return 0, err
		}
		switch x.Op {
		case token.ADD:
			return l + r, nil
		case token.MUL:
			return l * r, nil
		}
	}
	return 0, fmt.Errorf("not a constant offset expression (%T)", e)
}

// beRead recognises binary.BigEndian.UintNN(<base>[lo:hi]) and returns (width in bytes, base, lo expr, hi expr).
func beRead(e ast.Expr) (width int, base string, lo, hi ast.Expr, ok bool) {
	c, isCall := e.(*ast.CallExpr)
	if !isCall || len(c.Args) != 1 {
		return
	}
	m := regexp.MustCompile(`^binary\.BigEndian\.Uint(16|32|64)$`).FindStringSubmatch(exprKey(c.Fun))
	if m == nil {
		return
	}
	bits, _ := strconv.Atoi(m[1])
	arg := c.Args[0]
	if id, isId := arg.(*ast.Ident); isId {
		return bits / 8, id.Name, nil, nil, true // whole-slice read (e.g. reqIDRaw)
	}
	s, isSlice := arg.(*ast.SliceExpr)
	if !isSlice || s.Slice3 {
		return
	}
	return bits / 8, baseKey(s.X), s.Low, s.High, true
}

func baseKey(e ast.Expr) string {
	if c, ok := e.(*ast.CallExpr); ok && len(c.Args) == 0 {
		return exprKey(c.Fun) + "()"
	}
	return exprKey(e)
}

type funcFacts struct {
	reads  map[string][3]int64 // lhs name -> width, lo, hi  (constant bounds only)
	conds  []ast.Expr          // conditions of every if statement, source order
	bare   []bool              // the if body is a bare `return`
	assign map[string]ast.Expr // lhs -> rhs of single assignments / defines (last one wins)
	drains []ast.Expr          // arguments of <x>.Drain(...)
	index  map[string]int64    // lhs := <x>.Bytes()[k]  -> k
}

func factsOf(fd *ast.FuncDecl, consts map[string]string) *funcFacts {
	ff := &funcFacts{reads: map[string][3]int64{}, assign: map[string]ast.Expr{}, index: map[string]int64{}}
	ast.Inspect(fd.Body, func(n ast.Node) bool {
		switch x := n.(type) {
		case *ast.IfStmt:
			ff.conds = append(ff.conds, x.Cond)
			b := false
			if len(x.Body.List) == 1 {
				if r, ok := x.Body.List[0].(*ast.ReturnStmt); ok && len(r.Results) == 0 {
					b = true
				}
			}
			ff.bare = append(ff.bare, b)
		case *ast.AssignStmt:
			if len(x.Lhs) == 1 && len(x.Rhs) == 1 {
				name := exprKey(x.Lhs[0])
				ff.assign[name] = x.Rhs[0]
				if w, _, lo, hi, ok := beRead(x.Rhs[0]); ok {
					l, e1 := evalNat(lo, consts)
					h, e2 := evalNat(hi, consts)
					if e1 == nil && e2 == nil && (hi != nil) {
						ff.reads[name] = [3]int64{int64(w), l, h}
					} else if e1 == nil && hi == nil && lo == nil {
						// [:k] handled by caller through assign
					}
				}
				if ix, ok := x.Rhs[0].(*ast.IndexExpr); ok {
					if k, err := evalNat(ix.Index, consts); err == nil {
						ff.index[name] = k
					}
				}
			}
		case *ast.KeyValueExpr: // composite literal fields: Field: binary.BigEndian…(bytes[a:b])
		case *ast.CallExpr:
			if s, ok := x.Fun.(*ast.SelectorExpr); ok && s.Sel.Name == "Drain" && len(x.Args) == 1 {
				ff.drains = append(ff.drains, x.Args[0])
			}
		}
		return true
	})
	return ff
}

type leanOut struct {
	sb    strings.Builder
	errs  []string
	names []string

	allowSub bool
}

// macro emits a tactic macro unfolding every generated definition of the module (`simp only [...] at *`).
func (o *leanOut) macro(name string) string {
	return "/-- unfold every regenerated definition of this module, everywhere -/\nmacro \"" + name + "\" : tactic => `(tactic| simp only [" + strings.Join(o.names, ", ") + "] at *)\n"
}

func (o *leanOut) fail(f string, a ...interface{}) { o.errs = append(o.errs, fmt.Sprintf(f, a...)) }

func newEnv(consts map[string]string, vars ...string) *Env {
	names := map[string]string{}
	for k, v := range consts {
		names[k] = v
	}
	for i := 0; i+1 < len(vars); i += 2 {
		names[vars[i]] = vars[i+1]
	}
	return &Env{Names: names, Calls: map[string]string{"int": "", "int64": "", "uint32": "", "uint64": "", "uint16": "", "uint": ""}}
}

// fn emits `def name (params : Nat) : ty := <translated e>`
// fnSub is fn for expressions that may subtract: Lean's truncated Nat subtraction is exact only where the caller
// documents that the minuend is not smaller (recorded in the doc string).
func (o *leanOut) fnSub(name, doc string, params []string, ty string, e ast.Expr, env *Env) {
	o.allowSub = true
	o.fn(name, doc, params, ty, e, env)
	o.allowSub = false
}

func (o *leanOut) fn(name, doc string, params []string, ty string, e ast.Expr, env *Env) {
	if e == nil {
		o.fail("%s: expression not found", name)
		return
	}
	if hasBadOp(e) && !(o.allowSub && !hasBadOpExceptSub(e)) {
		o.fail("%s: expression uses an operator outside {+,*,comparisons,&&,||,!}", name)
		return
	}
	s, err := env.expr(e)
	if err != nil {
		o.fail("%s: %v", name, err)
		return
	}
	ps := ""
	if len(params) > 0 {
		ps = " (" + strings.Join(params, " ") + " : Nat)"
	}
	o.names = append(o.names, name)
	fmt.Fprintf(&o.sb, "/-- %s -/\ndef %s%s : %s := %s\n", doc, name, ps, ty, s)
}

func (o *leanOut) nat(name, doc string, v int64) {
	o.names = append(o.names, name)
	fmt.Fprintf(&o.sb, "/-- %s -/\ndef %s : Nat := %d\n", doc, name, v)
}

func (o *leanOut) field(name, doc string, r [3]int64, ok bool) {
	if !ok {
		o.fail("%s: big-endian read with constant bounds not found", name)
		return
	}
	if r[2]-r[1] != r[0] {
		o.fail("%s: slice [%d:%d] does not have the width %d of the read", name, r[1], r[2], r[0])
		return
	}
	o.names = append(o.names, name)
	fmt.Fprintf(&o.sb, "/-- %s: bytes[%d:%d] -/\ndef %s : Nat × Nat := (%d, %d)\n", doc, r[1], r[2], name, r[1], r[2])
}

// boltLike emits the facts of one decodeRequest/decodeResponse of bolt or boltv2.
func boltLike(o *leanOut, file *ast.File, fn, prefix string, consts map[string]string, src string) {
	fd := findFunc(file, "", fn)
	if fd == nil {
		o.fail("%s: %s not found", src, fn)
		return
	}
	ff := factsOf(fd, consts)
	for _, f := range []string{"classLen", "headerLen", "contentLen"} {
		r, ok := ff.reads[f]
		o.field(prefix+"_"+f, src+" "+fn+" "+f, r, ok)
	}
	var bare []ast.Expr
	for i, c := range ff.conds {
		if ff.bare[i] {
			bare = append(bare, c)
		}
	}
	if len(bare) != 2 {
		o.fail("%s %s: expected two `if … { return }` length tests, found %d", src, fn, len(bare))
		return
	}
	env := newEnv(consts, "bytesLen", "bytesLen", "frameLen", "frameLen", "classLen", "classLen", "headerLen", "headerLen", "contentLen", "contentLen")
	if k := exprKey(ff.assign["bytesLen"]); ff.assign["bytesLen"] == nil || !strings.HasSuffix(baseKey(ff.assign["bytesLen"]), ".Len()") {
		o.fail("%s %s: bytesLen is not <buffer>.Len() (%s)", src, fn, k)
	}
	o.fn(prefix+"_short1", src+" "+fn+": first length test (true = need more data)", []string{"bytesLen"}, "Bool", bare[0], env)
	o.fn(prefix+"_frameLen", src+" "+fn+": frameLen", []string{"classLen", "headerLen", "contentLen"}, "Nat", ff.assign["frameLen"], env)
	o.fn(prefix+"_short2", src+" "+fn+": second length test (true = need more data)", []string{"bytesLen", "frameLen"}, "Bool", bare[1], env)
	if len(ff.drains) != 1 {
		o.fail("%s %s: expected exactly one Drain call", src, fn)
		return
	}
	o.fn(prefix+"_drain", src+" "+fn+": argument of data.Drain", []string{"frameLen"}, "Nat", ff.drains[0], env)
	ienv := newEnv(consts, "classLen", "classLen", "headerLen", "headerLen", "headerIndex", "headerIndex")
	o.fn(prefix+"_headerIndex", src+" "+fn+": headerIndex", []string{"classLen"}, "Nat", ff.assign["headerIndex"], ienv)
	o.fn(prefix+"_contentIndex", src+" "+fn+": contentIndex", []string{"headerIndex", "headerLen"}, "Nat", ff.assign["contentIndex"], ienv)
}

// boltDecode emits the dispatch facts of bolt.Decode / boltv2.Decode.
func boltDecode(o *leanOut, file *ast.File, recv, prefix string, consts map[string]string, src string) {
	fd := findFunc(file, recv, "Decode")
	if fd == nil {
		o.fail("%s: Decode not found", src)
		return
	}
	ff := factsOf(fd, consts)
	if len(ff.conds) != 3 {
		o.fail("%s Decode: expected 3 if statements, found %d", src, len(ff.conds))
		return
	}
	env := newEnv(consts, "data.Len()", "dataLen", "code", "code")
	o.fn(prefix+"_nonEmpty", src+" Decode: guard of the first-byte test", []string{"dataLen"}, "Bool", ff.conds[0], env)
	o.fn(prefix+"_isOther", src+" Decode: first byte selects the sibling protocol's decoder", []string{"code"}, "Bool", ff.conds[1], env)
	o.fn(prefix+"_enough", src+" Decode: minimal length before the cmd type is read", []string{"dataLen"}, "Bool", ff.conds[2], env)
	ci, ok1 := ff.index["code"]
	ti, ok2 := ff.index["cmdType"]
	if !ok1 || !ok2 {
		o.fail("%s Decode: code/cmdType index reads not found", src)
		return
	}
	o.nat(prefix+"_codeIdx", src+" Decode: index of the protocol code byte", ci)
	o.nat(prefix+"_cmdTypeIdx", src+" Decode: index of the cmd type byte", ti)
	// switch cmdType { case X: return decodeRequest(ctx, data, false) … default: error }
	var sw *ast.SwitchStmt
	ast.Inspect(fd.Body, func(n ast.Node) bool {
		if s, ok := n.(*ast.SwitchStmt); ok && exprKey(s.Tag) == "cmdType" {
			sw = s
		}
		return true
	})
	if sw == nil {
		o.fail("%s Decode: switch cmdType not found", src)
		return
	}
	var rows []string
	sawDefaultErr := false
	for _, st := range sw.Body.List {
		cc := st.(*ast.CaseClause)
		if cc.List == nil {
			if len(cc.Body) == 1 {
				if r, ok := cc.Body[0].(*ast.ReturnStmt); ok && len(r.Results) == 2 && exprKey(r.Results[0]) == "nil" {
					sawDefaultErr = true
				}
			}
			continue
		}
		if len(cc.Body) != 1 {
			o.fail("%s Decode: case body is not a single return", src)
			return
		}
		r, ok := cc.Body[0].(*ast.ReturnStmt)
		if !ok || len(r.Results) != 1 {
			o.fail("%s Decode: case body is not `return decodeX(...)`", src)
			return
		}
		call, ok := r.Results[0].(*ast.CallExpr)
		if !ok {
			o.fail("%s Decode: case does not return a call", src)
			return
		}
		callee := exprKey(call.Fun)
		kind := map[string]string{"decodeRequest": "0", "decodeResponse": "1"}[callee]
		if kind == "" {
			o.fail("%s Decode: unexpected callee %s", src, callee)
			return
		}
		for _, v := range cc.List {
			k, err := evalNat(v, consts)
			if err != nil {
				o.fail("%s Decode: case value: %v", src, err)
				return
			}
			rows = append(rows, fmt.Sprintf("(%d, %s)", k, kind))
		}
	}
	if !sawDefaultErr {
		o.fail("%s Decode: default case is not `return nil, <error>`", src)
	}
	fmt.Fprintf(&o.sb, "/-- %s Decode: cmd type -> decoder (0 = decodeRequest, 1 = decodeResponse); any other value is a decode error -/\ndef %s_switch : List (Nat × Nat) := [%s]\n", src, prefix, strings.Join(rows, ", "))
	o.names = append(o.names, prefix+"_switch")
}

func genFrameLen() (string, error) {
	o := &leanOut{}
	o.sb.WriteString(header("FrameLen", xp+"{bolt,boltv2,dubbo,dubbothrift}/{protocol,decoder}.go"))

	// ---- bolt
	bc := map[string]string{}
	if err := intConsts(xp+"bolt", "", bc); err != nil {
		return "", err
	}
	bp, err := parse(xp + "bolt/protocol.go")
	if err != nil {
		return "", err
	}
	bd, err := parse(xp + "bolt/decoder.go")
	if err != nil {
		return "", err
	}
	boltDecode(o, bp, "boltProtocol", "bolt", bc, "bolt/protocol.go")
	boltLike(o, bd, "decodeRequest", "bolt_req", bc, "bolt/decoder.go")
	boltLike(o, bd, "decodeResponse", "bolt_resp", bc, "bolt/decoder.go")

	// ---- boltv2 (refers to bolt.* constants)
	vc := map[string]string{}
	if err := intConsts(xp+"boltv2", "", vc); err != nil {
		return "", err
	}
	if err := intConsts(xp+"bolt", "bolt.", vc); err != nil {
		return "", err
	}
	vp, err := parse(xp + "boltv2/protocol.go")
	if err != nil {
		return "", err
	}
	vd, err := parse(xp + "boltv2/decoder.go")
	if err != nil {
		return "", err
	}
	boltDecode(o, vp, "boltv2Protocol", "boltv2", vc, "boltv2/protocol.go")
	boltLike(o, vd, "decodeRequest", "boltv2_req", vc, "boltv2/decoder.go")
	boltLike(o, vd, "decodeResponse", "boltv2_resp", vc, "boltv2/decoder.go")

	// ---- dubbo
	dc := map[string]string{}
	if err := intConsts(xp+"dubbo", "", dc); err != nil {
		return "", err
	}
	dp, err := parse(xp + "dubbo/protocol.go")
	if err != nil {
		return "", err
	}
	dd, err := parse(xp + "dubbo/decoder.go")
	if err != nil {
		return "", err
	}
	if fd := findFunc(dp, "dubboProtocol", "Decode"); fd == nil {
		o.fail("dubbo Decode not found")
	} else {
		ff := factsOf(fd, dc)
		env := newEnv(dc, "data.Len()", "dataLen", "payLoadLen", "payLoadLen")
		if len(ff.conds) < 2 {
			o.fail("dubbo Decode: expected two nested length tests")
		} else {
			o.fn("dubbo_enough1", "dubbo/protocol.go Decode: header complete", []string{"dataLen"}, "Bool", ff.conds[0], env)
			o.fn("dubbo_enough2", "dubbo/protocol.go Decode: frame complete", []string{"dataLen", "payLoadLen"}, "Bool", ff.conds[1], env)
		}
		r, ok := ff.reads["payLoadLen"]
		o.field("dubbo_payLoadLen", "dubbo/protocol.go Decode payLoadLen", r, ok)
	}
	if fd := findFunc(dd, "", "decodeFrame"); fd == nil {
		o.fail("dubbo decodeFrame not found")
	} else {
		ff := factsOf(fd, dc)
		r, ok := ff.reads["frame.DataLen"]
		o.field("dubbo_dataLen", "dubbo/decoder.go decodeFrame frame.DataLen", r, ok)
		env := newEnv(dc, "frame.DataLen", "dataLenField", "frameLen", "frameLen")
		o.fn("dubbo_frameLen", "dubbo/decoder.go decodeFrame: frameLen (uint32 arithmetic in Go; exact below 4 GiB)", []string{"dataLenField"}, "Nat", ff.assign["frameLen"], env)
		if len(ff.drains) != 1 {
			o.fail("dubbo decodeFrame: expected exactly one Drain call")
		} else {
			o.fn("dubbo_drain", "dubbo/decoder.go decodeFrame: argument of data.Drain", []string{"frameLen"}, "Nat", ff.drains[0], env)
		}
	}

	// ---- dubbothrift
	tc := map[string]string{}
	if err := intConsts(xp+"dubbothrift", "", tc); err != nil {
		return "", err
	}
	tp, err := parse(xp + "dubbothrift/protocol.go")
	if err != nil {
		return "", err
	}
	td, err := parse(xp + "dubbothrift/decoder.go")
	if err != nil {
		return "", err
	}
	if fd := findFunc(tp, "thriftProtocol", "Decode"); fd == nil {
		o.fail("dubbothrift Decode not found")
	} else {
		ff := factsOf(fd, tc)
		env := newEnv(tc, "data.Len()", "dataLen", "frameLen", "frameLen")
		if len(ff.conds) < 2 {
			o.fail("dubbothrift Decode: expected two nested length tests")
		} else {
			o.fn("thrift_enough1", "dubbothrift/protocol.go Decode: size + magic buffered", []string{"dataLen"}, "Bool", ff.conds[0], env)
			o.fn("thrift_enough2", "dubbothrift/protocol.go Decode: frame complete (frameLen = the message size field)", []string{"dataLen", "frameLen"}, "Bool", ff.conds[1], env)
		}
		r, ok := ff.reads["frameLen"]
		o.field("thrift_sizeField", "dubbothrift/protocol.go Decode frameLen", r, ok)
	}
	if fd := findFunc(td, "", "decodeFrame"); fd == nil {
		o.fail("dubbothrift decodeFrame not found")
	} else {
		ff := factsOf(fd, tc)
		env := newEnv(tc, "messageLen", "messageLen", "frame.FrameLength", "frameLength")
		o.fn("thrift_frameLength", "dubbothrift/decoder.go decodeFrame: frame.FrameLength (uint32 arithmetic in Go; exact below 4 GiB)", []string{"messageLen"}, "Nat", ff.assign["frame.FrameLength"], env)
		if s, ok := ff.assign["body"].(*ast.SliceExpr); !ok {
			o.fail("dubbothrift decodeFrame: body is not a slice expression")
		} else {
			o.fn("thrift_bodyLo", "dubbothrift/decoder.go decodeFrame: body = dataBytes[lo:hi], lo", nil, "Nat", s.Low, env)
			hi := s.High
			if hi == nil && exprKey(s.X) == "frame.rawData" {
				// body := frame.rawData[lo:] where frame.rawData is the private copy of dataBytes[:frame.FrameLength]
				// (make([]byte, frame.FrameLength) + copy): the upper bound is frame.FrameLength
				if mk, ok := ff.assign["frame.rawData"].(*ast.CallExpr); ok && exprKey(mk.Fun) == "make" && len(mk.Args) == 2 && exprKey(mk.Args[1]) == "frame.FrameLength" {
					hi = ff.assign["frame.FrameLength"]
				}
			}
			o.fn("thrift_bodyHi", "dubbothrift/decoder.go decodeFrame: body = <frame bytes>[lo:hi], hi", []string{"messageLen"}, "Nat", hi, env)
		}
		rm, okm := ff.reads["messageLen"]
		o.field("thrift_messageLen", "dubbothrift/decoder.go decodeFrame messageLen", rm, okm)
		r, ok := ff.reads["frame.HeaderLength"]
		o.field("thrift_headerLength", "dubbothrift/decoder.go decodeFrame frame.HeaderLength (offsets inside body)", r, ok)
		if len(ff.drains) != 1 {
			o.fail("dubbothrift decodeFrame: expected exactly one Drain call")
		} else {
			o.fn("thrift_drain", "dubbothrift/decoder.go decodeFrame: argument of data.Drain", []string{"frameLength"}, "Nat", ff.drains[0], env)
		}
	}

	// ---- HTTP/2 framer boundary (pkg/module/http2/mhttp2.go MFramer.readFrameHeader / ReadFrame)
	hc := map[string]string{}
	if err := intConsts("pkg/module/http2", "", hc); err != nil {
		return "", err
	}
	hm, err := parse("pkg/module/http2/mhttp2.go")
	if err != nil {
		return "", err
	}
	if fd := findFunc(hm, "MFramer", "readFrameHeader"); fd == nil {
		o.fail("http2 readFrameHeader not found")
	} else {
		ff := factsOf(fd, hc)
		if len(ff.conds) < 1 {
			o.fail("http2 readFrameHeader: length test not found")
		} else {
			o.fn("h2_hdrShort", "mhttp2.go readFrameHeader: fewer than off+frameHeaderLen bytes buffered (ErrAGAIN)", []string{"dataLen", "off"}, "Bool", ff.conds[0],
				newEnv(hc, "data.Len()", "dataLen", "off", "off"))
		}
	}
	if fd := findFunc(hm, "MFramer", "ReadFrame"); fd == nil {
		o.fail("http2 ReadFrame not found")
	} else {
		ff := factsOf(fd, hc)
		env := newEnv(hc, "data.Len()", "dataLen", "off", "off", "fh.Length", "length", "fr.maxReadSize", "maxReadSize", "size", "size", "msize", "msize",
			"fh.Type", "ty", "FrameContinuation", hc["FrameContinuation"], "FrameHeaders", hc["FrameHeaders"])
		var tooLarge, incomplete, notCont ast.Expr
		for _, c := range ff.conds {
			k := ""
			xIsCall := false
			if b, ok := c.(*ast.BinaryExpr); ok {
				k = exprKey(b.X) + " " + b.Op.String() + " " + exprKey(b.Y)
				_, xIsCall = b.X.(*ast.CallExpr)
				xIsCall = xIsCall && b.Op.String() == ">"
			}
			switch {
			case k == "fh.Length > fr.maxReadSize":
				tooLarge = c
			case xIsCall:
				incomplete = c
			case k == "fh.Type != FrameContinuation":
				notCont = c
			}
		}
		o.fn("h2_tooLarge", "mhttp2.go ReadFrame: ErrFrameTooLarge", []string{"length", "maxReadSize"}, "Bool", tooLarge, env)
		o.fnSub("h2_incomplete", "mhttp2.go ReadFrame: payload not buffered yet (ErrAGAIN); the subtraction is exact: readFrameHeader has checked dataLen ≥ off+frameHeaderLen", []string{"length", "dataLen", "off"}, "Bool", incomplete, env)
		o.fn("h2_size", "mhttp2.go ReadFrame: size of one frame", []string{"length"}, "Nat", ff.assign["size"], env)
		o.fn("h2_drains", "mhttp2.go ReadFrame: this frame type drains the buffer itself (CONTINUATION is drained by its HEADERS)", []string{"ty"}, "Bool", notCont, env)
		// the Drain of a decoded frame is the body of the top-level `if fh.Type != FrameContinuation`; every other Drain
		// must consume a frame that answered a StreamError at offset 0 (`if _, ok := err.(StreamError); ok && off == 0`):
		// the single frame (argument = the `size` expression) after its payload parser, the whole HEADERS+CONTINUATION
		// group (argument = the argument of the success Drain) after readMetaFrame
		var okDrain ast.Expr
		errDrains := 0
		var badDrain string
		var walkDrains func(n ast.Node, guard string, top bool)
		walkDrains = func(n ast.Node, guard string, top bool) {
			ast.Inspect(n, func(m ast.Node) bool {
				switch x := m.(type) {
				case *ast.IfStmt:
					if m == n {
						return true
					}
					g := ""
					if x.Init != nil {
						g = c08fSrc(x.Init) + "; "
					}
					g += c08fSrc(x.Cond)
					walkDrains(x.Body, g, false)
					if x.Else != nil {
						walkDrains(x.Else, "else", false)
					}
					return false
				case *ast.CallExpr:
					if sel, ok := x.Fun.(*ast.SelectorExpr); ok && sel.Sel.Name == "Drain" && len(x.Args) == 1 {
						arg := c08fSrc(x.Args[0])
						switch {
						case guard == "fh.Type != FrameContinuation":
							if okDrain != nil {
								badDrain = "two Drain calls under `fh.Type != FrameContinuation`"
							}
							okDrain = x.Args[0]
						case guard == "_, ok := err.(StreamError); ok && off == 0":
							errDrains++
							if arg != c08fSrc(ff.assign["size"]) && arg != "size + msize" {
								badDrain = "stream-error Drain of " + arg + " (expected the frame size or size + msize)"
							}
						default:
							badDrain = "Drain under unrecognised condition `" + guard + "`"
						}
					}
				}
				return true
			})
		}
		walkDrains(fd.Body, "", true)
		if badDrain != "" {
			o.fail("http2 ReadFrame: %s", badDrain)
		}
		if okDrain == nil {
			o.fail("http2 ReadFrame: Drain of the decoded frame not found")
		} else {
			o.fn("h2_drain", "mhttp2.go ReadFrame: argument of data.Drain", []string{"size", "msize"}, "Nat", okDrain, env)
			if c08fSrc(okDrain) != "size + msize" && errDrains > 0 {
				o.fail("http2 ReadFrame: the success Drain is not size + msize")
			}
		}
		if errDrains != 0 && errDrains != 2 {
			o.fail("http2 ReadFrame: %d stream-error Drain calls (expected none or the two: payload parser, readMetaFrame)", errDrains)
		}
		fmt.Fprintf(&o.sb, "/-- mhttp2.go ReadFrame: a frame / HEADERS+CONTINUATION group that answers a StreamError at offset 0 is consumed\n(`if _, ok := err.(StreamError); ok && off == 0 { data.Drain(…) }`, the frame size resp. size + msize) -/\ndef h2_streamErrDrains : Bool := %v\n", errDrains == 2)
		o.names = append(o.names, "h2_streamErrDrains")
	}
	if len(o.errs) > 0 {
		return "", fmt.Errorf("%s", strings.Join(o.errs, "; "))
	}
	return o.sb.String() + o.macro("frame_len_defs") + footer("FrameLen"), nil
}

// ---------------------------------------------------------------------------------------------------------------

func byteSliceVar(f *ast.File, name string) ([]int64, error) {
	for _, d := range f.Decls {
		gd, ok := d.(*ast.GenDecl)
		if !ok || gd.Tok != token.VAR {
			continue
		}
		for _, sp := range gd.Specs {
			vs := sp.(*ast.ValueSpec)
			for i, n := range vs.Names {
				if n.Name != name || i >= len(vs.Values) {
					continue
				}
				cl, ok := vs.Values[i].(*ast.CompositeLit)
				if !ok {
					return nil, fmt.Errorf("%s is not a composite literal", name)
				}
				var out []int64
				for _, e := range cl.Elts {
					v, err := evalNat(e, nil)
					if err != nil {
						return nil, err
					}
					out = append(out, v)
				}
				return out, nil
			}
		}
	}
	return nil, fmt.Errorf("var %s not found", name)
}

func natList(v []int64) string {
	var p []string
	for _, x := range v {
		p = append(p, strconv.FormatInt(x, 10))
	}
	return "[" + strings.Join(p, ", ") + "]"
}

func genFrameConsts() (string, error) {
	o := &leanOut{}
	o.sb.WriteString(header("FrameConsts", xp+"*/types.go, */protocol.go, */matcher.go, pkg/stream/http/stream.go, pkg/module/http2/http2.go, TarsGo tars/protocol"))
	want := []struct {
		dir, pre string
		names    []string
	}{
		{xp + "bolt", "bolt_", []string{"ProtocolCode", "RequestHeaderLen", "ResponseHeaderLen", "LessLen", "CmdTypeResponse", "CmdTypeRequest", "CmdTypeRequestOneway", "CmdCodeHeartbeat"}},
		{xp + "boltv2", "boltv2_", []string{"ProtocolCode", "RequestHeaderLen", "ResponseHeaderLen", "LessLen"}},
		{xp + "dubbo", "dubbo_", []string{"HeaderLen", "MagicIdx", "FlagIdx", "DataLenIdx", "DataLenSize"}},
		{xp + "dubbothrift", "thrift_", []string{"MessageLenSize", "MagicLen", "MessageLenIdx", "MessageHeaderLenIdx", "MessageHeaderLenSize", "HeaderIdx"}},
		{xp + "tars", "tars_", []string{"MessageSizeLen", "IVersionLen", "IVersionHeaderIdx", "iVersionDataIdx"}},
	}
	for _, w := range want {
		for _, n := range w.names {
			v, err := intConst(w.dir, n)
			if err != nil {
				return "", err
			}
			o.nat(w.pre+n, w.dir+" const "+n, v)
		}
	}
	for _, m := range []struct{ file, pre string }{{xp + "dubbo/protocol.go", "dubbo_"}, {xp + "dubbothrift/protocol.go", "thrift_"}} {
		f, err := parse(m.file)
		if err != nil {
			return "", err
		}
		v, err := byteSliceVar(f, "MagicTag")
		if err != nil {
			return "", err
		}
		fmt.Fprintf(&o.sb, "/-- %s MagicTag -/\ndef %sMagicTag : List Nat := %s\n", m.file, m.pre, natList(v))
		o.names = append(o.names, m.pre+"MagicTag")
	}
	// tars matcher: data[IVersionHeaderIdx] == 16 && (data[iVersionDataIdx] == 1 || data[iVersionDataIdx] == 3)
	tm, err := parse(xp + "tars/matcher.go")
	if err != nil {
		return "", err
	}
	if fd := findFunc(tm, "", "tarsMatcher"); fd == nil {
		return "", fmt.Errorf("tarsMatcher not found")
	} else {
		tc := map[string]string{}
		intConsts(xp+"tars", "", tc)
		ff := factsOf(fd, tc)
		if len(ff.conds) < 2 {
			return "", fmt.Errorf("tarsMatcher: conditions not found")
		}
		c0, ok := ff.conds[0].(*ast.BinaryExpr)
		if !ok {
			return "", fmt.Errorf("tarsMatcher: first test is not a comparison")
		}
		min, err := evalNat(c0.Y, tc)
		if err != nil || c0.Op != token.LSS || !isLenCall(c0.X) {
			return "", fmt.Errorf("tarsMatcher: first test is not len(data) < const")
		}
		o.nat("tars_matchMinLen", "tars/matcher.go: below this length the matcher answers Again", min)
		// second condition: version bytes
		e1 := newEnv(tc)
		s, err := tarsVersionCond(ff.conds[1], e1)
		if err != nil {
			return "", err
		}
		fmt.Fprintf(&o.sb, "/-- tars/matcher.go: the iVersion test on data[IVersionHeaderIdx] (hb) and data[iVersionDataIdx] (vb) -/\ndef tars_versionOk (hb vb : Nat) : Bool := %s\n", s)
		o.names = append(o.names, "tars_versionOk")
	}
	// TarsGo limits (module version from go.mod)
	gm, err := os.ReadFile(filepath.Join(repo, "go.mod"))
	if err != nil {
		return "", err
	}
	mv := regexp.MustCompile(`github.com/TarsCloud/TarsGo\s+(v[^\s]+)`).FindSubmatch(gm)
	if mv == nil {
		return "", fmt.Errorf("TarsGo version not found in go.mod")
	}
	gopath := os.Getenv("GOMODCACHE")
	if gopath == "" {
		gp := os.Getenv("GOPATH")
		if gp == "" {
			gp = filepath.Join(os.Getenv("HOME"), "go")
		}
		gopath = filepath.Join(gp, "pkg", "mod")
	}
	tsrc, err := os.ReadFile(filepath.Join(gopath, "github.com", "!tars!cloud", "!tars!go@"+string(mv[1]), "tars", "protocol", "tarsprotocol.go"))
	if err != nil {
		return "", err
	}
	mp := regexp.MustCompile(`var maxPackageLength int = (\d+)`).FindSubmatch(tsrc)
	tr := regexp.MustCompile(`iHeaderLen < (\d+) \|\| iHeaderLen > maxPackageLength`).FindSubmatch(tsrc)
	tl := regexp.MustCompile(`if len\(rev\) < (\d+) \{`).FindSubmatch(tsrc)
	if mp == nil || tr == nil || tl == nil {
		return "", fmt.Errorf("TarsGo TarsRequest does not have the expected shape")
	}
	a, _ := strconv.ParseInt(string(mp[1]), 10, 64)
	b, _ := strconv.ParseInt(string(tr[1]), 10, 64)
	c, _ := strconv.ParseInt(string(tl[1]), 10, 64)
	o.nat("tars_maxPackageLength", "TarsGo "+string(mv[1])+" tars/protocol maxPackageLength (default)", a)
	o.nat("tars_minPackageLength", "TarsGo TarsRequest: iHeaderLen below this is PACKAGE_ERROR", b)
	o.nat("tars_lenFieldSize", "TarsGo TarsRequest: bytes needed to read the length", c)
	// [c08l9] what Decode maps PACKAGE_ERROR to (extract/gen_c08l9tars.go)
	ts, err := c08l9TarsStatus()
	if err != nil {
		return "", err
	}
	o.sb.WriteString(ts)

	// HTTP/1 method table
	hs, err := parse("pkg/stream/http/stream.go")
	if err != nil {
		return "", err
	}
	var methods []string
	lens := map[string]int64{}
	for _, d := range hs.Decls {
		gd, ok := d.(*ast.GenDecl)
		if !ok || gd.Tok != token.VAR {
			continue
		}
		for _, sp := range gd.Specs {
			vs := sp.(*ast.ValueSpec)
			for i, n := range vs.Names {
				if i >= len(vs.Values) {
					continue
				}
				switch n.Name {
				case "httpMethod":
					cl, ok := vs.Values[i].(*ast.CompositeLit)
					if !ok {
						return "", fmt.Errorf("httpMethod is not a map literal")
					}
					for _, e := range cl.Elts {
						kv := e.(*ast.KeyValueExpr)
						lit, ok := kv.Key.(*ast.BasicLit)
						if !ok || lit.Kind != token.STRING {
							return "", fmt.Errorf("httpMethod key is not a string literal")
						}
						s, _ := strconv.Unquote(lit.Value)
						methods = append(methods, s)
					}
				case "minMethodLengh", "maxMethodLengh":
					c, ok := vs.Values[i].(*ast.CallExpr)
					if !ok || exprKey(c.Fun) != "len" || len(c.Args) != 1 {
						return "", fmt.Errorf("%s is not len(\"…\")", n.Name)
					}
					lit, ok := c.Args[0].(*ast.BasicLit)
					if !ok {
						return "", fmt.Errorf("%s is not len(\"…\")", n.Name)
					}
					s, _ := strconv.Unquote(lit.Value)
					lens[n.Name] = int64(len(s))
				}
			}
		}
	}
	if len(methods) == 0 || len(lens) != 2 {
		return "", fmt.Errorf("HTTP/1 method table not found")
	}
	sort.Strings(methods)
	var ms []string
	for _, m := range methods {
		var bs []int64
		for _, ch := range []byte(m) {
			bs = append(bs, int64(ch))
		}
		ms = append(ms, natList(bs))
	}
	fmt.Fprintf(&o.sb, "/-- pkg/stream/http/stream.go httpMethod keys (sorted): %s -/\ndef http_methods : List (List Nat) := [%s]\n", strings.Join(methods, " "), strings.Join(ms, ", "))
	o.names = append(o.names, "http_methods")
	o.nat("http_minMethodLen", "pkg/stream/http/stream.go minMethodLengh", lens["minMethodLengh"])
	o.nat("http_maxMethodLen", "pkg/stream/http/stream.go maxMethodLengh", lens["maxMethodLengh"])

	// HTTP/2 preface
	cs, err := pkgConsts("pkg/module/http2")
	if err != nil {
		return "", err
	}
	pv, ok := cs["ClientPreface"]
	if !ok || pv.Kind() != constant.String {
		return "", fmt.Errorf("http2.ClientPreface not found")
	}
	var pb []int64
	for _, ch := range []byte(constant.StringVal(pv)) {
		pb = append(pb, int64(ch))
	}
	fmt.Fprintf(&o.sb, "/-- pkg/module/http2/http2.go ClientPreface -/\ndef http2_preface : List Nat := %s\n", natList(pb))
	o.names = append(o.names, "http2_preface")
	for _, n := range []string{"frameHeaderLen", "defaultMaxReadFrameSize", "maxFrameSize", "FrameHeaders", "FrameContinuation", "FlagHeadersEndHeaders", "FlagContinuationEndHeaders"} {
		if v, err := intConst("pkg/module/http2", n); err == nil {
			o.nat("http2_"+n, "pkg/module/http2 const "+n, v)
		} else {
			return "", err
		}
	}
	if len(o.errs) > 0 {
		return "", fmt.Errorf("%s", strings.Join(o.errs, "; "))
	}
	return o.sb.String() + o.macro("frame_consts_defs") + footer("FrameConsts"), nil
}

// tarsVersionCond translates `data[IVersionHeaderIdx] == 16 && (data[iVersionDataIdx] == 1 || data[iVersionDataIdx] == 3)`
// with the two indexed bytes mapped to hb / vb.
func tarsVersionCond(e ast.Expr, env *Env) (string, error) {
	var err error
	var rewrite func(e ast.Expr) ast.Expr
	rewrite = func(e ast.Expr) ast.Expr {
		switch x := e.(type) {
		case *ast.ParenExpr:
			return &ast.ParenExpr{X: rewrite(x.X)}
		case *ast.BinaryExpr:
			return &ast.BinaryExpr{X: rewrite(x.X), Op: x.Op, Y: rewrite(x.Y)}
		case *ast.IndexExpr:
			if exprKey(x.X) != "data" {
				err = fmt.Errorf("tarsMatcher: index of %s", exprKey(x.X))
				return e
			}
			switch exprKey(x.Index) {
			case "IVersionHeaderIdx":
				return ast.NewIdent("hb")
			case "iVersionDataIdx":
				return ast.NewIdent("vb")
			}
			err = fmt.Errorf("tarsMatcher: unexpected index %s", exprKey(x.Index))
		}
		return e
	}
	r := rewrite(e)
	if err != nil {
		return "", err
	}
	env.Names["hb"] = "hb"
	env.Names["vb"] = "vb"
	return env.expr(r)
}

func isLenCall(e ast.Expr) bool {
	c, ok := e.(*ast.CallExpr)
	return ok && exprKey(c.Fun) == "len" && len(c.Args) == 1
}

// c08fSrc prints a node on one line (used to compare Drain arguments / guards of MFramer.ReadFrame textually).
func c08fSrc(n ast.Node) string {
	if n == nil {
		return ""
	}
	if e, ok := n.(ast.Expr); ok && e == nil {
		return ""
	}
	var b bytes.Buffer
	printer.Fprint(&b, fset, n)
	return strings.Join(strings.Fields(b.String()), " ")
}
