-- translation-unsupported ProxyPhase: open -out/pkg/types/proxy.go: no such file or directory
namespace MosnVerif.Gen.ProxyPhase
end MosnVerif.Gen.ProxyPhase
