-- translation-unsupported H2Lock: open -out/pkg/stream/http2/stream.go: no such file or directory
namespace MosnVerif.Gen.H2Lock
end MosnVerif.Gen.H2Lock
