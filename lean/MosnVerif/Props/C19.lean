import MosnVerif.Lemmas.ConfigPairs
/-!
# C19 — configuration survives dump and reload unchanged (property theorems only)

The generic JSON codec of encoding/json is modelled by a field-table-driven encoder / decoder (`Shape`); the field tables
are **regenerated** from pkg/config/v2 (`Gen.ConfigGraph`).  Theorems: the generic cycle `decode ∘ encode` is the
normalisation `norm` and is stable from the first pass on — for *every* field table, and every struct of the
regenerated graph without custom marshalers is such a table; the fixpoint law `M (U (M (U w))) = M (U w)` for the three
representative custom pairs (FilterChain, Host / metadata, RetryPolicy / DurationConfig), whose hand-written shapes are
checked against the regenerated tables; and `ParseDuration ∘ String = id` for the digit-level model of package time.
-/
namespace MosnVerif.Props.C19
open MosnVerif.Model MosnVerif.Model.ConfigCodec MosnVerif.Model.GoTypes

/-- **generic_roundtrip**: for every field table (shape) whose member keys are distinct ignoring case, and every value of
it, `decode (encode v) = some (norm v)`; encoding does not see the normalisation, so a second cycle changes nothing:
`decode (encode (norm v)) = some (norm v)` and `encode (norm (norm v)) = encode (norm v)`. -/
theorem generic_roundtrip (sh : Shape) (hk : keysOK sh = true) (v : CVal) (hw : wt sh v = true) :
    decode sh (encode sh v) = some (norm sh v) ∧
    encode sh (norm sh v) = encode sh v ∧
    decode sh (encode sh (norm sh v)) = some (norm sh v) ∧
    encode sh (norm sh (norm sh v)) = encode sh (norm sh v) := by
  have h1 := rt sh hk v hw
  have h2 := en sh v hw
  have hwn : wt sh (norm sh v) = true := dw sh hk _ _ h1
  exact ⟨h1, h2, by rw [h2, h1], en sh _ hwn⟩

/-- whatever `decode` accepts, the dump of it is a fixpoint of the cycle: `encode (decode (encode (decode w))) = encode (decode w)` -/
theorem generic_dump_stable (sh : Shape) (hk : keysOK sh = true) (w : Json) (v : CVal) (h : decode sh w = some v) :
    ∃ v', decode sh (encode sh v) = some v' ∧ encode sh v' = encode sh v := by
  have hw := dw sh hk w v h
  exact ⟨norm sh v, rt sh hk v hw, en sh v hw⟩

/-- **the regenerated field tables are instances**: every struct of pkg/config/v2 without custom marshalers, embedded
fields or external field types unfolds to a shape with distinct member keys — so `generic_roundtrip` applies to it. -/
theorem regenerated_tables_generic :
    genericStructs.all (fun s => match shapeOf s with | some sh => keysOK sh | none => false) = true := by
  decide +kernel

/-- **FilterChain** (`tls_context` / `tls_context_set` ↔ `TLSContexts`), for every shape of TLS contexts and filters -/
theorem filterchain_fixpoint (tls filter : Shape) (h1 : keysOK tls = true) (h2 : keysOK filter = true)
    (h3 : ptrElemOK tls = true) (w : Json) (x : FilterChainV) (hU : fcU tls filter w = some x) :
    ∃ y, fcU tls filter (fcM tls filter x) = some y ∧ fcM tls filter y = fcM tls filter x :=
  fc_fixpoint tls filter h1 h2 h3 w x hU

/-- **Host** (`metadata.filter_metadata."mosn.lb"` ↔ `MetaData`, strings only) -/
theorem host_fixpoint (w : Json) (x : HostV) (hU : hostU w = some x) :
    ∃ y, hostU (hostM x) = some y ∧ hostM y = hostM x :=
  ConfigCodec.host_fixpoint w x hU

/-- **duration_roundtrip**: in the digit-level model of package time, `time.ParseDuration (d.String ()) = d` for every
int64 duration, and every duration `ParseDuration` returns is an int64 — so what `DurationConfig` writes is always
read back unchanged. -/
theorem duration_roundtrip (d : Int) (hlo : -(GoDuration.two63 : Int) ≤ d) (hhi : d < (GoDuration.two63 : Int)) :
    GoDuration.parseDur (GoDuration.fmtDur d) = some d ∧
    (∀ s d', GoDuration.parseDur s = some d' → -(GoDuration.two63 : Int) ≤ d' ∧ d' < (GoDuration.two63 : Int)) :=
  ⟨GoDuration.parseDur_fmtDur d hlo hhi, fun s d' h => GoDuration.parseChars_range s.toList d' h⟩

/-- **RetryPolicy** (`retry_timeout` ↔ `RetryTimeout`, through `api.DurationConfig`) -/
theorem retrypolicy_fixpoint (w : Json) (x : RetryV) (hU : retryU w = some x) :
    ∃ y, retryU (retryM x) = some y ∧ retryM y = retryM x :=
  retry_fixpoint w x hU

/-- **mirror wrappers** (`KeepAlive`, `HealthCheck`, and every pair of the same form): `UnmarshalJSON` decodes the embedded
generic config and copies members into `json:"-"` fields (`proj`), `MarshalJSON` copies them back (`put`) and encodes;
since `put (proj c) c = c`, what the pair writes after one load is a fixpoint — for every generic shape, in particular
the regenerated `KeepAliveConfig` and `HealthCheckConfig` (durations included). -/
theorem mirror_wrapper_fixpoint {δ : Type} (sh : Shape) (hk : keysOK sh = true) (proj : CVal → δ) (put : δ → CVal → CVal)
    (hput : ∀ c, put (proj c) c = c) (w : Json) (c : CVal) (h : decode sh w = some c) :
    ∃ c', decode sh (encode sh (put (proj c) c)) = some c' ∧ encode sh (put (proj c') c') = encode sh (put (proj c) c) :=
  mirror_fixpoint sh hk proj put hput w c h

/-! ## the hand-written shapes of the custom pairs against the regenerated tables -/

/-- `HostConfig` of the regenerated graph is exactly `hostShape` -/
example : (match shapeOf "HostConfig" with | some sh => sh == hostShape | none => false) = true := by decide +kernel
/-- `FilterChainConfig` of the regenerated graph is `fcShape` over the regenerated TLSConfig and Filter tables -/
example : (match looseShapeOf "TLSConfig", shapeOf "Filter", looseShapeOf "FilterChainConfig" with
    | some tls, some fl, some fc => fc == fcShape tls fl && keysOK tls && keysOK fl && ptrElemOK tls
    | _, _, _ => false) = true := by decide +kernel
/-- `RetryPolicyConfig`: the four members `retryU` / `retryM` handle, in this order, all `omitempty` -/
example : (G.find "RetryPolicyConfig").map (fun d => d.fields.map (fun f => (jsonKey f, f.omitempty, f.ty))) =
    some [("retry_on", true, .bool), ("retry_timeout", true, .ext "api.DurationConfig"), ("num_retries", true, .num),
          ("status_codes", true, .slice .num)] := by decide +kernel
/-- the structs with the custom pairs embed exactly these configs and keep their derived fields out of JSON -/
example : (G.find "FilterChain").map (fun d => d.fields.map (fun f => (f.name, f.json, f.embedded))) =
      some [("FilterChainConfig", "", true), ("TLSContexts", "-", false)] ∧
    (G.find "Host").map (fun d => d.fields.map (fun f => (f.name, f.json, f.embedded))) =
      some [("HostConfig", "", true), ("MetaData", "-", false)] ∧
    (G.find "RetryPolicy").map (fun d => d.fields.map (fun f => (f.name, f.json, f.embedded))) =
      some [("RetryPolicyConfig", "", true), ("RetryTimeout", "-", false)] := by decide +kernel

/-- `KeepAlive` and `HealthCheck` are mirror wrappers of generic configs: embedded config + `json:"-"` durations only -/
example : (G.find "KeepAlive").map (fun d => d.fields.map (fun f => (f.name, f.json, f.embedded, f.ty))) =
      some [("KeepAliveConfig", "", true, .named "KeepAliveConfig"), ("Interval", "-", false, .ext "time.Duration"),
            ("Timeout", "-", false, .ext "time.Duration")] ∧
    (G.find "HealthCheck").map (fun d => d.fields.map (fun f => (f.name, f.json, f.embedded, f.ty))) =
      some [("HealthCheckConfig", "", true, .named "HealthCheckConfig"), ("Timeout", "-", false, .ext "time.Duration"),
            ("Interval", "-", false, .ext "time.Duration"), ("IntervalJitter", "-", false, .ext "time.Duration")] ∧
    (genericStructs.contains "KeepAliveConfig" && genericStructs.contains "HealthCheckConfig") = true := by decide +kernel

/-! ## non-vacuity -/

/-- a struct of the regenerated graph, a value with an empty non-nil slice behind `omitempty`: the cycle normalises it -/
example : (match shapeOf "RouterMatch" with
    | some sh =>
      let v := CVal.struct [.str "/p", .str "", .str "", .slice false [], .slice true [], .slice false [.struct [.str "e"]]]
      wt sh v && keysOK sh &&
        (encode sh v == Json.obj [("prefix", .str "/p"), ("dsl_expressions", .arr [.obj [("expression", .str "e")]])]) &&
        (match decode sh (encode sh v) with | some v' => !(v' == v) && v' == norm sh v | none => false)
    | none => false) = true := by decide +kernel

/-- FilterChain: a single `tls_context` is dumped as a one-element `tls_context_set`, and stays so -/
example : (match fcU .str .hole (.obj [("tls_context", .str "T"), ("filters", .arr [.num "1"])]) with
    | some x => fcM .str .hole x == .obj [("tls_context_set", .arr [.str "T"]), ("filters", .arr [.num "1"])]
    | none => false) = true := by decide +kernel
example : (fcU .str .hole (.obj [("tls_context", .str "T"), ("tls_context_set", .arr [.str "S"])])).isNone = true := by
  decide +kernel
/-- Host: a non-string metadata value is dropped by the first load (and only by the first) -/
example : (match hostU (.obj [("address", .str "a:1"), ("metadata", .obj [("filter_metadata", .obj [("mosn.lb",
      .obj [("v", .str "1"), ("n", .num "2")])])])]) with
    | some x => hostM x == .obj [("address", .str "a:1"), ("metadata", .obj [("filter_metadata", .obj [("mosn.lb",
      .obj [("v", .str "1")])])])]
    | none => false) = true := by decide +kernel

/-- RetryPolicy: `90s` is dumped as `1m30s` and stays so; `DurLaw` on the boundary values of `time.Duration` -/
example : (match retryU (.obj [("retry_on", .bool true), ("retry_timeout", .str "90s"), ("status_codes", .arr [.num "500"])]) with
    | some x => retryM x == .obj [("retry_on", .bool true), ("retry_timeout", .str "1m30s"), ("status_codes", .arr [.num "500"])]
    | none => false) = true := by decide +kernel
example : ([0, 1, 999, 1000, 1500, 999999, 1000000, 999999999, 1000000000, 59999999999, 60000000000, 3600000000000,
    3661000000001, -1, -1500000, 9223372036854775807, -9223372036854775808] : List Int).all
    (fun d => durU (.str (GoDuration.fmtDur d)) == some d) = true := by decide +kernel

end MosnVerif.Props.C19
