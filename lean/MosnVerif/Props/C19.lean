import MosnVerif.Lemmas.ConfigPairs
import MosnVerif.Lemmas.ConfigDir
import MosnVerif.Lemmas.ConfigPairs2
import MosnVerif.Lemmas.UpdatesMode
import MosnVerif.Lemmas.ConfigOrder
import MosnVerif.Lemmas.ConfigCb
import MosnVerif.Model.ListenerAddr
/-!
# C19 — configuration survives dump and reload unchanged (property theorems only)

The generic JSON codec of encoding/json is modelled by a field-table-driven encoder / decoder (`Shape`); the field tables
are **regenerated** from pkg/config/v2 (`Gen.ConfigGraph`), and so is the classification of the custom (Un)MarshalJSON
pairs from their method bodies (`Gen.ConfigPairs`: mirror wrappers = the generic codec of their config, metadata
wrappers = shape `metaS`, single-field delegation = shape `boxed`).  Theorems: the cycle `decode ∘ encode` is the
normalisation `norm` and is stable from the first pass on — for *every* shape, and every struct of the regenerated graph
that unfolds (84 of 100: all but those containing Listener, FilterChain, the two directory pairs, or opaque external
types) is such a shape, customs included and nested; the fixpoint law `M (U (M (U w))) = M (U w)` for the hand-written
pairs FilterChain, Host, RetryPolicy / DurationConfig, every metadata wrapper (ClusterWeight, RouteAction, Router),
CircuitBreakers, Listener, tied to the regenerated tables; `ParseDuration ∘ String = id` for the digit-level model of
package time; and the directory ("dynamic") mode of ClusterManagerConfig / RouterConfiguration with the file-name
operations regenerated from the two MarshalJSON bodies, closed over the regenerated Cluster / VirtualHost codecs.
-/
namespace MosnVerif.Props.C19
open MosnVerif.Model MosnVerif.Model.ConfigCodec MosnVerif.Model.GoTypes

/-- **generic_roundtrip**: for every field table (shape) whose member keys are distinct ignoring case, and every value of
it, `decode (encode v) = some (norm v)`; encoding does not see the normalisation, so a second cycle changes nothing:
`decode (encode (norm v)) = some (norm v)` and `encode (norm (norm v)) = encode (norm v)`. -/
theorem generic_roundtrip (sh : Shape) (hk : keysOK sh = true) (v : CVal) (hw : wt sh v = true) :
    decode sh (encode sh v) = some (norm sh v) ∧
    encode sh (norm sh v) = encode sh v ∧
    decode sh (encode sh (norm sh v)) = some (norm sh v) ∧
    encode sh (norm sh (norm sh v)) = encode sh (norm sh v) := by
  have h1 := rt sh hk v hw
  have h2 := en sh v hw
  have hwn : wt sh (norm sh v) = true := dw sh hk _ _ h1
  exact ⟨h1, h2, by rw [h2, h1], en sh _ hwn⟩

/-- whatever `decode` accepts, the dump of it is a fixpoint of the cycle: `encode (decode (encode (decode w))) = encode (decode w)` -/
theorem generic_dump_stable (sh : Shape) (hk : keysOK sh = true) (w : Json) (v : CVal) (h : decode sh w = some v) :
    ∃ v', decode sh (encode sh v) = some v' ∧ encode sh v' = encode sh v := by
  have hw := dw sh hk w v h
  exact ⟨norm sh v, rt sh hk v hw, en sh v hw⟩

/-- **the regenerated field tables are instances**: every struct of pkg/config/v2 that unfolds — no embedded fields or
opaque external field types; custom pairs only where the extractor recognised both method bodies as a mirror wrapper,
a metadata wrapper (the metadata member must be an `omitempty` `*MetadataConfig`: part of `keysOK`) or a single-field
delegation — unfolds to a shape with distinct member keys, so `generic_roundtrip` applies to it: among them `Cluster`
and `VirtualHost` with everything nested in them. -/
theorem regenerated_tables_generic :
    genericStructs.all (fun s => match shapeOf s with | some sh => keysOK sh | none => false) = true := by
  decide +kernel

/-- **FilterChain** (`tls_context` / `tls_context_set` ↔ `TLSContexts`), for every shape of TLS contexts and filters -/
theorem filterchain_fixpoint (tls filter : Shape) (h1 : keysOK tls = true) (h2 : keysOK filter = true)
    (h3 : ptrElemOK tls = true) (w : Json) (x : FilterChainV) (hU : fcU tls filter w = some x) :
    ∃ y, fcU tls filter (fcM tls filter x) = some y ∧ fcM tls filter y = fcM tls filter x :=
  fc_fixpoint tls filter h1 h2 h3 w x hU

/-- **Host** (`metadata.filter_metadata."mosn.lb"` ↔ `MetaData`, strings only) -/
theorem host_fixpoint (w : Json) (x : HostV) (hU : hostU w = some x) :
    ∃ y, hostU (hostM x) = some y ∧ hostM y = hostM x :=
  ConfigCodec.host_fixpoint w x hU

/-- **duration_roundtrip**: in the digit-level model of package time, `time.ParseDuration (d.String ()) = d` for every
int64 duration, and every duration `ParseDuration` returns is an int64 — so what `DurationConfig` writes is always
read back unchanged. -/
theorem duration_roundtrip (d : Int) (hlo : -(GoDuration.two63 : Int) ≤ d) (hhi : d < (GoDuration.two63 : Int)) :
    GoDuration.parseDur (GoDuration.fmtDur d) = some d ∧
    (∀ s d', GoDuration.parseDur s = some d' → -(GoDuration.two63 : Int) ≤ d' ∧ d' < (GoDuration.two63 : Int)) :=
  ⟨GoDuration.parseDur_fmtDur d hlo hhi, fun s d' h => GoDuration.parseChars_range s.toList d' h⟩

/-- **RetryPolicy** (`retry_timeout` ↔ `RetryTimeout`, through `api.DurationConfig`) -/
theorem retrypolicy_fixpoint (w : Json) (x : RetryV) (hU : retryU w = some x) :
    ∃ y, retryU (retryM x) = some y ∧ retryM y = retryM x :=
  retry_fixpoint w x hU

/-- **mirror wrappers** (`KeepAlive`, `HealthCheck`, and every pair of the same form): `UnmarshalJSON` decodes the embedded
generic config and copies members into `json:"-"` fields (`proj`), `MarshalJSON` copies them back (`put`) and encodes;
since `put (proj c) c = c`, what the pair writes after one load is a fixpoint — for every generic shape, in particular
the regenerated `KeepAliveConfig` and `HealthCheckConfig` (durations included). -/
theorem mirror_wrapper_fixpoint {δ : Type} (sh : Shape) (hk : keysOK sh = true) (proj : CVal → δ) (put : δ → CVal → CVal)
    (hput : ∀ c, put (proj c) c = c) (w : Json) (c : CVal) (h : decode sh w = some c) :
    ∃ c', decode sh (encode sh (put (proj c) c)) = some c' ∧ encode sh (put (proj c') c') = encode sh (put (proj c) c) :=
  mirror_fixpoint sh hk proj put hput w c h

/-! ## metadata wrappers, CircuitBreakers, Listener -/

/-- **metadata_wrapper_fixpoint** (`ClusterWeight`, `RouteAction`, `Router`, `Host`: `UnmarshalJSON` derives an
`api.Metadata` from the `*MetadataConfig` member of the embedded config, `MarshalJSON` rebuilds the member from it): for
EVERY field table with case-distinct keys and every position `i` of an `omitempty` `*MetadataConfig` member, and every
wire value the pair accepts, `M (U (M (U w))) = M (U w)`.  Members that are mirrored into `json:"-"` fields and copied
back (`RouteAction.Timeout` ↔ `timeout`, an `api.DurationConfig` = shape `.dur`) are the identity on the config. -/
theorem metadata_wrapper_fixpoint (fs : Fields) (i : Nat) (hk : keysOKF fs = true) (hm : metaAt fs i = true)
    (w : Json) (x : MetaV) (hU : metaU fs i w = some x) :
    ∃ y, metaU fs i (metaM fs i x) = some y ∧ metaM fs i y = metaM fs i x :=
  meta_fixpoint fs i hk hm w x hU

/-- the law for the **regenerated** field table of config struct `s` with its metadata member `key` -/
theorem wrapper_instance (s key : String)
    (hreg : (match embFields s with | some fs => keysOKF fs && metaAt fs (fs.indexOf key) | none => false) = true)
    (fs : Fields) (h : embFields s = some fs) (w : Json) (x : MetaV) (hU : metaU fs (fs.indexOf key) w = some x) :
    ∃ y, metaU fs (fs.indexOf key) (metaM fs (fs.indexOf key) x) = some y ∧
      metaM fs (fs.indexOf key) y = metaM fs (fs.indexOf key) x := by
  rw [h] at hreg
  simp only [Bool.and_eq_true] at hreg
  exact meta_fixpoint fs _ hreg.1 hreg.2 w x hU

/-- **ClusterWeight** over the regenerated `ClusterWeightConfig` (`metadata_match` ↔ `MetadataMatch`) -/
theorem clusterweight_fixpoint (fs : Fields) (h : embFields "ClusterWeightConfig" = some fs) (w : Json) (x : MetaV)
    (hU : metaU fs (fs.indexOf "metadata_match") w = some x) :
    ∃ y, metaU fs (fs.indexOf "metadata_match") (metaM fs (fs.indexOf "metadata_match") x) = some y ∧
      metaM fs (fs.indexOf "metadata_match") y = metaM fs (fs.indexOf "metadata_match") x :=
  wrapper_instance "ClusterWeightConfig" "metadata_match" (by decide +kernel) fs h w x hU

/-- **RouteAction** over the regenerated `RouterActionConfig` (`metadata_match` ↔ `MetadataMatch`, `timeout` ↔ `Timeout`) -/
theorem routeaction_fixpoint (fs : Fields) (h : embFields "RouterActionConfig" = some fs) (w : Json) (x : MetaV)
    (hU : metaU fs (fs.indexOf "metadata_match") w = some x) :
    ∃ y, metaU fs (fs.indexOf "metadata_match") (metaM fs (fs.indexOf "metadata_match") x) = some y ∧
      metaM fs (fs.indexOf "metadata_match") y = metaM fs (fs.indexOf "metadata_match") x :=
  wrapper_instance "RouterActionConfig" "metadata_match" (by decide +kernel) fs h w x hU

/-- **Router** over the regenerated `RouterConfig` (`metadata` ↔ `Metadata`) -/
theorem router_fixpoint (fs : Fields) (h : embFields "RouterConfig" = some fs) (w : Json) (x : MetaV)
    (hU : metaU fs (fs.indexOf "metadata") w = some x) :
    ∃ y, metaU fs (fs.indexOf "metadata") (metaM fs (fs.indexOf "metadata") x) = some y ∧
      metaM fs (fs.indexOf "metadata") y = metaM fs (fs.indexOf "metadata") x :=
  wrapper_instance "RouterConfig" "metadata" (by decide +kernel) fs h w x hU

/-- **CircuitBreakers** (the bare `[]Thresholds`) over the regenerated `Thresholds` table -/
theorem circuitbreakers_fixpoint (th : Shape) (h : shapeOf "Thresholds" = some th) (w : Json) (x : CVal)
    (hU : cbU th w = some x) : ∃ y, cbU th (cbM th x) = some y ∧ cbM th y = cbM th x := by
  have hreg : (match shapeOf "Thresholds" with | some sh => keysOK sh | none => false) = true := by decide +kernel
  rw [h] at hreg
  exact cb_fixpoint th hreg w x hU

/-- **circuitbreakers_effective_survive**: MOSN applies one entry of `circuit_breakers` (`Gen.ConfigCb.plan`, regenerated
from `cluster.NewResourceManager`: entry 0, defaults for an empty list), so the POSITION of every entry is configuration.
For every wire document the real pair accepts, the dump read back has the same entries — as many, in the same order, with
the same four limits, entries that set no limit (`{}`, an entry with only members MOSN does not know, `null`) included —
hence the cluster built from the reloaded dump gets the limits of the running one.  (The fixpoint law above does not say
this: a dump that drops limit-less entries is a fixpoint of the pair, yet moves another entry to the front.) -/
theorem circuitbreakers_effective_survive (fs : Fields) (h : shapeOf "Thresholds" = some (.struct fs)) (w : Json) (x : CVal)
    (hU : cbU (.struct fs) w = some x) :
    ∃ y, cbU (.struct fs) (cbM (.struct fs) x) = some y ∧ ConfigCb.entries y = ConfigCb.entries x ∧
      ConfigCb.effective y = ConfigCb.effective x := by
  have hreg : (match shapeOf "Thresholds" with
    | some (.struct fs) => keysOKF fs && ConfigCb.allNum fs | _ => false) = true := by decide +kernel
  rw [h] at hreg
  simp only [Bool.and_eq_true] at hreg
  obtain ⟨y, h1, h2⟩ := ConfigCb.cb_entries_survive fs hreg.1 hreg.2 w x hU
  exact ⟨y, h1, h2, by unfold ConfigCb.effective; rw [h2]⟩

/-- non-vacuity and the witness of what is at stake: `[{"priority":"HIGH"},{…:0,…:0},null]` decodes to three entries, all
dumped; the first entry is the effective one: `[{}, {max_connections 10, max_retries 3}]` means no limits, without the
first entry the limits are those of the second -/
example : (match shapeOf "Thresholds" with
    | some th =>
      (match cbU th (.arr [.obj [("priority", .str "HIGH")], .obj [("max_connections", .num "0"), ("max_retries", .num "0")], .null]) with
      | some x => (ConfigCb.entries x).length == 3 && (cbM th x == .arr [.obj [], .obj [], .obj []])
      | none => false)
    | none => false) = true := by decide +kernel
example : ConfigCb.effectiveOf ConfigCb.thresholdNames Gen.ConfigCb.plan [[0, 0, 0, 0], [10, 0, 0, 3]] = [0, 0, 0, 0] ∧
    ConfigCb.effectiveOf ConfigCb.thresholdNames Gen.ConfigCb.plan [[10, 0, 0, 3]] = [10, 0, 0, 3] ∧
    ConfigCb.effectiveOf ConfigCb.thresholdNames Gen.ConfigCb.plan [] = [0, 0, 0, 0] := by decide +kernel

/-- **Listener** over the regenerated `ListenerConfig`: empty address and networks other than tcp / udp / unix are
rejected, `network` is defaulted and lower-cased by the first `UnmarshalJSON`, the address is replaced by the resolver's
answer; for every resolver whose answers are non-empty and resolve to themselves (`ResolverOK`: `net.Resolve*Addr` of
`Addr.String()`), what `MarshalJSON` writes after one `UnmarshalJSON` is a fixpoint -/
theorem listener_fixpoint (fs : Fields) (h : embFields "ListenerConfig" = some fs)
    (R : String → String → Option String) (hR : ResolverOK R) (w : Json) (x : LnV)
    (hU : lnU fs (fs.indexOf "address") (fs.indexOf "network") R w = some x) :
    ∃ y, lnU fs (fs.indexOf "address") (fs.indexOf "network") R (lnM fs (fs.indexOf "address") x) = some y ∧
      lnM fs (fs.indexOf "address") y = lnM fs (fs.indexOf "address") x := by
  have hreg : (match embFields "ListenerConfig" with
    | some fs => keysOKF fs && strAt fs (fs.indexOf "address") "address" && strAt fs (fs.indexOf "network") "network"
    | none => false) = true := by decide +kernel
  rw [h] at hreg
  simp only [Bool.and_eq_true] at hreg
  exact ln_fixpoint fs _ _ hreg.1.1 hreg.1.2 hreg.2 R hR w x hU

/-! the Go structs behind these pairs, in the regenerated graph: an embedded config + derived `json:"-"` fields only -/
example : (G.find "ClusterWeight").map (fun d => d.fields.map (fun f => (f.name, f.json, f.embedded))) =
      some [("ClusterWeightConfig", "", true), ("MetadataMatch", "-", false)] ∧
    (G.find "RouteAction").map (fun d => d.fields.map (fun f => (f.name, f.json, f.embedded))) =
      some [("RouterActionConfig", "", true), ("MetadataMatch", "-", false), ("Timeout", "-", false)] ∧
    (G.find "Router").map (fun d => d.fields.map (fun f => (f.name, f.json, f.embedded))) =
      some [("RouterConfig", "", true), ("Metadata", "-", false)] := by decide +kernel
example : (G.find "CircuitBreakers").map (fun d => d.fields.map (fun f => (f.name, f.json, f.embedded, f.ty))) =
      some [("Thresholds", "", false, .slice (.named "Thresholds"))] := by decide +kernel
example : (G.find "Listener").map (fun d => d.fields.map (fun f => (f.name, f.json, f.embedded))) =
      some [("ListenerConfig", "", true), ("Addr", "-", false), ("ListenerTag", "-", false), ("ListenerScope", "-", false),
            ("PerConnBufferLimitBytes", "-", false), ("InheritListener", "-", false), ("InheritPacketConn", "-", false),
            ("Remain", "-", false)] := by decide +kernel
/-- `timeout` of `RouterActionConfig` is an `api.DurationConfig` (never omitted); `Host` is the fourth wrapper -/
example : (match embFields "RouterActionConfig" with
      | some fs => (match fs.get? (fs.indexOf "timeout") with
        | some (k, o, sh) => k == "timeout" && o && sh == .dur
        | none => false)
      | none => false) = true ∧
    (match embFields "HostConfig" with | some fs => keysOKF fs && metaAt fs (fs.indexOf "metadata") | none => false) = true := by
  decide +kernel

/-! non-vacuity -/

/-- ClusterWeight: a non-string `mosn.lb` value is dropped by the first load; then stable -/
example : (match embFields "ClusterWeightConfig" with
    | some fs =>
      (match metaU fs 2 (.obj [("name", .str "c"), ("metadata_match", .obj [("filter_metadata", .obj [("mosn.lb",
          .obj [("v", .str "1"), ("n", .num "2")])])])]) with
      | some x => metaM fs 2 x == .obj [("name", .str "c"), ("metadata_match", .obj [("filter_metadata", .obj [("mosn.lb",
          .obj [("v", .str "1")])])])]
      | none => false)
    | none => false) = true := by decide +kernel
/-- RouteAction: `90s` is written as `1m30s`, an absent timeout as `0s`, empty metadata disappears -/
example : (match embFields "RouterActionConfig" with
    | some fs =>
      (match metaU fs 6 (.obj [("cluster_name", .str "c"), ("timeout", .str "90s"), ("metadata_match", .obj [])]) with
      | some x => metaM fs 6 x == .obj [("cluster_name", .str "c"), ("timeout", .str "1m30s")]
      | none => false) &&
      (match metaU fs 6 (.obj []) with
      | some x => metaM fs 6 x == .obj [("timeout", .str "0s")]
      | none => false)
    | none => false) = true := by decide +kernel
/-- CircuitBreakers: zero thresholds vanish behind `omitempty`, `null` stays `null` -/
example : (match shapeOf "Thresholds" with
    | some th =>
      (match cbU th (.arr [.obj [("max_connections", .num "0"), ("max_retries", .num "3")]]) with
      | some x => cbM th x == .arr [.obj [("max_retries", .num "3")]] | none => false) &&
      (match cbU th .null with | some x => cbM th x == .null | none => false) &&
      (cbU th (.obj [])).isNone
    | none => false) = true := by decide +kernel
/-- Listener: `network` absent ⇒ `tcp`, `TCP` ⇒ `tcp`; the address becomes the resolver's answer; empty address, `sctp`
and an unresolvable address are errors.  (`R`: `localhost:80` ↦ `127.0.0.1:80` ↦ itself: `ResolverOK` on these.) -/
example : (match embFields "ListenerConfig" with
    | some fs =>
      let R : String → String → Option String := fun _ a =>
        if a == "localhost:80" || a == "127.0.0.1:80" then some "127.0.0.1:80" else none
      (match lnU fs 2 5 R (.obj [("name", .str "l"), ("address", .str "localhost:80"), ("network", .str "TCP")]) with
      | some x => lnM fs 2 x == .obj [("name", .str "l"), ("address", .str "127.0.0.1:80"), ("network", .str "tcp")]
      | none => false) &&
      (match lnU fs 2 5 R (.obj [("address", .str "127.0.0.1:80")]) with
      | some x => lnM fs 2 x == .obj [("address", .str "127.0.0.1:80"), ("network", .str "tcp")]
      | none => false) &&
      (lnU fs 2 5 R (.obj [("name", .str "l")])).isNone &&
      (lnU fs 2 5 R (.obj [("address", .str "127.0.0.1:80"), ("network", .str "sctp")])).isNone &&
      (lnU fs 2 5 R (.obj [("address", .str "nohost")])).isNone
    | none => false) = true := by decide +kernel

/-! ## directory ("dynamic") mode: `clusters_configs` / `router_configs` -/

section Directory
open MosnVerif.Model.ConfigDir MosnVerif.Model.DirTypes

/-- **dynamic_roundtrip**: let `ops` be file-name operations that end with `+ ext` and `uniqueFileName`, where
`ext` is the extension the loader reads, and that replace every path separator before (`opsOK`, decided below for the
regenerated lists; likewise every NUL byte).  Then for EVERY directory content `d` (files of any name and body), every list of items `cs` — names
of any length, colliding after truncation / separator replacement, empty, even repeated — every clock and every item
codec with `dcd (enc c) = some (nrm c)`: the dump succeeds, and the loader applied to what the dump left returns exactly
the items dumped (as a permutation: `ReadDir` sorts by file name), each as one (un)marshal cycle leaves it.
No hypothesis on the names: a NUL byte is replaced like the separator (repaired defect `dynnul`: before, `open` refused
the file name and the whole dump failed — witness below on the operations before the repair). -/
theorem dynamic_roundtrip {α : Type} (ops : List NameOp) (hops : opsOK ops Gen.ConfigDir.readExt = true)
    (enc : α → Json) (dcd : Json → Option α) (nrm : α → α) (hcodec : ∀ c, dcd (enc c) = some (nrm c))
    (nameOf : α → Bytes) (clock : Nat → Bytes) (hclock : ClockOK clock) (d : Dir) (cs : List α) :
    ∃ d' l, marshalDynamic ops enc nameOf clock d cs = some d' ∧
      unmarshalDynamic dcd Gen.ConfigDir.readExt d' = some l ∧ l.Perm (cs.map nrm) :=
  dynamic_roundtrip_gen ops _ hops enc dcd nrm nameOf clock hclock d cs (fun c _ => hcodec c)

/-- the **regenerated** operations of `ClusterManagerConfig.MarshalJSON` and `RouterConfiguration.MarshalJSON` are such
operations: truncation to `MaxFilePath`, then the separator and the NUL replacement, then the extension, then
`uniqueFileName`, then the in-use mark `delete(allFiles, fileName)` on the final name; and they read the clock only for an empty name (`stampFirst`) -/
theorem regenerated_name_ops_ok :
    opsOK Gen.ConfigDir.clusterNameOps Gen.ConfigDir.readExt = true ∧
    opsOK Gen.ConfigDir.vhostNameOps Gen.ConfigDir.readExt = true := by decide +kernel

theorem regenerated_name_ops_stamp_first :
    stampFirst Gen.ConfigDir.clusterNameOps = true ∧ stampFirst Gen.ConfigDir.vhostNameOps = true := by decide +kernel

/-- clusters in `clusters_configs` mode -/
theorem dynamic_roundtrip_clusters {α : Type} (enc : α → Json) (dcd : Json → Option α) (nrm : α → α)
    (hcodec : ∀ c, dcd (enc c) = some (nrm c)) (nameOf : α → Bytes) (clock : Nat → Bytes) (hclock : ClockOK clock)
    (d : Dir) (cs : List α) :
    ∃ d' l, marshalDynamic Gen.ConfigDir.clusterNameOps enc nameOf clock d cs = some d' ∧
      unmarshalDynamic dcd Gen.ConfigDir.readExt d' = some l ∧ l.Perm (cs.map nrm) :=
  dynamic_roundtrip _ regenerated_name_ops_ok.1 enc dcd nrm hcodec nameOf clock hclock d cs

/-- virtual hosts in `router_configs` mode -/
theorem dynamic_roundtrip_vhosts {α : Type} (enc : α → Json) (dcd : Json → Option α) (nrm : α → α)
    (hcodec : ∀ c, dcd (enc c) = some (nrm c)) (nameOf : α → Bytes) (clock : Nat → Bytes) (hclock : ClockOK clock)
    (d : Dir) (cs : List α) :
    ∃ d' l, marshalDynamic Gen.ConfigDir.vhostNameOps enc nameOf clock d cs = some d' ∧
      unmarshalDynamic dcd Gen.ConfigDir.readExt d' = some l ∧ l.Perm (cs.map nrm) :=
  dynamic_roundtrip _ regenerated_name_ops_ok.2 enc dcd nrm hcodec nameOf clock hclock d cs

/-- the directory round trip **closed over the regenerated item codec** (`s` = `Cluster` with the operations of
`ClusterManagerConfig.MarshalJSON`, or `VirtualHost` with those of `RouterConfiguration.MarshalJSON`): the shape of `s`
unfolds from the regenerated field tables *including* its custom members (HealthCheck, KeepAlive, Host, CircuitBreakers,
TLS / SDS; Router, RouteAction, ClusterWeight, RetryPolicy — classified from their method bodies, `Gen.ConfigPairs`); for
every directory, clock and list of values of that shape, the dump succeeds, the loader returns the items as one cycle
normalises them, and these re-encode to the very same documents — a second dump writes the same set of documents. -/
theorem dynamic_roundtrip_closed (s : String) (ops : List NameOp) (sh : Shape) (h : shapeOf s = some sh)
    (hreg : (match shapeOf s with | some sh => keysOK sh | none => false) = true)
    (hops : opsOK ops Gen.ConfigDir.readExt = true) (clock : Nat → Bytes) (hclock : ClockOK clock) (d : Dir)
    (cs : List CVal) (hwt : ∀ c ∈ cs, wt sh c = true) :
    ∃ d' l, marshalDynamic ops (encode sh) (itemName sh) clock d cs = some d' ∧
      unmarshalDynamic (decode sh) Gen.ConfigDir.readExt d' = some l ∧ l.Perm (cs.map (norm sh)) ∧
      (l.map (encode sh)).Perm (cs.map (encode sh)) := by
  rw [h] at hreg
  obtain ⟨d', l, h1, h2, h3⟩ := dynamic_roundtrip_gen ops _ hops (encode sh) (decode sh) (norm sh) (itemName sh) clock
    hclock d cs (fun c hc => rt sh hreg c (hwt c hc))
  refine ⟨d', l, h1, h2, h3, ?_⟩
  have h4 := h3.map (encode sh)
  refine h4.trans ?_
  rw [List.map_map]
  have : ∀ c ∈ cs, (encode sh ∘ norm sh) c = encode sh c := fun c hc => en sh c (hwt c hc)
  rw [List.map_congr_left this]

/-- clusters (`clusters_configs`) and virtual hosts (`router_configs`) with their regenerated shapes -/
theorem dynamic_roundtrip_clusters_closed (sh : Shape) (h : shapeOf "Cluster" = some sh) (clock : Nat → Bytes)
    (hclock : ClockOK clock) (d : Dir) (cs : List CVal) (hwt : ∀ c ∈ cs, wt sh c = true) :
    ∃ d' l, marshalDynamic Gen.ConfigDir.clusterNameOps (encode sh) (itemName sh) clock d cs = some d' ∧
      unmarshalDynamic (decode sh) Gen.ConfigDir.readExt d' = some l ∧ l.Perm (cs.map (norm sh)) ∧
      (l.map (encode sh)).Perm (cs.map (encode sh)) :=
  dynamic_roundtrip_closed "Cluster" _ sh h (by decide +kernel) regenerated_name_ops_ok.1 clock hclock d cs hwt

theorem dynamic_roundtrip_vhosts_closed (sh : Shape) (h : shapeOf "VirtualHost" = some sh) (clock : Nat → Bytes)
    (hclock : ClockOK clock) (d : Dir) (cs : List CVal) (hwt : ∀ c ∈ cs, wt sh c = true) :
    ∃ d' l, marshalDynamic Gen.ConfigDir.vhostNameOps (encode sh) (itemName sh) clock d cs = some d' ∧
      unmarshalDynamic (decode sh) Gen.ConfigDir.readExt d' = some l ∧ l.Perm (cs.map (norm sh)) ∧
      (l.map (encode sh)).Perm (cs.map (encode sh)) :=
  dynamic_roundtrip_closed "VirtualHost" _ sh h (by decide +kernel) regenerated_name_ops_ok.2 clock hclock d cs hwt

/-- **dynamic_files**: what the dump leaves — one file per item, pairwise distinct names, each with the extension the
loader reads; nothing else survives, whatever the directory held -/
theorem dynamic_files {α : Type} (ops : List NameOp) (hops : opsOK ops Gen.ConfigDir.readExt = true) (enc : α → Json)
    (nameOf : α → Bytes) (clock : Nat → Bytes) (hclock : ClockOK clock) (d : Dir) (cs : List α) :
    ∃ files : List (Bytes × α), marshalDynamic ops enc nameOf clock d cs = some (files.map (docOf enc)) ∧
      (files.map (·.1)).Nodup ∧ (∀ p ∈ files, ext p.1 = Gen.ConfigDir.readExt) ∧ files.map (·.2) = cs.reverse ∧
      files = plan ops nameOf clock cs :=
  marshalDynamic_spec ops _ hops enc nameOf clock hclock d cs

/-- **dump_independent_of_directory**: what a dump leaves in the directory is a function of the items and the clock
(`plan`) — not of what the directory held: stale files, files of an earlier dump under the very names this dump
chooses (`x.json`, `x_1.json`), operator files under unrelated names -/
theorem dump_independent_of_directory {α : Type} (ops : List NameOp) (hops : opsOK ops Gen.ConfigDir.readExt = true)
    (enc : α → Json) (nameOf : α → Bytes) (clock : Nat → Bytes) (hclock : ClockOK clock) (d₁ d₂ : Dir) (cs : List α) :
    marshalDynamic ops enc nameOf clock d₁ cs = marshalDynamic ops enc nameOf clock d₂ cs := by
  rw [marshalDynamic_plan ops _ hops enc nameOf clock hclock d₁ cs,
    marshalDynamic_plan ops _ hops enc nameOf clock hclock d₂ cs]

/-- **dump_idempotent** (dump ; dump = dump): a second dump of the same items into the directory the first one left
reproduces that directory exactly — same file names, same documents; in particular the stale-file cleanup of the second
dump removes none of the files it has just written, disambiguated ones (`x_1.json`) included.  The clock is read only
for items without a name (`stampFirst`, decided for the regenerated operations), so with named items the two dumps may
run at any two times. -/
theorem dump_idempotent {α : Type} (ops : List NameOp) (hops : opsOK ops Gen.ConfigDir.readExt = true)
    (hst : stampFirst ops = true) (enc : α → Json) (nameOf : α → Bytes) (clock clock' : Nat → Bytes)
    (hclock : ClockOK clock) (hclock' : ClockOK clock') (d : Dir) (cs : List α)
    (hnames : (∀ c ∈ cs, nameOf c ≠ []) ∨ clock' = clock) :
    ∃ d₁, marshalDynamic ops enc nameOf clock d cs = some d₁ ∧ marshalDynamic ops enc nameOf clock' d₁ cs = some d₁ := by
  refine ⟨_, marshalDynamic_plan ops _ hops enc nameOf clock hclock d cs, ?_⟩
  rw [marshalDynamic_plan ops _ hops enc nameOf clock' hclock' _ cs]
  rcases hnames with h | h
  · unfold plan; rw [planLoop_clock_indep ops hst nameOf clock' clock cs h 0 0 []]
  · rw [h]

/-- **reload_after_dumps**: after ANY number (≥ 1) of dumps of the same items into the same directory, at any times —
items without a name included, whose files are renamed by every dump —, whatever the directory held at the start, the
loader returns exactly the dumped items -/
theorem reload_after_dumps {α : Type} (ops : List NameOp) (hops : opsOK ops Gen.ConfigDir.readExt = true)
    (enc : α → Json) (dcd : Json → Option α) (nrm : α → α) (hcodec : ∀ c, dcd (enc c) = some (nrm c))
    (nameOf : α → Bytes) (cs : List α) (clocks : List (Nat → Bytes)) (hne : clocks ≠ [])
    (hclocks : ∀ k ∈ clocks, ClockOK k) (d : Dir) :
    ∃ d' l, dumps ops enc nameOf cs clocks d = some d' ∧
      unmarshalDynamic dcd Gen.ConfigDir.readExt d' = some l ∧ l.Perm (cs.map nrm) := by
  induction clocks generalizing d with
  | nil => exact absurd rfl hne
  | cons k r ih =>
    obtain ⟨d₁, l, h1, h2, h3⟩ := dynamic_roundtrip_gen ops _ hops enc dcd nrm nameOf k (hclocks k (by simp)) d cs
      (fun c _ => hcodec c)
    cases r with
    | nil => exact ⟨d₁, l, by simp [dumps, h1], h2, h3⟩
    | cons k2 r2 =>
      obtain ⟨d', l', g1, g2, g3⟩ := ih (by simp) (fun k' hk' => hclocks k' (by simp [hk'])) d₁
      exact ⟨d', l', by simpa [dumps, h1] using g1, g2, g3⟩

/-- both for the regenerated operations of the two directory pairs -/
theorem dump_idempotent_regenerated {α : Type} (enc : α → Json) (nameOf : α → Bytes) (clock clock' : Nat → Bytes)
    (hclock : ClockOK clock) (hclock' : ClockOK clock') (d : Dir) (cs : List α)
    (hnames : (∀ c ∈ cs, nameOf c ≠ []) ∨ clock' = clock) :
    (∃ d₁, marshalDynamic Gen.ConfigDir.clusterNameOps enc nameOf clock d cs = some d₁ ∧
      marshalDynamic Gen.ConfigDir.clusterNameOps enc nameOf clock' d₁ cs = some d₁) ∧
    (∃ d₁, marshalDynamic Gen.ConfigDir.vhostNameOps enc nameOf clock d cs = some d₁ ∧
      marshalDynamic Gen.ConfigDir.vhostNameOps enc nameOf clock' d₁ cs = some d₁) :=
  ⟨dump_idempotent _ regenerated_name_ops_ok.1 regenerated_name_ops_stamp_first.1 enc nameOf clock clock' hclock hclock'
      d cs hnames,
   dump_idempotent _ regenerated_name_ops_ok.2 regenerated_name_ops_stamp_first.2 enc nameOf clock clock' hclock hclock'
      d cs hnames⟩

/-- non-vacuity: `svc/v1`, `svc_v1` dumped twice over a stray file — the second dump keeps `svc_v1_1.json`; an
in-use mark taken BEFORE `uniqueFileName` (second example: not `opsOK`) loses it on the second dump, and the item with
it: the first dump is fine, which is why a single dump → reload cycle cannot show it -/
example : (match dumps Gen.ConfigDir.vhostNameOps (fun _ : Bytes => Json.null) id
      [[115, 47, 118], [115, 95, 118]] [fun _ => [49], fun _ => [50]] [([120], .junk)] with
    | some d => d.map (·.1) | none => []) =
    [[115, 95, 118, 95, 49, 46, 106, 115, 111, 110], [115, 95, 118, 46, 106, 115, 111, 110]] := by decide +kernel
example : opsOK [.orStamp, .truncate 128 128, .replaceAll 47 [95], .append [46, 106, 115, 111, 110], .mark, .unique]
      Gen.ConfigDir.readExt = false ∧
    (fun k => match dumps [.orStamp, .truncate 128 128, .replaceAll 47 [95], .append [46, 106, 115, 111, 110], .mark, .unique]
        (fun _ : Bytes => Json.null) id [[115, 47, 118], [115, 95, 118]] (List.replicate k (fun _ => [49])) [([120], .junk)] with
      | some d => d.length | none => 0) 1 = 2 ∧
    (fun k => match dumps [.orStamp, .truncate 128 128, .replaceAll 47 [95], .append [46, 106, 115, 111, 110], .mark, .unique]
        (fun _ : Bytes => Json.null) id [[115, 47, 118], [115, 95, 118]] (List.replicate k (fun _ => [49])) [([120], .junk)] with
      | some d => d.length | none => 0) 2 = 1 := by decide +kernel

/-- **unique_file_name**: `uniqueFileName` never returns a name already written by this dump (its loop ends within
`|written| + 1` rounds), and leaves a free name alone -/
theorem unique_file_name (written : List Bytes) (f : Bytes) :
    uniq written f ∉ written ∧ (f ∉ written → uniq written f = f) :=
  ⟨uniq_not_mem written f, uniq_of_not_mem written f⟩

/-! non-vacuity and witnesses (names as bytes: `a/b` = [97,47,98], `a_b` = [97,95,98], `.json` = [46,106,115,111,110]) -/

/-- hypotheses of `dynamic_roundtrip` are satisfiable: a directory with a stray file, two colliding names,
a clock showing digits -/
example : ClockOK (fun i => dec i) := by
  intro i
  exact ⟨free_dec 0 (by decide) i, free_dec 47 (by decide) i⟩

/-- the repaired dump on `a/b`, `a_b` (same file name after the separator replacement) over a stale file: two files -/
example : (match marshalDynamic Gen.ConfigDir.clusterNameOps (fun _ : Bytes => Json.null) id (fun _ => [49])
      [([120], .junk)] [[97, 47, 98], [97, 95, 98]] with
    | some d => d.map (·.1) | none => []) =
    [[97, 95, 98, 95, 49, 46, 106, 115, 111, 110], [97, 95, 98, 46, 106, 115, 111, 110]] := by decide +kernel

/-- the operations BEFORE the repair (commit a55302045): no `uniqueFileName` — `a/b` and `a_b` (likewise two names with a
common prefix of `MaxFilePath` bytes) went to one file and one item was lost: a defect of the unchanged tree, repaired -/
example : (match marshalDynamic [.orStamp, .truncate 128 128, .replaceAll 47 [95], .append [46, 106, 115, 111, 110], .mark]
      (fun _ : Bytes => Json.null) id (fun _ => [49]) [] [[97, 47, 98], [97, 95, 98]] with
    | some d => d.length | none => 0) = 1 := by decide +kernel
example : fileName [.orStamp, .truncate 128 128, .replaceAll 47 [95], .append [46, 106, 115, 111, 110]] [] []
      (List.replicate 128 97 ++ [65]) =
    fileName [.orStamp, .truncate 128 128, .replaceAll 47 [95], .append [46, 106, 115, 111, 110]] [] []
      (List.replicate 128 97 ++ [66]) := by decide +kernel

/-- the operations BEFORE the NUL repair are not `opsOK`, and a NUL byte in a name made the dump fail (defect `dynnul`,
repaired); with the regenerated operations `a\0b`, `a/b`, `a_b`, a name of only such bytes and a name longer than
`MaxFilePath` ending in them all get files of their own -/
example : opsOK [.orStamp, .truncate 128 128, .replaceAll 47 [95], .append [46, 106, 115, 111, 110], .unique, .mark]
      Gen.ConfigDir.readExt = false ∧
    (marshalDynamic [.orStamp, .truncate 128 128, .replaceAll 47 [95], .append [46, 106, 115, 111, 110], .unique, .mark]
      (fun _ : Bytes => Json.null) id (fun _ => [49]) [] [[97, 0, 98]]).isNone = true := by decide +kernel
example : (match marshalDynamic Gen.ConfigDir.clusterNameOps (fun _ : Bytes => Json.null) id (fun _ => [49]) []
      [[97, 0, 98], [97, 47, 98], [97, 95, 98], [0, 47, 0]] with
    | some d => d.map (·.1) | none => []) =
    [[95, 95, 95, 46, 106, 115, 111, 110], [97, 95, 98, 95, 50, 46, 106, 115, 111, 110],
     [97, 95, 98, 95, 49, 46, 106, 115, 111, 110], [97, 95, 98, 46, 106, 115, 111, 110]] := by decide +kernel
example : (match marshalDynamic Gen.ConfigDir.vhostNameOps (fun _ : Bytes => Json.null) id (fun _ => [49]) []
      [List.replicate 127 97 ++ [0, 66], List.replicate 127 97 ++ [47, 67]] with
    | some d => d.map (fun f => (f.1.length, f.1.drop 126)) | none => []) =
    [(135, [97, 95, 95, 49, 46, 106, 115, 111, 110]), (133, [97, 95, 46, 106, 115, 111, 110])] := by decide +kernel

/-- appending the extension BEFORE the truncation is not `opsOK`: a name of 124 bytes gets the extension `.jso` -/
example : opsOK [.orStamp, .replaceAll 47 [95], .append [46, 106, 115, 111, 110], .truncate 128 128, .unique, .mark]
      Gen.ConfigDir.readExt = false ∧
    ext (fileName [.orStamp, .replaceAll 47 [95], .append [46, 106, 115, 111, 110], .truncate 128 128, .unique, .mark] [] []
      (List.replicate 124 97)) = [46, 106, 115, 111] := by decide +kernel

end Directory

/-- the regenerated classification of the custom pairs, and what the big structs unfold to: `Router` is a metadata
wrapper at member 4 of `RouterConfig`, whose `route` member is a metadata wrapper at member 6 of `RouterActionConfig`;
`Cluster`, `VirtualHost`, `RouterConfigurationConfig`… unfold; `Listener`, `FilterChain` and the directory pairs do not -/
example : (kindOf "ClusterWeight" == .metadata "ClusterWeightConfig" "metadata_match" &&
    kindOf "RouteAction" == .metadata "RouterActionConfig" "metadata_match" &&
    kindOf "Router" == .metadata "RouterConfig" "metadata" && kindOf "Host" == .metadata "HostConfig" "metadata" &&
    kindOf "RetryPolicy" == .mirror "RetryPolicyConfig" && kindOf "HealthCheck" == .mirror "HealthCheckConfig" &&
    kindOf "KeepAlive" == .mirror "KeepAliveConfig" && kindOf "SecretConfigWrapper" == .mirror "SecretConfigWrapperConfig" &&
    kindOf "CircuitBreakers" == .boxed "Thresholds" && kindOf "FilterChain" == .other && kindOf "Listener" == .other &&
    kindOf "ClusterManagerConfig" == .other && kindOf "RouterConfiguration" == .other) = true := by decide +kernel
example : (match shapeOf "Router" with
    | some (.metaS 4 fs) => (match fs.get? 1 with | some ("route", true, .metaS 6 _) => true | _ => false)
    | _ => false) = true := by decide +kernel
example : ((shapeOf "Cluster").isSome && (shapeOf "VirtualHost").isSome && (shapeOf "TLSConfig").isSome &&
    (shapeOf "Listener").isNone && (shapeOf "FilterChain").isNone && (shapeOf "ClusterManagerConfig").isNone &&
    (shapeOf "RouterConfiguration").isNone && (shapeOf "MOSNConfig").isNone) = true := by decide +kernel
/-- nested customs in one cycle: a virtual host whose route has a weighted cluster with non-string metadata and a retry
policy with a `90s` timeout — the metadata value is dropped, both durations are rewritten, absent timeouts appear -/
example : (match shapeOf "VirtualHost" with
    | some sh =>
      (match decode sh (.obj [("name", .str "v"), ("routers", .arr [.obj [("route", .obj [
          ("weighted_clusters", .arr [.obj [("cluster", .obj [("name", .str "c"), ("metadata_match", .obj [("filter_metadata",
            .obj [("mosn.lb", .obj [("z", .str "a"), ("n", .num "1")])])])])]]),
          ("retry_policy", .obj [("retry_timeout", .str "90s")])])]])]) with
      | some v => encode sh v == .obj [("name", .str "v"), ("routers", .arr [.obj [("match", .obj []), ("route", .obj [
          ("weighted_clusters", .arr [.obj [("cluster", .obj [("name", .str "c"), ("metadata_match", .obj [("filter_metadata",
            .obj [("mosn.lb", .obj [("z", .str "a")])])])])]]),
          ("timeout", .str "0s"), ("retry_policy", .obj [("retry_timeout", .str "1m30s")])])]])]
      | none => false)
    | none => false) = true := by decide +kernel

/-! ## the hand-written shapes of the custom pairs against the regenerated tables -/

/-- `HostConfig` of the regenerated graph is exactly `hostShape` -/
example : (match shapeOf "HostConfig" with | some sh => sh == hostShape | none => false) = true := by decide +kernel
/-- `FilterChainConfig` of the regenerated graph is `fcShape` over the regenerated TLSConfig and Filter tables -/
example : (match looseShapeOf "TLSConfig", shapeOf "Filter", looseShapeOf "FilterChainConfig" with
    | some tls, some fl, some fc => fc == fcShape tls fl && keysOK tls && keysOK fl && ptrElemOK tls
    | _, _, _ => false) = true := by decide +kernel
/-- `RetryPolicyConfig`: the four members `retryU` / `retryM` handle, in this order, all `omitempty` -/
example : (G.find "RetryPolicyConfig").map (fun d => d.fields.map (fun f => (jsonKey f, f.omitempty, f.ty))) =
    some [("retry_on", true, .bool), ("retry_timeout", true, .ext "api.DurationConfig"), ("num_retries", true, .num),
          ("status_codes", true, .slice .num)] := by decide +kernel
/-- the structs with the custom pairs embed exactly these configs and keep their derived fields out of JSON -/
example : (G.find "FilterChain").map (fun d => d.fields.map (fun f => (f.name, f.json, f.embedded))) =
      some [("FilterChainConfig", "", true), ("TLSContexts", "-", false)] ∧
    (G.find "Host").map (fun d => d.fields.map (fun f => (f.name, f.json, f.embedded))) =
      some [("HostConfig", "", true), ("MetaData", "-", false)] ∧
    (G.find "RetryPolicy").map (fun d => d.fields.map (fun f => (f.name, f.json, f.embedded))) =
      some [("RetryPolicyConfig", "", true), ("RetryTimeout", "-", false)] := by decide +kernel

/-- `KeepAlive` and `HealthCheck` are mirror wrappers of generic configs: embedded config + `json:"-"` durations only -/
example : (G.find "KeepAlive").map (fun d => d.fields.map (fun f => (f.name, f.json, f.embedded, f.ty))) =
      some [("KeepAliveConfig", "", true, .named "KeepAliveConfig"), ("Interval", "-", false, .ext "time.Duration"),
            ("Timeout", "-", false, .ext "time.Duration")] ∧
    (G.find "HealthCheck").map (fun d => d.fields.map (fun f => (f.name, f.json, f.embedded, f.ty))) =
      some [("HealthCheckConfig", "", true, .named "HealthCheckConfig"), ("Timeout", "-", false, .ext "time.Duration"),
            ("Interval", "-", false, .ext "time.Duration"), ("IntervalJitter", "-", false, .ext "time.Duration")] ∧
    (genericStructs.contains "KeepAliveConfig" && genericStructs.contains "HealthCheckConfig") = true := by decide +kernel

/-! ## non-vacuity -/

/-- a struct of the regenerated graph, a value with an empty non-nil slice behind `omitempty`: the cycle normalises it -/
example : (match shapeOf "RouterMatch" with
    | some sh =>
      let v := CVal.struct [.str "/p", .str "", .str "", .slice false [], .slice true [], .slice false [.struct [.str "e"]]]
      wt sh v && keysOK sh &&
        (encode sh v == Json.obj [("prefix", .str "/p"), ("dsl_expressions", .arr [.obj [("expression", .str "e")]])]) &&
        (match decode sh (encode sh v) with | some v' => !(v' == v) && v' == norm sh v | none => false)
    | none => false) = true := by decide +kernel

/-- FilterChain: a single `tls_context` is dumped as a one-element `tls_context_set`, and stays so -/
example : (match fcU .str .hole (.obj [("tls_context", .str "T"), ("filters", .arr [.num "1"])]) with
    | some x => fcM .str .hole x == .obj [("tls_context_set", .arr [.str "T"]), ("filters", .arr [.num "1"])]
    | none => false) = true := by decide +kernel
example : (fcU .str .hole (.obj [("tls_context", .str "T"), ("tls_context_set", .arr [.str "S"])])).isNone = true := by
  decide +kernel
/-- Host: a non-string metadata value is dropped by the first load (and only by the first) -/
example : (match hostU (.obj [("address", .str "a:1"), ("metadata", .obj [("filter_metadata", .obj [("mosn.lb",
      .obj [("v", .str "1"), ("n", .num "2")])])])]) with
    | some x => hostM x == .obj [("address", .str "a:1"), ("metadata", .obj [("filter_metadata", .obj [("mosn.lb",
      .obj [("v", .str "1")])])])]
    | none => false) = true := by decide +kernel

/-- RetryPolicy: `90s` is dumped as `1m30s` and stays so; `DurLaw` on the boundary values of `time.Duration` -/
example : (match retryU (.obj [("retry_on", .bool true), ("retry_timeout", .str "90s"), ("status_codes", .arr [.num "500"])]) with
    | some x => retryM x == .obj [("retry_on", .bool true), ("retry_timeout", .str "1m30s"), ("status_codes", .arr [.num "500"])]
    | none => false) = true := by decide +kernel
example : ([0, 1, 999, 1000, 1500, 999999, 1000000, 999999999, 1000000000, 59999999999, 60000000000, 3600000000000,
    3661000000001, -1, -1500000, 9223372036854775807, -9223372036854775808] : List Int).all
    (fun d => durU (.str (GoDuration.fmtDur d)) == some d) = true := by decide +kernel

/-! ## a router whose persisted MODE changes at run time (directory → static and back) survives dump and reload

`Model/Updates` (shared with C12): a router configuration carries `path` (`router_configs`) and `static` (`virtual_hosts`);
`configmanager.SetRouter`'s transition — which field goes where under which condition — is regenerated (`Gen.Updates.setRouter_*`);
`dumpRouter` is `transferConfig`, `marshalRouter` / `unmarshalRouter` are `RouterConfiguration.MarshalJSON` / `UnmarshalJSON`
at the level of the two mode fields (the virtual hosts themselves: `dynamic_roundtrip_*` above, parameter `fsr` here). -/
section dynupd
open MosnVerif.Model.Updates

/-- **mode_change_survives_reload**: after EVERY history of runtime updates in which routers are (re)loaded from a directory,
from static JSON or built by code, in any order, mixed with single-route additions / removals and any other operation: for every
router name the dumped file LOADS AGAIN (never `ErrDuplicateStaticAndDynamic`) and gives the router the running proxy holds —
same name, same mode (the path of the LAST complete update, empty when that one was static), same virtual hosts (through the
directory in directory mode). -/
theorem mode_change_survives_reload (o : Oracle) (ops : List Op) (hops : ∀ op ∈ ops, opLoaderShaped op)
    (fsr : List VHost → List VHost) (n : String) :
    reloadRouter fsr (run o ops) n = ((run o ops).wrappers n).map (fun w => some (reloadedCfg fsr w.cfg)) ∧
    (∀ w, (run o ops).wrappers n = some w → (run o ops).rpath n = w.cfg.path) := by
  have hI := inv_run o ops
  have hS := shinv_run o ops hops
  refine ⟨?_, fun w hw => hI.r_path n w hw⟩
  simp only [reloadRouter, dumpRouter_of_inv hI]
  cases hw : (run o ops).wrappers n with
  | none => rfl
  | some w => simp [unmarshal_marshal fsr _ (hS n w hw)]

/-- a store that keeps a directory path for a router whose stored configuration came from a static file is dumped with both
`router_configs` and `virtual_hosts`; the loader refuses that file (machine-checked negative witness for the "copy the path only
when the update carries one" shape of `SetRouter`). -/
theorem kept_path_refused_by_loader (fsr : List VHost → List VHost) (s : State) (n : String) (c : RouterCfg)
    (hs : s.rstore n = some c) (hstatic : c.static ≠ []) (hp : s.rpath n ≠ "") :
    reloadRouter fsr s n = some none := by
  simp only [reloadRouter, dumpRouter, hs, Option.map_some]
  rw [unmarshal_marshal_both fsr { c with path := s.rpath n } hp hstatic]

/-- the predicate of the `dynupd` cases holds of every model output -/
theorem spec_dynupd_holds_on_model (o : Oracle) (ops : List Op) (hops : ∀ op ∈ ops, opLoaderShaped op) (rnames : List String) :
    Spec.modeHolds (modeObserve o rnames (run o ops)) = true :=
  modeHolds_on_model o ops hops rnames

-- non-vacuity: directory load, static update (loader-shaped both), the reload of the dump is the static router
example :
    let dirCfg : RouterCfg := { name := "r", vhosts := [⟨"v1", ["a.b"], []⟩], path := "/etc/r" }
    let stCfg : RouterCfg := { name := "r", vhosts := [⟨"v2", ["*"], []⟩], static := [⟨"v2", ["*"], []⟩] }
    let o : Oracle := ⟨fun _ => true, fun doms d => doms.findIdx? (fun ds => ds.contains d)⟩
    loaderShaped dirCfg ∧ loaderShaped stCfg ∧
    (run o [.addOrUpdateRouters dirCfg]).rpath "r" = "/etc/r" ∧
    (run o [.addOrUpdateRouters dirCfg, .addOrUpdateRouters stCfg]).rpath "r" = "" ∧
    ((reloadRouter (fun l => l) (run o [.addOrUpdateRouters dirCfg, .addOrUpdateRouters stCfg]) "r").map
      (·.map (fun c => (c.path, c.vhosts.map (·.name))))) = some (some ("", ["v2"])) := by decide
end dynupd

/-! ## order of the lists across dump and reload (`transferConfig`'s reassembly, regenerated as `Gen.ConfigTransfer`) -/
section order
open MosnVerif.Model.OrderTypes MosnVerif.Model.ConfigOrder MosnVerif.Lemmas.ConfigOrder

/-- **dump_reload_preserves_order**: for every reassembly plan that copies `extends` in order, never sorts it and edits no
element (`planOK`; sorting the name-keyed lists is allowed), every configuration `c` (names and extend types may repeat,
lists inside elements are arbitrary), every iteration order of the three maps and every comparison used by the sort calls:
with `run = load c` the running configuration, `d` its dump and `re = load d` the restart from the dump —
the dumped and the reloaded `extends` ARE the running list (same elements, same order), and each name-keyed list of the
dump and of the reload is a permutation of the running table (whole elements: every ordered list inside a listener,
cluster or router is unchanged), with the same element under every name. -/
theorem dump_reload_preserves_order {κ : Type} [DecidableEq κ] (le : κ → κ → Bool) (p : Plan) (hp : planOK p = true)
    (c : Cfg κ) (itL itC itR : Table κ → Table κ)
    (hL : ∀ t, (itL t).Perm t) (hC : ∀ t, (itC t).Perm t) (hR : ∀ t, (itR t).Perm t) :
    let run := load c
    let d := dumpBy le p itL itC itR run
    let re := load d
    d.extends_ = run.extends_ ∧ re.extends_ = run.extends_ ∧
    d.listeners.Perm run.listeners ∧ d.clusters.Perm run.clusters ∧ d.routers.Perm run.routers ∧
    re.listeners.Perm run.listeners ∧ re.clusters.Perm run.clusters ∧ re.routers.Perm run.routers ∧
    (∀ k, re.listeners.find? (fun e => e.key = k) = run.listeners.find? (fun e => e.key = k)) ∧
    (∀ k, re.clusters.find? (fun e => e.key = k) = run.clusters.find? (fun e => e.key = k)) ∧
    (∀ k, re.routers.find? (fun e => e.key = k) = run.routers.find? (fun e => e.key = k)) := by
  intro run d re
  simp only [planOK, Bool.and_eq_true, beq_iff_eq, List.isEmpty_iff] at hp
  obtain ⟨⟨⟨⟨⟨hx, hx0⟩, he⟩, hl⟩, hc⟩, hr⟩ := hp
  have hdx : d.extends_ = run.extends_ := by
    show dumpList le p.extends_ p.edits id _ = _
    rw [he]; exact dumpList_ordered_eq le _ _ hx hx0 id _
  have hdl : d.listeners.Perm run.listeners := by
    show (dumpList le p.listeners p.edits itL _).Perm _
    rw [he]; exact dumpList_keyed_perm le _ _ hl itL hL _
  have hdc : d.clusters.Perm run.clusters := by
    show (dumpList le p.clusters p.edits itC _).Perm _
    rw [he]; exact dumpList_keyed_perm le _ _ hc itC hC _
  have hdr : d.routers.Perm run.routers := by
    show (dumpList le p.routers p.edits itR _).Perm _
    rw [he]; exact dumpList_keyed_perm le _ _ hr itR hR _
  have nl : (keys run.listeners).Nodup := loadTable_keys_nodup _
  have nc : (keys run.clusters).Nodup := loadTable_keys_nodup _
  have nr : (keys run.routers).Nodup := loadTable_keys_nodup _
  have nx : (keys run.extends_).Nodup := loadTable_keys_nodup _
  have hrl : re.listeners.Perm run.listeners := reload_perm hdl nl
  have hrc : re.clusters.Perm run.clusters := reload_perm hdc nc
  have hrr : re.routers.Perm run.routers := reload_perm hdr nr
  refine ⟨hdx, ?_, hdl, hdc, hdr, hrl, hrc, hrr, fun k => find_perm hrl nl k, fun k => find_perm hrc nc k,
    fun k => find_perm hrr nr k⟩
  show loadTable d.extends_ = run.extends_
  rw [hdx]; exact loadTable_of_nodup _ nx

/-- **regenerated_transfer_keeps_order**: the plan regenerated from the body of `transferConfig` is complete (all four lists
found) and keeps order where order matters. -/
theorem regenerated_transfer_keeps_order : (genPlan.map planOK) = some true := by decide +kernel

/-- **transfer_dump_reload_preserves_order**: `dump_reload_preserves_order` for the regenerated plan of the real function. -/
theorem transfer_dump_reload_preserves_order {κ : Type} [DecidableEq κ] (le : κ → κ → Bool) (p : Plan) (h : genPlan = some p)
    (c : Cfg κ) (itL itC itR : Table κ → Table κ)
    (hL : ∀ t, (itL t).Perm t) (hC : ∀ t, (itC t).Perm t) (hR : ∀ t, (itR t).Perm t) :
    (load (dumpBy le p itL itC itR (load c))).extends_ = (load c).extends_ ∧
    (dumpBy le p itL itC itR (load c)).extends_ = (load c).extends_ ∧
    (∀ k, (load (dumpBy le p itL itC itR (load c))).listeners.find? (fun e => e.key = k) = (load c).listeners.find? (fun e => e.key = k)) ∧
    (∀ k, (load (dumpBy le p itL itC itR (load c))).clusters.find? (fun e => e.key = k) = (load c).clusters.find? (fun e => e.key = k)) ∧
    (∀ k, (load (dumpBy le p itL itC itR (load c))).routers.find? (fun e => e.key = k) = (load c).routers.find? (fun e => e.key = k)) := by
  have hok : planOK p = true := by
    have := regenerated_transfer_keeps_order
    rw [h] at this
    simpa using this
  have := dump_reload_preserves_order le p hok c itL itC itR hL hC hR
  exact ⟨this.2.1, this.1, this.2.2.2.2.2.2.2.2.1, this.2.2.2.2.2.2.2.2.2.1, this.2.2.2.2.2.2.2.2.2.2⟩

-- non-vacuity: a configuration with repeated extend types in non-alphabetical order, reversed map iteration
example :
    let x (k n : Nat) : Elem Nat := ⟨k, [("cfg", [n])]⟩
    let c : Cfg Nat := ⟨[⟨2, [("StreamFilters", [9, 3, 5])]⟩, ⟨1, []⟩], [⟨7, [("Hosts", [4, 2])]⟩], [], [x 5 0, x 2 1, x 9 2, x 2 3]⟩
    let p : Plan := ⟨⟨"Servers[0].Listeners", .fromMap "Listener", 1⟩, ⟨"ClusterManager.Clusters", .fromMap "Cluster", 0⟩,
      ⟨"Servers[0].Routers", .fromMap "Routers", 0⟩, ⟨"Extends", .inOrder "ExtendConfigs", 0⟩, []⟩
    planOK p = true ∧ (load c).extends_ = [x 5 0, x 2 3, x 9 2] ∧
    (dumpBy Nat.ble p List.reverse List.reverse List.reverse (load c)).listeners = [⟨1, []⟩, ⟨2, [("StreamFilters", [9, 3, 5])]⟩] ∧
    (load (dumpBy Nat.ble p List.reverse List.reverse List.reverse (load c))).extends_ = [x 5 0, x 2 3, x 9 2] := by decide +kernel

/-- **sorted_extends_reordered** (negation witness): a plan that sorts `extends` by type (the 'deterministic dump') is
refused by `planOK`, and a restart from its dump runs the extensions in another order. -/
theorem sorted_extends_reordered :
    let x (k : Nat) : Elem Nat := ⟨k, []⟩
    let c : Cfg Nat := ⟨[], [], [], [x 5, x 2, x 9]⟩
    let p : Plan := ⟨⟨"Servers[0].Listeners", .fromMap "Listener", 1⟩, ⟨"ClusterManager.Clusters", .fromMap "Cluster", 1⟩,
      ⟨"Servers[0].Routers", .fromMap "Routers", 1⟩, ⟨"Extends", .inOrder "ExtendConfigs", 1⟩, []⟩
    planOK p = false ∧ (load c).extends_ = [x 5, x 2, x 9] ∧
    (load (dumpBy Nat.ble p id id id (load c))).extends_ = [x 2, x 5, x 9] := by decide +kernel

/-- **sorted_stream_filters_reordered** (negation witness): a loop edit sorting a list inside every listener is refused by
`planOK`, and the reloaded listener has its stream filters in another order. -/
theorem sorted_stream_filters_reordered :
    let c : Cfg Nat := ⟨[⟨1, [("StreamFilters", [9, 3, 5]), ("FilterChains", [8, 1])]⟩], [], [], []⟩
    let p : Plan := ⟨⟨"Servers[0].Listeners", .fromMap "Listener", 0⟩, ⟨"ClusterManager.Clusters", .fromMap "Cluster", 0⟩,
      ⟨"Servers[0].Routers", .fromMap "Routers", 0⟩, ⟨"Extends", .inOrder "ExtendConfigs", 0⟩, [⟨"Servers[0].Listeners", "StreamFilters"⟩]⟩
    planOK p = false ∧
    (load (dumpBy Nat.ble p id id id (load c))).listeners = [⟨1, [("StreamFilters", [3, 5, 9]), ("FilterChains", [8, 1])]⟩] := by
  decide +kernel
end order

/-! ## the listener address keeps its FORM across dump and reload

`v2.Listener` keeps `Addr net.Addr` next to `AddrConfig string`; `MarshalJSON` writes `address` from `Addr.String()`, `UnmarshalJSON` /
`ParseListenerConfig` resolve `address` into `Addr` (`Gen.ListenerAddr`: the regenerated statement lists and resolver tables). -/
section listenerAddr
open MosnVerif.Model.ListenerAddr MosnVerif.Gen.ListenerAddr

/-- **gen_listener_addr_shape**: `MarshalJSON` prints the set `Addr` verbatim (no branch on the address value), `UnmarshalJSON`
requires an address, defaults / lower-cases the network, resolves by the table tcp / udp / unix (anything else rejected) and stores
the result; `ParseListenerConfig` resolves the same way and only when `Addr` is not set. -/
theorem gen_listener_addr_shape :
    marshal = [.ifAddrSet, .printVerbatim, .marshalConfig] ∧
    unmarshal = [.decodeConfig, .requireAddress, .defaultTcp, .lowerNetwork, .resolve, .failOnError, .setAddr, .setBufferLimit, .done] ∧
    parse = [.defaultTcp, .lowerNetwork, .ifAddrNil, .resolve, .failOnError, .setAddr] ∧
    ["tcp", "udp", "unix", "tcp4", "sctp", ""].map (netKind unmarshalResolvers) = [some .tcp, some .udp, some .unix, none, none, none] ∧
    parseResolvers = unmarshalResolvers ∧ unmarshalResolvers.length = 3 := by decide

/-- octets of an IPv4 literal -/
def wfIP : IP → Prop
  | .v4 a b c d => a ≤ 255 ∧ b ≤ 255 ∧ c ≤ 255 ∧ d ≤ 255
  | _ => True

def wfAddr : Addr → Prop
  | .tcp ip p => wfIP ip ∧ p ≤ 65535
  | .udp ip p => wfIP ip ∧ p ≤ 65535
  | .unix _ => True

/-- the system resolver answers with IP addresses -/
def ResOK (res : String → Option IP) : Prop := ∀ s ip, res s = some ip → wfIP ip

theorem parse_print (res : String → Option IP) (ip : IP) (h : wfIP ip) : parseHost res (printIP ip) = some ip := by
  cases ip <;> simp_all [printIP, parseHost, wfIP]

theorem parseHost_wf (res : String → Option IP) (hres : ResOK res) (h : HostTxt) (ip : IP) (e : parseHost res h = some ip) : wfIP ip := by
  cases h <;> simp only [parseHost] at e
  case quad a b c d =>
    split at e
    · cases e; assumption
    · cases e
  case name s => exact hres s ip e
  all_goals (cases e; trivial)

theorem kind_networks (n : String) (k : Kind) (h : netKind unmarshalResolvers n = some k) :
    (n = "tcp" ∧ k = .tcp) ∨ (n = "udp" ∧ k = .udp) ∨ (n = "unix" ∧ k = .unix) := by
  have e1 : netKind unmarshalResolvers "udp" = some .udp := by decide
  have e2 : netKind unmarshalResolvers "unix" = some .unix := by decide
  have e3 : netKind unmarshalResolvers "tcp" = some .tcp := by decide
  by_cases h1 : n = "udp"
  · subst h1; rw [e1] at h; cases h; exact Or.inr (Or.inl ⟨rfl, rfl⟩)
  by_cases h2 : n = "unix"
  · subst h2; rw [e2] at h; cases h; exact Or.inr (Or.inr ⟨rfl, rfl⟩)
  by_cases h3 : n = "tcp"
  · subst h3; rw [e3] at h; cases h; exact Or.inl ⟨rfl, rfl⟩
  · exfalso
    have b1 : ("udp" == n) = false := by rw [beq_eq_false_iff_ne]; exact fun e => h1 e.symm
    have b2 : ("unix" == n) = false := by rw [beq_eq_false_iff_ne]; exact fun e => h2 e.symm
    have b3 : ("tcp" == n) = false := by rw [beq_eq_false_iff_ne]; exact fun e => h3 e.symm
    simp [netKind, unmarshalResolvers, List.find?, b1, b2, b3] at h

/-- the resolver that produced the address -/
def kindMatch : Addr → Kind → Prop
  | .tcp _ _, k => k = .tcp
  | .udp _ _, k => k = .udp
  | .unix _, k => k = .unix

theorem resolve_print (res' : String → Option IP) (k : Kind) (a : Addr) (hk : kindMatch a k)
    (hw : wfAddr a) : resolve res' k (printAddr a) = some a := by
  cases a with
  | tcp ip p => simp only [kindMatch] at hk; subst hk; simp [resolve, printAddr, hw.2, parse_print res' ip hw.1]
  | udp ip p => simp only [kindMatch] at hk; subst hk; simp [resolve, printAddr, hw.2, parse_print res' ip hw.1]
  | unix s => simp only [kindMatch] at hk; subst hk; rfl

theorem resolve_wf (res : String → Option IP) (hres : ResOK res) (k : Kind) (t : Txt) (a : Addr) (h : resolve res k t = some a) :
    wfAddr a ∧ kindMatch a k := by
  cases k <;> cases t <;> simp only [resolve] at h
  case tcp.inet hh p =>
    split at h
    · cases e : parseHost res hh with
      | none => simp [e] at h
      | some ip => simp [e] at h; subst h; exact ⟨⟨parseHost_wf res hres hh ip e, by assumption⟩, rfl⟩
    · cases h
  case udp.inet hh p =>
    split at h
    · cases e : parseHost res hh with
      | none => simp [e] at h
      | some ip => simp [e] at h; subst h; exact ⟨⟨parseHost_wf res hres hh ip e, by assumption⟩, rfl⟩
    · cases h
  case unix.path s => cases h; exact ⟨trivial, rfl⟩
  all_goals cases h

/-- **listener_address_roundtrip**: for EVERY accepted configuration (network tcp / udp / unix in any accepted spelling, address an
IPv4 literal, `0.0.0.0`, an IPv6 literal, the IPv6 wildcard `[::]`, a bare `:port`, a host name the resolver knows, any port incl. 0,
any unix path) and every resolver: the dump of the loaded listener loads again — under ANY resolver, the dumped text holds no name —
to the SAME network and the SAME `Addr`; hence the listen socket is bound the same way: same kind, same family semantics (the
IPv6 wildcard stays the dual-stack wildcard, `0.0.0.0` stays IPv4-only), same port / path. -/
theorem listener_address_roundtrip (res : String → Option IP) (hres : ResOK res) (c : Cfg) (l : Loaded) (h : load res c = some l) :
    ∃ c', dump l = some c' ∧ c'.network = l.network ∧
      ∀ res', ∃ l', load res' c' = some l' ∧ l'.network = l.network ∧ l'.addr = l.addr ∧ boundOf l'.addr = boundOf l.addr := by
  obtain ⟨hm, hu, hp, _⟩ := gen_listener_addr_shape
  simp only [load, hu, hp, and_self, if_true] at h
  cases hk : netKind unmarshalResolvers (normNet c.network) with
  | none => simp [hk] at h
  | some k =>
    simp only [hk] at h
    cases hr : resolve res k c.address with
    | none => simp [hr] at h
    | some a =>
      simp only [hr, Option.map_some, Option.some.injEq] at h
      subst h
      refine ⟨⟨normNet c.network, printAddr a⟩, by simp [dump, hm], rfl, fun res' => ?_⟩
      obtain ⟨hw, hka⟩ := resolve_wf res hres k c.address a hr
      have hn : normNet (normNet c.network) = normNet c.network := by
        rcases kind_networks _ _ hk with ⟨e, _⟩ | ⟨e, _⟩ | ⟨e, _⟩ <;> rw [e] <;> decide
      refine ⟨⟨normNet c.network, a, printAddr a⟩, ?_, rfl, rfl, rfl⟩
      simp only [load, hu, hp, and_self, if_true, hn, hk, resolve_print res' k a hka hw, Option.map_some]

/-- **address_form_stable**: dump ∘ reload ∘ dump = dump — the text written by the second dump is the text of the first. -/
theorem address_form_stable (res res' : String → Option IP) (hres : ResOK res) (c : Cfg) (l : Loaded) (h : load res c = some l) :
    ∃ c' l', dump l = some c' ∧ load res' c' = some l' ∧ dump l' = some c' := by
  obtain ⟨c', hd, hn, hall⟩ := listener_address_roundtrip res hres c l h
  obtain ⟨l', hl', hn', ha', _⟩ := hall res'
  refine ⟨c', l', hd, hl', ?_⟩
  obtain ⟨hm, _⟩ := gen_listener_addr_shape
  simp only [dump, hm, if_true, Option.some.injEq] at hd ⊢
  rw [← hd, hn', ha']

/-- … and for every configuration WITHOUT a host name the form itself is kept: the dumped `address` is the configured one
(`[::]:p` stays `[::]:p`, `:p` stays `:p`, `0.0.0.0:p` stays `0.0.0.0:p`, a unix path stays the path). -/
theorem address_form_kept (res : String → Option IP) (c : Cfg) (l : Loaded) (h : load res c = some l)
    (hn : ∀ p s, c.address ≠ .inet (.name s) p) : dump l = some ⟨l.network, c.address⟩ := by
  obtain ⟨hm, hu, hp, _⟩ := gen_listener_addr_shape
  simp only [load, hu, hp, and_self, if_true] at h
  cases hk : netKind unmarshalResolvers (normNet c.network) with
  | none => simp [hk] at h
  | some k =>
    simp only [hk] at h
    cases hr : resolve res k c.address with
    | none => simp [hr] at h
    | some a =>
      simp only [hr, Option.map_some, Option.some.injEq] at h
      subst h
      simp only [dump, hm, if_true, Option.some.injEq, Cfg.mk.injEq, true_and]
      cases k <;> cases hc : c.address <;> rw [hc] at hr <;> simp only [resolve] at hr
      case tcp.inet hh p =>
        split at hr
        · cases hh <;> simp [parseHost] at hr <;> first | (exact absurd hc (hn _ _)) | skip
          all_goals first | (subst hr; rfl) | (obtain ⟨_, hr⟩ := hr; subst hr; rfl)
        · cases hr
      case udp.inet hh p =>
        split at hr
        · cases hh <;> simp [parseHost] at hr <;> first | (exact absurd hc (hn _ _)) | skip
          all_goals first | (subst hr; rfl) | (obtain ⟨_, hr⟩ := hr; subst hr; rfl)
        · cases hr
      case unix.path s => cases hr; rfl
      all_goals cases hr

/-- **name_form_lost** (negation witness for host names, machine-checked; the code as it is): `localhost:80` is dumped as the literal
the resolver answered at load time; when the name resolves differently at the next start, a start from the ORIGINAL file listens on
the new address, a start from the DUMP on the old one: the dump is not an equivalent configuration. -/
theorem name_form_lost :
    let res1 : String → Option IP := fun s => if s = "localhost" then some (.v4 127 0 0 1) else none
    let res2 : String → Option IP := fun s => if s = "localhost" then some (.v4 10 0 0 7) else none
    let c : Cfg := ⟨"tcp", .inet (.name "localhost") 80⟩
    (load res1 c).bind dump = some ⟨"tcp", .inet (.quad 127 0 0 1) 80⟩ ∧
    (load res2 c).map (fun l => boundOf l.addr) = some (.inet .tcp (.host4 10 0 0 7) 80) ∧
    (load res2 ⟨"tcp", .inet (.quad 127 0 0 1) 80⟩).map (fun l => boundOf l.addr) = some (.inet .tcp (.host4 127 0 0 1) 80) := by
  decide

/-- **normalising_marshal_loses_dual_stack** (negation witness, machine-checked): a `MarshalJSON` that writes every unspecified IP
as `0.0.0.0` turns the dual-stack listeners `[::]:80` and `:80` into IPv4-only ones after a restart from the dump, although the
second dump equals the first (comparing dumps does not show it); `0.0.0.0:80` itself and the regenerated code are unaffected. -/
theorem normalising_marshal_loses_dual_stack :
    let res : String → Option IP := fun _ => none
    (∀ h ∈ [HostTxt.unspec6, HostTxt.empty],
      ((load res ⟨"tcp", .inet h 80⟩).map (fun l => boundOf l.addr) = some (.inet .tcp .wildDual 80) ∧
       ((load res ⟨"tcp", .inet h 80⟩).bind (fun l => load res (dumpNorm l))).map (fun l => boundOf l.addr) = some (.inet .tcp .wild4 80) ∧
       ((load res ⟨"tcp", .inet h 80⟩).bind (fun l => load res (dumpNorm l))).map dumpNorm =
         (load res ⟨"tcp", .inet h 80⟩).map dumpNorm ∧
       ((load res ⟨"tcp", .inet h 80⟩).bind (fun l => (dump l).bind (load res))).map (fun l => boundOf l.addr) =
         some (.inet .tcp .wildDual 80))) := by
  decide

-- non-vacuity: a resolver, every accepted form loads, and what is dumped
example : ResOK (fun s => if s = "localhost" then some (.v4 127 0 0 1) else none) := by
  intro s ip h; dsimp only at h; split at h <;> cases h; simp [wfIP]
example : [Cfg.mk "" (.inet (.quad 127 0 0 1) 80), ⟨"tcp", .inet (.quad 0 0 0 0) 0⟩, ⟨"tcp", .inet .unspec6 2045⟩, ⟨"tcp", .inet .loop6 80⟩,
           ⟨"udp", .inet .empty 53⟩, ⟨"udp", .inet (.other6 "fe80::1") 53⟩, ⟨"unix", .path "/tmp/mosn.sock"⟩, ⟨"tcp", .inet (.name "localhost") 80⟩,
           ⟨"sctp", .inet .empty 1⟩, ⟨"tcp", .path "/tmp/x"⟩, ⟨"tcp", .inet (.quad 300 1 1 1) 80⟩, ⟨"tcp", .inet .empty 99999⟩].map
      (fun c => ((load (fun s => if s = "localhost" then some (.v4 127 0 0 1) else none) c).bind dump).map (·.address)) =
    [some (.inet (.quad 127 0 0 1) 80), some (.inet (.quad 0 0 0 0) 0), some (.inet .unspec6 2045), some (.inet .loop6 80),
     some (.inet .empty 53), some (.inet (.other6 "fe80::1") 53), some (.path "/tmp/mosn.sock"), some (.inet (.quad 127 0 0 1) 80),
     none, none, none, none] := by decide
end listenerAddr

end MosnVerif.Props.C19
