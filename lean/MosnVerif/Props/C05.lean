import MosnVerif.Lemmas.LB
/-!
# C05 — load balancers return only current, healthy members (property theorems only)

`choose p choice hs st c` is `ChooseHost` of the policy `p` (round robin, random, weighted round robin, least request,
least connection, request round robin, maglev, peak EWMA) on the host set `hs`, in the policy state `st` (round-robin
cursor, EDF scheduler), with the nondeterministic inputs `c` of the call (random draws, service order of exact EDF ties,
re-entry index, maglev table index).  Every theorem holds for ALL policies, choice counts, host lists (size 0, 1, 2, …),
weights, health patterns, gauges, cursor states, scheduler states, draws and re-entry indices.
`keyed p c` is the precondition that a maglev lookup has a hash to look up (route with a hash policy, table built);
it is `true` for every other policy.
-/
namespace MosnVerif.Props.C05
open MosnVerif.Model.LB

/-- **member**: the returned index denotes an element of the current host set. -/
theorem member (p : Policy) (choice : Nat) (hs : Hosts) (st : LBState) (c : Call) (i : Nat)
    (h : (choose p choice hs st c).result = some i) : i < hs.length := by
  by_cases hk : keyed p c = true
  · exact hAt_lt ((choose_good p choice hs st c hk).1 i h)
  · rw [choose_unkeyed p choice hs st c (by simpa using hk)] at h; simp at h

/-- **healthy_result**: a returned host is healthy. -/
theorem healthy_result (p : Policy) (choice : Nat) (hs : Hosts) (st : LBState) (c : Call) (i : Nat)
    (h : (choose p choice hs st c).result = some i) : hAt hs i = true := by
  by_cases hk : keyed p c = true
  · exact (choose_good p choice hs st c hk).1 i h
  · rw [choose_unkeyed p choice hs st c (by simpa using hk)] at h; simp at h

/-- **complete**: when some host is healthy, a host is returned. -/
theorem complete (p : Policy) (choice : Nat) (hs : Hosts) (st : LBState) (c : Call) (hk : keyed p c = true)
    (h : ∃ i, hAt hs i = true) : (choose p choice hs st c).result ≠ none := by
  intro hn
  obtain ⟨i, hi⟩ := h
  have := (choose_good p choice hs st c hk).2 hn i
  rw [this] at hi; simp at hi

/-- **none_only_if**: no host is returned only when no host is healthy (in particular when the set is empty). -/
theorem none_only_if (p : Policy) (choice : Nat) (hs : Hosts) (st : LBState) (c : Call) (hk : keyed p c = true)
    (h : (choose p choice hs st c).result = none) : ∀ i, hAt hs i = false :=
  (choose_good p choice hs st c hk).2 h

/-- the executable predicate evaluated on implementation outputs is implied by the model (keyed or not). -/
theorem spec_holds_on_model (p : Policy) (choice : Nat) (hs : Hosts) (st : LBState) (c : Call) :
    specLookup p c hs (choose p choice hs st c).result = true := by
  unfold specLookup
  by_cases hk : keyed p c = true
  · have g := choose_good p choice hs st c hk
    simp only [Bool.or_eq_true]; left
    unfold specChoice
    split
    · rename_i i hi
      have := g.1 i hi
      simp [this, hAt_lt this]
    · rename_i hn
      have := g.2 hn
      cases ha : anyHealthy hs
      · rfl
      · obtain ⟨i, hi⟩ := (anyHealthy_iff hs).mp ha
        rw [this i] at hi; simp at hi
  · simp only [Bool.not_eq_true] at hk
    simp [hk, choose_unkeyed p choice hs st c hk]

/-- **history**: along every history of host-set replacements, health flips, gauge changes, cursor settings and
lookups, from every start state, every lookup satisfies the predicate with respect to the snapshot it saw. -/
theorem history (p : Policy) (choice : Nat) (w : World) (ops : List Op) :
    ∀ x ∈ runOps p choice w ops, specLookup p x.2.1 x.1 x.2.2.result = true := by
  induction ops generalizing w with
  | nil => simp [runOps]
  | cons o r ih =>
    unfold runOps
    split
    · rename_i w' x heq
      intro y hy
      simp only [List.mem_cons] at hy
      rcases hy with rfl | hy
      · cases o <;> simp [applyOp] at heq
        obtain ⟨_, rfl⟩ := heq
        exact spec_holds_on_model p choice _ _ _
      · exact ih w' y hy
    · exact ih _

-- non-vacuity: concrete non-trivial instances
private def hs3 : Hosts := [⟨0, 1, false, 0, 0, 1⟩, ⟨1, 1, true, 2, 0, 3⟩, ⟨2, 1, false, 0, 1, 1⟩]
/-- two of three hosts unhealthy: every policy still finds the healthy one (least request: both random candidates
unhealthy, the traversal finds host 1). -/
example : (choose .lr 2 hs3 {} { draws := [0, 2, 2] }).result = some 1 := by decide
example : (choose .random 2 hs3 {} { draws := [2] }).result = some 1 := by decide
example : (choose .reqrr 2 hs3 {} { re := .idx 1 }).result = some 1 := by decide
example : (choose .maglev 2 hs3 {} { table := some 2, re := .unset }).result = some 1 := by decide
example : keyed .maglev { table := some 2 } = true ∧ ∃ i, hAt hs3 i = true := ⟨by decide, 1, by decide⟩
example : (choose .rr 2 hs3 { rr := 4294967295 } {}).result = some 1 := by decide
example : (choose .ewma 2 hs3 {} { draws := [0, 0] }).result = some 1 := by decide
example : (choose .lc 0 (hs3.map ({ · with healthy := false })) {} { draws := [1] }).result = none := by decide

end MosnVerif.Props.C05
