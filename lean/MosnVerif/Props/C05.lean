import MosnVerif.Lemmas.LB
import MosnVerif.Lemmas.Snapshot
import MosnVerif.Lemmas.ClusterPub
import MosnVerif.Lemmas.HostOps
import MosnVerif.Lemmas.PubVal
import MosnVerif.Lemmas.PoolLookup
/-!
# C05 — load balancers return only current, healthy members (property theorems only)

`choose p choice hs st c` is `ChooseHost` of the policy `p` (round robin, random, weighted round robin, least request,
least connection, request round robin, maglev, peak EWMA) on the host set `hs`, in the policy state `st` (round-robin
cursor, EDF scheduler), with the nondeterministic inputs `c` of the call (random draws, service order of exact EDF ties,
re-entry index, maglev table index).  Every theorem holds for ALL policies, choice counts, host lists (size 0, 1, 2, …),
weights, health patterns, gauges, cursor states, scheduler states, draws and re-entry indices.
`keyed p c` is the precondition that a maglev lookup has a hash to look up (route with a hash policy, table built);
it is `true` for every other policy.
-/
namespace MosnVerif.Props.C05
open MosnVerif.Model.LB

/-- **member**: the returned index denotes an element of the current host set. -/
theorem member (p : Policy) (choice : Nat) (hs : Hosts) (st : LBState) (c : Call) (i : Nat)
    (h : (choose p choice hs st c).result = some i) : i < hs.length := by
  by_cases hk : keyed p c = true
  · exact hAt_lt ((choose_good p choice hs st c hk).1 i h)
  · rw [choose_unkeyed p choice hs st c (by simpa using hk)] at h; simp at h

/-- **healthy_result**: a returned host is healthy. -/
theorem healthy_result (p : Policy) (choice : Nat) (hs : Hosts) (st : LBState) (c : Call) (i : Nat)
    (h : (choose p choice hs st c).result = some i) : hAt hs i = true := by
  by_cases hk : keyed p c = true
  · exact (choose_good p choice hs st c hk).1 i h
  · rw [choose_unkeyed p choice hs st c (by simpa using hk)] at h; simp at h

/-- **complete**: when some host is healthy, a host is returned. -/
theorem complete (p : Policy) (choice : Nat) (hs : Hosts) (st : LBState) (c : Call) (hk : keyed p c = true)
    (h : ∃ i, hAt hs i = true) : (choose p choice hs st c).result ≠ none := by
  intro hn
  obtain ⟨i, hi⟩ := h
  have := (choose_good p choice hs st c hk).2 hn i
  rw [this] at hi; simp at hi

/-- **none_only_if**: no host is returned only when no host is healthy (in particular when the set is empty). -/
theorem none_only_if (p : Policy) (choice : Nat) (hs : Hosts) (st : LBState) (c : Call) (hk : keyed p c = true)
    (h : (choose p choice hs st c).result = none) : ∀ i, hAt hs i = false :=
  (choose_good p choice hs st c hk).2 h

/-- the executable predicate evaluated on implementation outputs is implied by the model (keyed or not). -/
theorem spec_holds_on_model (p : Policy) (choice : Nat) (hs : Hosts) (st : LBState) (c : Call) :
    specLookup p c hs (choose p choice hs st c).result = true := by
  unfold specLookup
  by_cases hk : keyed p c = true
  · have g := choose_good p choice hs st c hk
    simp only [Bool.or_eq_true]; left
    unfold specChoice
    split
    · rename_i i hi
      have := g.1 i hi
      simp [this, hAt_lt this]
    · rename_i hn
      have := g.2 hn
      cases ha : anyHealthy hs
      · rfl
      · obtain ⟨i, hi⟩ := (anyHealthy_iff hs).mp ha
        rw [this i] at hi; simp at hi
  · simp only [Bool.not_eq_true] at hk
    simp [hk, choose_unkeyed p choice hs st c hk]

/-- **history**: along every history of host-set replacements, health flips, gauge changes, cursor settings and
lookups, from every start state, every lookup satisfies the predicate with respect to the snapshot it saw. -/
theorem history (p : Policy) (choice : Nat) (w : World) (ops : List Op) :
    ∀ x ∈ runOps p choice w ops, specLookup p x.2.1 x.1 x.2.2.result = true := by
  induction ops generalizing w with
  | nil => simp [runOps]
  | cons o r ih =>
    unfold runOps
    split
    · rename_i w' x heq
      intro y hy
      simp only [List.mem_cons] at hy
      rcases hy with rfl | hy
      · cases o <;> simp [applyOp] at heq
        obtain ⟨_, rfl⟩ := heq
        exact spec_holds_on_model p choice _ _ _
      · exact ih w' y hy
    · exact ih _

-- non-vacuity: concrete non-trivial instances
private def hs3 : Hosts := [⟨0, 1, false, 0, 0, 1⟩, ⟨1, 1, true, 2, 0, 3⟩, ⟨2, 1, false, 0, 1, 1⟩]
/-- two of three hosts unhealthy: every policy still finds the healthy one (least request: both random candidates
unhealthy, the traversal finds host 1). -/
example : (choose .lr 2 hs3 {} { draws := [0, 2, 2] }).result = some 1 := by decide
example : (choose .random 2 hs3 {} { draws := [2] }).result = some 1 := by decide
example : (choose .reqrr 2 hs3 {} { re := .idx 1 }).result = some 1 := by decide
example : (choose .maglev 2 hs3 {} { table := some 2, re := .unset }).result = some 1 := by decide
example : keyed .maglev { table := some 2 } = true ∧ ∃ i, hAt hs3 i = true := ⟨by decide, 1, by decide⟩
example : (choose .rr 2 hs3 { rr := 4294967295 } {}).result = some 1 := by decide
example : (choose .ewma 2 hs3 {} { draws := [0, 0] }).result = some 1 := by decide
example : (choose .lc 0 (hs3.map ({ · with healthy := false })) {} { draws := [1] }).result = none := by decide

/-! ## a lookup concurrent with a host-set replacement sees entirely the old or entirely the new set

`Gen/Snapshot.lean` is the regenerated step program of `simpleCluster.UpdateHosts` (source order, origin of the components
of the stored `clusterSnapshot`, writes into a published record), the number of loads in `Snapshot()` and the number of
writes to `clusterSnapshot` fields elsewhere. `Model/Snapshot.lean` runs any number of `UpdateHosts` calls (thread `v`
installs host set number `v`; 0 is the initial set) and lookups (`Snapshot()`; `.LoadBalancer()`; `.HostSet()`) under an
arbitrary schedule. A lookup *sees* `(x, y)`: the balancer it used was built over host set `x`, the host set it read is
`y`. The theorems above (`member`, `healthy_result`, `complete`, `none_only_if`) are about one host list; they apply to a
concurrent lookup because `x = y`: it evaluates one `(hostSet, lb)` pair. -/
section SnapshotCoherence
open MosnVerif.Model.Snapshot MosnVerif.Gen.Snapshot

/-- **snapshot_publication_discipline**: the regenerated `UpdateHosts` stores only NEW records whose balancer was built
over the very host set stored with it, never writes a published record; `Snapshot()` loads the cell once; nothing else in
the package writes a `clusterSnapshot` field. -/
theorem snapshot_publication_discipline : coherentPublication = true := by decide

/-- **snapshot_coherent**: for every update program with that discipline, every number of concurrent `UpdateHosts` calls
and lookups and every schedule: a finished lookup saw a balancer and a host set of the SAME replacement, and that
replacement is the initial set or one that some `UpdateHosts` call has stored. -/
theorem snapshot_coherent (prog : List UStep) (h : publishOk prog = true) (nUpd : Nat) (sched : List Nat) (t x y : Nat)
    (hs : seen (run (initConf prog nUpd) sched) t = some (x, y)) :
    x = y ∧ x ≤ nUpd ∧ x ∈ (run (initConf prog nUpd) sched).cl.published := by
  have I := inv_run sched _ (inv_init prog h nUpd)
  have B := pubBound_run nUpd sched _ (pubBound_init prog nUpd)
  have ht := I.thr t
  unfold seen at hs
  split at hs
  · rename_i x' y' heq
    simp only [Option.some.injEq, Prod.mk.injEq] at hs
    obtain ⟨rfl, rfl⟩ := hs
    rw [heq] at ht
    exact ⟨ht.1, B.1 _ ht.2, ht.2⟩
  · simp at hs

/-- **lookup_sees_old_or_new**: one `UpdateHosts` (the regenerated program) concurrent with any number of lookups, every
schedule: each lookup sees entirely the old pair `(0, 0)` or entirely the new pair `(1, 1)`. -/
theorem lookup_sees_old_or_new (sched : List Nat) (t x y : Nat)
    (hs : seen (run (initConf updateHosts 1) sched) t = some (x, y)) : (x, y) = (0, 0) ∨ (x, y) = (1, 1) := by
  have hd : publishOk updateHosts = true := by decide
  obtain ⟨rfl, hle, _⟩ := snapshot_coherent updateHosts hd 1 sched t x y hs
  have : x = 0 ∨ x = 1 := by omega
  rcases this with rfl | rfl
  · exact Or.inl rfl
  · exact Or.inr rfl

-- non-vacuity: the lookup (thread 0) loads before the update (thread 1) stores: it sees the old pair; the lookup of
-- thread 2 starts afterwards and sees the new pair
example : seen (run (initConf updateHosts 1) [0, 1, 1, 0, 1, 1, 1, 0, 1, 1, 2, 2, 2]) 0 = some (0, 0) ∧
    seen (run (initConf updateHosts 1) [0, 1, 1, 0, 1, 1, 1, 0, 1, 1, 2, 2, 2]) 2 = some (1, 1) := by decide

/-- **update_in_place_mixes** (negative witness, machine-checked): a variant of `UpdateHosts` that updates the published
record in place instead of storing a new one violates the discipline, and the schedule "lookup loads and reads the
balancer; the update runs; the lookup reads the host set" makes the lookup see the OLD balancer with the NEW host set. -/
theorem update_in_place_mixes :
    publishOk updateInPlace = false ∧
    seen (run (initConf updateInPlace 1) [0, 0, 1, 1, 1, 1, 1, 1, 1, 1, 0]) 0 = some (0, 1) := by decide

end SnapshotCoherence

/-! ## an update is a sequence of atomic steps; a lookup may run between any two of them

`Gen/ClusterPub.lean` is regenerated from `cluster_manager.go`: `clusterManager.UpdateCluster` / `UpdateHosts` statement by
statement, and the handlers they are called with (`AddOrUpdatePrimaryCluster`, `AddOrUpdateClusterAndHost`,
`UpdateClusterHosts`, `AppendClusterHosts`, `RemoveClusterHosts`). `Model/ClusterPub.lean` runs any number of such updaters
(thread `v` supplies host set `v`; 0 is the set the cluster has) and lookups (`GetClusterSnapshot`: `clustersMap.Load`,
then `Snapshot()`) under an arbitrary schedule. A lookup sees `some v` or `none` = neither (the empty set of a cluster
object that has not been given its hosts yet). -/
section PublicationOrder
open MosnVerif.Model.ClusterPub MosnVerif.Gen.ClusterPub

/-- **publication_order_discipline**: in every regenerated updater the host set is built completely before the atomic
publish, the new cluster object is stored into `clustersMap` only after its handler gave it the host set, and nothing
touches a set after publication. -/
theorem publication_order_discipline : publicationOrderOk = true := by decide

/-- **lookup_never_neither**: for EVERY program with that order, any number of concurrent updaters and lookups, EVERY
schedule (= every interleaving point): a finished lookup saw a host set that exists — the initial one or one an updater
supplied — never the unfilled one. -/
theorem lookup_never_neither (prog : List CStep) (h : orderOk prog = true) (nUpd : Nat) (sched : List Nat) (t : Nat)
    (r : Option Nat) (hs : seen (run (initConf prog nUpd) sched) t = some r) :
    ∃ v, r = some v ∧ v ≤ nUpd ∧ v ∈ (run (initConf prog nUpd) sched).m.supplied := by
  have I := inv_run sched _ (inv_init prog h nUpd)
  have B := supBound_run nUpd sched _ (supBound_init prog nUpd)
  have ht := I.thr t
  unfold seen at hs
  split at hs
  · rename_i r' heq
    simp only [Option.some.injEq] at hs
    subst hs
    rw [heq] at ht
    obtain ⟨v, h1, h2⟩ := ht
    exact ⟨v, h1, B.1 v h2, h2⟩
  · simp at hs

/-- **lookup_during_update**: one update by any of the manager's (regenerated) updaters, any number of lookups, every
schedule: each lookup sees the old set (0) or the new set (1), and what the balancer of that set returns — every policy,
state, draw — is a healthy member of THAT set, no host only if that set has no healthy member. -/
theorem lookup_during_update (prog : List CStep) (hp : prog ∈ updaters) (sched : List Nat) (t : Nat) (r : Option Nat)
    (hs : seen (run (initConf prog 1) sched) t = some r) :
    ∃ v, r = some v ∧ (v = 0 ∨ v = 1) ∧
      ∀ (hostsOf : Nat → MosnVerif.Model.LB.Hosts) (p : Policy) (choice : Nat) (st : LBState) (c : Call),
        specLookup p c (hostsOf v) (choose p choice (hostsOf v) st c).result = true ∧
        (∀ i, (choose p choice (hostsOf v) st c).result = some i → i < (hostsOf v).length ∧ hAt (hostsOf v) i = true) ∧
        (keyed p c = true → (choose p choice (hostsOf v) st c).result = none → ∀ i, hAt (hostsOf v) i = false) := by
  have hok : orderOk prog = true := List.all_eq_true.mp publication_order_discipline prog hp
  obtain ⟨v, rfl, hle, _⟩ := lookup_never_neither prog hok 1 sched t r hs
  refine ⟨v, rfl, by omega, ?_⟩
  intro hostsOf p choice st c
  exact ⟨spec_holds_on_model p choice _ st c,
    fun i hi => ⟨member p choice _ st c i hi, healthy_result p choice _ st c i hi⟩,
    fun hk hn => none_only_if p choice _ st c hk hn⟩

-- non-vacuity: AddOrUpdatePrimaryCluster (thread 1); the lookup of thread 0 runs between newCluster/loadOld and the
-- handler, the lookup of thread 2 after the store: both see set 0 (the inherited one)
example : expand primaryHandler updateCluster ∈ updaters := by decide
example : seen (run (initConf (expand primaryHandler updateCluster) 1) [1, 1, 0, 0, 1, 1, 2, 2]) 0 = some (some 0) ∧
    seen (run (initConf (expand primaryHandler updateCluster) 1) [1, 1, 0, 0, 1, 1, 2, 2]) 2 = some (some 0) := by decide
-- UpdateClusterHosts: a lookup after the publish sees the new set
example : seen (run (initConf (expand newSimpleHostHandler updateHostsMgr) 1) [1, 1, 1, 0, 0]) 0 = some (some 1) := by decide

/-- **store_before_fill_sees_neither** (negative witness, machine-checked): storing the new cluster object into
`clustersMap` BEFORE the handler gave it its host set violates the order, and the lookup that runs between the store and the
handler sees neither the old nor the new set. The end state is the same. -/
theorem store_before_fill_sees_neither :
    orderOk storeBeforeFill = false ∧
    seen (run (initConf storeBeforeFill 1) [1, 1, 1, 1, 0, 0, 1, 1]) 0 = some none ∧
    seen (run (initConf storeBeforeFill 1) [1, 1, 1, 1, 0, 0, 1, 1, 2, 2]) 2 = some (some 0) := by decide

end PublicationOrder

/-! ## WHAT is published: every value a reader can see during an update

`Gen/PubVal.lean` is regenerated from `cluster_manager.go`: for every handler, which variable each `UpdateHosts` call
publishes and from what list it was built (complete list / empty / a list still being filled / unknown).
`Model/PubVal.lean` runs an update step by step over cells that carry host set VALUES (`old`, `new`, `empty`, `filling`,
`junk`) and lists what a reader sees after EVERY atomic step (`trace`); the harness observes exactly the steps `isEvent`
marks through the verif publish hook. -/
section PublicationValues
open MosnVerif.Model.PubVal MosnVerif.Gen.PubVal

/-- **publication_values_discipline**: in every regenerated updater each publish hands over a set built from the complete
list the handler computed (or the old cluster's own set), the new cluster object reaches `clustersMap` only after that, and
the order program the value program stands for passes the order check of `lookup_never_neither`. -/
theorem publication_values_discipline :
    updatersV.all (fun p => valuesOk p && MosnVerif.Model.ClusterPub.orderOk (abstract [] p)) = true := by decide

/-- **every_published_value_old_or_new**: for EVERY update program with that value discipline (any number of builds,
publishes, variables), after EVERY atomic step of the update — i.e. at every point where a lookup can run — the value a
reader sees is the complete old or the complete new set; never an empty, partially filled or unknown one. -/
theorem every_published_value_old_or_new (prog : List VStep) (h : valuesOk prog = true) :
    ∀ p ∈ trace {} prog, p.2 = .old ∨ p.2 = .new :=
  trace_good prog {} {} inv_init h

/-- **window_lookup_old_or_new**: every window of every regenerated updater (the moments the publish hook reports) shows
the old or the new set. -/
theorem window_lookup_old_or_new (prog : List VStep) (hp : prog ∈ updatersV) :
    ∀ p ∈ events prog, p.2 = .old ∨ p.2 = .new := by
  intro p hp'
  have hv : valuesOk prog = true := by
    have := List.all_eq_true.mp publication_values_discipline prog hp
    simp only [Bool.and_eq_true] at this
    exact this.1
  exact every_published_value_old_or_new prog hv p (List.mem_filter.mp hp').1

/-- **concurrent_values_never_neither**: any number of concurrent updaters running a value program whose order abstraction
passes the order check, any number of lookups, EVERY schedule: a finished lookup saw a supplied set (`lookup_never_neither`
on the abstraction, in which a publish of anything but a complete built set stores "neither"). -/
theorem concurrent_values_never_neither (prog : List VStep)
    (h : MosnVerif.Model.ClusterPub.orderOk (abstract [] prog) = true) (nUpd : Nat) (sched : List Nat) (t : Nat)
    (r : Option Nat)
    (hs : MosnVerif.Model.ClusterPub.seen
      (MosnVerif.Model.ClusterPub.run (MosnVerif.Model.ClusterPub.initConf (abstract [] prog) nUpd) sched) t = some r) :
    ∃ v, r = some v ∧ v ≤ nUpd := by
  obtain ⟨v, h1, h2, _⟩ := lookup_never_neither (abstract [] prog) h nUpd sched t r hs
  exact ⟨v, h1, h2⟩

-- non-vacuity: AddOrUpdateClusterAndHost publishes into the new cluster (a reader still sees the old set), then stores it
example : expandV clusterAndHostHandlerV MosnVerif.Gen.ClusterPub.updateCluster ∈ updatersV := by decide
example : (events (expandV clusterAndHostHandlerV MosnVerif.Gen.ClusterPub.updateCluster)).map (·.2) = [.old, .new] := by decide
example : (events (expandV removeHostsHandlerV MosnVerif.Gen.ClusterPub.updateHostsMgr)).map (·.2) = [.new] := by decide

/-- **empty_publish_is_seen** (negative witness, machine-checked): a handler that publishes `NewHostSet(nil)` before the
real set, or a set whose list is still being filled, fails the value check, and the reader in that window sees the empty /
half-filled set. The end state is the same as without the extra publish. -/
theorem empty_publish_is_seen :
    valuesOk emptyFirst = false ∧ (events emptyFirst).map (·.2) = [.empty, .new] ∧
    valuesOk publishWhileFilling = false ∧ (events publishWhileFilling).map (·.2) = [.filling] := by decide

/-- **health_change_is_one_atomic_step**: MOSN keeps no derived healthy-host set — `hostSet` holds only the immutable list
and `Health()` reads the per-address flag word on every probe (both regenerated) — so a health change is one atomic word
update (a `flip` operation of `history`) and there is no rebuild-then-swap window in which a lookup could see a half-built
healthy set. A cached healthy list added to `hostSet` breaks this theorem (=> the tie is reported broken). -/
theorem health_change_is_one_atomic_step : healthIsWordRead = true ∧ hostSetExtraFields = 0 := by decide

end PublicationValues

/-! ## which host OBJECT the cluster carries for an address

`Model/HostOps.lean`: the handlers' list construction (regenerated order: supplied hosts, then the current ones) composed
with `setFinalHost` (regenerated rule: the first occurrence of an address is kept). `absRun` is the declarative map
address → most recently supplied object (within one call: the first occurrence of the address in that call). -/
section HostObjects
open MosnVerif.Model.HostOps

/-- **published_exact**: after ANY sequence of Update / Append / Remove / inherit operations, from any represented start,
the published list has distinct addresses and lists for every address exactly the abstract map's object. -/
theorem published_exact (ops : List MosnVerif.Model.HostOps.Op) (c : List H) (m : Nat → Option H) (h : Rep c m) :
    ((MosnVerif.Model.HostOps.runOps c ops).map (·.a)).Nodup ∧ ∀ a, firstOf (MosnVerif.Model.HostOps.runOps c ops) a = absRun m ops a :=
  rep_run ops c m h

/-- **lb_returns_current_object**: every balancer (any policy, state, draws) over the published list (`hosts` is that list
position by position) returns an index whose object is the abstract map's object for its address. -/
theorem lb_returns_current_object (ops : List MosnVerif.Model.HostOps.Op) (c : List H) (m : Nat → Option H) (h : Rep c m)
    (hosts : MosnVerif.Model.LB.Hosts) (hl : hosts.length = (MosnVerif.Model.HostOps.runOps c ops).length)
    (p : Policy) (choice : Nat) (st : LBState) (cl : Call) (i : Nat)
    (hi : (choose p choice hosts st cl).result = some i) :
    ∃ o, (MosnVerif.Model.HostOps.runOps c ops)[i]? = some o ∧ absRun m ops o.a = some o := by
  have hlt : i < (MosnVerif.Model.HostOps.runOps c ops).length := hl ▸ member p choice hosts st cl i hi
  have R := rep_run ops c m h
  refine ⟨(MosnVerif.Model.HostOps.runOps c ops)[i], by simp [hlt], ?_⟩
  rw [← R.2]
  exact firstOf_of_mem _ R.1 _ (List.getElem_mem hlt)

-- non-vacuity: address 1 is appended again with a new object (token 2, weight 5), twice in one call (first one counts)
example : Rep [⟨1, 1, 1⟩, ⟨3, 7, 2⟩] (fun a => if a = 1 then some ⟨1, 1, 1⟩ else if a = 3 then some ⟨3, 7, 2⟩ else none) := by
  refine ⟨by decide, fun a => ?_⟩
  by_cases h1 : a = 1
  · subst h1; decide
  · by_cases h3 : a = 3
    · subst h3; decide
    · have e1 : ¬ (1 = a) := fun e => h1 e.symm
      have e3 : ¬ (3 = a) := fun e => h3 e.symm
      rw [firstOf_cons, firstOf_cons, if_neg e1, if_neg e3]
      simp [firstOf, h1, h3]
example : MosnVerif.Model.HostOps.runOps [⟨1, 1, 1⟩, ⟨3, 7, 2⟩] [.append [⟨1, 2, 5⟩, ⟨1, 3, 4⟩], .remove [3]] = [⟨1, 2, 5⟩] := by decide

/-- **last_wins_keeps_stale_object** (negative witness, machine-checked): with the other de-duplication rule (last
occurrence wins, in the first one's slot) the list the append handler builds (new object first, then the current ones)
publishes the OLD object of the address, while the map says the new one. -/
theorem last_wins_keeps_stale_object :
    dedupLast ([⟨1, 2, 5⟩] ++ [⟨1, 1, 1⟩, ⟨3, 7, 2⟩]) = [⟨1, 1, 1⟩, ⟨3, 7, 2⟩] ∧
    dedupFirst [] ([⟨1, 2, 5⟩] ++ [⟨1, 1, 1⟩, ⟨3, 7, 2⟩]) = [⟨1, 2, 5⟩, ⟨3, 7, 2⟩] := by decide

end HostObjects

/-! ## the request path: which host travels with the connection pool

`Gen/PoolLookup.lean` is regenerated from `cluster_manager.go`: the data flow of `getActiveConnectionPool` (what every
`return` hands back and where it was last assigned, the key of every pool-map access, the host each factory call gets, the
slot indices of the parallel arrays `pools` / `hosts` in the first loop and in the poll loop, the bounds) and the map
selection of `connPool.load`. `Model/PoolLookup.lookup` interprets that flow over pool maps whose pools OUTLIVE host-set
replacements and keep the host object they were created with (`Pool.created` = `pool.Host()`). `q.lb` lists what the
`ChooseHost` calls of this lookup returned; `(lookup …).ret` is the (pool, host) pair `ConnPoolForCluster` hands to the
proxy; `(lookup …).iter` lists, per first-loop iteration, the pool that iteration loaded / created and the host it chose.
`Keyed σ`: every pool sits under the address of its creation host (true initially, kept by every operation). -/
section RequestPath
open MosnVerif.Model.PoolLookup MosnVerif.Gen.PoolLookup
open MosnVerif.Model.HostOps (H)

/-- **pool_lookup_flow_discipline**: the regenerated `getActiveConnectionPool` keys the pool map by the address of the host
chosen in this iteration, creates pools with that host, returns a ready pool of the first loop with that host, stores a
pool that is not ready into slot `i` of `pools` and that host into slot `i` of `hosts`, and the poll loop tests and returns
slot `i` of BOTH arrays. -/
theorem pool_lookup_flow_discipline : flowOk flow = true := by decide

/-- **returned_host_is_chosen**: for EVERY flow with that discipline, pool-map state, readiness script, scope, query: the
host handed back is one of the objects `ChooseHost` returned during THIS call (call number `k` < `try`). -/
theorem returned_host_is_chosen (fl : Flow) (hf : flowOk fl = true) (env : Env) (σ : St) (hk : Keyed σ) (q : Query)
    (p : Pool) (x : H) (hr : (lookup fl env σ q).ret = (some p, some x)) :
    ∃ k, k < min q.hostNum fl.maxHosts ∧ q.lb[k]? = some (some x) := by
  have S := lookup_spec fl hf env σ q hk
  exact (S.2.1 (p, x) (S.2.2.1 p x hr)).2

/-- **returned_pair_consistent**: the returned pool was created for the returned host's address, the pair is the (pool,
host) pair of ONE first-loop iteration (same loop index), and a pool is returned iff a host is. -/
theorem returned_pair_consistent (fl : Flow) (hf : flowOk fl = true) (env : Env) (σ : St) (hk : Keyed σ) (q : Query) :
    (∀ p x, (lookup fl env σ q).ret = (some p, some x) → p.created.a = x.a ∧ (p, x) ∈ (lookup fl env σ q).iter) ∧
    ((lookup fl env σ q).ret.1 = none ↔ (lookup fl env σ q).ret.2 = none) ∧
    Keyed (lookup fl env σ q).st := by
  have S := lookup_spec fl hf env σ q hk
  exact ⟨fun p x hr => ⟨(S.2.1 (p, x) (S.2.2.1 p x hr)).1, S.2.2.1 p x hr⟩, S.2.2.2, S.1⟩

/-- **stale_pool_host_never_returned**: along EVERY history of host-set replacements (any lists, any cluster), lookups (any
balancer answers, any readiness), pool shutdowns, TLS changes — from the empty pool maps — every lookup that returns
`(p, x)`: `x` was chosen in this lookup, `p` is a pool for `x`'s address, and when the balancer only returns members of
the cluster's current set (`member`, `lb_returns_current_object`), `x` is a member of the current set — so a pool's own host
object that is no longer in the set (stale after a replacement keeping the address, or another cluster's) is never
handed back. -/
theorem stale_pool_host_never_returned (fl : Flow) (hf : flowOk fl = true) (env : Env) (ops : List MosnVerif.Model.PoolLookup.Op) :
    ∀ ev ∈ runHist fl env {} ops, ∀ p x, ev.2.2.ret = (some p, some x) →
      p.created.a = x.a ∧
      (∃ k, k < min ev.2.1.hostNum fl.maxHosts ∧ ev.2.1.lb[k]? = some (some x)) ∧
      ((∀ o ∈ ev.2.1.lb, ∀ h, o = some h → h ∈ ev.1) → x ∈ ev.1 ∧ (p.created ∉ ev.1 → x ≠ p.created)) := by
  intro ev hev p x hr
  have G := runHist_good fl hf env ops {} keyed_init ev hev
  have hp := G.1 (p, x) (G.2.1 p x hr)
  refine ⟨hp.1, hp.2, ?_⟩
  intro hlb
  obtain ⟨k, _, hk⟩ := hp.2
  have hx : x ∈ ev.1 := hlb (some x) (List.mem_of_getElem? hk) x rfl
  exact ⟨hx, fun hn he => hn (he ▸ hx)⟩

/-- **returned_host_current_healthy**: the balancer instantiated — every policy, state and draw per call — over the list
published after ANY update history (`published_exact`): the host the request path hands back is the current object of its
address in the abstract map, healthy, and the pool is one for its address. -/
theorem returned_host_current_healthy (fl : Flow) (hf : flowOk fl = true) (env : Env) (σ : St) (hk : Keyed σ)
    (ops : List MosnVerif.Model.HostOps.Op) (c0 : List H) (m : Nat → Option H) (hrep : MosnVerif.Model.HostOps.Rep c0 m)
    (hosts : MosnVerif.Model.LB.Hosts) (hl : hosts.length = (MosnVerif.Model.HostOps.runOps c0 ops).length)
    (pol : Policy) (choice : Nat) (st : Nat → LBState) (cl : Nat → Call) (q : Query)
    (hq : ∀ k o, q.lb[k]? = some o →
      o = ((choose pol choice hosts (st k) (cl k)).result).bind (fun i => (MosnVerif.Model.HostOps.runOps c0 ops)[i]?))
    (p : Pool) (x : H) (hr : (lookup fl env σ q).ret = (some p, some x)) :
    ∃ i, (MosnVerif.Model.HostOps.runOps c0 ops)[i]? = some x ∧ hAt hosts i = true ∧
      MosnVerif.Model.HostOps.absRun m ops x.a = some x ∧ p.created.a = x.a := by
  obtain ⟨k, _, hk'⟩ := returned_host_is_chosen fl hf env σ hk q p x hr
  have hb := hq k (some x) hk'
  cases hres : (choose pol choice hosts (st k) (cl k)).result with
  | none => simp [hres] at hb
  | some i =>
    simp only [hres, Option.bind_some] at hb
    obtain ⟨o, ho, habs⟩ := lb_returns_current_object ops c0 m hrep hosts hl pol choice (st k) (cl k) i hres
    have : o = x := by rw [ho] at hb; exact (Option.some.inj hb).symm
    subst this
    exact ⟨i, ho, healthy_result pol choice hosts (st k) (cl k) i hres, habs,
      ((returned_pair_consistent fl hf env σ hk q).1 p o hr).1⟩

-- non-vacuity: address 1 is replaced by a new object (marker 2, weight 5) while its pool (created with marker 1) lives on;
-- the second lookup re-uses pool 0 and hands back the NEW object
example : (runHist flow {} {} [.setHosts 0 [⟨1, 1, 1⟩], .lookup ⟨0, 1, [some ⟨1, 1, 1⟩]⟩, .setHosts 0 [⟨1, 2, 5⟩],
    .lookup ⟨0, 1, [some ⟨1, 2, 5⟩]⟩]).map (fun e => e.2.2.ret) =
    [(some ⟨0, ⟨1, 1, 1⟩, 0⟩, some ⟨1, 1, 1⟩), (some ⟨0, ⟨1, 1, 1⟩, 0⟩, some ⟨1, 2, 5⟩)] := by decide
-- two hosts, neither pool ready at first; the pool of the SECOND slot becomes ready first: slot 1 of both arrays is returned
example : (lookup flow {} { nr := [(1, 3), (2, 1)] } ⟨0, 2, [some ⟨1, 1, 1⟩, some ⟨2, 2, 1⟩]⟩).ret =
    (some ⟨1, ⟨2, 2, 1⟩, 0⟩, some ⟨2, 2, 1⟩) := by decide
example : Keyed (lookup flow {} {} ⟨0, 1, [some ⟨1, 1, 1⟩]⟩).st :=
  (returned_pair_consistent flow pool_lookup_flow_discipline {} {} keyed_init _).2.2

/-- **pool_host_return_is_stale** (negative witnesses, machine-checked): (1) returning the pool's own host instead of the
chosen one violates the discipline, and after a replacement that keeps the address the lookup hands back the REPLACED
object; (2) pairing `pools[i]` with `hosts[0]` in the poll loop hands back a pool for address 2 with the host of address 1;
(3) keying the pool map by host name makes two hosts of one name share a pool: pool for address 1, host of address 2. -/
theorem pool_host_return_is_stale :
    flowOk (returnsPoolHost flow) = false ∧
    (runHist (returnsPoolHost flow) {} {} [.setHosts 0 [⟨1, 1, 1⟩], .lookup ⟨0, 1, [some ⟨1, 1, 1⟩]⟩, .setHosts 0 [⟨1, 2, 5⟩],
      .lookup ⟨0, 1, [some ⟨1, 2, 5⟩]⟩]).map (fun e => (e.1, e.2.2.ret.2)) =
      [([⟨1, 1, 1⟩], some ⟨1, 1, 1⟩), ([⟨1, 2, 5⟩], some ⟨1, 1, 1⟩)] ∧
    flowOk (pollReturnsSlot0 flow) = false ∧
    (lookup (pollReturnsSlot0 flow) {} { nr := [(1, 3), (2, 1)] } ⟨0, 2, [some ⟨1, 1, 1⟩, some ⟨2, 2, 1⟩]⟩).ret =
      (some ⟨1, ⟨2, 2, 1⟩, 0⟩, some ⟨1, 1, 1⟩) ∧
    flowOk (keyedByName flow) = false ∧
    (runHist (keyedByName flow) {} {} [.lookup ⟨0, 2, [some ⟨1, 1, 1⟩]⟩, .lookup ⟨0, 2, [some ⟨2, 2, 1⟩]⟩]).map (fun e => e.2.2.ret) =
      [(some ⟨0, ⟨1, 1, 1⟩, 0⟩, some ⟨1, 1, 1⟩), (some ⟨0, ⟨1, 1, 1⟩, 0⟩, some ⟨2, 2, 1⟩)] := by decide

end RequestPath

end MosnVerif.Props.C05
