import MosnVerif.Lemmas.DownstreamProps
import MosnVerif.Lemmas.Downstream.Parked
import MosnVerif.Lemmas.Downstream.Prov
import MosnVerif.Lemmas.Downstream.Backoff9
import MosnVerif.Lemmas.Downstream.Timer10
import MosnVerif.Lemmas.Downstream.Budget10
import MosnVerif.Lemmas.Downstream.TimerObj10
import MosnVerif.Lemmas.Downstream.Window10
import MosnVerif.Lemmas.ReplyWrite
import MosnVerif.Lemmas.ReplyWriteMachine
import MosnVerif.Lemmas.XHijack
/-!
# C03 — every request ends exactly once, with one reply, in bounded time (property theorems only)

All theorems are about `Model/Downstream.lean` (the shared downstream machine regenerated in its decision tables and
control flow from `pkg/proxy/downstream.go`, `upstream.go`, `retrystate.go`, `pkg/types`), for **every** configuration
`c : Cfg` (one-way/two-way, body/trailers, every route outcome, every retry policy, every threshold), **every** ambient
load `ar aq`, and **every** schedule `l : List Label` — an arbitrary interleaving of worker steps (one phase each), upstream
responses (complete, or only the head of a streamed response whose body / trailers follow later), the end of a streamed
body, upstream resets with any reason (also after the response head was forwarded), pool failures, per-try and global
timer callbacks (also the global timer callback landing inside `setupRetry`: `gtInSetup`), downstream resets, connection closes and
asynchronous `TerminateStream` calls while the worker is parked or asleep in `doRetry`'s back-off — every label at every point, the
back-off sleep included.  Everything follows from `inv_run` (Lemmas/Downstream.lean) by induction on the schedule.
-/
namespace MosnVerif.Props.C03
open MosnVerif.Model.Downstream MosnVerif.Gen.ProxyPhase MosnVerif.Gen.ProxyReason

/-- the state after schedule `l` -/
abbrev reach (c : Cfg) (ar aq : Nat) (l : List Label) : S := run c (init ar aq) l

/-- **sender_once**: on every schedule the calls on the downstream sender respect the protocol accepted by the
declarative automaton `sndStep`: headers at most once and first, at most one end of stream, nothing after it, at
most one reset, never a reset after the end of stream, nothing after a reset — and no `ConnectionPool.NewStream` once
response headers went to the client (a partial response is never followed by a retry). -/
theorem sender_once (c : Cfg) (ar aq : Nat) (l : List Label) : senderOk (reach c ar aq l).trace = true := by
  have := (inv_run c ar aq l).k1
  simp only [senderOk, K1] at this ⊢
  simp [this]

/-- the same in plain counts: at most one `AppendHeaders`, and at most one terminal call (end of stream or reset) -/
theorem sender_counts (c : Cfg) (ar aq : Nat) (l : List Label) :
    ((reach c ar aq l).trace.filter isHeaders).length ≤ 1 ∧
    ((reach c ar aq l).trace.filter isEos).length + ((reach c ar aq l).trace.filter isReset).length ≤ 1 := by
  have := counts_of_ok (reach c ar aq l).trace Snd.init (inv_run c ar aq l).k1
  simpa [Snd.init] using this

/-- **no_attempt_after_headers**: on every schedule, once response headers were written to the client no further
upstream attempt is made — neither admitted nor refused: whatever happens to a partially forwarded response (upstream
reset with a retriable reason and retry budget left, timers, client reset), the request is not replayed upstream and
the client never sees the head of a second response (`sender_counts`). -/
theorem no_attempt_after_headers (c : Cfg) (ar aq : Nat) (l : List Label) (t1 t2 : List Ev) (st : Nat) (eos : Bool)
    (h : (reach c ar aq l).trace = t1 ++ Ev.dh st eos :: t2) : t2.any isNewStream = false := by
  have := (inv_run c ar aq l).k1
  simp only [K1] at this
  rw [h] at this
  exact no_attempt_after_headers_of_ok t1 t2 st eos this

/-- **partial_reset_completes**: from every reachable state in which an upstream reset is pending after the response
started (the head of a streamed response was forwarded, the rest was still in flight), at most two worker steps end the
exchange: the regenerated gate of `onUpstreamReset` refuses the retry whatever the reason and the retry budget, the
client stream is reset (`dr`), the stream is cleaned and logged — and nothing else is appended to the trace: no new
upstream attempt, no second response. -/
theorem partial_reset_completes (c : Cfg) (ar aq : Nat) (l : List Label)
    (hrun : (reach c ar aq l).running = true) (hur : (reach c ar aq l).upReset = true)
    (hrst : (reach c ar aq l).respStarted = true) :
    (reach c ar aq (l ++ [.work, .work])).cleaned = true ∧ (reach c ar aq (l ++ [.work, .work])).running = false ∧
    (reach c ar aq (l ++ [.work, .work])).trace =
      (reach c ar aq l).trace ++ [Ev.dr, Ev.log TimeoutExceptionCode (reach c ar aq l).flags] := by
  have := started_reset_run c ar aq _ (inv_run c ar aq l) hrun hur hrst
  simpa [reach, run, List.foldl_append, step] using this

/-- … and the reset of the open upstream stream of a streamed response, delivered while the worker waits for the body,
leads to exactly that state (when the proxy's upstream request still listens to the stream — it stops listening only
when it resets the stream itself) -/
theorem partial_reset_pending (c : Cfg) (ar aq : Nat) (l : List Label) (k : Nat) (r : Reason) (st : Stream)
    (hw : bodyWait (reach c ar aq l) = true) (hk : (reach c ar aq l).streams[k]? = some st)
    (hst : st.real = true ∧ st.live = true ∧ st.counted = true ∧ st.listening = true) :
    (reach c ar aq (l ++ [.upReset k r])).upReset = true ∧ (reach c ar aq (l ++ [.upReset k r])).respStarted = true ∧
    (reach c ar aq (l ++ [.upReset k r])).running = true ∧
    (reach c ar aq (l ++ [.upReset k r])).trace = (reach c ar aq l).trace := by
  obtain ⟨hcl, how, hrst, hurr, hpos, hur, hdr⟩ := bodyWait_facts c ar aq _ (inv_run c ar aq l) hw
  have hsr := ((inv_run c ar aq l).k7 hcl).1
  have hrun : (reach c ar aq l).running = true := by
    simp only [bodyWait, Bool.and_eq_true] at hw; exact hw.1.1.1
  simp only [reach, run, List.foldl_append, List.foldl_cons, List.foldl_nil, step]
  simp only [reach, run] at hk hw hrst hurr hur hsr hrun
  simp [upResetL, hk, hst.1, hst.2.1, hst.2.2.1, hst.2.2.2, hurr, hw, upOnResetStream, hsr, hur, hrst, hrun]

/-- [proxy7] **upfilter_reset_pending** — the machine label `reset during UpFilter`: in EVERY reachable state in which the
worker runs the sender filters of a response (`upfRunning`: phase UpFilter, before its `processError`), the reset of a client
stream that is still registered (the open stream of a streamed response whose head was accepted) raises `upstreamReset`
with nothing sent downstream yet; the `processError` that ends the phase handles it at `s.phase == UpFilter`.  So every
theorem of this file (`sender_once`, `outcome_total`, `clean_once`, `worker_returns_iff_cleaned`, …) and C10's
`ledger_exact` quantify over schedules that contain this event: `inv_run` covers it. -/
theorem upfilter_reset_pending (c : Cfg) (ar aq : Nat) (l : List Label) (k : Nat) (r : Reason) (st : Stream)
    (hw : upfRunning (reach c ar aq l) = true) (hk : (reach c ar aq l).streams[k]? = some st)
    (hst : st.real = true ∧ st.live = true ∧ st.counted = true ∧ st.listening = true) :
    (reach c ar aq (l ++ [.upReset k r])).upReset = true ∧ (reach c ar aq (l ++ [.upReset k r])).respStarted = false ∧
    (reach c ar aq (l ++ [.upReset k r])).trace = (reach c ar aq l).trace := by
  have hi := inv_run c ar aq l
  have hw' := hw
  simp only [upfRunning, Bool.and_eq_true, beq_iff_eq] at hw'
  have hcl := inv_not_cleaned hi hw'.1
  have hsr := (hi.k7 hcl).1
  have hlc : streamLiveCounted (reach c ar aq l) k = true := by simp [streamLiveCounted, hk, hst.2.1, hst.2.2.1]
  have hpos := liveCounted_pos _ k hlc
  have hur : (reach c ar aq l).upReset = false := by
    cases hu : (reach c ar aq l).upReset with
    | false => rfl
    | true => have h0 : liveCount (reach c ar aq l).streams = 0 := hi.k23 hcl (Or.inl hu); omega
  have hrst : (reach c ar aq l).respStarted = false := by
    have := (hi.k15 hcl (by simp [hw'.2, upPhase])).2.2.2.2.1
    rw [this, hw'.2]; decide
  simp only [reach, run, List.foldl_append, List.foldl_cons, List.foldl_nil, step]
  simp only [reach, run] at hk hw hrst hur hsr
  simp [upResetL, hk, hst.1, hst.2.1, hst.2.2.1, hst.2.2.2, hw, upOnResetStream, hsr, hur, hrst]

/-- non-vacuity: the request is sent, the head of a streamed 200 arrives, the worker enters UpFilter — the label is enabled -/
example : upfRunning (reach {} 0 0 (List.replicate 12 .work ++ [.upRespS 0 200 true false, .work])) = true := by decide
/-- … the reset raised there is answered with the error reply of its reason and everything is given back (on the code before
the repair a3a21969e the worker returned here with `trace = [un 0, uh 0]`, not cleaned, the downstream gauge held) -/
example : ((fun (s : S) => (s.trace, s.hTok, s.cleaned, s.running, s.upActive, s.downActive))
    (reach {} 0 0 (List.replicate 12 .work ++ [.upRespS 0 200 true false, .work, .upReset 0 .StreamRemoteReset] ++
      List.replicate 3 .work))) =
    ([.un 0, .uh 0 true, .dh 502 true, .log 502 16], .loc, true, false, 0, 0) := by decide
/-- … and with a retry policy it is retried: nothing had been sent downstream -/
example : ((fun (s : S) => (s.trace, s.cleaned, s.upActive))
    (reach { retryOn := true, numRetries := 1 } 0 0 (List.replicate 12 .work ++
      [.upRespS 0 200 true false, .work, .upReset 0 .StreamConnectionTermination, .work, .work, .work, .upResp 1 200 false false] ++
      List.replicate 4 .work))) =
    ([.un 0, .uh 0 true, .un 1, .uh 1 true, .dh 200 true, .log 200 0], true, 0) := by decide

/-- **clean_once**: the body of `cleanStream` (witnessed by the access-log event inside it) has run exactly once when
the stream is cleaned and not at all before; it never runs twice. -/
theorem clean_once (c : Cfg) (ar aq : Nat) (l : List Label) :
    nLog (reach c ar aq l).trace = (if (reach c ar aq l).cleaned then 1 else 0) :=
  (inv_run c ar aq l).k4

/-- after the stream is cleaned no label changes the trace any more (I2): whatever arrives late is ignored -/
theorem clean_final (c : Cfg) (ar aq : Nat) (l : List Label) (late : Label) (h : (reach c ar aq l).cleaned = true) :
    (reach c ar aq (l ++ [late])).trace = (reach c ar aq l).trace ∧ (reach c ar aq (l ++ [late])).cleaned = true := by
  have := trace_frozen c ar aq (reach c ar aq l) late (inv_run c ar aq l) h
  simpa [reach, run, List.foldl_append] using this

/-- the worker goroutine has returned exactly when the stream was cleaned: it never leaves silently, and nothing
touches the stream after the clean-up -/
theorem worker_returns_iff_cleaned (c : Cfg) (ar aq : Nat) (l : List Label) :
    (reach c ar aq l).running = !(reach c ar aq l).cleaned :=
  (inv_run c ar aq l).k0

/-- **outcome_total**: in every reachable state in which the worker is quiescent (returned, parked in `waitNotify`, or
waiting for the rest of a streamed response) either the exchange is finished with exactly one classified outcome — a
complete response, a reset after the response had started, the client went away, one-way done; never `silent` — or
the worker is parked with the global timer armed and nothing pending (so `timeout_completes` applies), or the head of a
streamed response was forwarded and its upstream stream is still open (so its end or its reset is enabled:
`partial_reset_pending` / `partial_reset_completes`). -/
theorem outcome_total (c : Cfg) (ar aq : Nat) (l : List Label)
    (hq : (reach c ar aq l).running = false ∨ blocked (reach c ar aq l) = true ∨ bodyWait (reach c ar aq l) = true) :
    ((reach c ar aq l).cleaned = true ∧ outcome c (reach c ar aq l) ≠ .silent) ∨
    ((reach c ar aq l).cleaned = false ∧ blocked (reach c ar aq l) = true ∧ c.oneway = false ∧
      (reach c ar aq l).global = true) ∨
    ((reach c ar aq l).cleaned = false ∧ bodyWait (reach c ar aq l) = true ∧ c.oneway = false ∧
      (reach c ar aq l).respStarted = true ∧ 0 < liveCount (reach c ar aq l).streams) := by
  have h := inv_run c ar aq l
  by_cases hbw : bodyWait (reach c ar aq l) = true
  · obtain ⟨hcl, how, hrst, _, hpos, _, _⟩ := bodyWait_facts c ar aq _ h hbw
    exact Or.inr (Or.inr ⟨hcl, hbw, how, hrst, hpos⟩)
  have hq : (reach c ar aq l).running = false ∨ blocked (reach c ar aq l) = true := by
    rcases hq with hq | hq | hq
    · exact Or.inl hq
    · exact Or.inr hq
    · exact absurd hq hbw
  by_cases hcl : (reach c ar aq l).cleaned = true
  · left
    refine ⟨hcl, ?_⟩
    have h33 := h.k33 hcl
    have h3 := h.k3
    unfold outcome
    simp only
    split
    · intro hh; cases hh
    · split
      · intro hh; cases hh
      · split
        · intro hh; cases hh
        · split
          · intro hh; cases hh
          · rename_i h1 h2 h4 h5
            rcases h33 with hh | hh | hh
            · exact absurd hh h1
            · exact absurd hh h5
            · exact absurd hh h4
  · right; left
    simp only [Bool.not_eq_true] at hcl
    have hb : blocked (reach c ar aq l) = true := by
      rcases hq with hq | hq
      · have := h.k0; simp only [K0, hq, hcl] at this; cases this
      · exact hq
    have := blocked_facts c ar aq _ h hb
    exact ⟨hcl, hb, this.2.1, this.2.2.1⟩

/-- **parked_has_live_upstream**: in every reachable state in which the worker is parked in `waitNotify` with nothing
signalled, the request's current upstream attempt is live — its client stream is registered and counted: the request
holds exactly what it waits for (upActive ≥ 1), so an upstream event (or, failing that, the armed global timer:
`timeout_completes`) will wake it.  This is the Spec clause "an unfinished started exchange has upActive ≥ 1".
It rests on a second invariant (`inv2_run`): every live client stream is still listened to by the proxy's upstream
request, and a quiet forwarding phase has a live current attempt. -/
theorem parked_has_live_upstream (c : Cfg) (ar aq : Nat) (l : List Label) (hb : blocked (reach c ar aq l) = true) :
    0 < liveCount (reach c ar aq l).streams ∧ 1 ≤ (reach c ar aq l).upActive :=
  parked_live c ar aq _ (inv_run c ar aq l) (inv2_run c ar aq l) hb

/-- **timeout_completes**: from every reachable state in which the worker is parked (request sent, no event pending)
the firing of the global timer is enabled, and it is sufficient: three worker steps later the stream is cleaned, the
worker has returned, and the client has received the timeout reply — code and response flag come from the regenerated
tables `types.ConvertReasonToCode` / `streamResetReasonToResponseFlag`. -/
theorem timeout_completes (c : Cfg) (ar aq : Nat) (l : List Label) (hb : blocked (reach c ar aq l) = true) :
    (reach c ar aq l).global = true ∧
    (reach c ar aq (l ++ [.globalFire, .work, .work, .work])).cleaned = true ∧
    (reach c ar aq (l ++ [.globalFire, .work, .work, .work])).running = false ∧
    (reach c ar aq (l ++ [.globalFire, .work, .work, .work])).trace =
      ((reach c ar aq (l ++ [.globalFire])).trace ++ [Ev.dh (reasonToCode .UpstreamGlobalTimeout) true]) ++
        [Ev.log (reasonToCode .UpstreamGlobalTimeout) ((reach c ar aq l).flags ||| reasonToFlag .UpstreamGlobalTimeout)] := by
  have h := inv_run c ar aq l
  have hf := blocked_facts c ar aq _ h hb
  have := timeout_run c ar aq _ h hb
  refine ⟨hf.2.2.1, ?_⟩
  simpa [reach, run, List.foldl_append, step] using this

/-- **terminate_completes**: an asynchronous `TerminateStream(code)` called while the worker is parked and no response
headers are stored is accepted, and three worker steps later the stream is cleaned, the worker has returned, and the
client has received exactly the local reply `code` with the DownStreamTerminate flag in the access log. -/
theorem terminate_completes (c : Cfg) (ar aq : Nat) (l : List Label) (code : Nat) (hb : blocked (reach c ar aq l) = true)
    (hnr : (reach c ar aq l).resp.isSome = false) :
    (reach c ar aq (l ++ [.terminate code, .work, .work, .work])).cleaned = true ∧
    (reach c ar aq (l ++ [.terminate code, .work, .work, .work])).running = false ∧
    (reach c ar aq (l ++ [.terminate code, .work, .work, .work])).trace =
      ((reach c ar aq (l ++ [.terminate code])).trace ++ [Ev.dh code true]) ++
        [Ev.log code ((reach c ar aq l).flags ||| DownStreamTerminate)] := by
  have := terminate_run c ar aq _ code (inv_run c ar aq l) hb hnr
  simpa [reach, run, List.foldl_append, step] using this

/-- **error_reply_codes**: the MOSN-generated replies carry the codes and response flags of the regenerated tables:
timeouts 504 + UpstreamRequestTimeout, pool overflow 503 + UpstreamOverflow, connection failure and upstream resets
502 with their flags, a reason outside the table 500; no route 404 + NoRouteFound; no healthy upstream 502 +
NoHealthyUpstream. -/
theorem error_reply_codes :
    reasonToCode .UpstreamGlobalTimeout = TimeoutExceptionCode ∧ reasonToFlag .UpstreamGlobalTimeout = UpstreamRequestTimeout ∧
    reasonToCode .UpstreamPerTryTimeout = TimeoutExceptionCode ∧ reasonToFlag .UpstreamPerTryTimeout = UpstreamRequestTimeout ∧
    reasonToCode (failReason .overflow) = UpstreamOverFlowCode ∧ reasonToFlag (failReason .overflow) = UpstreamOverflow ∧
    reasonToCode (failReason .connfail) = NoHealthUpstreamCode ∧ reasonToFlag (failReason .connfail) = UpstreamConnectionFailure ∧
    reasonToCode .StreamRemoteReset = NoHealthUpstreamCode ∧ reasonToFlag .StreamRemoteReset = UpstreamRemoteReset ∧
    reasonToCode .StreamConnectionTermination = InternalErrorCode ∧
    reasonToFlag .StreamConnectionTermination = UpstreamConnectionTermination := by
  decide

/-- a reset that is not retried is answered with exactly the table's code and flag (when no response has started) -/
theorem reset_reply (c : Cfg) (s : S) (r : Reason) (h : s.respStarted = false) :
    (onUpstreamResetFinish c s r).respCode = reasonToCode r ∧ (onUpstreamResetFinish c s r).statusVar = some (reasonToCode r) ∧
    (onUpstreamResetFinish c s r).flags = s.flags ||| reasonToFlag r ∧ (onUpstreamResetFinish c s r).direct = true := by
  unfold onUpstreamResetFinish
  simp [resetNotReply_eq, h, sendHijack, orFlag]

/-- route outcomes without an upstream: no route ⇒ 404 + NoRouteFound, no healthy host ⇒ 502 + NoHealthyUpstream -/
theorem route_reply (c : Cfg) (s : S) :
    (c.route = .noRoute → (chooseHost c s).respCode = RouterUnavailableCode ∧ (chooseHost c s).flags = s.flags ||| NoRouteFound ∧
      (chooseHost c s).direct = true) ∧
    (c.route = .noHost → (chooseHost c s).respCode = NoHealthUpstreamCode ∧ (chooseHost c s).flags = s.flags ||| NoHealthyUpstream ∧
      (chooseHost c s).direct = true) := by
  constructor <;> (intro hr; simp [chooseHost, hr, sendHijack, orFlag])

/-! ### proxy3 growth: the reply is ONE answer, stale handlers, TerminateStream vs. an in-flight response, the global timer -/

/-- **reply_body_own**: in every reachable state the response the stream holds is ONE answer — held data and held trailers
belong to the answer of the held headers (an upstream attempt's response stores its three parts together; a local reply —
no route, no healthy host, the code of an upstream reset / timeout / pool refusal after any number of retried attempts, a
direct response, `TerminateStream` — stores its own headers and, by the REGENERATED effects of `sendHijackReply` /
`sendHijackReplyWithBody`, clears the held data / trailers or replaces them by its own: a retried attempt's body never
survives into the local reply that follows) — and once response headers went downstream no label, on any schedule, stores
anything any more: the data / trailers the later phases write are the parts that were held when the headers were written.
So every downstream data / trailers event belongs to the same answer as the headers event before it. -/
theorem reply_body_own (c : Cfg) (ar aq : Nat) (l : List Label) :
    okS (reach c ar aq l) ∧
    ((reach c ar aq l).respStarted = true → ∀ l' : List Label,
      store (reach c ar aq (l ++ l')) = store (reach c ar aq l) ∧ (reach c ar aq (l ++ l')).respStarted = true) := by
  refine ⟨okS_run c ar aq l, fun hr l' => ?_⟩
  have := store_frozen c ar aq (reach c ar aq l) l' (inv_run c ar aq l) hr
  simpa [reach, run, List.foldl_append] using this

/-- the local reply itself: whatever the stream held before (the body and trailers of a retried attempt), after
`sendHijackReply[WithBody]` it holds exactly this reply — its data iff it has a body, no trailers, all its own -/
theorem local_reply_own (s : S) (code : Nat) (body : Bool) :
    (sendHijack s code body).resp = some ⟨body, false⟩ ∧ (sendHijack s code body).hTok = .loc ∧
    (sendHijack s code body).dTok = (if body then .loc else .none) ∧ (sendHijack s code body).tTok = .none := by
  rw [sendHijack_eq]; exact ⟨rfl, rfl, rfl, rfl⟩

/-- **stale_terminate_ignored**: `TerminateStream` on a handler that was created for another generation of the pooled
`downStream` object (a filter of an EARLIER request that kept its handler and calls it late, after its request finished and
the object was handed to this request) changes nothing, in every state: the regenerated step program tests the
generation before it claims anything. -/
theorem stale_terminate_ignored (c : Cfg) (s : S) (g code : Nat) (h : g ≠ c.gen) :
    step c s (.terminateStale g code) = s := by
  simp only [step]
  rw [terminateStale_eq]
  have : (g == c.gen) = false := by simpa using h
  simp [this]

/-- the refusal tests of `TerminateStream` in program order, and the kind of its claim (regenerated): stored response
headers, cleaned, generation, then a compare-and-swap on `upstreamResponseReceived` -/
theorem terminate_checks_in_order :
    Gen.ProxyTerminate.checks = [.responseHeaders, .cleaned, .generation, .claim] ∧ Gen.ProxyTerminate.claimKind = .cas := by
  decide

/-- **terminate_wins_or_loses_atomically**: exactly one of {upstream response, terminate reply} is delivered.
(1) An upstream response frame that lands INSIDE an accepted `TerminateStream` — after its claim of the response slot, while it
resets the upstream request — is dropped: the call with the interleaved frame is the call without it, in every state.
(2) A response frame that lands after the call (before the worker woke up) is dropped as well.
(3) And the other way round: after an upstream response was accepted, `TerminateStream` is refused and changes nothing. -/
theorem terminate_wins_or_loses_atomically (c : Cfg) (s : S) (code k rc : Nat) (d t : Bool) :
    step c s (.terminateRaced code k d t) = step c s (.terminate code) ∧
    ((step c s (.terminate code)).urr = true → lateRecv (step c s (.terminate code)) k d t = step c s (.terminate code)) ∧
    ((step c s (.upResp k rc d t)).resp.isSome = true →
      step c (step c s (.upResp k rc d t)) (.terminate code) = step c s (.upResp k rc d t)) := by
  refine ⟨?_, ?_, ?_⟩
  · simp only [step]; exact terminateRaced_eq c s code k d t
  · intro h; exact lateRecv_of_urr _ _ _ _ h
  · intro h
    simp only [step] at h ⊢
    rw [terminateL_eq]
    simp [h]

/-- an accepted `TerminateStream` claims the response slot: on every reachable parked state without a stored response,
the state after the call has `upstreamResponseReceived = 1` (so (2) above applies), the reply stored is the terminate reply -/
theorem terminate_claims (c : Cfg) (ar aq : Nat) (l : List Label) (code : Nat) (hb : blocked (reach c ar aq l) = true)
    (hnr : (reach c ar aq l).resp.isSome = false) :
    (reach c ar aq (l ++ [.terminate code])).urr = true ∧ (reach c ar aq (l ++ [.terminate code])).resp = some ⟨false, false⟩ ∧
    (reach c ar aq (l ++ [.terminate code])).hTok = .loc ∧ (reach c ar aq (l ++ [.terminate code])).direct = true := by
  obtain ⟨hcl, _, _, hurr, _⟩ := blocked_facts c ar aq _ (inv_run c ar aq l) hb
  have hpk : parked (reach c ar aq l) = true := by simpa [blocked, parked] using hb
  simp only [reach, run, List.foldl_append, List.foldl_cons, List.foldl_nil, step]
  simp only [reach, run] at hpk hnr hcl hurr
  rw [terminateL_eq]
  simp [asleep, hpk, hnr, hcl, hurr, terminateAcc]

/-- **global_timer_spans_retries**: the global timer armed when the request was completely sent is neither stopped nor
re-armed by a retry.  (1) `setupRetry` (accepting a retry) stops the per-try timer only — regenerated from its body.
(2) In every reachable state in which the request has been sent and the worker is past the sending phases — in particular
in the retry phase — NO label arms a global timer: the count of timers armed so far (its generation) is constant.
(3) While a retry is still possible the timer is armed or has fired (or a terminate reply is pending): nothing stopped it. -/
theorem global_timer_spans_retries (c : Cfg) (ar aq : Nat) (l : List Label) :
    (∀ eos, (setupRetry c (reach c ar aq l) eos).1.global = (reach c ar aq l).global ∧
      (setupRetry c (reach c ar aq l) eos).1.gtGen = (reach c ar aq l).gtGen) ∧
    ((reach c ar aq l).reqSent = true → sendingPhase (reach c ar aq l).phase = false → ∀ lb : Label,
      (reach c ar aq (l ++ [lb])).gtGen = (reach c ar aq l).gtGen ∧ (reach c ar aq (l ++ [lb])).reqSent = true) ∧
    ((reach c ar aq l).cleaned = false → c.oneway = false → (reach c ar aq l).reqSent = true → (reach c ar aq l).rs.isSome = true →
      (reach c ar aq l).global = true ∨ (reach c ar aq l).globalExpired = true ∨ (reach c ar aq l).direct = true) := by
  refine ⟨fun eos => ⟨(setupRetry_global c _ eos).1, (setupRetry_global c _ eos).2.1⟩, fun hq hp lb => ?_, (inv_run c ar aq l).k24⟩
  have := no_rearm c ar aq (reach c ar aq l) lb (inv_run c ar aq l) hq hp
  simpa [reach, run, List.foldl_append] using this

/-! ### late response during the back-off (proxy6) -/

/-- **backoff_detached**: in every reachable state in which the worker sleeps in `doRetry`'s back-off (phase `Retry`), the
upstream request that was given up is detached — the stream's current request owns no client stream and carries no
`setupRetry` mark (regenerated `processError`: op `detachRetried`, `Gen.ProxyError.detachFresh`) -/
theorem backoff_detached (c : Cfg) (ar aq : Nat) (l : List Label) (hb : backoff (reach c ar aq l) = true) :
    (reach c ar aq l).up = some none ∧ (reach c ar aq l).setupRetry = false ∧ liveCount (reach c ar aq l).streams = 0 := by
  have h := inv_run c ar aq l
  simp only [backoff, Bool.and_eq_true, beq_iff_eq] at hb
  have hcl : (reach c ar aq l).cleaned = false := inv_not_cleaned h hb.1
  exact ⟨(h.k26 hcl hb.2).2.2.2, (h.k7 hcl).1, h.k23 hcl (Or.inr hb.2)⟩

/-- **late_response_ignored**: on every schedule, a response frame of a client stream that is delivered while the worker
sleeps in the back-off (the attempt was given up for a retry with the frame already in flight: per-try timeout, upstream
reset, retriable status) changes NOTHING — it is not accepted, so it can neither be forwarded in place of the next
attempt's answer nor leave that attempt without anybody to reset it.  (Together with `sender_once`, `outcome_total`,
`clean_once` and C10's ledger theorems, which quantify over schedules containing the label.) -/
theorem late_response_ignored (c : Cfg) (ar aq : Nat) (l : List Label) (k : Nat) (d t : Bool) :
    reach c ar aq (l ++ [.lateResp k d t]) = reach c ar aq l := by
  simp only [reach, run, List.foldl_append, List.foldl_cons, List.foldl_nil, step]
  exact lateBackoff_noop c ar aq _ k d t (inv_run c ar aq l)

/-- a back-off state is reachable: per-try timeout of attempt 0 on a retrying route, the worker has handled the reset -/
example : backoff (reach { retryOn := true, numRetries := 1, tryTimeout := true } 0 0
    (List.replicate 12 .work ++ [.perTryFire, .work])) = true := by decide
/-- the frame of attempt 0 lands there, attempt 1 is created and answers: the client gets attempt 1's reply, everything is given back -/
example : ((fun (s : S) => (s.trace, s.hTok, s.cleaned, s.upActive))
    (reach { retryOn := true, numRetries := 1, tryTimeout := true } 0 0
      (List.replicate 12 .work ++ [.perTryFire, .work, .lateResp 0 true false, .work, .work, .upResp 1 200 false false] ++
        List.replicate 4 .work))) =
    ([.un 0, .uh 0 true, .ur 0, .un 1, .uh 1 true, .dh 200 true, .log 200 4], .att 1, true, 0) := by decide
/-- the guard is what protects: were the given-up request still the current one (as before the fix `detachRetriedRequest`:
`processError` only cleared its `setupRetry` mark), the frame WOULD be accepted in that state -/
example : ((fun (s : S) => (lateBackoff { s with up := some (some 0) } 0 true false).urr)
    (reach { retryOn := true, numRetries := 1, tryTimeout := true } 0 0 (List.replicate 12 .work ++ [.perTryFire, .work]))) = true := by
  decide

-- non-vacuity: concrete schedules reaching the situations the theorems talk about
/-- a parked worker exists: request sent, upstream silent -/
example : blocked (reach {} 0 0 (List.replicate 12 .work)) = true := by decide
/-- the timeout reply on that state -/
example : (reach {} 0 0 (List.replicate 12 .work ++ [.globalFire, .work, .work, .work])).trace =
    [.un 0, .uh 0 true, .ur 0, .dh 504 true, .log 504 4] := by decide
/-- a retry after a 503 and a final 200: one reply, cleaned once -/
example : (reach { retryOn := true, numRetries := 1, maxRetries := 1 } 0 0
    (List.replicate 12 .work ++ [.upResp 0 503 false false] ++ List.replicate 5 .work ++ [.upResp 1 200 true false] ++
      List.replicate 6 .work)).trace =
    [.un 0, .uh 0 true, .un 1, .uh 1 true, .dh 200 false, .dd true, .log 200 0] := by decide
/-- terminate while parked on a retried attempt: the upstream request is reset, one reply, cleaned -/
example : (reach { retryOn := true, numRetries := 1, maxRetries := 1 } 0 0
    (List.replicate 12 .work ++ [.upReset 0 .StreamConnectionFailed] ++ List.replicate 5 .work ++ [.terminate 418] ++
      List.replicate 3 .work)).trace =
    [.un 0, .uh 0 true, .un 1, .uh 1 true, .ur 1, .dh 418 true, .log 418 DownStreamTerminate] := by decide
/-- a partial response: the head of a streamed 200 (body in flight) is forwarded and the worker waits for the body … -/
example : bodyWait (reach { retryOn := true, numRetries := 2 } 0 0
    (List.replicate 12 .work ++ [.upRespS 0 200 true false] ++ List.replicate 3 .work)) = true ∧
    (reach { retryOn := true, numRetries := 2 } 0 0
      (List.replicate 12 .work ++ [.upRespS 0 200 true false] ++ List.replicate 3 .work)).trace =
    [.un 0, .uh 0 true, .dh 200 false] := by decide
/-- … the upstream connection is terminated (a retriable reason, retry budget left): no retry, the client is reset … -/
example : (reach { retryOn := true, numRetries := 2 } 0 0
    (List.replicate 12 .work ++ [.upRespS 0 200 true false] ++ List.replicate 3 .work ++
      [.upReset 0 .StreamConnectionTermination, .work, .work])).trace =
    [.un 0, .uh 0 true, .dh 200 false, .dr, .log 504 0] := by decide
/-- … or the body ends and the response is completed -/
example : (reach { retryOn := true, numRetries := 2 } 0 0
    (List.replicate 12 .work ++ [.upRespS 0 200 true true] ++ List.replicate 3 .work ++ [.upEnd 0, .work, .work])).trace =
    [.un 0, .uh 0 true, .dh 200 false, .dd false, .dt, .log 200 0] := by decide
/-- the hypotheses of `partial_reset_completes` are met on that schedule -/
example : ((fun (s : S) => (s.running, s.upReset, s.respStarted))
    (reach { retryOn := true, numRetries := 2 } 0 0
      (List.replicate 12 .work ++ [.upRespS 0 200 true false] ++ List.replicate 3 .work ++
        [.upReset 0 .StreamConnectionTermination]))) = (true, true, true) := by decide
/-- a streamed 503 on a retrying route is swallowed before anything reaches the client: the open stream is reset by the
proxy and the request retried (nothing was forwarded, so this retry is legitimate) -/
example : (reach { retryOn := true, numRetries := 1, maxRetries := 1 } 0 0
    (List.replicate 12 .work ++ [.upRespS 0 503 true false] ++ List.replicate 5 .work)).trace =
    [.un 0, .uh 0 true, .ur 0, .un 1, .uh 1 true] := by decide
/-- client gone while waiting: classified, not silent -/
example : outcome {} (reach {} 0 0 (List.replicate 12 .work ++ [.downReset .StreamConnectionTermination, .work])) = .clientGone := by
  decide
/-- attempt 0 answers a retriable 503 WITH a body, the retried attempt is reset by the peer: the local 502 goes out
header-only — the body of the abandoned exchange is gone — and its parts are the local reply's own -/
example : ((fun (s : S) => (s.trace, s.resp, s.hTok, s.dTok))
    (reach { retryOn := true, numRetries := 1 } 0 0
      (List.replicate 12 .work ++ [.upResp 0 503 true false] ++ List.replicate 5 .work ++ [.upReset 1 .StreamRemoteReset] ++
        List.replicate 5 .work))) =
    ([.un 0, .uh 0 true, .un 1, .uh 1 true, .dh 502 true, .log 502 16], some ⟨false, false⟩, .loc, .none) := by decide
/-- … while the retried response itself was stored as attempt 0's, all three parts -/
example : ((fun (s : S) => (s.resp, s.hTok, s.dTok, s.tTok))
    (reach { retryOn := true, numRetries := 1 } 0 0 (List.replicate 12 .work ++ [.upResp 0 503 true true]))) =
    (some ⟨true, true⟩, .att 0, .att 0, .att 0) := by decide
/-- a stale handler (generation 0, the request has generation 1) is ignored on a parked worker; one of this generation is not -/
example : (reach {} 0 0 (List.replicate 12 .work ++ [.terminateStale 0 419]) == reach {} 0 0 (List.replicate 12 .work)) = true ∧
    (reach {} 0 0 (List.replicate 12 .work ++ [.terminateStale 1 419])).direct = true := by decide
/-- the raced terminate on the parked worker: the in-flight 200 with body is dropped, the client gets the header-only 418 -/
example : (reach {} 0 0 (List.replicate 12 .work ++ [.terminateRaced 418 0 true false] ++ List.replicate 3 .work)).trace =
    [.un 0, .uh 0 true, .ur 0, .dh 418 true, .log 418 DownStreamTerminate] := by decide
/-- a retry after a per-try timeout: one global timer was armed (at the first request-sent), the retry armed none -/
example : ((fun (s : S) => (s.gtGen, s.global, s.perTry, s.trace))
    (reach { retryOn := true, numRetries := 1, tryTimeout := true } 0 0
      (List.replicate 12 .work ++ [.perTryFire] ++ List.replicate 5 .work))) =
    (1, true, true, [.un 0, .uh 0 true, .ur 0, .un 1, .uh 1 true]) := by decide
/-- … whereas a request whose first attempt was refused half-way is armed by its first retry (the only arming a retry does) -/
example : ((fun (s : S) => (s.gtGen, s.global))
    (reach { hasData := true } 0 0 ([.poolFail .connfail] ++ List.replicate 12 .work))) = (1, true) := by decide

/-! ## proxy9 → proxy10: the back-off sleep of `doRetry` is a state of the machine

The worker asleep in `doRetry`'s back-off is the state `backoff` (phase `Retry`, not yet woken).  Every label may fire there —
the asynchronous `TerminateStream` (`terminate` / `terminateStale` / `terminateRaced`: delivered whenever the worker is
`asleep`), a late frame of the given-up attempt (`lateResp`), the global timer callback (`globalFire`; `gtInSetup` when it had
landed inside `setupRetry`), the client's departure (`downReset`, `connClose`), resets / answers of dead streams, `hostsGone`,
`poolFail` — and `work` in that state is the wake-up: the REGENERATED `doRetry` (`Gen.ProxyBackoff.doRetry`) with what it
re-checks after the sleep.  So `sender_once`, `clean_once`, `outcome_total`, `worker_returns_iff_cleaned`, … above and C10's
ledger theorems quantify over schedules with all these interleavings (`inv_run` is proved for the whole label type).  The
theorems below say what the wake-up does. -/

/-- **terminate_in_backoff_accepted_iff**: on every schedule that leaves the worker in `doRetry`'s back-off sleep, an
asynchronous `TerminateStream(code)` delivered there (label `terminate`: regenerated step program `Gen.ProxyTerminate`) is
accepted exactly when no response headers are stored (the attempt was given up for a reset / per-try timeout, not for its
status) and the response slot is free (neither the global timer nor an earlier call took it meanwhile); the call itself
writes nothing to the trace, the worker stays asleep, and an accepted call leaves the header-only local reply `code` pending. -/
theorem terminate_in_backoff_accepted_iff (c : Cfg) (ar aq : Nat) (l : List Label) (code : Nat)
    (hb : backoff (reach c ar aq l) = true) (hnd : (reach c ar aq l).direct = false) :
    (reach c ar aq (l ++ [.terminate code])).trace = (reach c ar aq l).trace ∧
    backoff (reach c ar aq (l ++ [.terminate code])) = true ∧
    ((reach c ar aq (l ++ [.terminate code])).direct = true ↔
      ((reach c ar aq l).resp.isSome = false ∧ (reach c ar aq l).urr = false)) ∧
    ((reach c ar aq (l ++ [.terminate code])).direct = true →
      (reach c ar aq (l ++ [.terminate code])).respCode = code ∧
      (reach c ar aq (l ++ [.terminate code])).resp = some ⟨false, false⟩) := by
  have h := terminate_backoff_spec c ar aq (reach c ar aq l) code (inv_run c ar aq l) hb
  simp only [reach, run, List.foldl_append, List.foldl_cons, List.foldl_nil, step]
  simp only [reach, run] at h hnd
  refine ⟨h.1, h.2.2.1, ?_, fun hd => ⟨(h.2.2.2.2.2.2 hnd hd).2.1, (h.2.2.2.2.2.2 hnd hd).2.2⟩⟩
  rw [h.2.2.2.2.2.1]
  simp [hnd]

/-- **terminate_in_backoff_not_forwarded** (C14: a denied request is never forwarded; C03: one reply): on every schedule that
leaves the worker in the back-off with a local reply pending — an asynchronous `TerminateStream` was ACCEPTED there, whatever
else landed during the rest of the sleep (the client's departure, the connection close, late frames, the global timer …) —
the wake-up (`work`: the regenerated `doRetry` returns at its test `if s.directResponse`, then `processError`) creates NO
upstream attempt — no `NewStream`, admitted or refused, no new client stream — and the worker leaves the Retry phase (the
pending reply goes to the response pass; or, the client gone, the stream is cleaned).  No hypothesis on `downstreamReset`. -/
theorem terminate_in_backoff_not_forwarded (c : Cfg) (ar aq : Nat) (l : List Label)
    (hb : backoff (reach c ar aq l) = true) (hacc : (reach c ar aq l).direct = true) :
    (reach c ar aq (l ++ [.work])).streams.length = (reach c ar aq l).streams.length ∧
    (reach c ar aq (l ++ [.work])).trace.filter attemptEv = (reach c ar aq l).trace.filter attemptEv ∧
    ((reach c ar aq (l ++ [.work])).running = false ∨ (reach c ar aq (l ++ [.work])).phase ≠ .Retry) := by
  have hi := inv_run c ar aq l
  obtain ⟨hcl, _, _, _, _, _, _, _, _, _, _, hdf⟩ := backoff_facts c ar aq _ hi hb
  have := wake_direct_no_attempt c (reach c ar aq l) hb hacc hcl (hdf hacc).2.1
  simpa [reach, run, List.foldl_append, step, att] using this

/-- **backoff_wake_no_attempt** (sensitivity: `doRetry` must re-check after its sleep): on every schedule that leaves the worker
in the back-off, when meanwhile the client left (`downstreamReset`), an upstream reset was raised (the global timer fired
during the sleep), a local reply became pending, or the expiry of the global timeout was recorded (its callback landed inside
`setupRetry`), the wake-up creates no upstream attempt.  Rests on the regenerated guards: `upstreamRequest.appendHeaders`
starts with `processDone()` = `upstreamProcessDone || downstreamReset == 1 || upstreamReset == 1`, `doRetry` tests
`directResponse` and `globalTimeoutExpired` after the sleep. -/
theorem backoff_wake_no_attempt (c : Cfg) (ar aq : Nat) (l : List Label) (hb : backoff (reach c ar aq l) = true)
    (h : (reach c ar aq l).downReset = true ∨ (reach c ar aq l).upReset = true ∨ (reach c ar aq l).direct = true ∨
      (reach c ar aq l).globalExpired = true) :
    (reach c ar aq (l ++ [.work])).trace.filter attemptEv = (reach c ar aq l).trace.filter attemptEv := by
  have hi := inv_run c ar aq l
  obtain ⟨_, _, hup, _⟩ := backoff_facts c ar aq _ hi hb
  have := wake_no_attempt c (reach c ar aq l) hb (by
    rcases h with h | h | h | h
    · exact Or.inr (Or.inr (Or.inl h))
    · exact Or.inr (Or.inr (Or.inr h))
    · exact Or.inl h
    · exact Or.inr (Or.inl ⟨h, by rw [hup]; rfl⟩))
  simpa [reach, run, List.foldl_append, step, att] using this

/-- the regenerated guards the two theorems above rest on, as the Go source has them -/
theorem backoff_guards_regenerated :
    Gen.ProxyPhase.retrySkipsOnDirect = true ∧ Gen.ProxyBackoff.appendHeadersChecksDone = true ∧
    Gen.ProxyBackoff.appendDataChecksDone = true ∧ Gen.ProxyBackoff.appendTrailersChecksDone = true ∧
    (∀ pd dr ur, Gen.ProxyBackoff.processDone pd dr ur = (pd || dr || ur)) := by
  refine ⟨by decide, by decide, by decide, by decide, ?_⟩
  intro pd dr ur; cases pd <;> cases dr <;> cases ur <;> rfl

/-- the machine's `processDone` is the regenerated one -/
theorem processDone_regenerated (s : S) :
    processDone s = Gen.ProxyBackoff.processDone s.procDone s.downReset s.upReset := by
  simp [processDone, Gen.ProxyBackoff.processDone]

/-- non-vacuity: attempt 0 reset (connection failed, retried), the worker sleeps, TerminateStream(418) lands, the worker wakes:
ONE attempt, the client gets the 418, everything is given back -/
example : ((fun (s : S) => (s.trace, s.cleaned, s.upActive, s.retries))
    (reach { retryOn := true, numRetries := 1, maxRetries := 1 } 0 0
      (List.replicate 12 .work ++ [.upReset 0 .StreamConnectionFailed, .work, .terminate 418] ++ List.replicate 4 .work))) =
    ([.un 0, .uh 0 true, .dh 418 true, .log 418 0x2000], true, 0, 0) := by decide
/-- … the same with the client leaving during the rest of the sleep: no attempt, no reply, the stream is cleaned -/
example : ((fun (s : S) => (s.trace, s.cleaned, s.upActive, s.retries))
    (reach { retryOn := true, numRetries := 1, maxRetries := 1 } 0 0
      (List.replicate 12 .work ++ [.upReset 0 .StreamConnectionFailed, .work, .terminate 418,
        .downReset .StreamConnectionTermination] ++ List.replicate 2 .work))) =
    ([.un 0, .uh 0 true, .log 504 0x2000], true, 0, 0) := by decide
/-- the client leaves during the back-off (no terminate): the wake-up creates no attempt 1 -/
example : ((fun (s : S) => (s.trace, s.cleaned, s.upActive))
    (reach { retryOn := true, numRetries := 1 } 0 0
      (List.replicate 12 .work ++ [.upReset 0 .StreamConnectionFailed, .work, .downReset .StreamConnectionTermination, .work]))) =
    ([.un 0, .uh 0 true, .log 504 0], true, 0) := by decide
/-- a retry because of the STATUS keeps the stale response headers: the call is refused, the retry goes on -/
example : (reach { retryOn := true, numRetries := 1 } 0 0
      (List.replicate 12 .work ++ [.upResp 0 503 false false] ++ List.replicate 3 .work ++ [.terminate 418])).direct = false ∧
    backoff (reach { retryOn := true, numRetries := 1 } 0 0
      (List.replicate 12 .work ++ [.upResp 0 503 false false] ++ List.replicate 3 .work)) = true := by decide

/-! ## c03t10 — the reply MOSN generates itself exists on the wire, for every xprotocol codec (Model/XHijack.lean) -/
section XHijack
open MosnVerif.Model.XHijack

/-- **local_reply_frame_exists**: for every codec, every request id and EVERY http-style code (in particular every code MOSN
generates: 404, 502, 503, 504, 500, the code of a stream filter's hijack / TerminateStream) the server stream has a frame to
write: Hijack does not return nil, Mapping / the status map (default branch included) yields a defined protocol status,
buildHijackResp goes through Mapping and endStream writes a non-nil frame. -/
theorem local_reply_frame_exists (c : Codec) (reqId code : Nat) : (wire c reqId code).isSome = true :=
  MosnVerif.Lemmas.XHijack.wire_isSome c reqId code

/-- **local_reply_decodes_and_correlates_partial**: the reply carries the REQUEST's id and both fields fit the codec's wire
fields (id below 2^idBits when the request's id is, status below 2^statusBits), so the field encoders of the codec models are
injective on them. Full statement (not proved here): `decode c (encode c reply) = reply` over the byte-level codec models of
C01 (Model/Bolt, Dubbo, Tars); the byte-level round trip is covered by the correspondence run only (dec=1: MOSN's codec
decodes the frame with this id and status). -/
theorem local_reply_decodes_and_correlates_partial (c : Codec) (reqId code : Nat) (r : Reply)
    (h : wire c reqId code = some r) : r.id = reqId ∧ r.status < 2 ^ statusBits c :=
  MosnVerif.Lemmas.XHijack.wire_correlates c reqId code r h

example : wire .tars 7 404 = some ⟨7, 4294967292⟩ := by decide
example : wire .bolt 4294967295 504 = some ⟨4294967295, 7⟩ := by decide
example : wire .dubbo 5 418 = some ⟨5, 70⟩ := by decide

/-- **mapping_total**: every code maps to a defined protocol status; a code outside the codec's table takes the default
branch (bolt / boltv2: ResponseStatusUnknown; dubbo: Response_SERVICE_ERROR; dubbo-thrift: the zero value of the unchecked
map lookup = UNKNOWN_APPLICATION_EXCEPTION; tars: TARSSERVERUNKNOWNERR). -/
theorem mapping_total (c : Codec) (code : Nat) :
    (∃ st, status c code = some st) ∧ ((table c).lookup code = none → statusName c code = dflt c) :=
  ⟨Option.isSome_iff_exists.mp (MosnVerif.Lemmas.XHijack.status_isSome c code), fun h => by simp [statusName, h]⟩

example : statusName .bolt 418 = "ResponseStatusUnknown" ∧ status .bolt 418 = some 3 := by decide
example : statusName .tars 418 = "TARSSERVERUNKNOWNERR" := by decide

/-- **oneway_never_answered**: a one-way request is never answered, whatever the cause and the code; a heartbeat is answered
by the stream layer's ack only (never by a hijack reply). -/
theorem oneway_never_answered (c : Codec) (up : Bool) (reqId code : Nat) :
    replies c .ow up reqId code = [] ∧ (replies c .hb up reqId code).all (·.1) = true := by
  constructor <;> rfl

/-- **two_way_answered_once**: a two-way request that MOSN ends itself is answered by exactly one frame -/
theorem two_way_answered_once (c : Codec) (up : Bool) (reqId code : Nat) : (replies c .tw up reqId code).length = 1 := by
  unfold replies
  cases up
  · have h := local_reply_frame_exists c reqId code
    cases hw : wire c reqId code with
    | none => rw [hw] at h; cases h
    | some r => simp
  · simp

/-- negation witness (the silence): with a Hijack that returns nil (tars before 3303a3fc8) nothing is written, for every code -/
example : ∀ code ∈ [404, 502, 503, 504, 500], hijackWith true true .tars 7 code = none := by decide

end XHijack
/-! ## proxy10: the global timer callback inside `setupRetry`; a streamed response reset before its head is forwarded -/

/-- **global_timeout_in_retry_setup**: the global timer callback that lands INSIDE `setupRetry` — after the test of
`globalTimeoutExpired`, with the given-up upstream request marked, before (`afterCas = false`) or after (`true`) the response
slot is swung back: label `gtInSetup` — has its reset dropped by the marked request, but records the expiry; on every schedule
the wake-up that follows creates NO further attempt (`doRetry` re-checks the expiry: fix fac205b27), and — nothing else
happening — three more worker steps answer the request with the timeout reply and clean the stream: the timeout is not lost. -/
theorem global_timeout_in_retry_setup (c : Cfg) (ar aq : Nat) (l : List Label) (b : Bool)
    (hb : backoff (reach c ar aq l) = true) (hg : (reach c ar aq l).global = true) :
    (reach c ar aq (l ++ [.gtInSetup b])).globalExpired = true ∧ (reach c ar aq (l ++ [.gtInSetup b])).global = false ∧
    backoff (reach c ar aq (l ++ [.gtInSetup b])) = true ∧
    (reach c ar aq (l ++ [.gtInSetup b, .work])).trace.filter attemptEv = (reach c ar aq l).trace.filter attemptEv := by
  have e : reach c ar aq (l ++ [.gtInSetup b]) =
      { reach c ar aq l with global := false, globalExpired := true, urr := (reach c ar aq l).urr || b } := by
    simp only [reach, run, List.foldl_append, List.foldl_cons, List.foldl_nil, step, gtInSetup]
    simp only [reach, run] at hb hg
    have hrec : globalCallbackRecordsExpiry = true := by decide
    simp [hb, hg, hrec]
  have hb2 : backoff (reach c ar aq (l ++ [.gtInSetup b])) = true := by rw [e]; simpa [backoff] using hb
  refine ⟨by rw [e], by rw [e], hb2, ?_⟩
  have h2 := backoff_wake_no_attempt c ar aq (l ++ [.gtInSetup b]) hb2 (Or.inr (Or.inr (Or.inr (by rw [e]))))
  have e2 : l ++ [Label.gtInSetup b, .work] = (l ++ [.gtInSetup b]) ++ [.work] := by simp
  rw [e2, h2, e]

/-- non-vacuity: attempt 0 reset and retried, the global timer fires inside `setupRetry` after the swing; the upstream stays
silent: the client gets the 504 (on the code before fac205b27 attempt 1 was created here and nothing ever answered) -/
example : ((fun (s : S) => (s.trace, s.cleaned, s.upActive))
    (reach { retryOn := true, numRetries := 1 } 0 0
      (List.replicate 12 .work ++ [.upReset 0 .StreamConnectionFailed, .work, .gtInSetup true] ++ List.replicate 4 .work))) =
    ([.un 0, .uh 0 true, .dh 504 true, .log 504 4], true, 0) := by decide
/-- … before the swing (retriable status): the same -/
example : ((fun (s : S) => (s.trace, s.cleaned))
    (reach { retryOn := true, numRetries := 1 } 0 0
      (List.replicate 12 .work ++ [.upResp 0 503 false false] ++ List.replicate 3 .work ++ [.gtInSetup false] ++
        List.replicate 4 .work))) =
    ([.un 0, .uh 0 true, .dh 504 true, .log 504 4], true) := by decide

/-- **streamed_reset_any_phase**: the reset of the open client stream of a streamed response (head accepted, body in flight)
is a label of the machine in EVERY state — also while the worker has not yet consumed the wake-up of the head, runs the
sender filters, or is about to forward the head: on every schedule, for every live, counted, listened client stream, the label
raises `upstreamReset` (unless one is pending), destroys the stream, and writes nothing downstream.  With `sender_once` /
`outcome_total` / `ledger_exact` quantifying over such schedules: before the head is forwarded the reset is answered or
retried like any reset, after it the client stream is reset (`partial_reset_completes`). -/
theorem streamed_reset_any_phase (c : Cfg) (ar aq : Nat) (l : List Label) (k : Nat) (r : Reason) (st : Stream)
    (hk : (reach c ar aq l).streams[k]? = some st)
    (hst : st.real = true ∧ st.live = true ∧ st.counted = true ∧ st.listening = true) :
    (reach c ar aq (l ++ [.upReset k r])).upReset = true ∧
    (reach c ar aq (l ++ [.upReset k r])).trace = (reach c ar aq l).trace ∧
    liveCount (reach c ar aq (l ++ [.upReset k r])).streams = 0 := by
  have hi := inv_run c ar aq l
  have hi2 := inv_run c ar aq (l ++ [.upReset k r])
  have hlc : streamLiveCounted (reach c ar aq l) k = true := by simp [streamLiveCounted, hk, hst.2.1, hst.2.2.1]
  have hpos := liveCounted_pos _ k hlc
  obtain ⟨hcl, _, _⟩ := live_ctx c ar aq _ hi hpos
  have hsr := (hi.k7 hcl).1
  have hur : (reach c ar aq l).upReset = false := by
    cases hu : (reach c ar aq l).upReset with
    | false => rfl
    | true => have h0 : liveCount (reach c ar aq l).streams = 0 := hi.k23 hcl (Or.inl hu); omega
  have e : (reach c ar aq (l ++ [.upReset k r])) = destroyStream c (upOnResetStream (reach c ar aq l) r) k := by
    simp only [reach, run, List.foldl_append, List.foldl_cons, List.foldl_nil, step]
    simp only [reach, run] at hk
    simp [upResetL, hk, hst.1, hst.2.1, hst.2.2.1, hst.2.2.2]
  have hup : (reach c ar aq (l ++ [.upReset k r])).upReset = true := by
    rw [e]; simp only [reach, run] at hsr hur ⊢; simp [upOnResetStream, hsr, hur]
  refine ⟨hup, by rw [e]; simp [upOnResetStream], ?_⟩
  have hcl2 : (reach c ar aq (l ++ [.upReset k r])).cleaned = false := by
    rw [e]; simp only [reach, run] at hcl ⊢; simp [upOnResetStream, hcl]
  exact hi2.k23 hcl2 (Or.inl hup)

/-- non-vacuity: the head of a streamed 200 is accepted, the worker has NOT yet run (wake-up pending in WaitNotify), the stream
is reset with a retriable reason and budget left: retried — nothing had gone downstream; the retried attempt answers -/
example : ((fun (s : S) => (s.trace, s.cleaned, s.upActive))
    (reach { retryOn := true, numRetries := 1 } 0 0 (List.replicate 12 .work ++
      [.upRespS 0 200 true false, .upReset 0 .StreamConnectionTermination, .work, .work, .work, .upResp 1 200 false false] ++
      List.replicate 4 .work))) =
    ([.un 0, .uh 0 true, .un 1, .uh 1 true, .dh 200 true, .log 200 0], true, 0) := by decide
/-- … at UpRecvHeader (the head about to be forwarded), no retry policy: the error reply of the reason, one reply -/
example : ((fun (s : S) => (s.phase, s.trace))
    (reach {} 0 0 (List.replicate 12 .work ++ [.upRespS 0 200 true false, .work, .work]))) = (.UpRecvHeader, [.un 0, .uh 0 true]) ∧
    ((fun (s : S) => (s.trace, s.cleaned, s.upActive))
    (reach {} 0 0 (List.replicate 12 .work ++ [.upRespS 0 200 true false, .work, .work, .upReset 0 .StreamRemoteReset] ++
      List.replicate 4 .work))) =
    ([.un 0, .uh 0 true, .dh 502 true, .log 502 16], true, 0) := by decide

/-- **cleaned_holds_nothing**: on every schedule, once the stream is cleaned it holds no upstream request — no client stream is
live, the upstream gauge is back at the ambient value 0, both timers are stopped: `cleanStream` resets the upstream request
whenever one exists that is not done (two-way), in EVERY phase (the regenerated condition `Gen.ProxyBackoff.cleanResets` reads
neither the phase nor the retry mark) — in particular when the client leaves while the wake-up from the back-off is sending
the next attempt. -/
theorem cleaned_holds_nothing (c : Cfg) (ar aq : Nat) (l : List Label) (h : (reach c ar aq l).cleaned = true) :
    liveCount (reach c ar aq l).streams = 0 ∧ (reach c ar aq l).upActive = 0 ∧ (reach c ar aq l).perTry = false ∧
    (reach c ar aq l).global = false ∧
    (∀ s : S, ∀ p m, Gen.ProxyBackoff.cleanResets (resetFlags c s) p m = (s.up.isSome && !s.procDone && !c.oneway)) := by
  have hi := inv_run c ar aq l
  obtain ⟨_, h1, h2, h3⟩ := hi.k13 h
  refine ⟨h1, ?_, h2, h3, fun s => cleanResets_regenerated c s⟩
  have := hi.k11
  simp only [K11, h1] at this
  simpa using this

/-- non-vacuity: a request with a body is retried; the client leaves after attempt 1 was sent by the wake-up: it is reset -/
example : ((fun (s : S) => (s.trace, s.cleaned, s.upActive))
    (reach { hasData := true, retryOn := true, numRetries := 1 } 0 0
      (List.replicate 12 .work ++ [.upReset 0 .StreamConnectionFailed, .work, .work, .downReset .StreamConnectionTermination, .work]))) =
    ([.un 0, .uh 0 false, .ud 0 true, .un 1, .uh 1 false, .ud 1 true, .ur 1, .log 504 0], true, 0) := by decide

/-! ## proxy10: the global timer is armed once per request -/

/-- **global_timer_armed_once**: on EVERY schedule — retries, late frames, timer callbacks inside the retry set-up, the client's
departure, TerminateStream at any sleeping point — the global timer of a request is created at most once (`gtGen ≤ 1`), and not
before the request was completely sent.  The arm sites are regenerated: `onUpstreamRequestSent` is the only function of
pkg/proxy that assigns `responseTimer` a timer, `cleanUp` the only one that forgets it, and `onUpstreamRequestSent` is called by
`receiveHeaders` / `receiveData` / `receiveTrailers` (for the part that completes the request) and by `doRetry` (when no timer
object exists); the machine's `onUpstreamRequestSent` IS the regenerated step program. -/
theorem global_timer_armed_once (c : Cfg) (ar aq : Nat) (l : List Label) :
    (reach c ar aq l).gtGen ≤ 1 ∧ ((reach c ar aq l).reqSent = false → (reach c ar aq l).gtGen = 0) ∧
    Gen.ProxyBackoff.armSites = ["onUpstreamRequestSent"] ∧ Gen.ProxyBackoff.forgetSites = ["cleanUp"] ∧
    Gen.ProxyBackoff.requestSentCallers = ["doRetry", "receiveData", "receiveHeaders", "receiveTrailers"] ∧
    (∀ s : S, onUpstreamRequestSent c s = Gen.ProxyBackoff.onUpstreamRequestSent (sentOps c) s) := by
  have t := tinv_run c ar aq l
  exact ⟨t.once, t.unsent, global_timer_sites.1, global_timer_sites.2.1, global_timer_sites.2.2,
    onUpstreamRequestSent_regenerated c⟩

/-- **retry_setup_regenerated**: the pieces of the retry set-up the machine uses are the regenerated step programs of the Go
functions (`Gen.ProxyBackoff`): `setupRetry` (expiry test, mark, reset of the upstream request, per-try timer, swing of the
response slot — with the worker's two yield sites as interleaving points), the global timer callback (clean test, expiry
record, compare-and-swap, `onResponseTimeout`), `upstreamRequest.OnResetStream` (dropped when the request is marked), and the
condition under which `cleanStream` resets the upstream request (independent of the phase and of the mark). -/
theorem retry_setup_regenerated (c : Cfg) (s : S) :
    (∀ eos, setupRetry c s eos = Gen.ProxyBackoff.setupRetry (srOps c) id id eos s) ∧
    (globalFire c s = if !s.global then s else Gen.ProxyBackoff.globalCallback (gcOps c) { s with global := false }) ∧
    (∀ r, upOnResetStream s r = Gen.ProxyBackoff.onResetStream (rsOps r) s) ∧
    (∀ p m, Gen.ProxyBackoff.cleanResets (resetFlags c s) p m = (s.up.isSome && !s.procDone && !c.oneway)) :=
  ⟨setupRetry_regenerated c s, globalFire_regenerated c s, upOnResetStream_regenerated s, cleanResets_regenerated c s⟩

/-- non-vacuity: a request with a body whose first attempt is refused half-way arms its global timer at the first retry — once -/
example : ((fun (s : S) => (s.gtGen, s.global, s.gtObj))
    (reach { hasData := true, retryOn := true, numRetries := 2 } 0 0
      ([.poolFail .connfail] ++ List.replicate 12 .work ++ [.upReset 1 .StreamConnectionFailed] ++ List.replicate 4 .work))) =
    (1, true, true) := by decide

/-- **the label `gtInSetup` is the global timer callback run INSIDE the regenerated `setupRetry`** (window (a): between the
compare-and-swap of `setupRetry` and `processError` detaching the marked request).  `Gen.ProxyBackoff.setupRetry o w1 w2` is the
regenerated step program with the worker's two yield sites as interleaving points (`w1` after the mark, `w2` after the swing of
`upstreamResponseReceived`); `gtCallback` is the regenerated callback of a timer that has fired.  For every state in which the
worker calls `setupRetry` with the timer armed: run the callback at a site, finish `setupRetry`, then the rest of the worker's
phase (`restOfPhase`: `upstreamReset` cleared, `processError` detaches the marked request and hands back `Retry`) — the state the
worker goes to sleep in is the back-off state of the UN-interleaved run followed by the label `gtInSetup false` (site 1) resp.
`gtInSetup true` (site 2), up to `normL`: the listener registration of the client stream that is gone (which nothing reads).
At site 1 with the slot free the callback's own reset of the given-up request is covered for `setupRetry(true)` (retry after an
upstream reset: the client stream is gone); with the slot taken (retry on a response status) the callback only records the expiry. -/
theorem global_timeout_window_is_label (c : Cfg) (s : S) (eos e : Bool) (hc : s.cleaned = false) (he : s.globalExpired = false)
    (hu : s.up.isSome = true) (hd : s.downReset = false) (hdi : s.direct = false) (hg : s.global = true)
    (hrun : s.running = true) (hp : s.pass < Gen.ProxyPhase.loopBudget) :
    ((s.urr = true ∨ (eos = true ∧ ∀ k, curStream s = some k → streamLive s k = false)) →
      normL (restOfPhase c (Gen.ProxyBackoff.setupRetry (srOps c) (gtCallback c) id eos s).1 e) =
        normL (gtInSetup (restOfPhase c (setupRetry c s eos).1 e) false)) ∧
    ((∀ k, curStream (setupRetry c s eos).1 = some k → streamLive (setupRetry c s eos).1 k = false) →
      normL (restOfPhase c (Gen.ProxyBackoff.setupRetry (srOps c) id (gtCallback c) eos s).1 e) =
        normL (gtInSetup (restOfPhase c (setupRetry c s eos).1 e) true)) :=
  ⟨gtInSetup_after_mark c s eos e hc he hu hd hdi hg hrun hp, gtInSetup_after_swing c s eos e hc he hu hd hdi hg hrun hp⟩

/-- the two windows in closed form (no hypothesis on the client stream): after the swing the callback wins the slot, resets the
given-up request once more and its `OnResetStream` is dropped; after the mark it wins only a free slot, and `setupRetry` frees
the slot again -/
theorem global_timeout_windows_closed_form (c : Cfg) (s : S) (eos : Bool) (hc : s.cleaned = false) (he : s.globalExpired = false)
    (hu : s.up.isSome = true) :
    (Gen.ProxyBackoff.setupRetry (srOps c) id (gtCallback c) eos s).1 =
      resetUpstream c { (setupRetry c s eos).1 with global := false, globalExpired := true, urr := true } ∧
    (Gen.ProxyBackoff.setupRetry (srOps c) (gtCallback c) id eos s).1 =
      { (setupRetry c (if s.urr then s else resetUpstream c s) eos).1 with global := false, globalExpired := true } :=
  ⟨setupRetry_window_after_swing c s eos hc he hu, setupRetry_window_after_mark c s eos hc he hu⟩

/-- the state in which the worker handles the reset of attempt 0 (timer armed, slot free, client stream gone) -/
def exWinCfg : Cfg := { retryOn := true, numRetries := 1 }
def exWinState : S := reach exWinCfg 0 0 (List.replicate 12 .work ++ [.upReset 0 .StreamConnectionFailed])

/-- non-vacuity: that state satisfies every hypothesis, and there the interleaved run and the label agree up to `normL` but NOT
literally -/
example :
    (!exWinState.cleaned && !exWinState.globalExpired && exWinState.up.isSome && !exWinState.downReset && !exWinState.direct &&
      exWinState.global && exWinState.running && exWinState.pass == 0 && !exWinState.urr &&
      !(match curStream exWinState with | some k => streamLive exWinState k | none => false)) = true ∧
    (restOfPhase exWinCfg (Gen.ProxyBackoff.setupRetry (srOps exWinCfg) id (gtCallback exWinCfg) true exWinState).1 true ==
      gtInSetup (restOfPhase exWinCfg (setupRetry exWinCfg exWinState true).1 true) true) = false ∧
    (normL (restOfPhase exWinCfg (Gen.ProxyBackoff.setupRetry (srOps exWinCfg) id (gtCallback exWinCfg) true exWinState).1 true) ==
      normL (gtInSetup (restOfPhase exWinCfg (setupRetry exWinCfg exWinState true).1 true) true)) = true := by decide

/-- **the machine's `s.responseTimer != nil` is the pointer field**: `doRetry` arms both timers only when no timer object exists.
The machine reads that test as `hasTimerObj` (so that `inv_run` needs no fact about the pointer); on every schedule an armed
global timer has an object and an object exists only after the request was sent, hence `hasTimerObj` equals the field `gtObj`
(set where the timer is created — the regenerated arm site —, kept when the timer fires or is stopped, forgotten by `cleanUp`). -/
theorem timer_object_is_pointer (c : Cfg) (ar aq : Nat) (l : List Label) :
    hasTimerObj (reach c ar aq l) = (reach c ar aq l).gtObj ∧
    ((reach c ar aq l).global = true → (reach c ar aq l).gtObj = true) ∧
    ((reach c ar aq l).gtObj = true → (reach c ar aq l).reqSent = true) :=
  ⟨hasTimerObj_eq c ar aq l, (timer_object_run c ar aq l).1, (timer_object_run c ar aq l).2⟩

/-- **attempts_bounded** (on the shared machine, the back-off a state): on every schedule — whatever lands during the back-off
sleeps, inside the retry set-up, on a streamed response — the `ConnectionPool.NewStream` calls of one request (admitted `un` and
refused `uf`) are at most `1 + max 3 numRetries`: the first attempt, then one per unit of the retry budget `newRetryState`
starts with (`Gen.ProxyRetry.retriesFloor`, raised to the route's `NumRetries`).  From the regenerated `retryState.retry`
(every `ShouldRetry` takes a unit), `setupRetry` called only after `ShouldRetry`, `processError` handing back the phase `Retry`
only for a marked request, and `doRetry` creating at most one attempt per wake-up (`Lemmas/Downstream/Budget10.lean`). -/
theorem attempts_bounded (c : Cfg) (ar aq : Nat) (l : List Label) :
    (att (reach c ar aq l).trace).length ≤ 1 + max Gen.ProxyRetry.retriesFloor c.numRetries ∧
    (reach c ar aq l).streams.length = (att (reach c ar aq l).trace).length :=
  ⟨attempts_le_budget c ar aq l, (binv_run c ar aq l).w.cnt.symm⟩

set_option maxRecDepth 8192 in
/-- non-vacuity: the bound is attained — every attempt reset by the connection, `numRetries` 1 (below the floor 3) and 5 -/
example : (att (reach { retryOn := true, numRetries := 1 } 0 0 (List.replicate 12 .work ++
    (List.range 6).flatMap (fun k => [.upReset k .StreamConnectionFailed, .work, .work, .work]))).trace).length = 4 := by decide
set_option maxRecDepth 8192 in
example : (att (reach { retryOn := true, numRetries := 5 } 0 0 (List.replicate 12 .work ++
    (List.range 8).flatMap (fun k => [.upReset k .StreamConnectionFailed, .work, .work, .work]))).trace).length = 6 := by decide

end MosnVerif.Props.C03

/-! ## c03w10: the reply write path can FAIL (`Model/ReplyWrite.lean`) — appended block

The machine above writes a reply part in one infallible step.  In the code each part goes through `appendHeaders(endStream)` /
`appendData(endStream)` / `appendTrailers()`, whose sender call can fail.  The theorems below are about the REGENERATED bodies
of the three functions (`Gen.ProxyReplyWrite`, closed vocabulary: an early `return` on the error path is a step) run inside
the regenerated callers' sequence (which part for which reply shape, the entry guards, the regenerated `processError` after
every part), for ALL reply shapes × ALL outcome vectors (ok / error per part) × ALL positions of a downstream stream reset
(between any two steps, in particular from inside the failing call, or never; delivered by the stream layer or by the proxy's
connection-close callback, which skips a stream whose `upstreamProcessDone` is already set) × ALL start states (client already gone or not,
upstream stream of a streamed response still open or not). -/
namespace MosnVerif.Props.C03
open MosnVerif.Model.ReplyWrite

/-- **reply_write_ends_once**: whatever the sender returns and wherever the client's reset lands, the write of a reply ends
with the worker returned and the stream cleaned, the BODY of `cleanStream` has run exactly once, `endStream` is entered at most
once and exactly once after a part that ends the stream (never without one); and when the client stays for the whole write
every part of the reply is handed to the sender in order — a failed non-final write does not stop the later parts —, the last
one ends the stream, `endStream` follows once. -/
theorem reply_write_ends_once (r : Reply) (o : Outs) (rp : Nat) (viaConn clientGone upLive : Bool) :
    (writeReply genProgs r o rp viaConn (start clientGone upLive)).returned = true ∧
    (writeReply genProgs r o rp viaConn (start clientGone upLive)).cleaned = true ∧
    cleans (writeReply genProgs r o rp viaConn (start clientGone upLive)) = 1 ∧
    ends (writeReply genProgs r o rp viaConn (start clientGone upLive)) ≤ 1 ∧
    endsAfterEos (writeReply genProgs r o rp viaConn (start clientGone upLive)).ev = true ∧
    (clientGone = false → 17 ≤ rp →
      (writeReply genProgs r o rp viaConn (start clientGone upLive)).ev.filter isCall = expectedCalls r o ∧
      ends (writeReply genProgs r o rp viaConn (start clientGone upLive)) = 1) := by
  have h := good_all r o rp viaConn clientGone upLive
  simp only [good, Bool.and_eq_true, beq_iff_eq, decide_eq_true_eq, Bool.or_eq_true, Bool.not_eq_true'] at h
  obtain ⟨⟨⟨⟨⟨⟨⟨⟨⟨h1, h2⟩, h3⟩, h4⟩, h5⟩, _⟩, _⟩, _⟩, h9⟩, _⟩ := h
  refine ⟨h1, h2, h3, h4, h5, fun hc hrp => ?_⟩
  rcases h9 with (hh | hh) | hh
  · rw [hc] at hh; cases hh
  · omega
  · exact hh

/-- **header_only_reply_ends**: a header-only reply — every error reply MOSN generates itself (404 / 502 / 503 / 504, a hijack
without body, `TerminateStream`: `local_reply_header_only`), a header-only upstream answer — whose `AppendHeaders` is reached
(the client has not gone before the part is entered) is written with end of stream and followed by `endStream` at once, whether
the write succeeds or FAILS and wherever a reset lands afterwards: the stream is cleaned once, the active gauge given back, the
stream taken off the active list. -/
theorem header_only_reply_ends (o : Outs) (rp : Nat) (viaConn upLive : Bool) (hrp : 1 ≤ rp) :
    (writeReply genProgs ⟨false, false⟩ o rp viaConn (start false upLive)).ev.take 2 = [Ev.call .headers true o.h, Ev.endStream] ∧
    ends (writeReply genProgs ⟨false, false⟩ o rp viaConn (start false upLive)) = 1 ∧
    cleans (writeReply genProgs ⟨false, false⟩ o rp viaConn (start false upLive)) = 1 ∧
    (writeReply genProgs ⟨false, false⟩ o rp viaConn (start false upLive)).active = 0 ∧
    (writeReply genProgs ⟨false, false⟩ o rp viaConn (start false upLive)).listed = false := by
  have h := good_all ⟨false, false⟩ o rp viaConn false upLive
  simp only [good, Bool.and_eq_true, beq_iff_eq, decide_eq_true_eq, Bool.or_eq_true, Bool.not_eq_true'] at h
  obtain ⟨⟨⟨⟨⟨⟨⟨⟨⟨_, _⟩, h3⟩, _⟩, _⟩, h6⟩, h7⟩, _⟩, _⟩, h10⟩ := h
  rcases h10 with (((hh | hh) | hh) | hh) | hh
  · cases hh
  · cases hh
  · cases hh
  · omega
  · exact ⟨hh.1, hh.2, h3, h6, h7⟩

/-- the replies MOSN generates itself with `sendHijackReply` are header-only whatever the stream held before (regenerated
effects, `Gen.ProxyReply`); with `sendHijackReplyWithBody` they are headers + body, never trailers -/
theorem local_reply_header_only (heldData heldTrailers : Bool) :
    hijackShape false heldData heldTrailers = ⟨false, false⟩ ∧ hijackShape true heldData heldTrailers = ⟨true, false⟩ := by
  cases heldData <;> cases heldTrailers <;> decide

/-- **write_error_never_strands**: for every reply, every outcome vector — in particular every one with a failing write —,
every reset position and every start state, the worker never returns from the write leaving the stream half-ended: when it
has returned the stream is cleaned, `upstreamProcessDone` set, the active gauge at 0, the stream off the proxy's active list. -/
theorem write_error_never_strands (r : Reply) (o : Outs) (rp : Nat) (viaConn clientGone upLive : Bool) :
    (writeReply genProgs r o rp viaConn (start clientGone upLive)).returned = true ∧
    (writeReply genProgs r o rp viaConn (start clientGone upLive)).cleaned = true ∧
    (writeReply genProgs r o rp viaConn (start clientGone upLive)).procDone = true ∧
    (writeReply genProgs r o rp viaConn (start clientGone upLive)).active = 0 ∧
    (writeReply genProgs r o rp viaConn (start clientGone upLive)).listed = false := by
  have h := good_all r o rp viaConn clientGone upLive
  simp only [good, Bool.and_eq_true, beq_iff_eq, decide_eq_true_eq, Bool.or_eq_true, Bool.not_eq_true'] at h
  obtain ⟨⟨⟨⟨⟨⟨⟨⟨⟨h1, h2⟩, _⟩, _⟩, _⟩, h6⟩, h7⟩, h8⟩, _⟩, _⟩ := h
  exact ⟨h1, h2, h8, h6, h7⟩

/-- negation witness — `appendHeaders` with "reset and return" on the error path (`if err != nil { s.resetStream(); return }`):
for a header-only reply `upstreamProcessDone` is already true when the write fails, so `resetStream()` is a no-op, `endStream` is
skipped, `processError` sees the process done and the worker returns: NOT cleaned, gauge held, still on the active list -/
example : ((fun (f : RW) => (f.returned, f.cleaned, f.active, f.listed, f.ev))
    (writeReply earlyReturnHeaders ⟨false, false⟩ ⟨false, true, true⟩ 17 false (start false false))) =
    (true, false, 1, true, [Ev.call .headers true false]) := by decide
/-- … and nothing ends it afterwards: not the client's reset, not the connection close (`stranded_stays`) -/
example : ((fun (f : RW) => (f.cleaned, f.active, f.listed))
    (exec ⟨false, true, true⟩ (start false false) (ops earlyReturnHeaders ⟨false, false⟩ ++ [Op.reset, Op.connClose, Op.reset]))) =
    (false, 1, true) := by decide
/-- … while a reply WITH body survives that variant (the reset reaches the client stream, `processError` cleans up): the
defect shows on header-only replies only -/
example : ((fun (f : RW) => (f.cleaned, f.ev))
    (writeReply earlyReturnHeaders ⟨true, false⟩ ⟨false, true, true⟩ 17 false (start false false))) =
    (true, [Ev.call .headers false false, Ev.dr, Ev.clean]) := by decide
/-- negation witness — `appendData` that ends the stream only when the write succeeded: a failing last data write strands the stream -/
example : ((fun (f : RW) => (f.returned, f.cleaned, f.active, f.ev))
    (writeReply dataEndsOnlyOnSuccess ⟨true, false⟩ ⟨true, false, true⟩ 17 false (start false false))) =
    (true, false, 1, [Ev.call .headers false true, Ev.call .data true false]) := by decide
/-- the regenerated code on the same inputs: ended and cleaned once -/
example : ((fun (f : RW) => (f.cleaned, f.active, f.ev))
    (writeReply genProgs ⟨false, false⟩ ⟨false, true, true⟩ 17 false (start false false))) =
    (true, 0, [Ev.call .headers true false, Ev.endStream, Ev.clean]) := by decide
example : ((fun (f : RW) => (f.cleaned, f.active, f.ev))
    (writeReply genProgs ⟨true, false⟩ ⟨true, false, true⟩ 17 false (start false false))) =
    (true, 0, [Ev.call .headers false true, Ev.call .data true false, Ev.endStream, Ev.clean]) := by decide
/-- a reset delivered from inside the failing `AppendHeaders` of a reply with body and trailers, the upstream stream of the
streamed response still open: no further part is written, `processError` cleans up once and resets the upstream stream -/
example : (writeReply genProgs ⟨true, true⟩ ⟨false, true, true⟩ 3 false (start false true)).ev =
    [Ev.call .headers false false, Ev.ur, Ev.clean] := by decide
/-- the connection closes inside the failing LAST write: `upstreamProcessDone` is already set, the proxy's connection-close
callback skips the stream — nothing but the `endStream` that follows can end it, and it does -/
example : ((fun (f : RW) => (f.downReset, f.cleaned, f.ev))
    (writeReply genProgs ⟨true, false⟩ ⟨true, false, true⟩ 8 true (start false false))) =
    (false, true, [Ev.call .headers false true, Ev.call .data true false, Ev.endStream, Ev.clean]) := by decide
/-- a reset that lands between the last write and `endStream`: `endStream` still runs, the clean-up runs once (`clean_once`) -/
example : (writeReply genProgs ⟨true, false⟩ ⟨true, false, true⟩ 8 false (start false false)).ev =
    [Ev.call .headers false true, Ev.call .data true false, Ev.endStream, Ev.clean] := by decide

/-- **reply_write_clean_once** (any program): for ANY op list over the vocabulary — any bodies of the three functions, any
interleaving of stream resets and connection closes, any sender outcomes — from a reachable state of the downstream machine
(whose `clean_once` gives the starting count) the body of `cleanStream` has run exactly once iff the stream is cleaned, never
twice, and the stream is on the active list iff it is not cleaned: the compare-and-swap in `cleanStream` is what `endStream`,
`processError`'s `ResetStream` and a filter's termination all go through. -/
theorem reply_write_clean_once (c : Model.Downstream.Cfg) (ar aq : Nat) (l : List Model.Downstream.Label) (o : Outs) (w : List Op) :
    cleans (exec o (viewOf (reach c ar aq l).procDone (reach c ar aq l).cleaned (reach c ar aq l).downReset
      (reach c ar aq l).downLive (Model.Downstream.nLog (reach c ar aq l).trace)) w) =
      (if (exec o (viewOf (reach c ar aq l).procDone (reach c ar aq l).cleaned (reach c ar aq l).downReset
        (reach c ar aq l).downLive (Model.Downstream.nLog (reach c ar aq l).trace)) w).cleaned then 1 else 0) ∧
    (exec o (viewOf (reach c ar aq l).procDone (reach c ar aq l).cleaned (reach c ar aq l).downReset
      (reach c ar aq l).downLive (Model.Downstream.nLog (reach c ar aq l).trace)) w).listed =
      !(exec o (viewOf (reach c ar aq l).procDone (reach c ar aq l).cleaned (reach c ar aq l).downReset
        (reach c ar aq l).downLive (Model.Downstream.nLog (reach c ar aq l).trace)) w).cleaned := by
  have hv := viewOf_inv (reach c ar aq l).procDone (reach c ar aq l).cleaned (reach c ar aq l).downReset
    (reach c ar aq l).downLive (Model.Downstream.nLog (reach c ar aq l).trace) (clean_once c ar aq l)
  have := exec_cleanInv o w _ hv
  exact ⟨this.count, this.listed⟩

/-- **ok_write_is_machine_step**: the machine's infallible reply steps are the all-writes-succeed runs of the regenerated append
programs — from every reachable machine state that is not cleaned (so `clean_once` gives "no clean-up body so far"), the
successful run of `appendHeaders(eos)` / `appendData(eos)` / `appendTrailers()` on the write path's view of the state yields
the same `upstreamProcessDone`, `downstreamCleaned`, `downstreamReset`, number of clean-up bodies and gauge as the machine's
`dsAppendHeaders` / `dsAppendData` / `dsAppendTrailers`.  The theorems above extend these steps to failing writes and
interleaved departures of the client. -/
theorem ok_write_is_machine_step (c : Model.Downstream.Cfg) (ar aq : Nat) (l : List Model.Downstream.Label) (eos : Bool)
    (hc : (reach c ar aq l).cleaned = false) :
    common (okPart .headers eos (viewS (reach c ar aq l))) = commonS (Model.Downstream.dsAppendHeaders c (reach c ar aq l) eos) ∧
    common (okPart .data eos (viewS (reach c ar aq l))) = commonS (Model.Downstream.dsAppendData c (reach c ar aq l) eos) ∧
    common (okPart .trailers true (viewS (reach c ar aq l))) = commonS (Model.Downstream.dsAppendTrailers c (reach c ar aq l)) := by
  have h0 : Model.Downstream.nLog (reach c ar aq l).trace = 0 := by
    have := clean_once c ar aq l
    rw [hc] at this
    simpa using this
  exact ⟨ok_headers_is_machine_step c _ eos hc h0, ok_data_is_machine_step c _ eos hc h0, ok_trailers_is_machine_step c _ hc h0⟩

/-- non-vacuity: the request is sent, a header-only 200 arrives, the worker is about to write it — not cleaned -/
example : (reach {} 0 0 (List.replicate 12 .work ++ [.upResp 0 200 false false, .work, .work])).cleaned = false ∧
    (reach {} 0 0 (List.replicate 12 .work ++ [.upResp 0 200 false false, .work, .work])).phase = .UpRecvHeader := by decide

/-- the worker has returned from the write exactly as `worker_returns_iff_cleaned` says of the machine: returned and cleaned -/
theorem reply_write_returns_cleaned (r : Reply) (o : Outs) (rp : Nat) (viaConn clientGone upLive : Bool) :
    (writeReply genProgs r o rp viaConn (start clientGone upLive)).returned =
      (writeReply genProgs r o rp viaConn (start clientGone upLive)).cleaned := by
  have := reply_write_ends_once r o rp viaConn clientGone upLive
  rw [this.1, this.2.1]

end MosnVerif.Props.C03
