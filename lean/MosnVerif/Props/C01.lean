import MosnVerif.Lemmas.BoltSpec
import MosnVerif.Lemmas.Dubbo
import MosnVerif.Lemmas.DubboThrift
import MosnVerif.Lemmas.Tars
import MosnVerif.Lemmas.HttpUri
import MosnVerif.Lemmas.Relay
import MosnVerif.Model.Http1Msg
import MosnVerif.Lemmas.RelayStart
import MosnVerif.Model.Http1Method
import MosnVerif.Model.Http1Framing
import MosnVerif.Lemmas.Reencode
import MosnVerif.Model.ReencodeSpec
import MosnVerif.Lemmas.EncodeState
import MosnVerif.Lemmas.H2Fwd
import MosnVerif.Lemmas.H2Spec
/-!
# C01 — forwarding fidelity (property theorems only)

xprotocol part: bolt and boltv2 (request / response / one-way), the key/value header block they share.
All theorems are about the models in `Model/Bolt*.lean`, whose offsets, widths, header lengths, protocol codes,
`RequestIdIndex`, header writers and refusal test are the regenerated `Gen.C01Bolt` / `Gen.C01BoltV2` definitions.
Every statement quantifies over all byte strings / all frame values: no bound on any length.
-/
namespace MosnVerif.Props.C01
open MosnVerif.Model MosnVerif.Model.Bytes MosnVerif.Model.Bolt

/-! ## the key/value header block -/

/-- **decode_encode**: for every list of pairs whose key and value lengths fit the 4-byte length (and are not the
`0xFFFFFFFF` marker), decoding the encoded block gives the list back — any number of pairs, empty keys and values,
arbitrary bytes. -/
theorem kv_decode_encode (kvs : List BoltHeader.KV) (hw : BoltHeader.wf kvs) :
    BoltHeader.decode (BoltHeader.encode kvs) = .ok kvs := BoltHeader.decode_encode kvs hw

/-- `GetHeaderEncodeLength` is the length of what `EncodeHeader` writes: Σ (8 + |k| + |v|). -/
theorem kv_encode_length (kvs : List BoltHeader.KV) : (BoltHeader.encode kvs).length = BoltHeader.encodeLen kvs :=
  BoltHeader.encode_length kvs

example : BoltHeader.wf [([], []), ([0x6b], [0, 255, 7]), ([0x6b], [])] := by
  intro kv h; simp at h; rcases h with rfl | rfl | rfl <;> decide
example : BoltHeader.decode (BoltHeader.encode [([], []), ([0x6b], [0, 255, 7]), ([0x6b], [])])
    = .ok [([], []), ([0x6b], [0, 255, 7]), ([0x6b], [])] := by decide

/-! ## bolt / boltv2: the fast path -/

/-- **fast_identity** (bolt and boltv2, request / response / one-way, through either codec's `Decode`):
whenever `Decode` returns a frame, the frame forwarded after `SetRequestId i` is the received frame
`b.take n` with the 4 bytes at `RequestIdIndex` overwritten by `i` — for every value of every other byte, hence of
every fixed field, and every class / header / content length; `n` is the header length plus the three length
fields, the id window lies inside the frame, and the read buffer is not referenced (the result is a function of
`b.take n` only). -/
theorem bolt_fast_identity (c : Codec) (b : Bytes) (f : Frame) (n i : Nat) (h : decode c b = .frame f n) :
    encode (setId f i) = some (patch (b.take n) (kindOf f.kind).idIdx (be 4 i)) ∧
    (kindOf f.kind).idIdx + 4 ≤ n ∧ n ≤ b.length ∧
    n = (kindOf f.kind).hdrLen + f.classLen + f.headerLen + f.contentLen :=
  fast_identity_proto c b f n h i

/-- the patched frame has the length of the received one and differs from it only inside `[idIdx, idIdx+4)`,
where it carries the new id. -/
theorem bolt_fast_only_id_changes (c : Codec) (b : Bytes) (f : Frame) (n i : Nat) (h : decode c b = .frame f n) :
    ∃ out, encode (setId f i) = some out ∧ out.length = n ∧
      (∀ j, j < (kindOf f.kind).idIdx ∨ (kindOf f.kind).idIdx + 4 ≤ j → out[j]? = (b.take n)[j]?) ∧
      slice out (kindOf f.kind).idIdx ((kindOf f.kind).idIdx + 4) = be 4 i := by
  obtain ⟨he, hin, hle, _⟩ := fast_identity_proto c b f n h i
  have hl : (b.take n).length = n := by simp; omega
  have hw : (kindOf f.kind).idIdx + (be 4 i).length ≤ (b.take n).length := by simp [hl]; omega
  refine ⟨_, he, ?_, ?_, ?_⟩
  · rw [patch_length _ _ _ hw, hl]
  · intro j hj
    exact patch_getElem?_outside _ _ _ _ hw (by simpa using hj)
  · have := slice_patch_window (b.take n) (be 4 i) (kindOf f.kind).idIdx hw
    simpa using this

/-- the request-id index and header lengths the theorems talk about are the regenerated Go constants -/
theorem bolt_layout_constants :
    (kindOf .v1req).idIdx = Gen.C01Bolt.RequestIdIndex ∧ (kindOf .v1resp).idIdx = Gen.C01Bolt.RequestIdIndex ∧
    (kindOf .v2req).idIdx = Gen.C01BoltV2.RequestIdIndex ∧ (kindOf .v2resp).idIdx = Gen.C01BoltV2.RequestIdIndex ∧
    (kindOf .v1req).hdrLen = Gen.C01Bolt.RequestHeaderLen ∧ (kindOf .v1resp).hdrLen = Gen.C01Bolt.ResponseHeaderLen ∧
    (kindOf .v2req).hdrLen = Gen.C01BoltV2.RequestHeaderLen ∧ (kindOf .v2resp).hdrLen = Gen.C01BoltV2.ResponseHeaderLen := by
  decide

/-! ## bolt / boltv2: the slow path -/

/-- **slow_roundtrip**: any frame value that takes the slow path (built locally, or `Changed` / `ContentChanged` set)
whose fixed fields are ones a decoder produces and whose class, header pairs and body are representable
(class ≤ 65535 bytes, encoded header block ≤ 65535 bytes, body < 2³² bytes) re-encodes to bytes that either codec
decodes — consuming all of them — to exactly the same fixed fields, class, pair list and body, with the three length
fields equal to the section lengths. -/
theorem bolt_slow_roundtrip (c : Codec) (m : Frame) (ow : Bool) (hs : slowPath m)
    (hw : metaWF m.kind m.fx ow) (hrep : Ref.representable m = true) :
    ∃ out, encode m = some out ∧
      decode c out = .frame
        { kind := m.kind, fx := m.fx, classLen := m.cls.length, headerLen := BoltHeader.encodeLen m.kvs,
          contentLen := m.content.length, cls := m.cls, kvs := m.kvs, content := m.content,
          raw := some out, hdrChanged := false, contentChanged := false } out.length := by
  obtain ⟨out, ho, hd⟩ := slow_roundtrip_proto c m ow hw hrep
  exact ⟨out, (encode_slow m hs).trans ho, hd⟩

/-- **slow_refuses**: if the class, the encoded header block or the body does not fit its length field, `Encode`
returns an error instead of a truncated frame. -/
theorem bolt_slow_refuses (m : Frame) (hs : slowPath m) (hrep : Ref.representable m = false) : encode m = none := by
  rw [encode_slow m hs]; exact encodeSlow_none _ m hrep

/-- **modified_roundtrip** — the property's sentence about modified frames, end to end: take any frame either codec
decoded from any bytes, apply any list of header `Set` / `Del`, `SetData`, and `SetRequestId`; if that marked the
frame dirty then either the modified message is representable and the output decodes (with the same codec, consuming
everything) to exactly the modified class / pairs / body and the original fixed fields with the new id, or it is not
and `Encode` refuses. -/
theorem bolt_modified_roundtrip (c : Codec) (b : Bytes) (f : Frame) (n : Nat) (h : decode c b = .frame f n)
    (ops : List Op) (i : Nat)
    (hdirty : (modify ops f).hdrChanged = true ∨ (modify ops f).contentChanged = true) :
    let m := setId (modify ops f) i
    (Ref.representable m = true ∧ ∃ out, encode m = some out ∧
      decode c out = .frame
        { kind := f.kind, fx := { f.fx with reqId := i % 2 ^ 32 }, classLen := m.cls.length,
          headerLen := BoltHeader.encodeLen m.kvs, contentLen := m.content.length, cls := m.cls, kvs := m.kvs,
          content := m.content, raw := some out, hdrChanged := false, contentChanged := false } out.length)
    ∨ (Ref.representable m = false ∧ encode m = none) := by
  intro m
  obtain ⟨ow, hw⟩ := decode_metaWF c b f n h
  obtain ⟨mk, mfx, _⟩ := modify_kind ops f
  have m_kind : m.kind = f.kind := by simp [m, setId, mk]
  have m_fx : m.fx = { f.fx with reqId := i % 2 ^ 32 } := by simp [m, setId, mfx]
  have hs : slowPath m := by
    rcases hdirty with hd | hd
    · exact Or.inr (Or.inl (by simpa [m, setId] using hd))
    · exact Or.inr (Or.inr (by simpa [m, setId] using hd))
  cases hrep : Ref.representable m with
  | true =>
    left
    refine ⟨rfl, ?_⟩
    have hw' : metaWF m.kind m.fx ow := by rw [m_kind, m_fx]; exact metaWF_setId _ _ _ _ hw
    obtain ⟨out, ho, hd⟩ := bolt_slow_roundtrip c m ow hs hw' hrep
    exact ⟨out, ho, by rw [hd, m_kind, m_fx]⟩
  | false => exact Or.inr ⟨rfl, bolt_slow_refuses m hs hrep⟩

/-- **bolt_local_frames_roundtrip**: the frames MOSN builds itself — heartbeat `Trigger`, heartbeat `Reply`, `Hijack` reply with
any status code and any id the stream layer sets — have no raw frame, are encoded by the slow path, and what is written
decodes (through either codec) to exactly their fixed fields with empty class / header block / body. -/
theorem bolt_local_frames_roundtrip (c : Codec) (v2 : Bool) (id status : Nat) :
    ∀ m ∈ [trigger v2 id, reply v2 id, setId (hijack v2 status) id],
      ∃ out, encode m = some out ∧
        decode c out = .frame { m with raw := some out } out.length := by
  intro m hm
  simp only [List.mem_cons, List.mem_nil_iff, or_false] at hm
  have key : ∀ m : Frame, slowPath m → (∃ ow, metaWF m.kind m.fx ow) → Ref.representable m = true →
      m.classLen = 0 → m.headerLen = 0 → m.contentLen = 0 → m.cls = [] → m.kvs = [] → m.content = [] →
      m.hdrChanged = false → m.contentChanged = false →
      ∃ out, encode m = some out ∧ decode c out = .frame { m with raw := some out } out.length := by
    intro m hs ⟨ow, hw⟩ hr h1 h2 h3 h4 h5 h6 h7 h8
    obtain ⟨out, ho, hd⟩ := bolt_slow_roundtrip c m ow hs hw hr
    refine ⟨out, ho, ?_⟩
    rw [hd]
    cases m
    simp_all [BoltHeader.encodeLen]
  have h32 : id % 2 ^ 32 < 4294967296 := Nat.mod_lt _ (by decide)
  have h16 : status % 65536 < 65536 := Nat.mod_lt _ (by decide)
  rcases hm with rfl | rfl | rfl
  · refine key _ (Or.inl rfl) ⟨false, ?_⟩ (by cases v2 <;> rfl) rfl rfl rfl rfl rfl rfl rfl rfl
    cases v2 <;> simp [trigger, localFrame, metaWF, owOK, Gen.C01Bolt.ProtocolCode, Gen.C01BoltV2.ProtocolCode,
      Gen.C01Bolt.CmdTypeRequest, Gen.C01Bolt.CmdCodeHeartbeat] <;> omega
  · refine key _ (Or.inl rfl) ⟨false, ?_⟩ (by cases v2 <;> rfl) rfl rfl rfl rfl rfl rfl rfl rfl
    cases v2 <;> simp [reply, localFrame, metaWF, owOK, Gen.C01Bolt.ProtocolCode, Gen.C01BoltV2.ProtocolCode,
      Gen.C01Bolt.CmdTypeResponse, Gen.C01Bolt.CmdCodeHeartbeat] <;> omega
  · refine key _ (Or.inl rfl) ⟨false, ?_⟩ (by cases v2 <;> rfl) rfl rfl rfl rfl rfl rfl rfl rfl
    cases v2 <;> simp [hijack, setId, localFrame, metaWF, owOK, Gen.C01Bolt.ProtocolCode, Gen.C01BoltV2.ProtocolCode,
      Gen.C01Bolt.CmdTypeResponse, Gen.C01Bolt.CmdCodeRpcResponse] <;> omega

/-- the refusal test of the model is the regenerated `lengthsFit` of `bolt/encoder.go` -/
theorem bolt_representable_is_lengthsFit (m : Frame) :
    Ref.representable m = Gen.C01Bolt.lengthsFit m.cls.length (BoltHeader.encodeLen m.kvs) m.content.length := by
  cases h : Gen.C01Bolt.lengthsFit m.cls.length (BoltHeader.encodeLen m.kvs) m.content.length
  · cases hr : Ref.representable m
    · rfl
    · simp only [Ref.representable, Bool.and_eq_true, decide_eq_true_eq] at hr
      rw [(lengthsFit_iff _ _ _).mpr ⟨hr.1.1, hr.1.2, hr.2⟩] at h; cases h
  · have := (lengthsFit_iff _ _ _).mp h
    simp [Ref.representable, this.1, this.2.1, this.2.2]

/-! ## the executable predicate used on implementation outputs -/

/-- **spec_holds_on_model**: on every input, for every codec, modification list and id, what the model does satisfies
the reference predicate `Ref.holds` that `mosnmodel` evaluates on the implementation's outputs. -/
theorem bolt_spec_holds_on_model (c : Codec) (inp : Bytes) (ops : List Op) (id : Nat) :
    (∀ f n, decode c inp = .frame f n →
      Ref.holds (isV2 c) inp (modify ops) id true n (encode (setId (modify ops f) id)) = true) ∧
    ((∀ f n, decode c inp ≠ .frame f n) →
      ∀ acc k out, Ref.holds (isV2 c) inp (modify ops) id acc k out = true) :=
  ⟨fun f n h => holds_frame c inp ops id f n h, fun h acc k out => holds_noframe c inp _ id h acc k out⟩

/-! ## non-vacuity: concrete frames -/

/-- a bolt request: cmdcode 1, ver2 1, id 0x01020304, codec 1, timeout 3000, class "ab", one pair ("k","v"), body 3 bytes -/
def exReq : Bytes :=
  [1, 1, 0, 1, 1, 1, 2, 3, 4, 1, 0, 0, 0x0b, 0xb8, 0, 2, 0, 10, 0, 0, 0, 3,
   0x61, 0x62, 0, 0, 0, 1, 0x6b, 0, 0, 0, 1, 0x76, 9, 8, 7]

example : (match decode .bolt (exReq ++ [0xAA, 0xBB]) with
    | .frame f n => n == 37 && f.kind == .v1req && f.fx.reqId == 0x01020304 && f.fx.timeout == 3000 &&
        f.cls == [0x61, 0x62] && f.kvs == [([0x6b], [0x76])] && f.content == [9, 8, 7]
    | _ => false) = true := by decide

-- forwarded unmodified with id 0xAABBCCDD: only bytes 5..8 change
example : (match decode .bolt (exReq ++ [0xAA, 0xBB]) with
    | .frame f _ => encode (setId f 0xAABBCCDD) == some (exReq.take 5 ++ [0xAA, 0xBB, 0xCC, 0xDD] ++ exReq.drop 9)
    | _ => false) = true := by decide

-- a header Set marks the frame dirty and the slow path is taken; the message stays representable
example : (match decode .bolt exReq with
    | .frame f _ => let m := setId (modify [.set [0x6b] [1, 2], .set [] []] f) 7
        m.hdrChanged && Ref.representable m &&
        (match encode m with
         | some out => (match decode .boltv2 out with
            | .frame f' n' => n' == out.length && f'.kvs == [([0x6b], [1, 2]), ([], [])] && f'.fx.reqId == 7 && f'.headerLen == 19
            | _ => false)
         | none => false)
    | _ => false) = true := by decide

-- the same frame through the boltv2 codec (hand-over on the first byte), and a boltv2 one-way frame
example : (match decode .boltv2 exReq with | .frame f n => f.kind == .v1req && n == 37 | _ => false) = true := by decide
example : (match decode .bolt [2, 1, 2, 0, 1, 1, 0, 0, 0, 9, 1, 0, 0, 0, 0, 0, 0, 0, 0, 0, 0, 0, 0, 1, 0x55] with
    | .frame f n => f.kind == .v2req && f.fx.cmdType == 2 && n == 25 && f.content == [0x55] | _ => false) = true := by decide

-- hypotheses of `bolt_slow_roundtrip` are satisfiable by a locally built heartbeat (no raw frame)
def exHeartbeat : Frame :=
  { kind := .v1req,
    fx := { proto := 1, cmdType := 1, cmdCode := 0, version := 1, reqId := 5, codec := 1, timeout := 4294967295 },
    classLen := 0, headerLen := 0, contentLen := 0, cls := [], kvs := [], content := [],
    raw := none, hdrChanged := false, contentChanged := false }
example : slowPath exHeartbeat := Or.inl rfl
example : metaWF exHeartbeat.kind exHeartbeat.fx false := by simp [metaWF, owOK, exHeartbeat]
example : Ref.representable exHeartbeat = true := by decide
example : encode exHeartbeat = some [1, 1, 0, 0, 1, 0, 0, 0, 5, 1, 255, 255, 255, 255, 0, 0, 0, 0, 0, 0, 0, 0] := by decide

-- a non-representable modification exists (so `bolt_slow_refuses` is not vacuous): a 65536-byte class
example : Ref.representable { exHeartbeat with cls := List.replicate 65536 0, hdrChanged := true } = false := by
  simp only [Ref.representable, List.length_replicate]; decide

/-! ## dubbo: 8-byte id at offset 4 -/

/-- **dubbo_fast_identity**: for every hessian-parsing verdict `svcOK`, whenever `Decode` returns a frame the frame
forwarded after `SetRequestId i` is the received frame `b.take n` (`n = 16 + dataLen`) with the 8 bytes at `IdIdx = 4`
overwritten by `i`; nothing of the read buffer beyond `b.take n` is used. -/
theorem dubbo_fast_identity (svcOK : Bytes → Bool) (b : Bytes) (f : Dubbo.Frame) (n i : Nat)
    (h : Dubbo.decode svcOK b = .frame f n) :
    Dubbo.encode (Dubbo.setId f i) = patch (b.take n) Gen.C01Dubbo.IdIdx (be Gen.C01Dubbo.IdLen i) ∧
    n = Gen.C01Dubbo.HeaderLen + f.dataLen ∧ Gen.C01Dubbo.IdIdx + Gen.C01Dubbo.IdLen ≤ n ∧ n ≤ b.length := by
  obtain ⟨hn, hle, h16, _, hdl, _⟩ := Dubbo.decode_frame h
  refine ⟨Dubbo.encode_fast h i, ?_, ?_, hle⟩
  · rw [hdl, hn]; rfl
  · show 4 + 8 ≤ n; omega

/-- **dubbo_body_roundtrip**: after `SetData d` (body < 4 GiB) on a decoded frame, the re-encoded frame decodes —
consuming everything — to the same magic / flag / status, the new id, `DataLen = |d|` and payload `d`. -/
theorem dubbo_body_roundtrip (svcOK svcOK' : Bytes → Bool) (b : Bytes) (f : Dubbo.Frame) (n : Nat)
    (h : Dubbo.decode svcOK b = .frame f n) (d : Bytes) (i : Nat) (hd : 16 + d.length < 4294967296)
    (hsvc : (!Dubbo.isEvent f.flag && Dubbo.isRequest f.flag) = true → svcOK' d = true) :
    let out := Dubbo.encode (Dubbo.setId (Dubbo.setData f d) i)
    Dubbo.decode svcOK' out =
      .frame { f with id := i % 2 ^ 64, dataLen := d.length, payload := d, raw := some out } out.length :=
  Dubbo.setData_roundtrip h d i hd hsvc

/-- **dubbo_spec_holds_on_model_partial**: the model satisfies the reference predicate for untouched frames and for
frames whose body was replaced.  Full statement (also for `Set`/`Del` on the header map: `Encode` must refuse) is
false of the code — see KNOWN_FINDINGS and the witness below. -/
theorem dubbo_spec_holds_on_model_partial (ok : Bool) (inp : Bytes) (body : Option Bytes) (id : Nat)
    (hbody : ∀ d, body = some d → 16 + d.length < 4294967296) :
    (∀ f n, Dubbo.decode (fun _ => ok) inp = .frame f n →
      EnvelopeRef.Dubbo.holds inp ok { hdrOps := false, body := body } id true n
        (some (Dubbo.encode (Dubbo.setId (Dubbo.withBody f body) id))) = true) ∧
    ((∀ f n, Dubbo.decode (fun _ => ok) inp ≠ .frame f n) →
      ∀ m acc k out, EnvelopeRef.Dubbo.holds inp ok m id acc k out = true) :=
  ⟨fun f n h => Dubbo.holds_frame ok inp body id hbody f n h, fun h m acc k out => Dubbo.holds_noframe ok inp m id h acc k out⟩

/-- a dubbo heartbeat event (flag 0xe2), id 7, two payload bytes -/
def exDubbo : Bytes := [0xda, 0xbb, 0xe2, 0, 0, 0, 0, 0, 0, 0, 0, 7, 0, 0, 0, 2, 0x4e, 0x4e]

example : (match Dubbo.decode (fun _ => false) (exDubbo ++ [1, 2, 3]) with
    | .frame f n => n == 18 && f.id == 7 && f.payload == [0x4e, 0x4e] &&
        Dubbo.encode (Dubbo.setId f 0x0102030405060708) == exDubbo.take 4 ++ [1, 2, 3, 4, 5, 6, 7, 8] ++ exDubbo.drop 12
    | _ => false) = true := by decide

-- negation witness of the unrestricted statement: a header-map change is forwarded silently, the reference wants a refusal
example : EnvelopeRef.Dubbo.holds exDubbo true { hdrOps := true } 7 true 18 (some exDubbo) = false := by decide

/-! ## dubbo-thrift: 8-byte id at `4 + headerLength - 8` -/

/-- **thrift_fast_identity**: for every verdict of thrift's message parser, whenever `Decode` returns a frame whose
announced header length is ≥ 4, the forwarded frame is `b.take n` with 8 bytes overwritten at
`MessageLenSize + HeaderLength − IdLen`; when the announced header length is the true one (`21 + |service|`) that
window is exactly the request-id field `Decode` read. (Announced header length < 4: the uint16 index wraps — see
`DubboThrift.encode`; such frames are not well-formed.) -/
theorem thrift_fast_identity (msgOK : Bytes → Bool) (b : Bytes) (f : DubboThrift.Frame) (n i : Nat)
    (h : DubboThrift.decode msgOK b = .frame f n) (h4 : 4 ≤ f.headerLength) :
    DubboThrift.encode (DubboThrift.setId f i) = .ok (patch (b.take n) (f.headerLength - 4) (be 8 i)) ∧
    f.headerLength - 4 + 8 ≤ n ∧ n ≤ b.length ∧
    (f.headerLength = 21 + f.svc.length →
      f.headerLength - 4 = 17 + f.svc.length ∧ getBE (b.take n) (17 + f.svc.length) (17 + f.svc.length + 8) = f.id) := by
  obtain ⟨he, hle⟩ := DubboThrift.encode_fast h i h4
  exact ⟨he, hle, (DubboThrift.decode_frame h).n_le, fun ht => DubboThrift.id_window h ht⟩

/-- **thrift_slow_parse**: the frame rebuilt by the slow path (reply / hijack, or after `SetData` with a new buffer) is
well-formed for the reference: both length fields and the header length are consistent, and it carries the service
name, id and payload it was built from. -/
theorem thrift_slow_parse (f : DubboThrift.Frame) (hs : f.svc.length ≤ 65514) (hid : f.id < 18446744073709551616)
    (htot : 25 + f.svc.length + f.payload.length < 4294967296) :
    EnvelopeRef.Thrift.parse (DubboThrift.encodeSlow f) = some
      { total := (DubboThrift.encodeSlow f).length, svc := f.svc, idPos := 17 + f.svc.length, id := f.id, payload := f.payload } :=
  DubboThrift.parse_encodeSlow f hs hid htot

/-- **thrift_spec_holds_on_model_partial** (header-map operations excluded: finding). -/
theorem thrift_spec_holds_on_model_partial (ok : Bool) (inp : Bytes) (body : Option Bytes) (id : Nat) :
    (∀ f n, DubboThrift.decode (fun _ => ok) inp = .frame f n →
      (∀ d, body = some d → 25 + f.svc.length + d.length < 4294967296) →
      match DubboThrift.encode (DubboThrift.setId (DubboThrift.withBody f body) id) with
      | .ok o => EnvelopeRef.Thrift.holds inp ok { hdrOps := false, body := body } id true n (some o) = true
      | .panic => EnvelopeRef.Thrift.parse inp = none) ∧
    ((∀ f n, DubboThrift.decode (fun _ => true) inp ≠ .frame f n) →
      ∀ m acc k out, EnvelopeRef.Thrift.holds inp ok m id acc k out = true) :=
  ⟨fun f n h hb => DubboThrift.holds_frame ok inp body id f n h hb,
   fun h m acc k out => DubboThrift.holds_noframe inp m id h ok acc k out⟩

/-- service "ab", id 9, strict thrift message `m` call seq 5 -/
def exThrift : Bytes :=
  [0, 0, 0, 37, 0xda, 0xbc, 0, 0, 0, 37, 0, 23, 1, 0, 0, 0, 2, 0x61, 0x62, 0, 0, 0, 0, 0, 0, 0, 9,
   0x80, 1, 0, 1, 0, 0, 0, 1, 0x6d, 0, 0, 0, 5, 0]

example : (match DubboThrift.decode (fun _ => true) exThrift with
    | .frame f n => n == 41 && f.headerLength == 23 && f.svc == [0x61, 0x62] && f.id == 9 &&
        DubboThrift.encode (DubboThrift.setId f 0x0102030405060708)
          == .ok (exThrift.take 19 ++ [1, 2, 3, 4, 5, 6, 7, 8] ++ exThrift.drop 27)
    | _ => false) = true := by decide

/-! ## tars: no fast path — re-serialisation through TarsGo -/

/-- the request id is the only field of the written packet that depends on the id the stream layer sets; the length
prefix is the total length (itself included). -/
theorem tars_encode_shape (p : Tars.Req) (id : Nat) :
    Tars.encodeReq p id = Tars.envelope (Tars.reqPre p ++ Tars.wInt32 (Tars.idOf id) 4 ++ Tars.reqPost p) ∧
    (4 + (Tars.wReq { p with iRequestId := Tars.idOf id }).length < 4294967296 →
      getBE (Tars.encodeReq p id) 0 4 = (Tars.encodeReq p id).length) :=
  ⟨rfl, fun h => Tars.envelope_prefix _ h⟩

/-- **tars_canonical_fidelity_partial**: if the received frame is in TarsGo's canonical form with its map entries in
the order Go iterates them when writing (`p.context`, `p.status`), the frame `Encode` writes is the received frame with only
the request-id field re-encoded and the length prefix adjusted (what the reference `splice` computes), whatever follows
it in the buffer.  Full statement (any valid tars packet, any map order) is false of the code — tars has no raw-frame
fast path: see KNOWN_FINDINGS. -/
theorem tars_canonical_fidelity_partial (p : Tars.Req) (q : Tars.Resp) (rest : Bytes) (id : Nat)
    (hp : 4 + (Tars.wReq p).length ≤ 10485760) (hq : 4 + (Tars.wResp q).length ≤ 10485760) :
    EnvelopeRef.Tars.splice (Tars.envelope (Tars.wReq p) ++ rest) true id = some (Tars.encodeReq p id) ∧
    EnvelopeRef.Tars.splice (Tars.envelope (Tars.wResp q) ++ rest) false id = some (Tars.encodeResp q id) :=
  ⟨Tars.splice_req p rest id hp, Tars.splice_resp q rest id hq⟩

def exTarsReq : Tars.Req :=
  { iVersion := 1, cPacketType := 0, iMessageType := 0, iRequestId := 300, sServantName := [0x61], sFuncName := [0x66],
    sBuffer := [9, 9], iTimeout := 3000, context := [([0x6b], [0x76])], status := [] }

example : Tars.envelope (Tars.wReq exTarsReq) =
    [0, 0, 0, 37, 0x10, 1, 0x2c, 0x3c, 0x41, 1, 0x2c, 0x56, 1, 0x61, 0x66, 1, 0x66, 0x7d, 0, 0, 2, 9, 9,
     0x81, 0x0b, 0xb8, 0x98, 0, 1, 0x06, 1, 0x6b, 0x16, 1, 0x76, 0xa8, 0x0c] := by decide
-- forwarding with id 70000 widens the id field from SHORT to INT: the frame grows by 2 bytes and the prefix follows
example : (Tars.encodeReq exTarsReq 70000).take 14 = [0, 0, 0, 39, 0x10, 1, 0x2c, 0x3c, 0x42, 0, 1, 0x11, 0x70, 0x56] := by decide
-- negation witness: two context entries written in the other order are not what `splice` demands
example : EnvelopeRef.Tars.splice (Tars.envelope (Tars.wReq { exTarsReq with context := [([1], [2]), ([3], [4])] })) true 5
    ≠ some (Tars.encodeReq { exTarsReq with context := [([3], [4]), ([1], [2])] } 5) := by decide

/-! ## HTTP/1: request-URI pass-through (`injectCtxVarFromProtocolHeaders` → `buildUrlFromCtxVar`) -/

/-- **uri_passthrough**: for every path normaliser, unescaper and escaper (fasthttp / net/url are black boxes), every
original path and every query string: when nothing replaced the path variable, the upstream request target is the original
path byte for byte (`/` when it is empty) followed by `?query` when the query is not empty. -/
theorem uri_passthrough (O : HttpUri.Oracles) (pathOriginal query : String) :
    HttpUri.buildUrl O (HttpUri.inject O pathOriginal query) =
      (if pathOriginal = "" then "/" else pathOriginal) ++ (if query = "" then "" else "?" ++ query) :=
  HttpUri.passthrough O pathOriginal query

/-- **uri_passthrough_identical_partial**: the forwarded target equals the received one (path, `?`, query) provided
the received target has a `?` exactly when its query is non-empty.  Full statement (also "/a?" with an empty query) is
false of the code: the `?` is dropped — KNOWN_FINDINGS, witness below. -/
theorem uri_passthrough_identical_partial (O : HttpUri.Oracles) (pathOriginal query : String) (hadQ : Bool)
    (hp : pathOriginal ≠ "") (hq : hadQ = true ↔ query ≠ "") :
    HttpUri.buildUrl O (HttpUri.inject O pathOriginal query) = HttpUri.expected pathOriginal hadQ query :=
  HttpUri.passthrough_identical O pathOriginal query hadQ hp hq

/-- a replaced path variable that is not an alias of the original path is escaped with `RequestURI` (`*` stays `*`) -/
theorem uri_rewritten (O : HttpUri.Oracles) (v : HttpUri.Vars)
    (hne : ∀ u e, Gen.C01HttpUri.passOriginal O.fhPath v.path v.pathOriginal u e = false) :
    HttpUri.buildUrl O v =
      (let r := if v.path = "*" then "*" else O.requestURI v.path
       (if r = "" then "/" else r) ++ (if v.query = "" then "" else "?" ++ v.query)) :=
  HttpUri.rewritten O v hne

def exOracles : HttpUri.Oracles :=
  { unescape := fun _ => none, fhPath := fun p => if p = "/a//%2Fb" then "/a/b" else p, requestURI := fun p => p ++ "!" }
-- normalised path differs from the original one, the unescaper fails: the original path is still what is forwarded
example : HttpUri.buildUrl exOracles (HttpUri.inject exOracles "/a//%2Fb" "x=1&y=%20") = "/a//%2Fb?x=1&y=%20" := by decide
example : HttpUri.buildUrl exOracles (HttpUri.rewrite (HttpUri.inject exOracles "/a//%2Fb" "") "/new") = "/new!" := by decide
-- negation witness for the unrestricted statement: "/a?" is forwarded as "/a"
example : HttpUri.buildUrl exOracles (HttpUri.inject exOracles "/a" "") ≠ HttpUri.expected "/a" true "" := by decide

/-! ## HTTP/1 header set through the proxy (fasthttp is a black box; this is the recorded rewriting model) -/

/-- **http1_no_invented_header**: with the regenerated forwarding flags (`SetNoDefaultContentType(true)` on both
forwarding paths) the recorded rewriting model adds no header to any forwarded request or response, whatever the
method, header list and body. -/
theorem http1_no_invented_header (method : String) (m : Http1Msg.Msg) :
    Http1Msg.reqAdds method m = [] ∧ Http1Msg.respAdds m = [] := by
  simp [Http1Msg.reqAdds, Http1Msg.respAdds, Gen.C01HttpUri.reqNoDefaultContentType, Gen.C01HttpUri.respNoDefaultContentType]

/-! ## TCP relay (streamproxy): two FIFO write queues with close-with-flush -/

/-- **relay_stream_preserved**: for *every* schedule of the two read loops and the two write loops (any interleaving,
any chunking, any number of steps), in both directions:
* what MOSN has written to one peer is a prefix of what it has read from the other — nothing invented, reordered or
  duplicated;
* as long as the receiving peer has not gone away itself, nothing is lost: written ++ still-queued = read;
* hence once the queue has drained — in particular after the sender closed immediately after its last write, which only
  appends an EOF marker *behind* the data — the receiver has got every byte. -/
theorem relay_stream_preserved (evs : List Relay.Ev) (d : Relay.Side) :
    let s := Relay.run {} evs
    (∃ x, (s.get d.other).sent ++ x = (s.get d).received) ∧
    ((s.get d.other).eofSeen = false →
      (s.get d.other).sent ++ Relay.pending (s.get d.other).wq = (s.get d).received) ∧
    ((s.get d.other).eofSeen = false → (s.get d.other).wq = [] → (s.get d.other).sent = (s.get d).received) := by
  intro s
  have hI : Relay.Dir (s.get d) (s.get d.other) :=
    Relay.run_inv evs {} ((Relay.inv_iff {}).mp Relay.inv_init) d
  have hna : (s.get d.other).eofSeen = false → (s.get d.other).aborted = false := by
    intro he
    cases ha : (s.get d.other).aborted with
    | false => rfl
    | true => have := hI.abort_cause ha; rw [he] at this; cases this
  refine ⟨?_, fun he => hI.full (hna he), fun he hq => ?_⟩
  · obtain ⟨x, hx⟩ := hI.safe
    exact ⟨Relay.pending (s.get d.other).wq ++ x, by rw [← hx]; simp [List.append_assoc]⟩
  · have := hI.full (hna he)
    rw [hq] at this
    simpa [Relay.pending] using this

/-- a connection MOSN closed by flushing was closed only after the other peer's EOF, with an empty queue: everything the
peer sent before closing was written first -/
theorem relay_flush_before_close (evs : List Relay.Ev) (d : Relay.Side) :
    let s := Relay.run {} evs
    (s.get d.other).closed = true → (s.get d.other).aborted = false →
      (s.get d).eofSeen = true ∧ (s.get d.other).sent = (s.get d).received := by
  intro s hc ha
  have hI : Relay.Dir (s.get d) (s.get d.other) :=
    Relay.run_inv evs {} ((Relay.inv_iff {}).mp Relay.inv_init) d
  refine ⟨hI.flushed hc ha, ?_⟩
  have := hI.full ha
  rw [hI.closed_empty hc] at this
  simpa [Relay.pending] using this

-- the client writes "ab", "c" and closes at once; the upstream write loop runs afterwards: all three bytes, then the close
example : (let s := Relay.run {} [.read .down [0x61, 0x62], .read .down [0x63], .peerClosed .down, .write .up, .write .up, .write .up]
    (s.up.sent, s.up.closed, s.up.aborted, s.down.closed)) = ([0x61, 0x62, 0x63], true, false, true) := by decide
-- the upstream answers while the client is still open; the answer reaches the client
example : (Relay.run {} [.read .down [1], .write .up, .read .up [7, 8], .write .down, .peerClosed .up, .write .down]).down.sent = [7, 8] := by decide

/-! ## TCP relay, the peer speaks first: the read filter is registered before the read loop starts

`Model/RelayStart.lean`: the set-up calls MOSN makes on a new connection are regenerated in statement order
(`Gen/C01RelayOrder.lean`: `initializeUpstreamConnection`, `clientConnection.Connect`, `activeListener.OnNewConnection`);
the read loop hands what it reads to the registered read filters, with none registered the bytes stay in the read buffer
(and are dropped with it at EOF). -/

/-- the regenerated call orders: on the upstream connection `AddReadFilter` comes before `Connect` (which starts the read
loop: it calls `Start` before it notifies listeners and returns); on an accepted connection `CreateFilterChain` and
`InitializeReadFilters` come before `Start`.  This is the statement that stops checking when a registration is moved
behind the start of the read loop. -/
theorem relay_filter_registered_before_read_loop :
    RelayStart.safeOrder RelayStart.upReg RelayStart.upStart Gen.C01RelayOrder.upstreamCalls false = true ∧
    Gen.C01RelayOrder.upstreamCalls.contains RelayStart.upStart = true ∧
    RelayStart.connectStartsLoop = true ∧
    RelayStart.safeOrder "CreateFilterChain" RelayStart.downStart Gen.C01RelayOrder.downstreamCalls false = true ∧
    RelayStart.safeOrder "InitializeReadFilters" RelayStart.downStart Gen.C01RelayOrder.downstreamCalls false = true ∧
    Gen.C01RelayOrder.downstreamCalls.contains RelayStart.downStart = true := by decide

/-- **relay_peer_first_preserved**: for every list of set-up calls in which the read filter is registered before the read
loop is started, and EVERY schedule of set-up calls, peer writes (from the moment of accept: before, between and after the
set-up calls), peer close and read-loop iterations: nothing ever waits in the read buffer; the deliveries to the proxy,
in order, followed by what is still in the socket are exactly what the peer has sent; at EOF everything was delivered;
and fed to the relay model the deliveries reach the other connection's socket or its write queue, in order. -/
theorem relay_peer_first_preserved (reg start : String) (todo : List String)
    (ho : RelayStart.safeOrder reg start todo false = true) (evs : List RelayStart.Ev) (d : Relay.Side) :
    let st := RelayStart.run reg start { todo := todo } evs
    let r := Relay.run {} (RelayStart.toRelay d st)
    st.buf = [] ∧
    RelayStart.flat st.delivered ++ st.wire = st.peerSent ∧
    (st.eof = true → RelayStart.flat st.delivered = st.peerSent) ∧
    (r.get d.other).sent ++ Relay.pending (r.get d.other).wq ++ st.wire = st.peerSent := by
  intro st r
  have hI : RelayStart.Inv reg start st := RelayStart.run_inv reg start evs _ (RelayStart.inv_init reg start todo ho)
  refine ⟨hI.buf_empty, hI.all, ?_, ?_⟩
  · intro he
    have := hI.all
    rw [(hI.eof_done he).1] at this
    simpa using this
  · obtain ⟨h1, h2⟩ := RelayStart.relay_reads d st.delivered {} (by cases d <;> rfl) (by cases d <;> rfl)
    have hD : Relay.Dir (r.get d) (r.get d.other) :=
      Relay.run_inv _ {} ((Relay.inv_iff {}).mp Relay.inv_init) d
    have hna : (r.get d.other).aborted = false := by
      cases ha : (r.get d.other).aborted with
      | false => rfl
      | true =>
        have := hD.abort_cause ha
        have h2' : (r.get d.other).eofSeen = (({} : Relay.State).get d.other).eofSeen := h2
        rw [h2'] at this
        cases d <;> cases this
    have hfull := hD.full hna
    have hrecv : (r.get d).received = RelayStart.flat st.delivered := by
      have : (r.get d).received = (({} : Relay.State).get d).received ++ RelayStart.flat st.delivered := h1
      rw [this]; cases d <;> rfl
    rw [hfull, hrecv]; exact hI.all

/-- the shipped upstream set-up (regenerated order): every byte the upstream sent from the moment of accept is relayed -/
theorem relay_upstream_first_preserved (evs : List RelayStart.Ev) :
    let st := RelayStart.run RelayStart.upReg RelayStart.upStart RelayStart.upstreamInit evs
    let r := Relay.run {} (RelayStart.toRelay .up st)
    st.buf = [] ∧ RelayStart.flat st.delivered ++ st.wire = st.peerSent ∧
    (st.eof = true → RelayStart.flat st.delivered = st.peerSent) ∧
    r.down.sent ++ Relay.pending r.down.wq ++ st.wire = st.peerSent :=
  relay_peer_first_preserved _ _ _ relay_filter_registered_before_read_loop.1 evs .up

/-- the same for an accepted connection (client speaks at once, before `OnNewConnection` has finished) -/
theorem relay_downstream_first_preserved (evs : List RelayStart.Ev) :
    let st := RelayStart.run "CreateFilterChain" RelayStart.downStart RelayStart.downstreamInit evs
    let r := Relay.run {} (RelayStart.toRelay .down st)
    st.buf = [] ∧ RelayStart.flat st.delivered ++ st.wire = st.peerSent ∧
    (st.eof = true → RelayStart.flat st.delivered = st.peerSent) ∧
    r.up.sent ++ Relay.pending r.up.wq ++ st.wire = st.peerSent :=
  relay_peer_first_preserved _ _ _ relay_filter_registered_before_read_loop.2.2.2.1 evs .down

example : RelayStart.safeOrder "AddReadFilter" "Connect" ["AddConnectionEventListener", "AddReadFilter", "Connect"] false = true := by decide
-- greeting "hi" sent right after accept, read as soon as the loop runs, then the upstream closes: delivered
def exGood : RelayStart.St :=
  RelayStart.run "AddReadFilter" "Connect" { todo := ["AddConnectionEventListener", "AddReadFilter", "Connect"] }
    [.setup, .peerSend [0x68, 0x69], .setup, .setup, .loop, .peerClose, .loop]
example : (exGood.delivered, exGood.eof, (Relay.run {} (RelayStart.toRelay .up exGood ++ [.write .down])).down.sent)
    = ([[0x68, 0x69]], true, [0x68, 0x69]) := by decide
-- negation witness: with the registration behind `Connect` a loss is reachable — the greeting is read while no filter is
-- registered, stays in the read buffer and is dropped when the upstream closes (or waits there for ever while the upstream waits)
example : RelayStart.safeOrder "AddReadFilter" "Connect" ["AddConnectionEventListener", "Connect", "AddReadFilter"] false = false := by decide
def exBad (tail : List RelayStart.Ev) : RelayStart.St :=
  RelayStart.run "AddReadFilter" "Connect" { todo := ["AddConnectionEventListener", "Connect", "AddReadFilter"] }
    ([.setup, .setup, .peerSend [0x68, 0x69], .loop, .setup] ++ tail)
example : ((exBad [.peerClose, .loop]).delivered, (exBad [.peerClose, .loop]).eof, (exBad [.peerClose, .loop]).peerSent)
    = ([], true, [0x68, 0x69]) := by decide
example : (exBad [.loop, .loop]).buf = [0x68, 0x69] ∧ (exBad [.loop, .loop]).delivered = [] := by decide

/-! ## HTTP/1: the forwarded method (default, then the method variable) -/

/-- **http1_method_preserved**: for every method token (known, extension, any case) and every body (none / empty /
non-empty, however it was framed): the request the HTTP/1 client stream sends carries the method that was received.
Over the regenerated statement sequence of `clientStream.AppendHeaders` / `FillRequestHeadersFromCtxVar` and the regenerated
fact that `injectCtxVarFromProtocolHeaders` stores the received method. (A request line always has a non-empty method.) -/
theorem http1_method_preserved (recv : String) (hasBody : Bool) (h : recv ≠ "") :
    Http1Method.forwarded recv hasBody = recv := by
  cases hasBody <;>
    simp [Http1Method.forwarded, Http1Method.printed, Gen.C01HttpMethod.appendHeadersMethod, Gen.C01HttpMethod.fillMethod,
      Gen.C01HttpMethod.injectsReceivedMethod, Gen.C01HttpMethod.isMethod, h]

/-- whatever the header map arrives with and whether or not the headers end the stream: a set, non-empty method variable
is what is sent -/
theorem http1_method_variable_wins (endStream : Bool) (method m : String) (h : method ≠ "") :
    Gen.C01HttpMethod.appendHeadersMethod endStream true method m = method := by
  cases endStream <;> simp [Gen.C01HttpMethod.appendHeadersMethod, Gen.C01HttpMethod.fillMethod, Gen.C01HttpMethod.isMethod, h]

/-- **http1_method_default**: without the variable (lookup fails, or it is empty) the default rule applies, whatever the
header map arrived with: GET when the headers end the stream, POST when a body follows -/
theorem http1_method_default (endStream errNil : Bool) (method m : String) (h : errNil = false ∨ method = "") :
    Gen.C01HttpMethod.appendHeadersMethod endStream errNil method m = (if endStream then "GET" else "POST") := by
  rcases h with h | h <;> cases endStream <;>
    simp [Gen.C01HttpMethod.appendHeadersMethod, Gen.C01HttpMethod.fillMethod, Gen.C01HttpMethod.isMethod, h]

theorem http1_method_converted (hasBody : Bool) : Http1Method.converted hasBody = Http1Method.defaultRule hasBody := by
  cases hasBody <;> decide

example : Http1Method.forwarded "GET" true = "GET" ∧ Http1Method.forwarded "PROPFIND" false = "PROPFIND" ∧
    Http1Method.forwarded "get" true = "get" ∧ Http1Method.forwarded "HEAD" true = "HEAD" := by decide
example : Http1Method.converted true = "POST" ∧ Http1Method.converted false = "GET" := by decide
-- negation witness: with the default written AFTER the variable (guarded by "still GET?") a GET with a body leaves as POST
example : Http1Method.printed (Http1Method.swapped false true "GET" "GET") = "POST" := by decide
example : Http1Method.printed (Http1Method.swapped false true "PUT" "PUT") = "PUT" := by decide

/-! ## the forwarded frame is unchanged when it is encoded AGAIN (retry) and buffers are reused in between

`Model/Reencode.lean`: a decoded frame points at the buffer wrapping its raw bytes; the fast path of `Encode` hands out
that buffer, the connection write gives it to `PutIoBuffer` (count - 1, recycled into the global pool at 0), any other
`GetIoBuffer` of the process may take a recycled wrapper and fill it.  What each successful return of the eight encode
functions hands out (`retain` = the frame's buffer with `Count(1)`, `bare` = without, `fresh` = a buffer of its own) and
whether `doWriteIo` recycles are regenerated (`Gen/C01Retain.lean`). -/
section Reencode
open MosnVerif.Model.Reencode MosnVerif.Gen.C01Retain

/-- no encode function of the five codecs hands out a buffer the frame points at without raising its count (this is the
statement that stops checking when a `Count(1)` is dropped) -/
theorem encode_returns_keep_reference :
    ∀ r ∈ boltRequest ++ boltResponse ++ boltv2Request ++ boltv2Response ++ dubboFrame ++ thriftFrame ++ tarsRequest ++ tarsResponse,
      r ≠ .bare := by decide

theorem fast_path_keeps_reference (proto : String) (req : Bool) : fastByName proto req ≠ .bare := by
  unfold fastByName
  split <;> decide

/-- **reencode_stable**: for every codec, every frame `raw`, every in-place id overwrite `patch` (a later overwrite
hides an earlier one), whatever the pool held before the frame was decoded (`pre`), for EVERY number of tries with any
ids and EVERY traffic on the buffer pool between them (buffers taken — recycled wrappers included, in any choice of
sync.Pool — filled with anything, given back): the k-th encoding that reaches the wire is the frame with the k-th id.
In particular a retry with the same id repeats the first encoding byte for byte. -/
theorem reencode_stable (proto : String) (req : Bool) (patch : Nat → Bytes → Bytes)
    (hp : ∀ a c x, patch a (patch c x) = patch a x) (raw : Bytes) (pre : List Other) (rounds : List Round) :
    Reencode.run (fastByName proto req) writeRecycles patch raw pre rounds = rounds.map (fun r => patch r.id raw) := by
  unfold Reencode.run
  have hw : Wf (pre.foldl other Reencode.empty) := pre_wf pre ⟨by simp [Reencode.empty], by simp [Reencode.empty]⟩
  obtain ⟨hg, hs⟩ := decode_good patch raw hw
  rw [rounds_good (fast_path_keeps_reference proto req) writeRecycles hp rounds hg, hs, pre_sent]
  simp [Reencode.empty]

/-- the executable predicate's stability clause holds of the model's output -/
theorem reenc_spec_holds_on_model (proto : String) (req : Bool) (patch : Nat → Bytes → Bytes)
    (hp : ∀ a c x, patch a (patch c x) = patch a x) (raw : Bytes) (pre : List Other) (rounds : List Round) :
    specStable (rounds.map (·.id)) (Reencode.run (fastByName proto req) writeRecycles patch raw pre rounds) = true := by
  rw [reencode_stable proto req patch hp raw pre rounds]
  simp only [specStable, List.length_map, beq_self_eq_true, Bool.true_and, List.all_eq_true]
  intro p hp1 q hq1
  have hform : ∀ (l : List Round), ∀ x ∈ (l.map (·.id)).zip (l.map (fun r => patch r.id raw)), x.2 = patch x.1 raw := by
    intro l
    induction l with
    | nil => intro x hx; simp at hx
    | cons r l ih =>
      intro x hx
      simp only [List.map_cons, List.zip_cons_cons, List.mem_cons] at hx
      rcases hx with hx | hx
      · rw [hx]
      · exact ih x hx
  have hform := hform rounds
  rw [hform p hp1, hform q hq1]
  by_cases h : p.1 = q.1
  · simp [h]
  · simp [h]

/-! ### non-vacuity, and what dropping the `Count(1)` does -/
/-- an id overwrite at offset 1 (one byte): later overwrites hide earlier ones -/
def pid (i : Nat) : Bytes → Bytes
  | x0 :: _ :: r => x0 :: UInt8.ofNat i :: r
  | b => b
example : ∀ a c x, pid a (pid c x) = pid a x := by
  intro a c x
  match x with
  | [] => rfl
  | [_] => rfl
  | _ :: _ :: _ => rfl
-- retained reference: three tries (ids 7, 7, 9) with recycling traffic in between
example : Reencode.run .retain true pid [1, 0, 3] [.get none [5], .put 0]
    [⟨7, none, [.get (some 0) [0xEE, 0xEE, 0xEE]]⟩, ⟨7, none, [.get (some 0) [0xEE], .put 0]⟩, ⟨9, none, []⟩]
    = [[1, 7, 3], [1, 7, 3], [1, 9, 3]] := by decide
-- the bare return: the write recycles the frame's buffer; a retry sends an empty buffer ...
example : Reencode.run .bare true pid [1, 0, 3] [] [⟨7, none, []⟩, ⟨7, none, []⟩] = [[1, 7, 3], []] := by decide
-- ... or, after any other allocation took the recycled wrapper, that allocation's bytes
example : Reencode.run .bare true pid [1, 0, 3] [] [⟨7, none, [.get (some 0) [0xEE, 0xEE, 0xEE]]⟩, ⟨7, none, []⟩]
    = [[1, 7, 3], [0xEE, 7, 0xEE]] := by decide
example : specStable [7, 7] [[1, 7, 3], [0xEE, 7, 0xEE]] = false := by decide
-- without a recycling write the bare return is harmless: the defect needs the connection's PutIoBuffer
example : Reencode.run .bare false pid [1, 0, 3] [] [⟨7, none, [.get (some 0) [0xEE, 0xEE, 0xEE]]⟩, ⟨7, none, []⟩]
    = [[1, 7, 3], [1, 7, 3]] := by decide

end Reencode

/-! ## HTTP/1: message framing is hop-by-hop — the forwarded message is framed by the body that is sent

`Model/Http1Framing.lean`.  Whether `clientStream.AppendHeaders` removes the received `Transfer-Encoding` before the header
map is copied (`Gen.C01HttpFraming.dropsTransferEncoding`) and whether `serverStream.endStream` sets `SkipBody` for HEAD
(`headSkipsBody`) are regenerated; fasthttp's `Request.Write` / `Response.Write` / `Response.ReadLimitBody` are modelled
from the v1.40.0 source and validated on every `http1m q` / `http1m r` case. -/
section Http1Framing
open Http1Framing

/-- a chunked message of which nothing has arrived is not complete, whatever the fuel -/
theorem http1_dechunk_nil (fuel : Nat) : dechunk fuel [] = none := by
  cases fuel <;> simp [dechunk, sizeLine]

/-- **http1_request_transfer_encoding_dropped**: for every method class, every `endStream`, every received framing and
every body, the request that is sent never carries the received `Transfer-Encoding` -/
theorem http1_request_transfer_encoding_dropped (ignoreBody endStream : Bool) (f : Framing) (body : List UInt8) :
    (forwardReq ignoreBody endStream f body).1.te = false := by
  unfold forwardReq written copied
  split <;> simp [Gen.C01HttpFraming.dropsTransferEncoding]

/-- **http1_request_framing_complete**: for every method class (GET/HEAD or not), whatever `endStream` AppendHeaders was
called with, every received framing (no framing header, `Content-Length`, `Transfer-Encoding: chunked`, also both) of a
well-formed message (a Content-Length, if any, is the body's length) and every body (empty or not): the upstream, reading
what the forwarded head announces out of the bytes that follow it, has a complete request with exactly that body. -/
theorem http1_request_framing_complete (ignoreBody endStream : Bool) (f : Framing) (body : List UInt8)
    (wf : f.cl = none ∨ f.cl = some body.length) :
    recv (forwardReq ignoreBody endStream f body).1 (forwardReq ignoreBody endStream f body).2 = some body := by
  unfold forwardReq written copied
  split
  · simp [recv]
  · rename_i h
    have hb : body = [] := by
      cases body with
      | nil => rfl
      | cons a l => simp at h
    subst hb
    rcases wf with h | h <;> simp [recv, Gen.C01HttpFraming.dropsTransferEncoding, h]

/-- **http1_request_framing_by_body**: whenever a body is sent, or the method is neither GET nor HEAD, the forwarded framing
is `Content-Length: len(body)` and nothing else — a function of the body alone, whatever framing was received -/
theorem http1_request_framing_by_body (ignoreBody endStream : Bool) (f : Framing) (body : List UInt8)
    (h : body ≠ [] ∨ ignoreBody = false) :
    forwardReq ignoreBody endStream f body = ({ te := false, cl := some body.length }, body) := by
  unfold forwardReq written
  rcases h with h | h <;> simp [h]

example : (parsedReq "chunked0" 0).cl = none ∨ (parsedReq "chunked0" 0).cl = some ([] : List UInt8).length := by decide
example : forwardReq true true (parsedReq "chunked0" 0) [] = ({ te := false, cl := none }, []) := by decide
example : forwardReq true false (parsedReq "chunked" 2) [104, 105] = ({ te := false, cl := some 2 }, [104, 105]) := by decide
example : forwardReq false true (parsedReq "chunked0" 0) [] = ({ te := false, cl := some 0 }, []) := by decide
-- negation witness (the code before the repair copied the received Transfer-Encoding): a GET / HEAD framed chunked with an
-- empty body is printed with `Transfer-Encoding: chunked` and nothing behind it; the upstream waits for a terminating chunk
example : recv (forwardReqCopying true (parsedReq "chunked0" 0) []).1 (forwardReqCopying true (parsedReq "chunked0" 0) []).2 = none := by decide
example : recv (forwardReqCopying false (parsedReq "chunked0" 0) []).1 (forwardReqCopying false (parsedReq "chunked0" 0) []).2 = some [] := by decide
example : dechunk 9 [50, 13, 10, 104, 105, 13, 10, 48, 13, 10, 13, 10] = some [104, 105] := by decide

/-- **http1_response_framing_complete_partial**: for every request method class (HEAD or not), every final status, every
framing of the upstream's response and every body, PROVIDED the read of the upstream's response returns (`readHangs`
false): a response is forwarded and the client, reading it by RFC 7230 3.3.3, has a complete response whose body is the
upstream's (none for HEAD / 204 / 304).
Full statement: the same without the hypothesis. It does not hold: fasthttp v1.40.0 `Response.ReadLimitBody` reads a
trailer section whenever the head says chunked, also when the body is skipped (HEAD request, 204, 304) — KNOWN_FINDINGS. -/
theorem http1_response_framing_complete_partial (head : Bool) (status : Nat) (f : RFraming) (body : List UInt8)
    (hno : readHangs (head || noBodyStatus status) f = false) :
    ∃ g w, forwardResp head status f body = some (g, w) ∧
      recvResp head status g w = some (if head || noBodyStatus status then [] else body) := by
  refine ⟨_, _, by simp only [forwardResp, hno]; rfl, ?_⟩
  by_cases hs : (head || noBodyStatus status) = true
  · simp [recvResp, hs]
  · have hh : head = false := by cases head <;> simp_all
    have hn : noBodyStatus status = false := by cases h : noBodyStatus status <;> simp_all
    simp [recvResp, hh, hn]

/-- **http1_bodiless_response_framing_kept**: the response to a HEAD request and a 204 / 304 response keep the framing
headers the upstream sent (`Content-Length` of a HEAD response is representation metadata) and carry no body -/
theorem http1_bodiless_response_framing_kept (head : Bool) (status : Nat) (f : RFraming) (body : List UInt8)
    (hs : head = true ∨ noBodyStatus status = true) (hno : readHangs true f = false) :
    forwardResp head status f body = some (f, []) := by
  rcases hs with hs | hs <;> simp [forwardResp, writtenResp, hs, hno, Gen.C01HttpFraming.headSkipsBody]

example : readHangs (false || noBodyStatus 200) (parsedResp 200 "chunked" 5) = false := by decide
example : forwardResp false 200 (parsedResp 200 "chunked" 2) [104, 105] = some ({ te := .none, cl := some 2, close := false }, [104, 105]) := by decide
example : forwardResp true 200 (parsedResp 200 "hcl" 0) [] = some ({ te := .none, cl := some 1234, close := false }, []) := by decide
example : readHangs true (parsedResp 200 "hcl" 0) = false := by decide
-- negation witnesses of the full statement: a HEAD response / a 304 that says `Transfer-Encoding: chunked` is never forwarded
example : forwardResp true 200 (parsedResp 200 "hchunked" 0) [] = none := by decide
example : forwardResp false 304 (parsedResp 304 "hchunked" 0) [] = none := by decide

end Http1Framing

/-! ## encoding the same frame OBJECT again after it was modified (retry on another host, mirror)

`Model/EncodeState.lean`: the frame object is a record of mutable parts (plain fields, header block + `Changed`, body
buffer with its read cursor, raw frame, `ContentChanged`, stored length fields) and `Encode` is a state transformer
`object → object × bytes`.  What the encoder of each codec does to each IoBuffer part (peek: `Bytes()`, `Len()`, … /
consume: `WriteTo`, `Read`, `Drain`, …) and which fields it assigns are regenerated from the Go AST of the eight encode
functions (`Gen/C01EncodeEffect.lean`). -/
section EncodeState
open MosnVerif.Model.EncodeState MosnVerif.Gen.C01EncodeEffect

/-- what the extractor found in the current source: every access of every encode function to an IoBuffer field of the
frame is non-consuming, and the only fields assigned are the three recomputed length fields (this is the statement that
stops checking when `buf.Write(x.Content.Bytes())` becomes `x.Content.WriteTo(buf)`) -/
theorem encoders_do_not_consume_the_frame : ∀ p ∈ all, benign p.2 = true := all_benign

/-- **encode_idempotent_on_frame**: for every codec whose encode function is one of the eight regenerated ones — with
ANY byte-level encoder `C.enc`, fast-path test, id setter (a later `SetRequestId` hides an earlier one) — every frame
object `o`, every list of modifications (header `Set` / `Del`, `SetData`, plain-field updates) applied before the first
encode, and every list of tries (any number, any ids): the k-th `Encode` of the SAME object writes exactly what a first
`Encode` of the modified frame with the k-th id writes. -/
theorem encode_idempotent_on_frame {F : Type} (C : Codec F) (name : String) (hC : (name, C.eff) ∈ all)
    (hid : ∀ f a b, C.setId (C.setId f a) b = C.setId f b) (o : Obj F) (mods : List (EncodeState.Mod F)) (ids : List Nat) :
    tries C ids (mods.foldl (applyMod C) o) =
      ids.map (fun i => C.enc (viewWithId C (mods.foldl (applyMod C) o).view i)) :=
  tries_stable C (all_benign _ hC) hid ids _

/-- … in particular with the same id, for every n ≥ 1 the n-th encode yields the same bytes as the first -/
theorem encode_nth_equals_first {F : Type} (C : Codec F) (name : String) (hC : (name, C.eff) ∈ all)
    (hid : ∀ f a b, C.setId (C.setId f a) b = C.setId f b) (o : Obj F) (mods : List (EncodeState.Mod F)) (i n : Nat) :
    tries C (List.replicate (n + 1) i) (mods.foldl (applyMod C) o) =
      List.replicate (n + 1) ((encode C { (mods.foldl (applyMod C) o) with fx := C.setId (mods.foldl (applyMod C) o).fx i }).2) := by
  rw [encode_idempotent_on_frame C name hC hid, encode_bytes, view_setId, List.map_replicate]

theorem boltEff_mem (k : Bolt.KindId) : ∃ name, (name, boltEff k) ∈ all := by
  cases k
  · exact ⟨"boltRequest", by simp [all, boltEff]⟩
  · exact ⟨"boltResponse", by simp [all, boltEff]⟩
  · exact ⟨"boltv2Request", by simp [all, boltEff]⟩
  · exact ⟨"boltv2Response", by simp [all, boltEff]⟩

/-- **bolt_reencode_modified** (composition with `bolt_modified_roundtrip`): take any frame either codec decoded from any
bytes, apply any list of header `Set` / `Del`, `SetData`, `Class`, then encode the same frame OBJECT for any list of tries:
try k writes `Bolt.encode` of the modified frame with id k — so, if the frame was marked dirty, either the modified message
is representable and EVERY try's output decodes to exactly the modified class / pairs / body with that try's id, or it
is not and every try is refused. -/
theorem bolt_reencode_modified (c : Codec) (b : Bytes) (f : Frame) (n : Nat) (h : decode c b = .frame f n)
    (ops : List Op) (ids : List Nat) :
    tries (boltCodec (boltEff f.kind)) ids ((ops.map modOfOp).foldl (applyMod (boltCodec (boltEff f.kind))) (ofBolt f)) =
      ids.map (fun i => encode (setId (modify ops f) i)) ∧
    ((modify ops f).hdrChanged = true ∨ (modify ops f).contentChanged = true →
      ∀ i ∈ ids,
        let m := setId (modify ops f) i
        (Ref.representable m = true ∧ ∃ out, encode m = some out ∧
          decode c out = .frame
            { kind := f.kind, fx := { f.fx with reqId := i % 2 ^ 32 }, classLen := m.cls.length,
              headerLen := BoltHeader.encodeLen m.kvs, contentLen := m.content.length, cls := m.cls, kvs := m.kvs,
              content := m.content, raw := some out, hdrChanged := false, contentChanged := false } out.length)
        ∨ (Ref.representable m = false ∧ encode m = none)) := by
  obtain ⟨name, hmem⟩ := boltEff_mem f.kind
  refine ⟨?_, fun hd i _ => bolt_modified_roundtrip c b f n h ops i hd⟩
  have := encode_idempotent_on_frame (boltCodec (boltEff f.kind)) name hmem (boltCodec_setId_absorb _) (ofBolt f)
    (ops.map modOfOp) ids
  rw [this]
  apply List.map_congr_left
  intro i _
  show encode (viewToBolt (viewWithId (boltCodec (boltEff f.kind)) _ i)) = _
  rw [viewToBolt_withId, viewToBolt_mods, viewToBolt_ofBolt]

/-- **dubbo_reencode_body** (composition with `dubbo_body_roundtrip`): after `SetData d` on a decoded dubbo frame every
try of the same frame object writes the frame that decodes to the original magic / flag / status, that try's id,
`DataLen = |d|` and payload `d`. -/
theorem dubbo_reencode_body (svcOK svcOK' : Bytes → Bool) (b : Bytes) (f : Dubbo.Frame) (n : Nat)
    (h : Dubbo.decode svcOK b = .frame f n) (d : Bytes) (ids : List Nat) (hd : 16 + d.length < 4294967296)
    (hsvc : (!Dubbo.isEvent f.flag && Dubbo.isRequest f.flag) = true → svcOK' d = true) :
    tries (dubboCodec dubboFrame) ids (applyMod (dubboCodec dubboFrame) (ofDubbo f) (.data d)) =
      ids.map (fun i => some (Dubbo.encode (Dubbo.setId (Dubbo.setData f d) i))) ∧
    ∀ i ∈ ids,
      let out := Dubbo.encode (Dubbo.setId (Dubbo.setData f d) i)
      Dubbo.decode svcOK' out =
        .frame { f with id := i % 2 ^ 64, dataLen := d.length, payload := d, raw := some out } out.length := by
  refine ⟨?_, fun i _ => dubbo_body_roundtrip svcOK svcOK' b f n h d i hd hsvc⟩
  have := encode_idempotent_on_frame (dubboCodec dubboFrame) "dubboFrame" (by simp [all, dubboCodec]) (dubboCodec_setId_absorb _)
    (ofDubbo f) [.data d] ids
  simp only [List.foldl_cons, List.foldl_nil] at this
  rw [this]
  apply List.map_congr_left
  intro i _
  show some (Dubbo.encode (viewToDubbo (viewWithId (dubboCodec dubboFrame) _ i))) = _
  rw [viewToDubbo_withId, viewToDubbo_setData, viewToDubbo_ofDubbo]

/-! ### non-vacuity, and what a consuming read does -/
/-- a toy byte-level encoder: id byte, header pairs count, then the visible body -/
def toyCodec (eff : Effect) : EncodeState.Codec Nat :=
  { eff := eff, isFast := fun v => v.raw.isSome && !v.changed && !v.contentChanged,
    enc := fun v => some (UInt8.ofNat v.fx :: UInt8.ofNat v.kvs.length :: UInt8.ofNat v.content.length :: v.content),
    lensOf := fun v => (0, v.kvs.length, v.content.length), setId := fun _ i => i, dataDropsRaw := false,
    onData := fun f _ => f }
def exObj : Obj Nat :=
  { fx := 0, kvs := [], changed := false, content := ⟨[0x61, 0x62], 0⟩, contentChanged := false, raw := some ⟨[9, 9], 0⟩ }
def consuming : Effect :=
  { boltv2Request with slow := [{ part := .content, field := "Content", via := "WriteTo", acc := .consume }] }
-- the regenerated effect: header Set + SetData, three tries (ids 7, 7, 8): the body is there every time
example : tries (toyCodec boltv2Request) [7, 7, 8] ([EncodeState.Mod.set [1] [2], .data [5, 6, 7]].foldl (applyMod (toyCodec boltv2Request)) exObj)
    = [some [7, 1, 3, 5, 6, 7], some [7, 1, 3, 5, 6, 7], some [8, 1, 3, 5, 6, 7]] := by decide
-- `Content.WriteTo(buf)` instead of `buf.Write(Content.Bytes())`: the first encode is right, every later one has
-- ContentLen 0 and no body
example : benign consuming = false := by decide
example : tries (toyCodec consuming) [7, 7, 8] ([EncodeState.Mod.set [1] [2]].foldl (applyMod (toyCodec consuming)) exObj)
    = [some [7, 1, 2, 0x61, 0x62], some [7, 1, 0], some [8, 1, 0]] := by decide
-- an unmodified frame takes the raw-frame block: the consuming read of the slow path is not reached
example : tries (toyCodec consuming) [7, 7] exObj = [some [7, 0, 2, 0x61, 0x62], some [7, 0, 2, 0x61, 0x62]] := by decide
-- the real bolt model behind the same transformer: a decoded request, header Set, two tries
example : tries (boltCodec boltRequest) [5, 5] ([modOfOp (.set [0x6b] [0x76])].foldl (applyMod (boltCodec boltRequest)) (ofBolt exHeartbeat))
    = [encode (setId (modify [.set [0x6b] [0x76]] exHeartbeat) 5), encode (setId (modify [.set [0x6b] [0x76]] exHeartbeat) 5)] := by
  decide

end EncodeState


/-! ## HTTP/2 and the cross-protocol pairings (`Model/H2Msg.lean`, decisions regenerated into `Gen/C01H2Map`)

Every theorem is about `fwdReqH2 / fwdRespH2` (HTTP/2 listener → HTTP/2 cluster) or `x12Req … x21Resp` (the two pairings
served by the httpTohttp2 / http2Tohttp transcoders): server stream decode → proxy variables / header maps → client stream
encode, built from the regenerated decisions.  Quantifiers: every message (any pseudo values, any number of fields, any
names and values, any repetition), every DATA framing (`w.chunks`), every flow-control schedule of the other connection
(`win`), every trailer block, every black-box result of net/url and fasthttp (`O`). -/
section H2
open MosnVerif.Model.H2Msg MosnVerif.Lemmas.H2Fwd MosnVerif.Gen

/-- **h2_fields_preserved** (request direction): every regular field reaches the upstream under its lower-cased name with the
same values, the same multiplicity and the same relative order.  Exceptions, exactly: the encoder's own fields
(`reqOwnFields` = host, content-length), the connection-specific fields (`reqConnSpecific`), user-agent (first value only),
cookie (crumbs joined, `h2_cookie_crumbs`), the `trailer` announcement (consumed by the codec). -/
theorem h2_fields_preserved (O : Oracles) (remote : H2Msg.Bytes) (win : List Nat) (w : Wire) (n : H2Msg.Bytes)
    (hown : n ∉ C01H2Map.reqOwnFields) (hconn : n ∉ C01H2Map.reqConnSpecific)
    (hua : n ≠ nUA) (hck : n ≠ nCookie) (htr : n ≠ nTrailer) (hcl : n ≠ nCL) :
    valuesAt n (fwdReqH2 O remote win w).fields = valuesOf n w.fields :=
  req_fields_preserved O remote win w n hown hconn hua hck htr hcl

/-- **h2_fields_preserved** (response direction); exceptions: the connection-specific fields `MStream.WriteHeader` deletes
(`respDropped`), transfer-encoding (only "trailers" is written), the `trailer` announcement, content-length
(`h2_resp_content_length`), content-type only in so far as `respContentType` must be empty (it is: no sniffing). -/
theorem h2_resp_fields_preserved (isHead : Bool) (win : List Nat) (w : Wire) (n : H2Msg.Bytes)
    (hdrop : n ∉ C01H2Map.respDropped) (hte : n ≠ C01H2Map.respTEName) (htr : n ≠ nTrailer) (hcl : n ≠ nCL) (hct : n ≠ nCT) :
    valuesAt n (fwdRespH2 isHead win w).fields = valuesOf n w.fields :=
  resp_fields_preserved isHead win w n hdrop hte htr hcl hct

set_option maxRecDepth 20000 in
/-- repeated fields, mixed case on the way in, an empty value: three `X-Dup` values and `x-empty` arrive as sent -/
example : valuesAt [120, 45, 100, 117, 112]
    (fwdReqH2 ⟨fun p => some p, id, fun _ r => r, id, fun _ => none, fun _ po _ => po⟩ [] [3]
      { pseudo := [(nMethod, [71, 69, 84]), (nPath, [47]), (nAuthority, [97])],
        fields := [([120, 45, 100, 117, 112], [49]), ([88, 45, 68, 117, 112], []), ([120, 45, 100, 117, 112], [49])],
        chunks := [], trailers := none, endOnHeaders := true }).fields = [[49], [], [49]] := by decide

/-- **h2_cookie_crumbs** (RFC 7540 8.1.2.5): several cookie fields arrive as one, joined with "; " in order -/
theorem h2_cookie_crumbs (O : Oracles) (remote : H2Msg.Bytes) (win : List Nat) (w : Wire) :
    valuesAt nCookie (fwdReqH2 O remote win w).fields =
      (if (valuesOf nCookie w.fields).length > 1 then [joinWith semiSp (valuesOf nCookie w.fields)] else valuesOf nCookie w.fields) :=
  req_cookie_crumbs O remote win w

/-- **h2_pseudo_roundtrip**: `:method`, `:path` (path and query byte for byte, an empty query's `?` included), `:authority`
(the Host field when there is none), scheme http — for every request whose path net/url prints back unchanged. -/
theorem h2_pseudo_roundtrip (O : Oracles) (remote : H2Msg.Bytes) (win : List Nat) (w : Wire)
    (hesc : O.escaped (splitTarget (pseudoGet w.pseudo nPath)).1 = some (splitTarget (pseudoGet w.pseudo nPath)).1) :
    let out := fwdReqH2 O remote win w
    pseudoGet out.pseudo nMethod = pseudoGet w.pseudo nMethod ∧
    pseudoGet out.pseudo nPath = pseudoGet w.pseudo nPath ∧
    pseudoGet out.pseudo nScheme = sHTTP ∧
    pseudoGet out.pseudo nAuthority =
      (if pseudoGet w.pseudo nAuthority = [] then (valuesOf nHost w.fields).headD [] else pseudoGet w.pseudo nAuthority) :=
  req_pseudo_roundtrip O remote win w hesc

set_option maxRecDepth 20000 in
/-- the hypothesis is satisfiable and the statement not vacuous: `/a?x=1` with the identity oracle -/
example : pseudoGet (fwdReqH2 ⟨fun p => some p, id, fun _ r => r, id, fun _ => none, fun _ po _ => po⟩ [] []
      { pseudo := [(nMethod, [71, 69, 84]), (nPath, [47, 97, 63, 120, 61, 49]), (nAuthority, [97])], fields := [],
        chunks := [], trailers := none, endOnHeaders := true }).pseudo nPath = [47, 97, 63, 120, 61, 49] := by decide
set_option maxRecDepth 20000 in
/-- negation witness for the finding on paths net/url re-escapes (`/{` → `/%7B`): the oracle result is what is forwarded -/
example : pseudoGet (fwdReqH2 ⟨fun _ => some [47, 37, 55, 66], id, fun _ r => r, id, fun _ => none, fun _ po _ => po⟩ [] []
      { pseudo := [(nMethod, [71, 69, 84]), (nPath, [47, 123]), (nAuthority, [97])], fields := [],
        chunks := [], trailers := none, endOnHeaders := true }).pseudo nPath = [47, 37, 55, 66] := by decide

/-- the status of a forwarded response is the upstream's -/
theorem h2_resp_status (isHead : Bool) (win : List Nat) (w : Wire) :
    (fwdRespH2 isHead win w).pseudo = [(nStatus, pseudoGet w.pseudo nStatus)] := resp_status isHead win w

/-- **h2_no_invented_field** (request): whatever the upstream receives under a name other than content-length (computed)
and cookie (joined) was sent under that name -/
theorem h2_no_invented_field (O : Oracles) (remote : H2Msg.Bytes) (win : List Nat) (w : Wire) (n v : H2Msg.Bytes)
    (hcl : n ≠ nCL) (hck : n ≠ nCookie) (h : v ∈ valuesAt n (fwdReqH2 O remote win w).fields) : v ∈ valuesOf n w.fields :=
  req_no_invented_field O remote win w n v hcl hck h

/-- **h2_no_invented_field** (response): no Content-Type is sniffed (`respContentType = []`, regenerated from
`MStream.WriteHeader`: the repair 96c7a35d0 stays covered), nothing but content-length is added by the encoder -/
theorem h2_resp_no_invented_field (isHead : Bool) (win : List Nat) (w : Wire) (n v : H2Msg.Bytes)
    (hcl : n ≠ nCL) (h : v ∈ valuesAt n (fwdRespH2 isHead win w).fields) : v ∈ valuesOf n w.fields :=
  resp_no_invented_field isHead win w n v hcl h

/-- the Content-Length rule of the HTTP/2 server stream (regenerated function): HEAD / 304 keep the upstream's value, 1xx /
204 have none, an empty body that may be there gets 0 -/
theorem h2_resp_content_length (isHead : Bool) (status : Nat) (dataEmpty upValid : Bool) (up : Option H2Msg.Bytes) :
    C01H2Map.respContentLength isHead status bodyAllowed dataEmpty upValid up =
      (let kept := if upValid then up.getD [] else []
       if isHead || status == 304 then kept
       else if !bodyAllowed status then [] else if dataEmpty then [48] else kept) :=
  resp_content_length_rule isHead status dataEmpty upValid up

/-- **h2_trailers_preserved** (request): same names up to case, values, multiplicity, order — announced or not, after any
body **including no DATA frame at all** -/
theorem h2_trailers_preserved (O : Oracles) (remote : H2Msg.Bytes) (win : List Nat) (w : Wire) (n : H2Msg.Bytes)
    (hopen : w.endOnHeaders = false) :
    valuesAt n ((fwdReqH2 O remote win w).trailers.getD []) = valuesOf n (w.trailers.getD []) :=
  req_trailers_preserved O remote win w n hopen

theorem h2_resp_trailers_preserved (win : List Nat) (w : Wire) (n : H2Msg.Bytes) (hopen : w.endOnHeaders = false) :
    valuesAt n ((fwdRespH2 false win w).trailers.getD []) = valuesOf n (w.trailers.getD []) :=
  resp_trailers_preserved win w n hopen

set_option maxRecDepth 20000 in
/-- trailers after an EMPTY body (no DATA frame): forwarded as a trailer block -/
example : (fwdRespH2 false []
      { pseudo := [(nStatus, [50, 48, 48])], fields := [], chunks := [],
        trailers := some [([120, 45, 116], [49]), ([88, 45, 84], [50])], endOnHeaders := false }).trailers
    = some [([120, 45, 116], [49]), ([120, 45, 116], [50])] := by decide

/-- **h2_body_preserved**: the body the other side receives is the concatenation of the DATA payloads, whatever the DATA
framing of the sender (`w.chunks`) and of the forwarder (`win`) -/
theorem h2_body_preserved (O : Oracles) (remote : H2Msg.Bytes) (win : List Nat) (w : Wire)
    (hwf : w.endOnHeaders = true → w.chunks = []) : (fwdReqH2 O remote win w).body = w.body :=
  req_body_preserved O remote win w hwf

theorem h2_resp_body_preserved (win : List Nat) (w : Wire) (hwf : w.endOnHeaders = true → w.chunks = []) :
    (fwdRespH2 false win w).body = w.body := resp_body_preserved win w hwf

/-- independence of the DATA framing: two framings of the same bytes are forwarded to the same body -/
theorem h2_body_framing_independent (O : Oracles) (remote : H2Msg.Bytes) (win1 win2 : List Nat) (w1 w2 : Wire)
    (h1 : w1.endOnHeaders = true → w1.chunks = []) (h2 : w2.endOnHeaders = true → w2.chunks = [])
    (hb : w1.body = w2.body) : (fwdReqH2 O remote win1 w1).body = (fwdReqH2 O remote win2 w2).body := by
  rw [req_body_preserved O remote win1 w1 h1, req_body_preserved O remote win2 w2 h2, hb]

set_option maxRecDepth 20000 in
example : (fwdReqH2 ⟨fun p => some p, id, fun _ r => r, id, fun _ => none, fun _ po _ => po⟩ [] [2, 1]
      { pseudo := [], fields := [], chunks := [[1], [], [2, 3, 4], [5]], trailers := none, endOnHeaders := false }).chunks
    = [[1, 2], [3], [4, 5]] := by decide

/-- **cross_h1_h2_fields** (HTTP/1.1 → HTTP/2 request): every field outside the exact exception list — own fields,
`reqConnSpecific` = connection, proxy-connection, transfer-encoding, upgrade, keep-alive (regenerated), fasthttp's
single-valued special headers (user-agent, content-type, server), cookie (joined) — arrives with the same values,
multiplicity and order under its lower-cased name … -/
theorem cross_h1_h2_fields (O : Oracles) (remote : H2Msg.Bytes) (win : List Nat) (w : Wire) (n : H2Msg.Bytes)
    (hown : n ∉ C01H2Map.reqOwnFields) (hconn : n ∉ C01H2Map.reqConnSpecific) (hsp : n ∉ special)
    (hck : n ≠ nCookie) (hcl : n ≠ nCL) :
    valuesAt n (x12Req O remote win w).fields = valuesOf n w.fields :=
  x12_req_fields O remote win w n hown hconn hsp hck hcl

/-- … and no connection-specific field is ever forwarded into HTTP/2, in either converted direction -/
theorem cross_no_connection_specific_request (O : Oracles) (remote : H2Msg.Bytes) (win : List Nat) (w : Wire) (f : Field)
    (hf : f ∈ (x12Req O remote win w).fields) : f.1 ∉ C01H2Map.reqConnSpecific :=
  x12_req_no_connection_specific O remote win w f hf

theorem cross_no_connection_specific_response (isHead : Bool) (win : List Nat) (w : Wire) (f : Field)
    (hf : f ∈ (x21Resp isHead win w).fields) : f.1 ∉ C01H2Map.respDropped :=
  x21_resp_no_connection_specific isHead win w f hf

/-- **cross_h1_h2_fields** (HTTP/1.1 upstream → HTTP/2 downstream, response) -/
theorem cross_h1_h2_resp_fields (isHead : Bool) (win : List Nat) (w : Wire) (n : H2Msg.Bytes)
    (hdrop : n ∉ C01H2Map.respDropped) (hte : n ≠ C01H2Map.respTEName) (hsp : n ∉ special) (hcl : n ≠ nCL) :
    valuesAt n (x21Resp isHead win w).fields = valuesOf n w.fields :=
  x21_resp_fields isHead win w n hdrop hte hsp hcl

/-- **cross_h1_h2_fields** (HTTP/2 → HTTP/1.1, response and request): every value of every field is copied -/
theorem cross_h2_h1_resp_fields (w : Wire) (n : H2Msg.Bytes) (hsp : n ∉ special) (htr : n ≠ nTrailer) :
    valuesAt n (x12Resp w).fields = valuesOf n w.fields := x12_resp_fields w n hsp htr

theorem cross_h2_h1_req_fields (O : Oracles) (w : Wire) (n : H2Msg.Bytes) (hsp : n ∉ special) (htr : n ≠ nTrailer)
    (hck : n ≠ nCookie) (hh : n ≠ nHost) : valuesAt n (x21Req O w).fields = valuesOf n w.fields :=
  x21_req_fields O w n hsp htr hck hh

set_option maxRecDepth 20000 in
/-- repeated Set-Cookie towards HTTP/1.1 stays two fields; with a conversion through a map[string]string (the code before the
repair, `convert false`) only the last survives -/
example : valuesAt [115, 101, 116, 45, 99, 111, 111, 107, 105, 101]
    (x12Resp { pseudo := [(nStatus, [50, 48, 48])],
               fields := [([115, 101, 116, 45, 99, 111, 111, 107, 105, 101], [97]), ([115, 101, 116, 45, 99, 111, 111, 107, 105, 101], [98])],
               chunks := [], trailers := none, endOnHeaders := true }).fields = [[97], [98]] := by decide
set_option maxRecDepth 20000 in
example : (convert false [([120], [[1], [2], [3]])]) = [([120], [[3]])] := by decide

/-- **HTTP/1.1 → HTTP/2: method, authority, path AND query** -/
theorem cross_h1_h2_pseudo (O : Oracles) (remote : H2Msg.Bytes) (win : List Nat) (w : Wire)
    (hm : pseudoGet w.pseudo nMethod ≠ []) (hh : lower ((valuesOf nHost w.fields).headD []) ≠ [])
    (hesc : O.escapedOf (x12PathUsed O (splitTarget (pseudoGet w.pseudo nPath)).1) (splitTarget (pseudoGet w.pseudo nPath)).1 =
      (splitTarget (pseudoGet w.pseudo nPath)).1)
    (hq : (splitTarget (pseudoGet w.pseudo nPath)).2.1 = true → (splitTarget (pseudoGet w.pseudo nPath)).2.2 ≠ []) :
    let out := x12Req O remote win w
    pseudoGet out.pseudo nMethod = pseudoGet w.pseudo nMethod ∧
    pseudoGet out.pseudo nPath = pseudoGet w.pseudo nPath ∧
    pseudoGet out.pseudo nAuthority = lower ((valuesOf nHost w.fields).headD []) :=
  x12_req_pseudo_roundtrip O remote win w hm hh hesc hq

set_option maxRecDepth 20000 in
/-- `POST /a//b?q=1` with `Host: H`: the original path (not fasthttp's normalisation `/a/b`) and the query arrive -/
example : pseudoGet (x12Req ⟨fun p => some p, id, fun _ r => r, fun _ => [47, 97, 47, 98], fun p => some p, fun _ po _ => po⟩ [] []
      { pseudo := [(nMethod, [80, 79, 83, 84]), (nPath, [47, 97, 47, 47, 98, 63, 113, 61, 49])], fields := [(nHost, [72])],
        chunks := [], trailers := none, endOnHeaders := false }).pseudo nPath = [47, 97, 47, 47, 98, 63, 113, 61, 49] := by decide
set_option maxRecDepth 20000 in
/-- negation witnesses of the cross-protocol findings: an empty query's `?` is dropped, trailers do not cross HTTP/1 -/
example : pseudoGet (x12Req ⟨fun p => some p, id, fun _ r => r, id, fun p => some p, fun _ po _ => po⟩ [] []
      { pseudo := [(nMethod, [71, 69, 84]), (nPath, [47, 97, 63])], fields := [(nHost, [72])],
        chunks := [], trailers := none, endOnHeaders := false }).pseudo nPath = [47, 97] := by decide
set_option maxRecDepth 20000 in
example : (x12Req ⟨fun p => some p, id, fun _ r => r, id, fun p => some p, fun _ po _ => po⟩ [] []
      { pseudo := [(nMethod, [80, 79, 83, 84]), (nPath, [47])], fields := [(nHost, [72])],
        chunks := [[1]], trailers := some [([120], [49])], endOnHeaders := false }).trailers = none := by decide

/-- **the model satisfies the reference predicate** evaluated on the implementation's output (`specReqH2`, HTTP/2 → HTTP/2
request).  PARTIAL: the full statement is `specReqH2 w (fwdReqH2 O remote win w) = true`, i.e. additionally the clause `clOK`
(a content-length at the receiver, when present, is the decimal length of the body); the model writes `natBytes n` there and
`parseNat? (natBytes n) = some n` (Nat.repr round trip) is not proved — the clause is checked on every case line instead.
Hypotheses: an authority, a path net/url prints back unchanged, field names outside the encoder's special ones
(`PlainNames`: own, connection-specific, user-agent, trailer announcement — cookie crumbs, repeated names, empty values, any
case allowed), END_STREAM on HEADERS only without DATA and trailers. -/
theorem h2_spec_holds_on_model_partial (O : Oracles) (remote : H2Msg.Bytes) (win : List Nat) (w : Wire)
    (hesc : O.escaped (splitTarget (pseudoGet w.pseudo nPath)).1 = some (splitTarget (pseudoGet w.pseudo nPath)).1)
    (hauth : pseudoGet w.pseudo nAuthority ≠ [])
    (hp : MosnVerif.Lemmas.H2Spec.PlainNames w.fields)
    (hend : w.endOnHeaders = true → w.chunks = [] ∧ w.trailers = none) :
    specReqH2core w (fwdReqH2 O remote win w) = true :=
  MosnVerif.Lemmas.H2Spec.spec_holds_on_model O remote win w hesc hauth hp hend

set_option maxRecDepth 20000 in
/-- the hypotheses hold of a request with cookie crumbs, a repeated mixed-case field, a body in three DATA frames and
trailers, and the full predicate (content-length clause included) holds of the model's output for it -/
example : specReqH2
    { pseudo := [(nMethod, [80, 79, 83, 84]), (nPath, [47, 97, 63, 120]), (nAuthority, [97]), (nScheme, sHTTP)],
      fields := [(nCookie, [97, 61, 49]), ([120, 45, 100], [49]), (nCookie, [98, 61, 50]), ([88, 45, 68], [])],
      chunks := [[1], [], [2, 3]], trailers := some [([120, 45, 116], [49])], endOnHeaders := false }
    (fwdReqH2 ⟨fun p => some p, id, fun _ r => r, id, fun _ => none, fun _ po _ => po⟩ [] [2]
      { pseudo := [(nMethod, [80, 79, 83, 84]), (nPath, [47, 97, 63, 120]), (nAuthority, [97]), (nScheme, sHTTP)],
        fields := [(nCookie, [97, 61, 49]), ([120, 45, 100], [49]), (nCookie, [98, 61, 50]), ([88, 45, 68], [])],
        chunks := [[1], [], [2, 3]], trailers := some [([120, 45, 116], [49])], endOnHeaders := false }) = true := by decide

end H2

end MosnVerif.Props.C01
