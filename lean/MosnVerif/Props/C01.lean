import MosnVerif.Lemmas.BoltHeader
import MosnVerif.Model.BoltV2
import MosnVerif.Model.BoltRef
namespace MosnVerif.Props.C01
open MosnVerif.Model

theorem kv_decode_encode (kvs : List BoltHeader.KV) (hw : BoltHeader.wf kvs) :
    BoltHeader.decode (BoltHeader.encode kvs) = .ok kvs := BoltHeader.decode_encode kvs hw

end MosnVerif.Props.C01
