import MosnVerif.Lemmas.DownstreamProps
/-!
# C10 — circuit-breaker and active-gauge accounting is conserved (property theorems only)

The ledger of the shared downstream machine: `retries` = `Retries().Cur()`, `requests` = `Requests().Cur()`,
`upActive` = `UpstreamRequestActive`, `downActive` = `DownstreamRequestActive` of one request, on top of an arbitrary
ambient load `ar`, `aq` held by other requests of the cluster.  `Increase/Decrease/CanCreate` are the regenerated
functions of `resource_manager.go`; the retry bookkeeping is the regenerated `retryState.retry/reset`.
Every theorem holds for every configuration (every threshold, zero = unlimited included), every ambient load and every
schedule.  (Pending requests and connections are touched by the real pools only: C09.)
-/
namespace MosnVerif.Props.C10
open MosnVerif.Model.Downstream MosnVerif.Gen.ProxyPhase MosnVerif.Gen.ProxyReason

abbrev reach (c : Cfg) (ar aq : Nat) (l : List Label) : S := run c (init ar aq) l

/-- **exact accounting**: in every reachable state each counter equals the ambient load plus what this request holds:
one retries slot exactly while a retry is in flight, one requests slot / active unit per live client stream -/
theorem ledger_exact (c : Cfg) (ar aq : Nat) (l : List Label) :
    (reach c ar aq l).retries = (ar : Int) + heldRetry c (reach c ar aq l) ∧
    (reach c ar aq l).requests = (aq : Int) + heldRequests c (reach c ar aq l) ∧
    (reach c ar aq l).upActive = (liveCount (reach c ar aq l).streams : Int) ∧
    (reach c ar aq l).downActive = (if (reach c ar aq l).cleaned then 0 else 1) :=
  ⟨(inv_run c ar aq l).k9, (inv_run c ar aq l).k10, (inv_run c ar aq l).k11, (inv_run c ar aq l).k12⟩

/-- **cur ≥ 0 always** (never below the ambient load, in particular never negative) -/
theorem cur_nonneg (c : Cfg) (ar aq : Nat) (l : List Label) :
    (ar : Int) ≤ (reach c ar aq l).retries ∧ (aq : Int) ≤ (reach c ar aq l).requests ∧
    0 ≤ (reach c ar aq l).upActive ∧ 0 ≤ (reach c ar aq l).downActive := by
  obtain ⟨h1, h2, h3, h4⟩ := ledger_exact c ar aq l
  refine ⟨?_, ?_, ?_, ?_⟩
  · rw [h1]; unfold heldRetry; split <;> omega
  · rw [h2]; unfold heldRequests; split <;> omega
  · rw [h3]; omega
  · rw [h4]; split <;> omega

/-- **quiescent ⇒ 0**: once the stream is cleaned this request holds nothing: the counters are back at the ambient
load, both active gauges of the request are 0, no timer is left armed -/
theorem quiescent_zero (c : Cfg) (ar aq : Nat) (l : List Label) (h : (reach c ar aq l).cleaned = true) :
    (reach c ar aq l).retries = ar ∧ (reach c ar aq l).requests = aq ∧ (reach c ar aq l).upActive = 0 ∧
    (reach c ar aq l).downActive = 0 ∧ (reach c ar aq l).perTry = false ∧ (reach c ar aq l).global = false := by
  obtain ⟨h1, h2, h3, h4⟩ := ledger_exact c ar aq l
  obtain ⟨hh, hl, hp, hg⟩ := (inv_run c ar aq l).k13 h
  refine ⟨?_, ?_, ?_, ?_, hp, hg⟩
  · rw [h1]; simp [heldRetry, hh]
  · rw [h2]; simp [heldRequests, hl]
  · rw [h3, hl]; rfl
  · rw [h4, h]; rfl

/-- **limit_trips**: in every reachable state the admission test of the breaker is exactly "unlimited or below the
limit" — the escape branch `cur < 0 ⇒ admit` of `resource.CanCreate` is dead code, so `max_retries` and `max_requests`
trip at their thresholds -/
theorem limit_trips (c : Cfg) (ar aq : Nat) (l : List Label) :
    (Gen.Resource.canCreate c.maxRetries (reach c ar aq l).retries = true ↔
      (c.maxRetries = 0 ∨ (reach c ar aq l).retries < c.maxRetries)) ∧
    (Gen.Resource.canCreate c.maxRequests (reach c ar aq l).requests = true ↔
      (c.maxRequests = 0 ∨ (reach c ar aq l).requests < c.maxRequests)) := by
  obtain ⟨h1, h2, _, _⟩ := cur_nonneg c ar aq l
  exact ⟨canCreate_iff _ _ (by omega), canCreate_iff _ _ (by omega)⟩

/-- with nothing held by this request, the breaker admits a retry iff the slots held by others are below the limit -/
theorem admission_when_idle (c : Cfg) (ar aq : Nat) (l : List Label) (h : rsHeld (reach c ar aq l) = false) :
    Gen.Resource.canCreate c.maxRetries (reach c ar aq l).retries = true ↔ (c.maxRetries = 0 ∨ ar < c.maxRetries) := by
  have := (limit_trips c ar aq l).1
  have h1 := (ledger_exact c ar aq l).1
  rw [this, h1]
  simp [heldRetry, h]

/-- **retry_admission**: the admission rule AT EACH RETRY DECISION.  In every reachable state, for every failure the
retry policy accepts (`doRetryCheck`) with retry budget left, the decision of the regenerated `retryState.retry` is
"retry" iff `max_retries` is unlimited or the slots held by OTHER requests are below it, and "overflow" otherwise —
whether or not this request still holds the slot of its own previous retry: `retry` gives that slot back before it asks
`CanCreate`, so a request's second, third, … consecutive retry is admitted exactly like its first (with `max_retries = 1`
and nobody else retrying, every retry of the request is admitted). -/
theorem retry_admission (c : Cfg) (ar aq : Nat) (l : List Label) (reason : Option Reason) (r : RetryState)
    (hr : (reach c ar aq l).rs = some r) (hrem : r.remaining ≠ 0) (hchk : retryCheck c (reach c ar aq l) reason = true) :
    ((rsRetry c (reach c ar aq l) reason).2 = Gen.ProxyRetry.ShouldRetry ↔ (c.maxRetries = 0 ∨ ar < c.maxRetries)) ∧
    ((rsRetry c (reach c ar aq l) reason).2 = Gen.ProxyRetry.RetryOverflow ↔ ¬ (c.maxRetries = 0 ∨ ar < c.maxRetries)) := by
  have h1 := (ledger_exact c ar aq l).1
  rw [heldRetry_eq c _ r hr] at h1
  have := retry_admit c r (reach c ar aq l).retries ar (by omega) h1 hrem
  simp only [rsRetry, retryRes, hr, hchk, Option.map_some]
  simpa using this

-- non-vacuity
/-- a retry in flight holds exactly one slot on top of the ambient load … -/
example : (reach { retryOn := true, numRetries := 1, maxRetries := 2 } 1 0
    (List.replicate 12 .work ++ [.upResp 0 503 false false] ++ List.replicate 5 .work)).retries = 2 := by decide
/-- … and it is given back when the request ends -/
example : (reach { retryOn := true, numRetries := 1, maxRetries := 2 } 1 0
    (List.replicate 12 .work ++ [.upResp 0 503 false false] ++ List.replicate 5 .work ++ [.upResp 1 200 false false] ++
      List.replicate 4 .work)).retries = 1 := by decide
/-- with the limit reached by others the retry is refused and the 503 goes to the client with the overflow flag -/
example : (reach { retryOn := true, numRetries := 1, maxRetries := 1 } 1 0
    (List.replicate 12 .work ++ [.upResp 0 503 false false] ++ List.replicate 4 .work)).trace =
    [.un 0, .uh 0 true, .dh 503 true, .log 503 128] := by decide

/-- terminate while a retried attempt is live: the retry slot, the request slot and the gauges are all given back
(before the fixes 7680aa93b / 61aef8f64 this ledger ended as retries = 2, requests = 1, upActive = 1) -/
example : ((fun (s : S) => (s.cleaned, s.retries, s.requests, s.upActive, s.downActive))
    (reach { retryOn := true, numRetries := 1, maxRetries := 2, maxRequests := 2 } 1 0
      (List.replicate 12 .work ++ [.upReset 0 .StreamConnectionFailed] ++ List.replicate 5 .work ++ [.terminate 418] ++
        List.replicate 3 .work))) = (true, 1, 0, 0, 0) := by decide

/-- `max_retries = 1`, nobody else retrying: the request's first AND second consecutive retry are admitted (three attempts),
and each holds exactly one slot while it is in flight -/
example : ((fun (s : S) => (s.trace, s.retries))
    (reach { retryOn := true, numRetries := 2, maxRetries := 1 } 0 0
      (List.replicate 12 .work ++ [.upReset 0 .StreamConnectionFailed] ++ List.replicate 5 .work ++
        [.upReset 1 .StreamConnectionFailed] ++ List.replicate 5 .work))) =
    ([.un 0, .uh 0 true, .un 1, .uh 1 true, .un 2, .uh 2 true], 1) := by decide
/-- the hypotheses of `retry_admission` hold at the second decision of that schedule (slot of the first retry still held) -/
example : ((fun (s : S) => (s.rs, retryCheck { retryOn := true, numRetries := 2, maxRetries := 1 } s (some .StreamConnectionFailed)))
    (reach { retryOn := true, numRetries := 2, maxRetries := 1 } 0 0
      (List.replicate 12 .work ++ [.upReset 0 .StreamConnectionFailed] ++ List.replicate 5 .work ++
        [.upReset 1 .StreamConnectionFailed]))) = (some ⟨2, true⟩, true) := by decide

end MosnVerif.Props.C10
