import MosnVerif.Lemmas.DownstreamProps
/-!
# C10 — circuit-breaker and active-gauge accounting is conserved (property theorems only)

The ledger of the shared downstream machine: `retries` = `Retries().Cur()`, `requests` = `Requests().Cur()`,
`upActive` = `UpstreamRequestActive`, `downActive` = `DownstreamRequestActive` of one request, on top of an arbitrary
ambient load `ar`, `aq` held by other requests of the cluster.  `Increase/Decrease/CanCreate` are the regenerated
functions of `resource_manager.go`; the retry bookkeeping is the regenerated `retryState.retry/reset`.
Every theorem holds for every configuration (every threshold, zero = unlimited included), every ambient load and every
schedule.  (Pending requests and connections are touched by the real pools only: C09.)
-/
namespace MosnVerif.Props.C10
open MosnVerif.Model.Downstream MosnVerif.Gen.ProxyPhase MosnVerif.Gen.ProxyReason

abbrev reach (c : Cfg) (ar aq : Nat) (l : List Label) : S := run c (init ar aq) l

/-- **exact accounting**: in every reachable state each counter equals the ambient load plus what this request holds:
one retries slot exactly while a retry is in flight, one requests slot / active unit per live client stream -/
theorem ledger_exact (c : Cfg) (ar aq : Nat) (l : List Label) :
    (reach c ar aq l).retries = (ar : Int) + heldRetry c (reach c ar aq l) ∧
    (reach c ar aq l).requests = (aq : Int) + heldRequests c (reach c ar aq l) ∧
    (reach c ar aq l).upActive = (liveCount (reach c ar aq l).streams : Int) ∧
    (reach c ar aq l).downActive = (if (reach c ar aq l).cleaned then 0 else 1) :=
  ⟨(inv_run c ar aq l).k9, (inv_run c ar aq l).k10, (inv_run c ar aq l).k11, (inv_run c ar aq l).k12⟩

/-- **cur ≥ 0 always** (never below the ambient load, in particular never negative) -/
theorem cur_nonneg (c : Cfg) (ar aq : Nat) (l : List Label) :
    (ar : Int) ≤ (reach c ar aq l).retries ∧ (aq : Int) ≤ (reach c ar aq l).requests ∧
    0 ≤ (reach c ar aq l).upActive ∧ 0 ≤ (reach c ar aq l).downActive := by
  obtain ⟨h1, h2, h3, h4⟩ := ledger_exact c ar aq l
  refine ⟨?_, ?_, ?_, ?_⟩
  · rw [h1]; unfold heldRetry; split <;> omega
  · rw [h2]; unfold heldRequests; split <;> omega
  · rw [h3]; omega
  · rw [h4]; split <;> omega

/-- **quiescent ⇒ 0**: once the stream is cleaned this request holds nothing: the counters are back at the ambient
load, both active gauges of the request are 0, no timer is left armed -/
theorem quiescent_zero (c : Cfg) (ar aq : Nat) (l : List Label) (h : (reach c ar aq l).cleaned = true) :
    (reach c ar aq l).retries = ar ∧ (reach c ar aq l).requests = aq ∧ (reach c ar aq l).upActive = 0 ∧
    (reach c ar aq l).downActive = 0 ∧ (reach c ar aq l).perTry = false ∧ (reach c ar aq l).global = false := by
  obtain ⟨h1, h2, h3, h4⟩ := ledger_exact c ar aq l
  obtain ⟨hh, hl, hp, hg⟩ := (inv_run c ar aq l).k13 h
  refine ⟨?_, ?_, ?_, ?_, hp, hg⟩
  · rw [h1]; simp [heldRetry, hh]
  · rw [h2]; simp [heldRequests, hl]
  · rw [h3, hl]; rfl
  · rw [h4, h]; rfl

/-- **limit_trips**: in every reachable state the admission test of the breaker is exactly "unlimited or below the
limit" — the escape branch `cur < 0 ⇒ admit` of `resource.CanCreate` is dead code, so `max_retries` and `max_requests`
trip at their thresholds -/
theorem limit_trips (c : Cfg) (ar aq : Nat) (l : List Label) :
    (Gen.Resource.canCreate c.maxRetries (reach c ar aq l).retries = true ↔
      (c.maxRetries = 0 ∨ (reach c ar aq l).retries < c.maxRetries)) ∧
    (Gen.Resource.canCreate c.maxRequests (reach c ar aq l).requests = true ↔
      (c.maxRequests = 0 ∨ (reach c ar aq l).requests < c.maxRequests)) := by
  obtain ⟨h1, h2, _, _⟩ := cur_nonneg c ar aq l
  exact ⟨canCreate_iff _ _ (by omega), canCreate_iff _ _ (by omega)⟩

/-- a retry is refused for overflow exactly when the retries resource is at its limit: with `k` slots held by others
and a limit `m > 0`, the decision after the previous try's slot was given back is "admit iff k < m" -/
theorem retry_admission (c : Cfg) (ar aq : Nat) (l : List Label) (h : rsHeld (reach c ar aq l) = false) :
    Gen.Resource.canCreate c.maxRetries (reach c ar aq l).retries = true ↔ (c.maxRetries = 0 ∨ ar < c.maxRetries) := by
  have := (limit_trips c ar aq l).1
  have h1 := (ledger_exact c ar aq l).1
  rw [this, h1]
  simp [heldRetry, h]

-- non-vacuity
/-- a retry in flight holds exactly one slot on top of the ambient load … -/
example : (reach { retryOn := true, numRetries := 1, maxRetries := 2 } 1 0
    (List.replicate 12 .work ++ [.upResp 0 503 false false] ++ List.replicate 5 .work)).retries = 2 := by decide
/-- … and it is given back when the request ends -/
example : (reach { retryOn := true, numRetries := 1, maxRetries := 2 } 1 0
    (List.replicate 12 .work ++ [.upResp 0 503 false false] ++ List.replicate 5 .work ++ [.upResp 1 200 false false] ++
      List.replicate 4 .work)).retries = 1 := by decide
/-- with the limit reached by others the retry is refused and the 503 goes to the client with the overflow flag -/
example : (reach { retryOn := true, numRetries := 1, maxRetries := 1 } 1 0
    (List.replicate 12 .work ++ [.upResp 0 503 false false] ++ List.replicate 4 .work)).trace =
    [.un 0, .uh 0 true, .dh 503 true, .log 503 128] := by decide

/-- terminate while a retried attempt is live: the retry slot, the request slot and the gauges are all given back
(before the fixes 7680aa93b / 61aef8f64 this ledger ended as retries = 2, requests = 1, upActive = 1) -/
example : ((fun (s : S) => (s.cleaned, s.retries, s.requests, s.upActive, s.downActive))
    (reach { retryOn := true, numRetries := 1, maxRetries := 2, maxRequests := 2 } 1 0
      (List.replicate 12 .work ++ [.upReset 0 .StreamConnectionFailed] ++ List.replicate 5 .work ++ [.terminate 418] ++
        List.replicate 3 .work))) = (true, 1, 0, 0, 0) := by decide

end MosnVerif.Props.C10
