import MosnVerif.Lemmas.DownstreamProps
import MosnVerif.Lemmas.TcpLedger
import MosnVerif.Gen.ResourceSites
import MosnVerif.Lemmas.PoolMuxSpec
import MosnVerif.Lemmas.PoolH2Steps
import MosnVerif.Lemmas.PoolWinLedger
import MosnVerif.Lemmas.PoolWinWitness
import MosnVerif.Lemmas.PoolMxWin  -- (mux6 section at the end of the file)
import MosnVerif.Lemmas.GaugeFlags  -- (c10r7 section at the end of the file)
import MosnVerif.Model.PoolPlace  -- (pool9 section at the end of the file)
import MosnVerif.Lemmas.ResourceShareHist  -- (c10p10 section at the end of the file)
/-!
# C10 — circuit-breaker and active-gauge accounting is conserved (property theorems only)

The ledger of the shared downstream machine: `retries` = `Retries().Cur()`, `requests` = `Requests().Cur()`,
`upActive` = `UpstreamRequestActive`, `downActive` = `DownstreamRequestActive` of one request, on top of an arbitrary
ambient load `ar`, `aq` held by other requests of the cluster.  `Increase/Decrease/CanCreate` are the regenerated
functions of `resource_manager.go`; the retry bookkeeping is the regenerated `retryState.retry/reset`.
Every theorem holds for every configuration (every threshold, zero = unlimited included), every ambient load and every
schedule.  (Pending requests and connections are touched by the real pools only: C09.)
-/
namespace MosnVerif.Props.C10
open MosnVerif.Model.Downstream MosnVerif.Gen.ProxyPhase MosnVerif.Gen.ProxyReason

abbrev reach (c : Cfg) (ar aq : Nat) (l : List Label) : S := run c (init ar aq) l

/-- **exact accounting**: in every reachable state each counter equals the ambient load plus what this request holds:
one retries slot exactly while a retry is in flight, one requests slot / active unit per live client stream -/
theorem ledger_exact (c : Cfg) (ar aq : Nat) (l : List Label) :
    (reach c ar aq l).retries = (ar : Int) + heldRetry c (reach c ar aq l) ∧
    (reach c ar aq l).requests = (aq : Int) + heldRequests c (reach c ar aq l) ∧
    (reach c ar aq l).upActive = (liveCount (reach c ar aq l).streams : Int) ∧
    (reach c ar aq l).downActive = (if (reach c ar aq l).cleaned then 0 else 1) :=
  ⟨(inv_run c ar aq l).k9, (inv_run c ar aq l).k10, (inv_run c ar aq l).k11, (inv_run c ar aq l).k12⟩

/-- **cur ≥ 0 always** (never below the ambient load, in particular never negative) -/
theorem cur_nonneg (c : Cfg) (ar aq : Nat) (l : List Label) :
    (ar : Int) ≤ (reach c ar aq l).retries ∧ (aq : Int) ≤ (reach c ar aq l).requests ∧
    0 ≤ (reach c ar aq l).upActive ∧ 0 ≤ (reach c ar aq l).downActive := by
  obtain ⟨h1, h2, h3, h4⟩ := ledger_exact c ar aq l
  refine ⟨?_, ?_, ?_, ?_⟩
  · rw [h1]; unfold heldRetry; split <;> omega
  · rw [h2]; unfold heldRequests; split <;> omega
  · rw [h3]; omega
  · rw [h4]; split <;> omega

/-- **quiescent ⇒ 0**: once the stream is cleaned this request holds nothing: the counters are back at the ambient
load, both active gauges of the request are 0, no timer is left armed -/
theorem quiescent_zero (c : Cfg) (ar aq : Nat) (l : List Label) (h : (reach c ar aq l).cleaned = true) :
    (reach c ar aq l).retries = ar ∧ (reach c ar aq l).requests = aq ∧ (reach c ar aq l).upActive = 0 ∧
    (reach c ar aq l).downActive = 0 ∧ (reach c ar aq l).perTry = false ∧ (reach c ar aq l).global = false := by
  obtain ⟨h1, h2, h3, h4⟩ := ledger_exact c ar aq l
  obtain ⟨hh, hl, hp, hg⟩ := (inv_run c ar aq l).k13 h
  refine ⟨?_, ?_, ?_, ?_, hp, hg⟩
  · rw [h1]; simp [heldRetry, hh]
  · rw [h2]; simp [heldRequests, hl]
  · rw [h3, hl]; rfl
  · rw [h4, h]; rfl

/-- **limit_trips**: in every reachable state the admission test of the breaker is exactly "unlimited or below the
limit" — the escape branch `cur < 0 ⇒ admit` of `resource.CanCreate` is dead code, so `max_retries` and `max_requests`
trip at their thresholds -/
theorem limit_trips (c : Cfg) (ar aq : Nat) (l : List Label) :
    (Gen.Resource.canCreate c.maxRetries (reach c ar aq l).retries = true ↔
      (c.maxRetries = 0 ∨ (reach c ar aq l).retries < c.maxRetries)) ∧
    (Gen.Resource.canCreate c.maxRequests (reach c ar aq l).requests = true ↔
      (c.maxRequests = 0 ∨ (reach c ar aq l).requests < c.maxRequests)) := by
  obtain ⟨h1, h2, _, _⟩ := cur_nonneg c ar aq l
  exact ⟨canCreate_iff _ _ (by omega), canCreate_iff _ _ (by omega)⟩

/-- with nothing held by this request, the breaker admits a retry iff the slots held by others are below the limit -/
theorem admission_when_idle (c : Cfg) (ar aq : Nat) (l : List Label) (h : rsHeld (reach c ar aq l) = false) :
    Gen.Resource.canCreate c.maxRetries (reach c ar aq l).retries = true ↔ (c.maxRetries = 0 ∨ ar < c.maxRetries) := by
  have := (limit_trips c ar aq l).1
  have h1 := (ledger_exact c ar aq l).1
  rw [this, h1]
  simp [heldRetry, h]

/-- **retry_admission**: the admission rule AT EACH RETRY DECISION.  In every reachable state, for every failure the
retry policy accepts (`doRetryCheck`) with retry budget left, the decision of the regenerated `retryState.retry` is
"retry" iff `max_retries` is unlimited or the slots held by OTHER requests are below it, and "overflow" otherwise —
whether or not this request still holds the slot of its own previous retry: `retry` gives that slot back before it asks
`CanCreate`, so a request's second, third, … consecutive retry is admitted exactly like its first (with `max_retries = 1`
and nobody else retrying, every retry of the request is admitted). -/
theorem retry_admission (c : Cfg) (ar aq : Nat) (l : List Label) (reason : Option Reason) (r : RetryState)
    (hr : (reach c ar aq l).rs = some r) (hrem : r.remaining ≠ 0) (hchk : retryCheck c (reach c ar aq l) reason = true) :
    ((rsRetry c (reach c ar aq l) reason).2 = Gen.ProxyRetry.ShouldRetry ↔ (c.maxRetries = 0 ∨ ar < c.maxRetries)) ∧
    ((rsRetry c (reach c ar aq l) reason).2 = Gen.ProxyRetry.RetryOverflow ↔ ¬ (c.maxRetries = 0 ∨ ar < c.maxRetries)) := by
  have h1 := (ledger_exact c ar aq l).1
  rw [heldRetry_eq c _ r hr] at h1
  have := retry_admit c r (reach c ar aq l).retries ar (by omega) h1 hrem
  simp only [rsRetry, retryRes, hr, hchk, Option.map_some]
  simpa using this

-- non-vacuity
/-- a retry in flight holds exactly one slot on top of the ambient load … -/
example : (reach { retryOn := true, numRetries := 1, maxRetries := 2 } 1 0
    (List.replicate 12 .work ++ [.upResp 0 503 false false] ++ List.replicate 5 .work)).retries = 2 := by decide
/-- … and it is given back when the request ends -/
example : (reach { retryOn := true, numRetries := 1, maxRetries := 2 } 1 0
    (List.replicate 12 .work ++ [.upResp 0 503 false false] ++ List.replicate 5 .work ++ [.upResp 1 200 false false] ++
      List.replicate 4 .work)).retries = 1 := by decide
/-- with the limit reached by others the retry is refused and the 503 goes to the client with the overflow flag -/
example : (reach { retryOn := true, numRetries := 1, maxRetries := 1 } 1 0
    (List.replicate 12 .work ++ [.upResp 0 503 false false] ++ List.replicate 4 .work)).trace =
    [.un 0, .uh 0 true, .dh 503 true, .log 503 128] := by decide

/-- terminate while a retried attempt is live: the retry slot, the request slot and the gauges are all given back
(before the fixes 7680aa93b / 61aef8f64 this ledger ended as retries = 2, requests = 1, upActive = 1) -/
example : ((fun (s : S) => (s.cleaned, s.retries, s.requests, s.upActive, s.downActive))
    (reach { retryOn := true, numRetries := 1, maxRetries := 2, maxRequests := 2 } 1 0
      (List.replicate 12 .work ++ [.upReset 0 .StreamConnectionFailed] ++ List.replicate 5 .work ++ [.terminate 418] ++
        List.replicate 3 .work))) = (true, 1, 0, 0, 0) := by decide

/-- `max_retries = 1`, nobody else retrying: the request's first AND second consecutive retry are admitted (three attempts),
and each holds exactly one slot while it is in flight -/
example : ((fun (s : S) => (s.trace, s.retries))
    (reach { retryOn := true, numRetries := 2, maxRetries := 1 } 0 0
      (List.replicate 12 .work ++ [.upReset 0 .StreamConnectionFailed] ++ List.replicate 5 .work ++
        [.upReset 1 .StreamConnectionFailed] ++ List.replicate 5 .work))) =
    ([.un 0, .uh 0 true, .un 1, .uh 1 true, .un 2, .uh 2 true], 1) := by decide
/-- the hypotheses of `retry_admission` hold at the second decision of that schedule (slot of the first retry still held) -/
example : ((fun (s : S) => (s.rs, retryCheck { retryOn := true, numRetries := 2, maxRetries := 1 } s (some .StreamConnectionFailed)))
    (reach { retryOn := true, numRetries := 2, maxRetries := 1 } 0 0
      (List.replicate 12 .work ++ [.upReset 0 .StreamConnectionFailed] ++ List.replicate 5 .work ++
        [.upReset 1 .StreamConnectionFailed]))) = (some ⟨2, true⟩, true) := by decide

/-! ### ==== proxy6: late response during the back-off (proxy core) — begin ==== -/

/-- **late_response_keeps_ledger**: a response frame of an attempt that was given up for a retry, landing while the worker
sleeps in `doRetry`'s back-off, leaves every counter and gauge as it was (it is ignored: C03 `late_response_ignored`); in
particular it cannot make the request finish on the old answer with the next attempt still holding its requests slot and
its active-gauge unit (what the real code did before the fix: ledger `…,up=1` on a finished exchange).  `ledger_exact`,
`cur_nonneg`, `quiescent_zero`, `limit_trips` quantify over schedules containing the label. -/
theorem late_response_keeps_ledger (c : Cfg) (ar aq : Nat) (l : List Label) (k : Nat) (d t : Bool) :
    (reach c ar aq (l ++ [.lateResp k d t])).retries = (reach c ar aq l).retries ∧
    (reach c ar aq (l ++ [.lateResp k d t])).requests = (reach c ar aq l).requests ∧
    (reach c ar aq (l ++ [.lateResp k d t])).upActive = (reach c ar aq l).upActive ∧
    (reach c ar aq (l ++ [.lateResp k d t])).downActive = (reach c ar aq l).downActive := by
  have : reach c ar aq (l ++ [.lateResp k d t]) = reach c ar aq l := by
    simp only [reach, run, List.foldl_append, List.foldl_cons, List.foldl_nil, step]
    exact lateBackoff_noop c ar aq _ k d t (inv_run c ar aq l)
  rw [this]; exact ⟨rfl, rfl, rfl, rfl⟩

/-- per-try timeout, the late frame of attempt 0 in the back-off, attempt 1 never answers, the client goes away: the
request ends with every slot and gauge given back (max_requests = 1: the slot of attempt 1 is returned by cleanStream) -/
example : ((fun (s : S) => (s.cleaned, s.retries, s.requests, s.upActive, s.downActive))
    (reach { retryOn := true, numRetries := 1, tryTimeout := true, maxRetries := 1, maxRequests := 1 } 0 0
      (List.replicate 12 .work ++ [.perTryFire, .work, .lateResp 0 true false, .work, .work, .connClose, .work]))) =
    (true, 0, 0, 0, 0) := by decide

/-! ### ==== proxy6: late response during the back-off — end ==== -/

/-! ### ==== proxy10: the back-off sleep of `doRetry` is a state of the machine — begin ==== -/

/-- **backoff_ledger**: `ledger_exact`, `cur_nonneg`, `quiescent_zero`, `limit_trips`, `retry_admission` quantify over EVERY
schedule of the extended label type — every label may fire while the worker is asleep in `doRetry`'s back-off (TerminateStream,
the global timer also inside `setupRetry`, the client's departure, late frames, resets …), `work` there is the wake-up.  In the
back-off itself, on every schedule, the request holds no client stream — no requests slot, no upstream gauge unit — whatever
landed during the sleep; and the label that only exists there (`gtInSetup`) changes no counter. -/
theorem backoff_ledger (c : Cfg) (ar aq : Nat) (l : List Label) (hb : backoff (reach c ar aq l) = true) :
    (reach c ar aq l).requests = aq ∧ (reach c ar aq l).upActive = 0 ∧ (reach c ar aq l).downActive = 1 ∧
    (∀ b, (reach c ar aq (l ++ [.gtInSetup b])).retries = (reach c ar aq l).retries ∧
          (reach c ar aq (l ++ [.gtInSetup b])).requests = (reach c ar aq l).requests ∧
          (reach c ar aq (l ++ [.gtInSetup b])).upActive = (reach c ar aq l).upActive) := by
  have hi := inv_run c ar aq l
  simp only [backoff, Bool.and_eq_true, beq_iff_eq] at hb
  have hcl : (reach c ar aq l).cleaned = false := by
    have := hi.k0; simp only [K0] at this; rw [hb.1] at this; simpa using this
  have hlc := hi.k23 hcl (Or.inr hb.2)
  obtain ⟨_, h2, h3, h4⟩ := ledger_exact c ar aq l
  refine ⟨by rw [h2]; simp [heldRequests, hlc], by rw [h3, hlc]; rfl, by rw [h4, hcl]; rfl, fun b => ?_⟩
  simp only [reach, run, List.foldl_append, List.foldl_cons, List.foldl_nil, step, gtInSetup]
  split <;> exact ⟨rfl, rfl, rfl⟩

/-- non-vacuity: a retry is set up with `max_retries = 1` (its slot held), TerminateStream lands in the back-off, the worker
wakes: no attempt 1, the slot is given back, every gauge is back -/
example : ((fun (s : S) => (s.cleaned, s.retries, s.requests, s.upActive, s.downActive, s.trace))
    (reach { retryOn := true, numRetries := 1, maxRetries := 1, maxRequests := 1 } 0 0
      (List.replicate 12 .work ++ [.upReset 0 .StreamConnectionFailed, .work, .terminate 418] ++ List.replicate 4 .work))) =
    (true, 0, 0, 0, 0, [.un 0, .uh 0 true, .dh 418 true, .log 418 0x2000]) := by decide
/-- … in the back-off itself the retries slot is held, nothing else -/
example : ((fun (s : S) => (backoff s, s.retries, s.requests, s.upActive))
    (reach { retryOn := true, numRetries := 1, maxRetries := 1, maxRequests := 1 } 0 0
      (List.replicate 12 .work ++ [.upReset 0 .StreamConnectionFailed, .work]))) = (true, 1, 0, 0) := by decide
/-- the global timer callback lands inside `setupRetry`: the wake-up answers 504, the slot is given back (before fac205b27
attempt 1 was created here and held its requests slot and gauge unit for ever) -/
example : ((fun (s : S) => (s.cleaned, s.retries, s.requests, s.upActive, s.downActive))
    (reach { retryOn := true, numRetries := 1, maxRetries := 1, maxRequests := 1 } 0 0
      (List.replicate 12 .work ++ [.upReset 0 .StreamConnectionFailed, .work, .gtInSetup true] ++ List.replicate 4 .work))) =
    (true, 0, 0, 0, 0) := by decide

/-! ### ==== proxy10 — end ==== -/

/-!
## The TCP proxy (`pkg/filter/network/streamproxy`): the cluster's `Connections()` resource and the connection gauges

`Model/TcpLedger.lean`: any number of downstream connections (sessions) on one cluster; labels `accept` (with the
oracle answers of the host tries), close events of either connection of a session, data, and `ambInc` / `ambDec` (a
connection pool of the same cluster taking / returning a slot).  The handlers are the regenerated `Gen.TcpProxy`
(which statement moves which counter, before or after the dial, on which exit); `Increase/Decrease/CanCreate` are the
regenerated `Gen.Resource`.  Every theorem holds for every threshold `max` (0 = unlimited) and every label list.
-/
end MosnVerif.Props.C10

namespace MosnVerif.Props.C10
open MosnVerif.Model.TcpLedger MosnVerif.Lemmas.TcpLedger MosnVerif.Gen.TcpProxy

abbrev tcpReach (max : Nat) (l : List Label) : St := run max l

/-- **exact accounting**: at every label boundary `Connections().Cur()` is what the other users hold plus the number of
live upstream connections of the stream proxy (nothing when the resource is unlimited: it does not count then), both
`UpstreamConnectionActive` gauges are the number of live upstream connections, the listener's connection count is the
number of open downstream connections, and the model never left its domain -/
theorem tcp_ledger_exact (max : Nat) (l : List Label) :
    (tcpReach max l).stuck = false ∧
    (tcpReach max l).g.cur = (if max = 0 then 0 else ((tcpReach max l).amb : Int) + liveCount (tcpReach max l).ss) ∧
    (tcpReach max l).g.stats .cluster .UpstreamConnectionActive = liveCount (tcpReach max l).ss ∧
    (tcpReach max l).g.stats .host .UpstreamConnectionActive = liveCount (tcpReach max l).ss ∧
    (tcpReach max l).g.numConns = downCount (tcpReach max l).ss := by
  have h : Inv (tcpReach max l) := inv_run max l
  have hm : (tcpReach max l).max = max := run_max max l
  refine ⟨h.ok, ?_, h.cA, h.hA, h.num⟩
  rw [h.cur, hm]; unfold kappa; split <;> omega

/-- **never negative** (never below what the others hold), and a limited resource never exceeds its limit -/
theorem tcp_cur_nonneg (max : Nat) (l : List Label) :
    0 ≤ (tcpReach max l).g.cur ∧ (max ≠ 0 → ((tcpReach max l).amb : Int) ≤ (tcpReach max l).g.cur) ∧
    (max ≠ 0 → (tcpReach max l).g.cur ≤ max) ∧
    0 ≤ (tcpReach max l).g.stats .cluster .UpstreamConnectionActive ∧
    0 ≤ (tcpReach max l).g.stats .host .UpstreamConnectionActive ∧ 0 ≤ (tcpReach max l).g.numConns := by
  have h : Inv (tcpReach max l) := inv_run max l
  have hmx : (tcpReach max l).max = max := run_max max l
  obtain ⟨_, h1, h2, h3, h4⟩ := tcp_ledger_exact max l
  have hl := liveCount_nonneg (tcpReach max l).ss
  have hd := downCount_nonneg (tcpReach max l).ss
  refine ⟨h.cur_nonneg, ?_, ?_, by omega, by omega, by omega⟩
  · intro hm; rw [h1]; simp only [hm, if_false]; omega
  · intro hm; have := h.le (by rw [hmx]; exact hm); rw [hmx] at this; exact this

/-- **idle ⇒ zero**: when every downstream connection is closed and no queued close is left to be carried out, the stream
proxy holds nothing: the resource is back at what the others hold, all gauges are 0 -/
theorem tcp_quiescent_zero (max : Nat) (l : List Label)
    (idle : ∀ s ∈ (tcpReach max l).ss, s.downClosed = true ∧ s.upEof = false) :
    (tcpReach max l).g.cur = (if max = 0 then 0 else ((tcpReach max l).amb : Int)) ∧
    (tcpReach max l).g.stats .cluster .UpstreamConnectionActive = 0 ∧
    (tcpReach max l).g.stats .host .UpstreamConnectionActive = 0 ∧ (tcpReach max l).g.numConns = 0 := by
  have h : Inv (tcpReach max l) := inv_run max l
  obtain ⟨_, h1, h2, h3, h4⟩ := tcp_ledger_exact max l
  have hl : liveCount (tcpReach max l).ss = 0 := by
    apply liveCount_zero
    intro s hs
    have hw := h.wf _ hs
    obtain ⟨i1, i2⟩ := idle _ hs
    clear hs idle
    obtain ⟨a, b, c, d, e, f, g, hh, i⟩ := s
    simp only at i1 i2; subst i1; subst i2
    revert hw; revert a c d e f g i; decide
  have hd : downCount (tcpReach max l).ss = 0 := by
    apply downCount_zero
    intro s hs
    simp [Sess.downLive, (idle s hs).1]
  rw [h1, h2, h3, h4, hl, hd]; simp

/-- **the limit trips at the threshold**: a new downstream connection (cluster known) is refused for overflow exactly
when the resource is limited and `cur = max`; a refused connection is closed and nothing is counted for it -/
theorem tcp_limit_trips (max : Nat) (l : List Label) (hn : Nat) (t0 t1 t2 : Try) :
    let st := tcpReach max l
    let c := sstep (Gen.Resource.canCreate st.max st.g.cur) {} (.accept false hn t0 t1 t2)
    (refused c.log = true ↔ (max ≠ 0 ∧ st.g.cur = max)) ∧
    (refused c.log = true → c.s.live = false ∧ c.s.downClosed = true ∧
      (step st (.sess st.ss.length (.accept false hn t0 t1 t2))).g.cur = st.g.cur) := by
  intro st c
  have h : Inv st := inv_run max l
  have hmx : st.max = max := run_max max l
  have hc : c = sstep (Gen.Resource.canCreate st.max st.g.cur) {} (.accept false (min hn 4) t0 t1 t2) :=
    sstep_accept_min _ _ _ _ _ _ _
  obtain ⟨g0, g1, g2, _⟩ := good_accept (Gen.Resource.canCreate st.max st.g.cur) false (min hn 4) (by omega) t0 t1 t2
  rw [← hc] at g0 g1 g2
  have hcan := canCreate_iff st.max st.g.cur h.cur_nonneg
  have href : refused c.log = true ↔ (max ≠ 0 ∧ st.g.cur = max) := by
    rw [g1]
    cases hcc : Gen.Resource.canCreate st.max st.g.cur with
    | true =>
      have := hcan.1 hcc
      rw [hmx] at this
      simp; intro hm; rcases this with h0 | h0
      · exact absurd h0 hm
      · omega
    | false =>
      have : ¬ (st.max = 0 ∨ st.g.cur < st.max) := fun hh => by rw [hcan.2 hh] at hcc; cases hcc
      rw [hmx] at this
      have hle := h.le
      rw [hmx] at hle
      simp; constructor
      · intro h0; exact this (Or.inl h0)
      · have := hle (fun h0 => this (Or.inl h0)); omega
  refine ⟨href, ?_⟩
  intro hr
  rw [g1] at hr
  obtain ⟨l1, l2⟩ := g2 (by simp only [hr, Bool.true_or])
  refine ⟨l1, l2, ?_⟩
  rw [step_accept_new]
  show (applyActs st.max st.g c.log).cur = st.g.cur
  obtain ⟨_, _, _, g3, _⟩ := good_unpack g0
  rw [applyActs_cur, g3, l1]; simp [b2i, Sess.live]

/-- **a failed dial gives everything back**: a new downstream connection none of whose host tries connects (refused,
dial timeout, no host chosen — whatever the host count, breaker answer and cluster lookup) leaves the resource, both
gauges and the connection count exactly as they were; in particular the breaker's next answer is unchanged -/
theorem tcp_failed_dial_restores (max : Nat) (l : List Label) (nc : Bool) (hn : Nat) (t0 t1 t2 : Try)
    (h0 : t0 ≠ .ok) (h1 : t1 ≠ .ok) (h2 : t2 ≠ .ok) :
    let st := tcpReach max l
    let st' := step st (.sess st.ss.length (.accept nc hn t0 t1 t2))
    st'.g.cur = st.g.cur ∧
    st'.g.stats .cluster .UpstreamConnectionActive = st.g.stats .cluster .UpstreamConnectionActive ∧
    st'.g.stats .host .UpstreamConnectionActive = st.g.stats .host .UpstreamConnectionActive ∧
    st'.g.numConns = st.g.numConns ∧
    Gen.Resource.canCreate st'.max st'.g.cur = Gen.Resource.canCreate st.max st.g.cur := by
  intro st st'
  have hst' : st' = _ := step_accept_new st nc hn t0 t1 t2
  generalize hc : sstep (Gen.Resource.canCreate st.max st.g.cur) {} (.accept nc hn t0 t1 t2) = c at hst'
  have hc' : c = sstep (Gen.Resource.canCreate st.max st.g.cur) {} (.accept nc (min hn 4) t0 t1 t2) := by
    rw [← hc]; exact sstep_accept_min _ _ _ _ _ _ _
  obtain ⟨g0, _, g2, _⟩ := good_accept (Gen.Resource.canCreate st.max st.g.cur) nc (min hn 4) (by omega) t0 t1 t2
  rw [← hc'] at g0 g2
  obtain ⟨l1, l2⟩ := g2 (by simp [h0, h1, h2])
  obtain ⟨_, _, _, g3, g4, g5, g6, _⟩ := good_unpack g0
  have e1 : st'.g.cur = st.g.cur := by
    rw [hst']; show (applyActs st.max st.g c.log).cur = st.g.cur
    rw [applyActs_cur, g3, l1]; simp [b2i, Sess.live]
  refine ⟨e1, ?_, ?_, ?_, ?_⟩
  · rw [hst']; show (applyActs st.max st.g c.log).stats _ _ = _
    rw [applyActs_stat, g4, l1]; simp [b2i, Sess.live]
  · rw [hst']; show (applyActs st.max st.g c.log).stats _ _ = _
    rw [applyActs_stat, g5, l1]; simp [b2i, Sess.live]
  · rw [hst']; show (applyActs st.max st.g c.log).numConns = _
    have : c.s.downLive = false := by simp [Sess.downLive, l2]
    rw [applyActs_num, g6, this]; simp [b2i, Sess.downLive]
  · rw [e1]; rw [hst']

-- non-vacuity
/-- two sessions on a cluster limited to one connection: the first holds the slot, the second is refused … -/
example : (fun (st : St) => (st.g.cur, st.g.numConns, st.ss.map Sess.live))
    (tcpReach 1 [.sess 0 (.accept false 2 .fail .ok .none), .sess 1 (.accept false 2 .ok .none .none)]) =
    (1, 1, [true, false]) := by decide
/-- … after the first session's client went away and the queued close was carried out the slot is free again … -/
example : (fun (st : St) => (st.g.cur, st.g.numConns, st.g.stats .cluster .UpstreamConnectionActive))
    (tcpReach 1 [.sess 0 (.accept false 2 .fail .ok .none), .sess 0 (.down .remote), .sess 0 (.up .local)]) = (0, 0, 0) := by decide
/-- … a session whose three host tries are refused counts nothing (with the increment moved before the dial this is 1) -/
example : (tcpReach 1 [.sess 0 (.accept false 3 .fail .fail .fail)]).g.cur = 0 := by decide
/-- … and the next session is admitted -/
example : (fun (st : St) => (st.g.cur, st.ss.map Sess.live))
    (tcpReach 1 [.sess 0 (.accept false 3 .fail .fail .fail), .sess 1 (.accept false 3 .ok .none .none)]) = (1, [false, true]) := by decide
/-- the hypotheses of `tcp_quiescent_zero` are met by a finished session -/
example : ∀ s ∈ (tcpReach 2 [.sess 0 (.accept false 1 .ok .none .none), .sess 0 (.up .remote), .sess 0 (.down .local)]).ss,
    s.downClosed = true ∧ s.upEof = false := by decide
/-- a pool of the same cluster holding the only slot makes the stream proxy refuse -/
example : refused (sstep (Gen.Resource.canCreate (tcpReach 1 [.ambInc]).max (tcpReach 1 [.ambInc]).g.cur) {}
    (.accept false 1 .ok .none .none)).log = true := by decide


/-!
## Who moves which breaker resource (regenerated table of every `ResourceManager().<Res>().<Op>()` call under pkg/)

The ledgers above are complete only if nothing else moves the counters.  `Gen.ResourceSites` lists every call site; the
theorems below are re-decided against the regenerated table on every run, so a new `Increase()` in a pool, a second user
of `Connections()`, or a resource handed to code outside the table stops the check.
-/
open MosnVerif.Gen.ResourceSites in
/-- `Connections()` is moved by the stream proxy only, in the two regenerated functions of `Gen.TcpProxy` (the connection
pools only read its `Max()` as a per-pool limit, against their own books: C09) -/
theorem breaker_sites_connections :
    (sites.filter fun s => s.res == .Connections && (s.op == .Increase || s.op == .Decrease || s.op == .CanCreate || s.op == .UpdateCur)) =
      [⟨"pkg/filter/network/streamproxy/streamproxy.go", "proxy.finalizeUpstreamConnectionStats", .Connections, .Decrease⟩,
       ⟨"pkg/filter/network/streamproxy/streamproxy.go", "proxy.initializeUpstreamConnection", .Connections, .CanCreate⟩,
       ⟨"pkg/filter/network/streamproxy/streamproxy.go", "proxy.initializeUpstreamConnection", .Connections, .Increase⟩] := by
  decide

open MosnVerif.Gen.ResourceSites in
/-- `PendingRequests()` is never moved, asked or read: its counter is constantly 0 (never negative, zero when idle); the
configured `max_pending_requests` is never consulted -/
theorem breaker_sites_pending : (sites.filter fun s => s.res == .PendingRequests) = [] := by
  decide

open MosnVerif.Gen.ResourceSites in
/-- `Requests()` is moved by the five connection pools only (each pairs an `Increase` in NewStream with a `Decrease` on
stream destroy: the ledger of C09 / `ledger_exact`), `Retries()` by `retryState` only (`retry` / `reset`: `ledger_exact`);
no counter is ever set directly (`UpdateCur`), and the only code that takes a resource manager as a whole is the handler
that copies the thresholds of an updated cluster -/
theorem breaker_sites_table :
    ((sites.filter fun s => s.res == .Requests && (s.op == .Increase || s.op == .Decrease)).map (·.file)).eraseDups =
      ["pkg/stream/http/connpool.go", "pkg/stream/http2/connpool.go", "pkg/stream/xprotocol/connpool_binding.go",
       "pkg/stream/xprotocol/connpool_multiplex.go", "pkg/stream/xprotocol/connpool_pingpong.go"] ∧
    ((sites.filter fun s => s.res == .Retries).map fun s => (s.fn, s.op)) =
      [("retryState.reset", .Decrease), ("retryState.retry", .Increase), ("retryState.shouldRetry", .CanCreate)] ∧
    (sites.filter fun s => s.op == .UpdateCur) = [] ∧
    escapes = ["pkg/upstream/cluster/cluster_manager.go:UpdateClusterResourceManagerHandler: newSnap.ClusterInfo().ResourceManager()",
               "pkg/upstream/cluster/cluster_manager.go:UpdateClusterResourceManagerHandler: oldSnap.ClusterInfo().ResourceManager()"] := by
  decide


/-!
## The real pools' side of the ledger: one-way requests on the multiplex pool, the HTTP/2 pool's connection gauges

The downstream machine above replays the pools' admission (`Increase` on NewStream, `Decrease` on stream destroy).  What
the real pools do is modelled in `Model/PoolMux.lean` / `Model/PoolH2.lean` (property C09) with every counter movement
regenerated (`Gen.PoolMuxMoves`, `Gen.PoolH2`); the theorems below are the conservation statements of C10 about those
machines, for every operation list and every `max_requests`.
-/
section Pools
open MosnVerif.Model

theorem poolCanCreate_iff (m : Nat) (n : Int) (hn : 0 ≤ n) : Gen.Pool.canCreate (m : Int) n = true ↔ (m = 0 ∨ n < m) := by
  unfold Gen.Pool.canCreate
  by_cases hm : m = 0
  · simp [hm]
  · have : ¬ ((m : Int) = 0) := by omega
    have h2 : ¬ (n < 0) := by omega
    simp [hm, this, h2]

/-- **multiplex pool, exact accounting with one-way requests**: after ANY list of operations — one-way requests
(`NewStream(ctx, nil)`) among them — `Requests().Cur()` is what the other pools hold plus the requests in flight that
have a receiver (nothing when unlimited), both upstream `request_active` gauges are the number of those requests; with
none in flight everything is back at the ambient load / zero; and `max_requests` trips exactly at its threshold.  A
one-way request is never "in flight" in this sense: nothing ends it, so it must hold nothing. -/
theorem mux_ledger_exact (maxConn maxReq : Nat) (ops : List PoolMux.Op) :
    let s := PoolMux.run (PoolMux.init maxConn maxReq) ops
    s.reqCur = (if s.maxReq = 0 then 0 else (s.ext : Int) + (s.liveCount : Int)) ∧ 0 ≤ s.reqCur ∧
    s.actHost = (s.liveCount : Int) ∧ s.actCluster = (s.liveCount : Int) ∧
    (s.liveCount = 0 → s.reqCur = (if s.maxReq = 0 then 0 else (s.ext : Int)) ∧ s.actHost = 0 ∧ s.actCluster = 0) ∧
    (Gen.Pool.canCreate s.maxReq s.reqCur = true ↔ (s.maxReq = 0 ∨ s.reqCur < s.maxReq)) := by
  intro s
  have h : PoolMux.Inv s := PoolMux.inv_run _ (PoolMux.inv_init maxConn maxReq) ops
  have hnn : 0 ≤ s.reqCur := by rw [h.core.req]; split <;> omega
  refine ⟨h.core.req, hnn, h.core.act.1, h.core.act.2, ?_, poolCanCreate_iff _ _ hnn⟩
  intro h0
  refine ⟨by rw [h.core.req, h0]; simp, by rw [h.core.act.1, h0]; rfl, by rw [h.core.act.2, h0]; rfl⟩

/-- **a one-way request takes nothing**: `NewStream(ctx, nil)` — admitted or refused, in any reachable state — moves no
counter (it leaves the whole state as it was); so after any number of one-way requests the breaker answers the next
request as before.  Proved from the regenerated `receiver == nil` path of `poolMultiplex.NewStream`. -/
theorem mux_oneway_takes_nothing (maxConn maxReq : Nat) (ops : List PoolMux.Op) (k n : Nat) :
    let s := PoolMux.run (PoolMux.init maxConn maxReq) ops
    let s' := PoolMux.run s (List.replicate n (.newStreamOneway k))
    s'.reqCur = s.reqCur ∧ s'.actHost = s.actHost ∧ s'.actCluster = s.actCluster ∧
    Gen.Pool.canCreate s'.maxReq s'.reqCur = Gen.Pool.canCreate s.maxReq s.reqCur := by
  intro s s'
  have : s' = s := by
    show PoolMux.run s (List.replicate n (.newStreamOneway k)) = s
    induction n with
    | zero => rfl
    | succ n ih =>
      show PoolMux.run (PoolMux.step s (.newStreamOneway k)).1 _ = s
      rw [show (PoolMux.step s (.newStreamOneway k)).1 = s from PoolMux.newStreamOneway_state s k]; exact ih
  rw [this]; exact ⟨rfl, rfl, rfl, rfl⟩

/-- **HTTP/2 pool, exact accounting**: after any list of operations {NewStream (dial ok / refused / timed out), response,
local reset, RST_STREAM, graceful GOAWAY on a given connection, close of a given connection by either side, Shutdown,
Close, ambient load} both upstream `connection_active` gauges are 1 when the pool holds a client and 0 otherwise — every
dial that succeeded was given back exactly once, by the `NewStream` that replaced a client told to go away or by the
close of the client the pool still held, never by both and never for a connection other than the one that closed —;
the request counters count the requests in flight; once every connection is closed every gauge is 0 and the breaker is
back at the ambient load. -/
theorem h2_ledger_exact (maxReq : Nat) (ops : List PoolH2.Op) :
    let s := PoolH2.run (PoolH2.init maxReq) ops
    s.connHost = (if s.active.isSome then 1 else 0) ∧ s.connCluster = (if s.active.isSome then 1 else 0) ∧
    0 ≤ s.connHost ∧ 0 ≤ s.connCluster ∧
    s.reqCur = (if s.maxReq = 0 then 0 else (s.ext : Int) + (s.liveCount : Int)) ∧ 0 ≤ s.reqCur ∧
    s.actHost = (s.liveCount : Int) ∧ s.actCluster = (s.liveCount : Int) ∧
    ((∀ c, c < s.nConns → (s.conn c).netOpen = false) →
      s.connHost = 0 ∧ s.connCluster = 0 ∧ s.actHost = 0 ∧ s.actCluster = 0 ∧
      s.reqCur = (if s.maxReq = 0 then 0 else (s.ext : Int))) ∧
    (Gen.Pool.canCreate s.maxReq s.reqCur = true ↔ (s.maxReq = 0 ∨ s.reqCur < s.maxReq)) := by
  intro s
  have h : PoolH2.Inv s := PoolH2.inv_run _ (PoolH2.inv_init maxReq) ops
  have hnn : 0 ≤ s.reqCur := by rw [h.req]; split <;> omega
  have hg := h.gauge
  simp only [PoolH2.gaugeOf] at hg
  refine ⟨hg.1, hg.2, by rw [hg.1]; split <;> omega, by rw [hg.2]; split <;> omega, h.req, hnn, h.act.1, h.act.2, ?_,
    poolCanCreate_iff _ _ hnn⟩
  intro hall
  have hact : s.active = none := by
    cases ha : s.active with
    | none => rfl
    | some a =>
      have ⟨h1, h2⟩ := h.activeOk a ha
      rw [hall a h1] at h2; cases h2
  have hlive : s.liveCount = 0 := by
    apply PoolH2.countLive_zero
    intro i hi
    cases hl : (s.stream i).live
    · rfl
    · have ⟨h1, h2⟩ := h.liveOk i hi hl
      rw [hall _ h1] at h2; cases h2
  simp only [hact, Option.isSome_none, Bool.false_eq_true, if_false] at hg
  refine ⟨hg.1, hg.2, by rw [h.act.1, hlive]; rfl, by rw [h.act.2, hlive]; rfl, by rw [h.req, hlive]; simp⟩

-- non-vacuity: with max_requests = 2, two one-way requests and then two ordinary ones are all admitted, the third ordinary
-- one overflows (with the one-way path counted like the ordinary one the FIRST ordinary request would already be the last)
example : ((PoolMux.trace (PoolMux.init 1 2) [.checkAndInit (some 0) .ok, .newStreamOneway 0, .newStreamOneway 0,
      .newStream 0, .newStream 0, .newStream 0]).map (fun x => (x.1, x.2.reqCur, x.2.actCluster))) =
    [(.ready false, 0, 0), (.ok 0, 0, 0), (.ok 0, 0, 0), (.ok 0, 1, 1), (.ok 0, 2, 2), (.overflow, 2, 2)] := by decide
-- HTTP/2: GOAWAY, replacement, both connections closed: every gauge is back at 0 (hypothesis of the idle clause met)
example : ((fun (s : PoolH2.State) => (s.connHost, s.connCluster, s.actHost, s.reqCur, (s.conn 0).netOpen, (s.conn 1).netOpen))
    (PoolH2.run (PoolH2.init 2) [.newStream .ok, .goAway 0, .newStream .ok, .connClose 0 true, .connClose 1 false])) =
    (0, 0, 0, 0, false, false) := by decide

end Pools

/-! ### HTTP/1 and ping-pong pools: every request end cause gives back exactly what NewStream took

`Model/PoolWin.lean`: what an admitted `NewStream` takes (`Gen/PoolDestroy.{h1,pp}TakeProg`) and the statement program of
`OnDestroyStream` with its give-back sites and early returns (`{h1,pp}DestroyProg`, helpers inlined) are regenerated from
the Go source; the end causes are the labels {response complete (keep-alive), response with `Connection: close`, local
reset, remote reset, connection lost mid-response}, connect failure and breaker refusal are results of `newStream`.
`liveN` = requests admitted minus requests ended, `owed x tasks` = give-backs `x` still ahead in the OnDestroyStream calls
in progress.  Proved for every program in the class `ledgerOk` (each give-back exactly once, no `return` before one of
them: every path through OnDestroyStream reaches each give-back exactly once); the regenerated programs are decided to
be in it. -/
section PoolLedger
open MosnVerif.Model.PoolWin MosnVerif.Lemmas.PoolWin MosnVerif.Lemmas.PoolWinWitness
open MosnVerif.Model.Pool (Kind Dial Res)

theorem destroy_prog_gives_back_once (k : Kind) : ledgerOk k (destroyProg k) = true := by
  cases k
  · exact ledgerOk_h1
  · exact ledgerOk_pp

/-- **request_ledger_exact**: after EVERY label of every interleaving, for both pools and every limit:
`Requests().Cur()` = slots held elsewhere + requests in flight + give-backs still ahead (0 when unlimited), and both
request_active gauges = requests in flight + their give-backs still ahead. -/
theorem request_ledger_exact (k : Kind) (maxConn maxReq : Nat) (ls : List MosnVerif.Model.PoolWin.Label) :
    let s := MosnVerif.Model.PoolWin.run (MosnVerif.Model.PoolWin.init k maxConn maxReq) ls
    s.reqCur = (if maxReq = 0 then 0 else (s.ext : Int) + s.liveN + (owed .decRes s.tasks : Nat)) ∧
    s.rqHost = s.liveN + (owed .decHost s.tasks : Nat) ∧ s.rqCluster = s.liveN + (owed .decCluster s.tasks : Nat) :=
  MosnVerif.Lemmas.PoolWinLedger.request_ledger_exact k maxConn maxReq _ (destroy_prog_gives_back_once k) ls

/-- **idle ⇒ zero**: no request in flight and no OnDestroyStream in progress ⇒ the breaker holds only what other pools
hold and both request_active gauges are 0 — after any history, whatever the end causes were. -/
theorem pool_ledger_quiescent_zero (k : Kind) (maxConn maxReq : Nat) (ls : List MosnVerif.Model.PoolWin.Label) :
    let s := MosnVerif.Model.PoolWin.run (MosnVerif.Model.PoolWin.init k maxConn maxReq) ls
    s.tasks = [] → s.liveN = 0 → s.reqCur = (if maxReq = 0 then 0 else (s.ext : Int)) ∧ s.rqHost = 0 ∧ s.rqCluster = 0 :=
  MosnVerif.Lemmas.PoolWinLedger.ledger_quiescent_zero k maxConn maxReq _ (destroy_prog_gives_back_once k) ls

/-- negation witness (`return` right after the close in HTTP/1 OnDestroyStream): outside the class; one locally reset
request leaves the pool idle with Requests().Cur() = 1 and request_active = 1, and with max_requests = 1 the next
NewStream overflows. -/
theorem return_after_close_leaks :
    ledgerOk .h1 leak = false ∧
    (MosnVerif.Model.PoolWin.run (initWith .h1 0 1 leak) leakSched).tasks = [] ∧
    (MosnVerif.Model.PoolWin.run (initWith .h1 0 1 leak) leakSched).liveN = 0 ∧
    (MosnVerif.Model.PoolWin.run (initWith .h1 0 1 leak) leakSched).reqCur = 1 ∧
    (MosnVerif.Model.PoolWin.run (initWith .h1 0 1 leak) leakSched).rqHost = 1 ∧
    (MosnVerif.Model.PoolWin.step (MosnVerif.Model.PoolWin.run (initWith .h1 0 1 leak) leakSched) (.newStream .ok)).2 = .overflow :=
  ⟨leak_not_ledgerOk, leak_tasks, leak_liveN, leak_reqCur, leak_rqHost, leak_overflow⟩

-- non-vacuity: the same history on the pool as it is gives everything back and the next request is admitted
example : (fun (s : MosnVerif.Model.PoolWin.State) => (s.tasks.length, s.liveN, s.reqCur, s.rqHost, s.rqCluster, s.cnHost))
    (MosnVerif.Model.PoolWin.run (MosnVerif.Model.PoolWin.init .h1 0 1)
      [.newStream .ok, .endStream 0 .localReset, .taskStep 0, .taskStep 0, .taskStep 0, .taskStep 0, .taskStep 0, .taskStep 0])
    = (0, 0, 0, 0, 0, 0) := by decide
example : (MosnVerif.Model.PoolWin.step (MosnVerif.Model.PoolWin.run (MosnVerif.Model.PoolWin.init .h1 0 1)
      [.newStream .ok, .endStream 0 .localReset, .taskStep 0, .taskStep 0, .taskStep 0, .taskStep 0, .taskStep 0, .taskStep 0])
      (.newStream .ok)).2 = .ok 1 := by decide
-- in the middle of OnDestroyStream the ledger counts the give-backs still ahead (HTTP/1: close first, give-backs after)
example : (fun (s : MosnVerif.Model.PoolWin.State) => (s.liveN, s.reqCur, owed .decRes s.tasks))
    (MosnVerif.Model.PoolWin.run (MosnVerif.Model.PoolWin.init .h1 0 1) [.newStream .ok, .endStream 0 .localReset, .taskStep 0]) = (0, 1, 1) := by decide

end PoolLedger

/-! ### ===== BEGIN mux6: multiplex + HTTP/2 pools, request ledger at every intermediate state =====

`Model/PoolMxWin.lean`: every handler of the two pools is a task executing its REGENERATED statement program
(`Gen/PoolDestroyMx.lean`: NewStream, OnResetStream / onStreamReset, OnDestroyStream, onConnectionEvent's close branch,
OnGoAway, deleteActiveClient, lock scopes) one statement per label; any other label — another NewStream, a request end
(response complete / local reset before or after the headers / remote reset), a connection lost with k requests in flight,
a go-away frame, a connect with a failing dial, the breaker taken elsewhere — may run between two statements; only the
pool's mutex excludes.  `pend x tasks` = movements of column `x` still ahead in the handlers in progress.  Proved for every
program set of the decidable class `ledgerOk`; the regenerated programs are decided to be in it on every run. -/
section MxPoolLedger
open MosnVerif.Lemmas.PoolMxWin
open MosnVerif.Model.PoolMxWin (dH dC dR dP pend progsOf Progs)

theorem mx_progs_ledgerOk (k : MosnVerif.Model.PoolMxWin.Kind) : ledgerOk (progsOf k) = true := by cases k <;> decide

/-- **mux_request_ledger_exact_steps**: multiplex pool, after EVERY label of every interleaving, every slot count and limit:
each request_active gauge + what the handlers in progress still owe = requests in flight + streams still to be created by
admitted NewStreams; the same for `Requests().Cur()` minus the slots held elsewhere (constant 0 when unlimited). -/
theorem mux_request_ledger_exact_steps (nSlots maxReq : Nat) (ls : List MosnVerif.Model.PoolMxWin.Label) :
    Ledger maxReq (MosnVerif.Model.PoolMxWin.run (MosnVerif.Model.PoolMxWin.init .mux nSlots maxReq) ls) :=
  request_ledger_exact_steps .mux nSlots maxReq _ (mx_progs_ledgerOk .mux) ls

/-- **h2_request_ledger_exact_steps**: the same for the HTTP/2 pool (takes BEFORE the stream is created, dial inside
NewStream under the pool's mutex, pool hears a close before the streams are reset). -/
theorem h2_request_ledger_exact_steps (maxReq : Nat) (ls : List MosnVerif.Model.PoolMxWin.Label) :
    Ledger maxReq (MosnVerif.Model.PoolMxWin.run (MosnVerif.Model.PoolMxWin.init .h2 1 maxReq) ls) :=
  request_ledger_exact_steps .h2 1 maxReq _ (mx_progs_ledgerOk .h2) ls

/-- **quiescent ⇒ zero** (both pools): no handler in progress and no request in flight ⇒ both gauges 0 and the breaker holds
exactly what the other pools hold — whatever the end causes and their interleaving were. -/
theorem mx_quiescent_zero (k : MosnVerif.Model.PoolMxWin.Kind) (nSlots maxReq : Nat) (ls : List MosnVerif.Model.PoolMxWin.Label)
    (q : (MosnVerif.Model.PoolMxWin.run (MosnVerif.Model.PoolMxWin.init k nSlots maxReq) ls).quiescent) :
    let s := MosnVerif.Model.PoolMxWin.run (MosnVerif.Model.PoolMxWin.init k nSlots maxReq) ls
    s.led.rqHost = 0 ∧ s.led.rqCluster = 0 ∧ s.led.reqCur = if maxReq = 0 then 0 else (s.led.ext : Int) :=
  ledger_quiescent maxReq _ (request_ledger_exact_steps k nSlots maxReq _ (mx_progs_ledgerOk k) ls) q

/-- the fields the witnesses look at -/
def mxView (s : MosnVerif.Model.PoolMxWin.State) : Int × Int × Int × Nat × Bool :=
  (s.led.reqCur, s.led.rqHost, s.led.rqCluster, s.led.streams.length, s.tasks.all (fun t => t.rest.isEmpty))

/-- multiplex OnDestroyStream without its `Requests().Decrease()` -/
def mxDropped : Progs := { progsOf .mux with destroy := [.decHost, .decCluster, .closeIfDrained] }
/-- HTTP/2 onStreamReset that ALSO decrements the host gauge (OnDestroyStream does it again) -/
def mxTwice : Progs := { progsOf .h2 with reset := [.decHost, .markActive] }
/-- multiplex close handler that ALSO gives the breaker slot back (OnDestroyStream of the lost stream does it again) -/
def mxCloseToo : Progs := { progsOf .mux with close := .decRes :: (progsOf .mux).close }

/-- negation witness, dropped give-back: outside the class; connect, one request, connection lost ⇒ quiescent with
`Requests().Cur()` = 1 — and with max_requests = 1 the next request overflows. -/
theorem mx_dropped_giveback_leaks :
    ledgerOk mxDropped = false ∧
    mxView (MosnVerif.Model.PoolMxWin.drain 64 (MosnVerif.Model.PoolMxWin.step (MosnVerif.Model.PoolMxWin.drain 64 (MosnVerif.Model.PoolMxWin.run (MosnVerif.Model.PoolMxWin.initWith .mux 1 1 mxDropped) [.connect 0 true, .newStream 0 true])) (.netClose 0)))
      = (1, 0, 0, 0, true) := by decide

/-- negation witness, give-back executed twice (reset path and OnDestroyStream): the gauge ends at −1. -/
theorem mx_double_giveback_negative :
    ledgerOk mxTwice = false ∧
    mxView (MosnVerif.Model.PoolMxWin.drain 64 (MosnVerif.Model.PoolMxWin.step (MosnVerif.Model.PoolMxWin.drain 64 (MosnVerif.Model.PoolMxWin.run (MosnVerif.Model.PoolMxWin.initWith .h2 1 2 mxTwice) [.newStream 0 true])) (.endStream 0 .localReset)))
      = (0, -1, 0, 0, true) ∧
    ledgerOk mxCloseToo = false ∧
    mxView (MosnVerif.Model.PoolMxWin.drain 64 (MosnVerif.Model.PoolMxWin.step (MosnVerif.Model.PoolMxWin.drain 64 (MosnVerif.Model.PoolMxWin.run (MosnVerif.Model.PoolMxWin.initWith .mux 1 2 mxCloseToo) [.connect 0 true, .newStream 0 true, .newStream 0 true])) (.netClose 0)))
      = (-1, 0, 0, 0, true) := by decide

-- non-vacuity: the same histories on the pools as they are end at zero; mid-way the ledger counts what is still ahead
example : mxView (MosnVerif.Model.PoolMxWin.drain 64 (MosnVerif.Model.PoolMxWin.step (MosnVerif.Model.PoolMxWin.drain 64 (MosnVerif.Model.PoolMxWin.run (MosnVerif.Model.PoolMxWin.init .mux 1 1) [.connect 0 true, .newStream 0 true])) (.netClose 0))) = (0, 0, 0, 0, true) := by decide
example : mxView (MosnVerif.Model.PoolMxWin.drain 64 (MosnVerif.Model.PoolMxWin.step (MosnVerif.Model.PoolMxWin.drain 64 (MosnVerif.Model.PoolMxWin.run (MosnVerif.Model.PoolMxWin.init .h2 1 2) [.newStream 0 true])) (.endStream 0 .localReset))) = (0, 0, 0, 0, true) := by decide
example : mxView (MosnVerif.Model.PoolMxWin.drain 64 (MosnVerif.Model.PoolMxWin.run (MosnVerif.Model.PoolMxWin.init .mux 1 2) [.connect 0 true, .newStream 0 true, .newStream 0 true])) = (2, 2, 2, 2, true) := by decide
-- connection lost with two requests in flight, one OnDestroyStream done and one still ahead: Cur = 1 = 0 in flight + 1 owed
example : (fun s : MosnVerif.Model.PoolMxWin.State => (s.led.reqCur, s.led.streams.length, pend dR s.tasks))
    (MosnVerif.Model.PoolMxWin.run (MosnVerif.Model.PoolMxWin.drain 64 (MosnVerif.Model.PoolMxWin.run (MosnVerif.Model.PoolMxWin.init .mux 1 2) [.connect 0 true, .newStream 0 true, .newStream 0 true]))
      [.netClose 0, .taskStep 2, .taskStep 2, .taskStep 2, .taskStep 2]) = (1, 0, -1) := by decide

end MxPoolLedger
/-! ### ===== END mux6 ===== -/

end MosnVerif.Props.C10

/-! ===================================================================================================================
## c10r7 — the request gauges for EVERY valuation of the request-info flags (begin of the c10r7 section)

`newActiveStream` counts every request up on the proxy-global and the per-listener downstream `request_active` gauge;
`requestMetrics` (run once by `cleanStream`) counts them down — next to a block of per-request metrics that IS nested
under `IsHealthCheck()`.  `Gen.GaugeSites` regenerates every counter / gauge movement of pkg/proxy and of the connection
pools with the conditions it is nested under (enclosing `if`s, early-return guards, switch clauses, loops, closures) and
the call sites of the carrying functions.  The theorems below hold for every valuation `ρ₀` of the condition atoms when
the request is created and every (independent: filters may set flags in between) valuation `ρ₁` when it is cleaned.
-/
namespace MosnVerif.Props.C10
section C10r7
open MosnVerif.Gen.GaugeSites MosnVerif.Model.GaugeFlags MosnVerif.Lemmas.GaugeFlags
open MosnVerif.Model.Downstream

/-- **gauge_pairs_condition_matched**: in the regenerated table every movement of a downstream gauge in downstream.go is
an unconditional unit movement — `+1` in `newActiveStream`, `-1` in `requestMetrics`, one pair per owner (proxy-global,
per-listener) — and the two functions are entered once per request (`newActiveStream` from `NewStreamDetect` only,
`requestMetrics` from `cleanStream` only, under nothing but the once-guard on `downstreamCleaned`) -/
theorem gauge_pairs_condition_matched : pairsOK moves = true ∧ callsOK calls = true := by decide

/-- the value of a request's share of the gauge, computed from the regenerated movements, for EVERY valuation of the
request-info flags at creation and at clean: 1 until the stream is cleaned, 0 afterwards -/
theorem request_gauge_every_flag (ρ₀ ρ₁ : Val) (o : Owner) (ho : o = .proxy ∨ o = .listener) (cleaned : Bool) :
    gaugeAfter moves ρ₀ ρ₁ o reqGauge cleaned = if cleaned then 0 else 1 := by
  rcases ho with rfl | rfl <;> unfold gaugeAfter
  · rw [delta_uncond ρ₀ (fun _ => false) _ (by decide), delta_uncond ρ₁ (fun _ => false) _ (by decide)]
    cases cleaned <;> decide
  · rw [delta_uncond ρ₀ (fun _ => false) _ (by decide), delta_uncond ρ₁ (fun _ => false) _ (by decide)]
    cases cleaned <;> decide

/-- **ledger_exact_flags**: `ledger_exact` with the downstream gauge computed from the regenerated movements — in every
reachable state of the downstream machine (every configuration, ambient load, schedule), for both owners and EVERY flag
valuation, the gauge the Go code keeps is the machine's `downActive` -/
theorem ledger_exact_flags (c : Cfg) (ar aq : Nat) (l : List Label) (ρ₀ ρ₁ : Val) (o : Owner) (ho : o = .proxy ∨ o = .listener) :
    gaugeAfter moves ρ₀ ρ₁ o reqGauge (reach c ar aq l).cleaned = (reach c ar aq l).downActive ∧
    (reach c ar aq l).downActive = (if (reach c ar aq l).cleaned then 0 else 1) := by
  refine ⟨?_, (ledger_exact c ar aq l).2.2.2⟩
  rw [request_gauge_every_flag _ _ _ ho, (ledger_exact c ar aq l).2.2.2]

/-- **quiescent_zero_flags**: once the stream is cleaned both downstream gauges are back at zero whatever flags the
request carried (health check, failed, response code, protocol …), with the counters of `quiescent_zero` -/
theorem quiescent_zero_flags (c : Cfg) (ar aq : Nat) (l : List Label) (h : (reach c ar aq l).cleaned = true)
    (ρ₀ ρ₁ : Val) (o : Owner) (ho : o = .proxy ∨ o = .listener) :
    gaugeAfter moves ρ₀ ρ₁ o reqGauge (reach c ar aq l).cleaned = 0 ∧
    (reach c ar aq l).retries = ar ∧ (reach c ar aq l).requests = aq ∧ (reach c ar aq l).upActive = 0 := by
  obtain ⟨h1, h2, h3, _⟩ := quiescent_zero c ar aq l h
  refine ⟨?_, h1, h2, h3⟩
  rw [request_gauge_every_flag _ _ _ ho, h]; rfl

/-- the hypothesis of `quiescent_zero_flags` is satisfiable by a non-trivial schedule (a retried attempt, then a 200),
and in that state the gauge computed from the table under a health-check valuation at clean time is 0 -/
example : (reach { retryOn := true, numRetries := 1, maxRetries := 2 } 1 0
    (List.replicate 12 .work ++ [.upResp 0 503 false false] ++ List.replicate 5 .work ++ [.upResp 1 200 false false] ++
      List.replicate 4 .work)).cleaned = true := by decide
example : gaugeAfter moves (valOf {}) (valOf { hc := true, failed := true }) .listener reqGauge true = 0 := by decide

/-- **pool_request_gauge_unconditional**: in the five connection pools every movement of the upstream `request_active`
gauge is a unit movement, host and cluster gauge move together, and every DECREMENT is unconditional inside the pool's
destroy handler: no response code and no request-info flag decides whether a finished request is given back -/
theorem pool_request_gauge_unconditional : poolOK moves = true := by decide

/-- the seeded class: the countdown moved under `!IsHealthCheck()` -/
def hcTable : List Move := [
  ⟨dsFile, startFn, .proxy, reqGauge, .inc, "1", true, []⟩,
  ⟨dsFile, startFn, .listener, reqGauge, .inc, "1", true, []⟩,
  ⟨dsFile, endFn, .proxy, reqGauge, .dec, "1", true, [⟨true, "s.requestInfo.IsHealthCheck()"⟩]⟩,
  ⟨dsFile, endFn, .listener, reqGauge, .dec, "1", true, [⟨true, "s.requestInfo.IsHealthCheck()"⟩]⟩]

/-- negation witness: with the decrement under `!healthCheck` the pairing check fails, an ordinary request still returns
to zero, and a request a filter flagged as health check AFTER it was counted leaves both gauges at 1 for ever -/
theorem hc_conditional_decrement_leaks :
    pairsOK hcTable = false ∧
    gaugeAfter hcTable (valOf {}) (valOf {}) .proxy reqGauge true = 0 ∧
    gaugeAfter hcTable (valOf {}) (valOf { hc := true }) .proxy reqGauge true = 1 ∧
    gaugeAfter hcTable (valOf {}) (valOf { hc := true }) .listener reqGauge true = 1 := by decide

/-- negation witness for the pools: an upstream decrement under a response-code test is outside the class -/
theorem pool_conditional_decrement_rejected :
    poolOK (moves.map fun m => if m.metric == "UpstreamRequestActive" && m.op == .dec && m.file == "pkg/stream/http/connpool.go"
              then { m with conds := [⟨false, "code < 500"⟩] } else m) = false := by decide

end C10r7
end MosnVerif.Props.C10
/-! (end of the c10r7 section) -/

/-! ### pool9 — `place` and `listen` of NewStream as separate steps: HTTP/1, ping-pong and binding pools

`Model/PoolPlace.{h1,pp,bind}Progs`: the REGENERATED NewStream programs of the three pools (`Gen/PoolPlace`, source order;
the stream is created = `place`, the pool's listener is added = `listen`, the three takes, the closed-connection test =
`undoChk`) run in the interleaving model `Model/PoolMxWin`: one statement per step, and between ANY two statements any
other label — in particular `netClose c` between `place` and `listen`, which (where `placeVisible`, regenerated) resets the
new stream before the pool listens to it.  The theorems are the generic `request_ledger_exact_steps` (every program set of
the decidable class `ledgerOk`: where the stream is resettable from its creation, `listen` is followed by exactly one
closed-connection test) instantiated with the regenerated programs, which are DECIDED to be in the class on every run. -/
namespace MosnVerif.Props.C10
section Pool9
open MosnVerif.Lemmas.PoolMxWin
open MosnVerif.Model.PoolMxWin (Progs initWith run drain step stepTask)
open MosnVerif.Model.PoolPlace

theorem place_progs_ledgerOk : ledgerOk h1Progs = true ∧ ledgerOk ppProgs = true ∧ ledgerOk bindProgs = true := by decide

/-- **pp_place_listen_ledger_exact_steps**: ping-pong pool, after EVERY label of every interleaving (a connection close
between the creation of the stream and the pool's listener included), every number of connections and every limit -/
theorem pp_place_listen_ledger_exact_steps (nSlots maxReq : Nat) (ls : List MosnVerif.Model.PoolMxWin.Label) :
    Ledger maxReq (run (initWith .mux nSlots maxReq ppProgs) ls) :=
  request_ledger_exact_steps .mux nSlots maxReq _ place_progs_ledgerOk.2.1 ls

/-- **bind_place_listen_ledger_exact_steps**: the same for the binding pool (dial inside NewStream under the pool's mutex) -/
theorem bind_place_listen_ledger_exact_steps (maxReq : Nat) (ls : List MosnVerif.Model.PoolMxWin.Label) :
    Ledger maxReq (run (initWith .h2 1 maxReq bindProgs) ls) :=
  request_ledger_exact_steps .h2 1 maxReq _ place_progs_ledgerOk.2.2 ls

/-- **h1_place_listen_ledger_exact_steps**: the same for the HTTP/1 pool, whose NewStream has NO closed-connection test:
it needs none because `h1PlaceVisible = false` (regenerated from pkg/stream/http/stream.go: a connection event resets the
stream only after its request was sent) — a close between `place` and `listen` leaves the stream in flight, it ends when
its request cannot be sent, heard by the pool -/
theorem h1_place_listen_ledger_exact_steps (nSlots maxReq : Nat) (ls : List MosnVerif.Model.PoolMxWin.Label) :
    Ledger maxReq (run (initWith .mux nSlots maxReq h1Progs) ls) :=
  request_ledger_exact_steps .mux nSlots maxReq _ place_progs_ledgerOk.1 ls

/-- quiescent ⇒ zero for the three pools -/
theorem place_quiescent_zero (pg : Progs) (h : pg = h1Progs ∨ pg = ppProgs ∨ pg = bindProgs) (k : MosnVerif.Model.PoolMxWin.Kind)
    (nSlots maxReq : Nat) (ls : List MosnVerif.Model.PoolMxWin.Label) (q : (run (initWith k nSlots maxReq pg) ls).quiescent) :
    let s := run (initWith k nSlots maxReq pg) ls
    s.led.rqHost = 0 ∧ s.led.rqCluster = 0 ∧ s.led.reqCur = if maxReq = 0 then 0 else (s.led.ext : Int) := by
  have hok : ledgerOk pg = true := by
    rcases h with h | h | h <;> subst h
    · exact place_progs_ledgerOk.1
    · exact place_progs_ledgerOk.2.1
    · exact place_progs_ledgerOk.2.2
  exact ledger_quiescent maxReq _ (request_ledger_exact_steps k nSlots maxReq _ hok ls) q

/-- why the HTTP/1 pool is not affected, from the regenerated facts: the stream is not resettable before its request is
sent, its NewStream has no closed-connection test and is in the class all the same; were the stream resettable from its
creation (`placeVisible := true`) the same program would be OUTSIDE the class -/
theorem h1_not_affected :
    MosnVerif.Gen.PoolPlace.h1PlaceVisible = false ∧ h1Progs.nsPost.contains .undoChk = false ∧
    ledgerOk h1Progs = true ∧ ledgerOk { h1Progs with placeVisible := true } = false := by decide

/-- the ping-pong / binding NewStream as it was before the fixes: listen, takes, no closed-connection test -/
def ppUnfixed : Progs := { ppProgs with nsPost := unfixedPost }

/-- the schedule of the harness operation `Y`: a NewStream runs up to `listen`, the connection is closed, everything
runs to its end -/
def yieldSched (pg : Progs) (maxReq : Nat) : MosnVerif.Model.PoolMxWin.State :=
  let s0 := run (initWith .mux 1 maxReq pg) [.connect 0 true, .newStream 0 true]
  -- breaker test, client, refusal test, place: four statements; then the close
  let s1 := stepTask (stepTask (stepTask (stepTask s0 0) 0) 0) 0
  drain 64 (step s1 (.netClose 0))

/-- negation witness = the unfixed order: outside the class; the close between `place` and `listen` leaves the pool
quiescent with NO request in flight and `Requests().Cur()` = 1, both gauges 1 for ever (with max_requests = 1 every later
request overflows) -/
theorem unfixed_order_leaks :
    ledgerOk ppUnfixed = false ∧ mxView (yieldSched ppUnfixed 1) = (1, 1, 1, 0, true) := by decide

-- the same schedule on the pools as they are: everything given back, the request refused
example : mxView (yieldSched ppProgs 1) = (0, 0, 0, 0, true) ∧ (yieldSched ppProgs 1).bk.lastRes = .connFail := by decide
-- HTTP/1: the stream stays in flight on the closed connection (it ends at send): counted, not leaked
example : mxView (yieldSched h1Progs 1) = (1, 1, 1, 1, true) ∧ (yieldSched h1Progs 1).led.streams = [0] := by decide
-- non-vacuity of the mid-way claim: after `place`, before `listen`, with the connection closed
example : (fun s : MosnVerif.Model.PoolMxWin.State => (s.led.reqCur, s.led.streams.length, s.led.deaf.length))
    (step (stepTask (stepTask (stepTask (stepTask (run (initWith .mux 1 1 ppProgs) [.connect 0 true, .newStream 0 true]) 0) 0) 0) 0) (.netClose 0))
    = (0, 0, 0) := by decide

end Pool9

/-! ## c10p10 — the ledger across CLUSTER UPDATES: which resource-manager OBJECT the current cluster uses

`Model/ResourceShare.lean`: managers, cluster infos and hosts are OBJECTS with identity; a holder (request slot, retry slot,
stream-proxy connection) gives its unit back through the object it remembers (a cluster info, or a host whose info pointer
`InheritClusterHostsHandler` swings).  `UpdateCluster` builds a new info with a FRESH manager, runs the regenerated handler chain
(`Gen.ResourceShare.primaryChain / andHostChain`, with `handler` = UpdateClusterResourceManagerHandler and `stores` =
updateResourceValue interpreted statement by statement) and publishes.  The theorems are about `Code.gen` (the programs as they
are in the source now) over EVERY history of admissions, releases and updates through either mutator, every threshold vector,
every cluster-type change, any number of hosts; the negation witnesses are the same histories under edited programs. -/
section Share10
open MosnVerif.Model.ResourceShare MosnVerif.Gen.ResourceShare

/-- **ledger_exact_across_updates**: after every history (no threshold moved between 0 and non-zero under a held unit — see
`threshold_through_zero_leaks`), every cluster info ever built for the cluster and every host reach the manager the CURRENT
cluster uses; on that manager every limited resource counts exactly the live holders (an unlimited one is not counted), the
gauges count the live holders; with no live holder every counter and gauge is 0. -/
theorem ledger_exact_across_updates (thr0 : Thr) (nh : Nat) (ops : List Op)
    (hz : zeroStable Code.gen (init thr0 nh) ops = true) :
    (∀ i, i < (run Code.gen (init thr0 nh) ops).nInfo →
        (run Code.gen (init thr0 nh) ops).infoMgr i = (run Code.gen (init thr0 nh) ops).infoMgr (run Code.gen (init thr0 nh) ops).cur) ∧
    (∀ h, h < (run Code.gen (init thr0 nh) ops).nHost →
        mgrOf (run Code.gen (init thr0 nh) ops) (.host h) = (run Code.gen (init thr0 nh) ops).infoMgr (run Code.gen (init thr0 nh) ops).cur) ∧
    (∀ r, (curMgr (run Code.gen (init thr0 nh) ops)).cur.get r =
        if (curMgr (run Code.gen (init thr0 nh) ops)).max.get r = 0 then 0 else (count r (run Code.gen (init thr0 nh) ops).live : Int)) ∧
    (∀ r, (run Code.gen (init thr0 nh) ops).gauge.get r = (count r (run Code.gen (init thr0 nh) ops).live : Int)) ∧
    ((run Code.gen (init thr0 nh) ops).live = [] →
        ∀ r, (curMgr (run Code.gen (init thr0 nh) ops)).cur.get r = 0 ∧ (run Code.gen (init thr0 nh) ops).gauge.get r = 0) := by
  obtain ⟨hi, hl, hg⟩ := MosnVerif.Model.ResourceShare.reach (init thr0 nh) ops (inv_init _ _) (ledger_init _ _) (gauges_init _ _) hz
  have hc := hi.im _ hi.cur
  refine ⟨fun i h => by rw [hi.im i h, hc], fun h hh => by rw [mgrOf_valid hi (by simpa [validPath] using hh), hc], ?_, hg, ?_⟩
  · intro r; rw [curMgr_eq hi]; exact hl r
  · intro he r
    have h1 := hl r; have h2 := hg r
    rw [he] at h1 h2
    rw [curMgr_eq hi]
    refine ⟨?_, by simpa [count] using h2⟩
    by_cases h0 : ((run Code.gen (init thr0 nh) ops).mgr 0).max.get r = 0 <;> simpa [h0, count] using h1

/-- **thresholds_follow_last_update**: after an update the thresholds of the current manager are the ones of THAT update, and an
admission through any existing object is refused exactly when the resource is limited and the live holders — admitted before or
after the update — have reached the NEW threshold (the shared count). -/
theorem thresholds_follow_last_update (thr0 : Thr) (nh : Nat) (ops : List Op) (p : Bool) (thr : Thr) (st : Bool) (n : Nat)
    (hz : zeroStable Code.gen (init thr0 nh) (ops ++ [.update p thr st n]) = true) :
    (curMgr (run Code.gen (init thr0 nh) (ops ++ [.update p thr st n]))).max = thr ∧
    ∀ id r t pth, validPath (run Code.gen (init thr0 nh) (ops ++ [.update p thr st n])) t = true →
      validPath (run Code.gen (init thr0 nh) (ops ++ [.update p thr st n])) pth = true →
      ((acquire (run Code.gen (init thr0 nh) (ops ++ [.update p thr st n])) id r t pth).2 = false ↔
        (0 < thr.get r ∧ thr.get r ≤ count r (run Code.gen (init thr0 nh) (ops ++ [.update p thr st n])).live)) := by
  obtain ⟨hi, hl, _⟩ := MosnVerif.Model.ResourceShare.reach (init thr0 nh) _ (inv_init _ _) (ledger_init _ _) (gauges_init _ _) hz
  have hm : (curMgr (run Code.gen (init thr0 nh) (ops ++ [.update p thr st n]))).max = thr := by
    have hi0 := (reach_inv (init thr0 nh) ops (inv_init _ _) (gauges_init _ _)).1
    rw [curMgr_eq hi]
    have e : run Code.gen (init thr0 nh) (ops ++ [.update p thr st n]) = update Code.gen (run Code.gen (init thr0 nh) ops) p thr st n := by
      simp only [run, List.foldl_append, List.foldl_cons, List.foldl_nil, step]
    rw [e, update_gen_mgr0 _ _ _ _ _ hi0]
  refine ⟨hm, ?_⟩
  intro id r t pth ht hp
  rw [admit_ref hi hl id r ht hp, ← curMgr_eq hi, hm]
  simp only [refAdmits, countK_map, Bool.or_eq_false_iff, beq_eq_false_iff_ne, decide_eq_false_iff_not]
  omega

/-- **no_orphan_manager**: after every history (zero crossings included) no live holder will give its unit back to a manager other
than the one the current cluster uses — whatever the cluster types of the updates were (the type guard is gone from the handler:
fixed defect). -/
theorem no_orphan_manager (thr0 : Thr) (nh : Nat) (ops : List Op) :
    ∀ hd, hd ∈ (run Code.gen (init thr0 nh) ops).live →
      mgrOf (run Code.gen (init thr0 nh) ops) hd.rel =
        (run Code.gen (init thr0 nh) ops).infoMgr (run Code.gen (init thr0 nh) ops).cur := by
  obtain ⟨hi, _⟩ := reach_inv (init thr0 nh) ops (inv_init _ _) (gauges_init _ _)
  intro hd hm
  rw [mgrOf_valid hi (hi.lv hd hm), hi.im _ hi.cur]

/-- the type-change case as the code does it now: from every state of the invariant an update that CHANGES the cluster type keeps
the manager object and its counters, and installs the new thresholds (same as a same-type update) -/
theorem type_change_keeps_manager (s : State) (hi : Inv s) (p : Bool) (thr : Thr) (n : Nat) :
    (update Code.gen s p thr false n).infoMgr (update Code.gen s p thr false n).cur = s.infoMgr s.cur ∧
    curMgr (update Code.gen s p thr false n) = ⟨thr, (curMgr s).cur⟩ := by
  have hi' := inv_update s p thr false n hi
  refine ⟨by rw [hi'.im _ hi'.cur, hi.im _ hi.cur], ?_⟩
  rw [curMgr_eq hi', curMgr_eq hi, update_gen_mgr0 _ _ _ _ _ hi]

/-- the refinement theorem of the harness kind `rsh`: on every history of requests, retries, stream-proxy connections and updates
of both clusters (zero-stable by name), the observations of the OBJECT model under the regenerated programs are those of the ledger
BY NAME — i.e. the model always satisfies the predicate evaluated on the implementation's observations -/
theorem spec_share_holds_on_model (thr0 : Thr) (ops : List SOp) (hz : (Ref.init thr0).zeroStable ops = true) :
    Spec.holds thr0 ops (objTrace Code.gen (Hist.init thr0) ops) = true := by
  simp [Spec.holds, trace_eq _ _ ops (rel_init thr0) hz]

/-- every way into `UpdateCluster` runs the resource handler, before the publication: both mutators' chains contain it, the two
mutators are the only callers of `UpdateCluster` under pkg/, the adapter's Trigger* (xDS, service discovery, admin) call them;
the new cluster comes from `NewCluster` (fresh manager, counters 0), the old one from `clustersMap`, the chain gets (old, new) and
runs before `clustersMap.Store`; inherited hosts are pointed at the new info, new hosts are built with it -/
theorem update_paths_all_share :
    primaryChain.contains .resource = true ∧ andHostChain.contains .resource = true ∧
    updateCallers = ["pkg/upstream/cluster/cluster_manager.go:AddOrUpdateClusterAndHost",
                     "pkg/upstream/cluster/cluster_manager.go:AddOrUpdatePrimaryCluster"] ∧
    adapterAddOrUpdate = "AddOrUpdatePrimaryCluster" ∧ adapterAndHosts = "AddOrUpdateClusterAndHost" ∧
    update_newFromNewCluster = true ∧ update_oldFromMap = true ∧ update_handlerArgsOldNew = true ∧
    update_handlerBeforePublish = true ∧ update_publishesNew = true ∧
    newInfo_freshManager = true ∧ freshManager_cursZero = true ∧
    inherit_swingsHosts = true ∧ inherit_keepsHostSet = true ∧ newHosts_useOwnInfo = true ∧ host_infoIsMutableField = true := by
  decide

/-- the stats gauges (`UpstreamRequestActive`, `UpstreamConnectionActive`, cluster and host) are keyed by NAME in the metrics
registry: a new cluster / host object of the same name gets the SAME counter — shared by construction, no hand-over needed -/
theorem stats_gauges_shared_by_name :
    stats_clusterByName = true ∧ stats_hostByName = true ∧ stats_lookupBeforeCreate = true ∧ stats_counterGetOrRegister = true := by
  decide

/-- through which object every breaker site reaches the manager (what `objMach` assumes): request slots through the pool's host
(its CURRENT info), retry slots through the captured info, a stream-proxy connection is taken on the snapshot's info and given
back through the host; no site uses anything else -/
theorem release_paths_table :
    sites.all (fun x => x.via != .other &&
      (match x.res, x.op with
       | .req, _ => x.via == .viaHost
       | .retr, _ => x.via == .viaInfo
       | .conn, .Decrease => x.via == .viaHost
       | .conn, _ => x.via == .viaInfo
       | .pend, _ => false)) = true := by
  decide

/-! ### negation witnesses (machine-checked): the same histories under edited programs -/

/-- the handler gives the new cluster a manager of its own with the counters COPIED in (`UpdateCur`) instead of sharing -/
def Code.copy : Code :=
  { Code.gen with handler := [.skipIfNoOld, .read .new .new, .read .old .old,
      .copyCur .new .conn .old .conn, .copyCur .new .pend .old .pend, .copyCur .new .req .old .req, .copyCur .new .retr .old .retr] }
/-- the resource handler dropped from `AddOrUpdateClusterAndHost`'s chain -/
def Code.dropped : Code := { Code.gen with andHost := [.cleanOld, .newHosts, .transfer] }
/-- the handler as it was before the fix: nothing handed over when the cluster type differs -/
def Code.typeGuard : Code :=
  { Code.gen with handler := [.skipIfNoOld, .read .new .new, .read .old .old, .skipIfTypeDiffers, .alias .new .old, .update .old .new] }
/-- `updateResourceValue` also resets the counters -/
def Code.resetCur : Code :=
  { Code.gen with stores := Code.gen.stores ++ [⟨.p0, .conn, .cur, .lit 0⟩, ⟨.p0, .pend, .cur, .lit 0⟩, ⟨.p0, .req, .cur, .lit 0⟩, ⟨.p0, .retr, .cur, .lit 0⟩] }

def thr1 : Thr := ⟨1, 1, 1, 1⟩
/-- one retry in flight, one update (same thresholds, same type), the retry ends -/
def histShare : List Op := [.acquire 1 .retr (.info 0) (.info 0), .update true thr1 true 0, .release 1]

/-- **copy_instead_of_share_leaks**: one in-flight retry, one update, release: the decrement lands on the OLD object, the current
manager keeps `Retries().Cur() = 1` with nothing in flight — for ever (no sequence of further ends can lower it), and with
`max_retries = 1` every later retry is refused; under the real programs the same history ends at 0 -/
theorem copy_instead_of_share_leaks :
    (curMgr (run Code.copy (init thr1 1) histShare)).cur.retr = 1 ∧ (run Code.copy (init thr1 1) histShare).live = [] ∧
    (∀ ids : List Nat, (curMgr (run Code.copy (run Code.copy (init thr1 1) histShare) (ids.map .release))).cur.retr = 1) ∧
    (acquire (run Code.copy (init thr1 1) histShare) 3 .retr (.info 1) (.info 1)).2 = false ∧
    (curMgr (run Code.gen (init thr1 1) histShare)).cur.retr = 0 := by
  refine ⟨by decide, by decide, ?_, by decide, by decide⟩
  intro ids
  have hl : (run Code.copy (init thr1 1) histShare).live = [] := by decide
  have : ∀ (s : State), s.live = [] → run Code.copy s (ids.map .release) = s := by
    induction ids with
    | nil => intro s _; rfl
    | cons a l ih =>
      intro s hs
      have e : step Code.copy s (.release a) = s := by simp [step, release, hs, findId]
      simp only [List.map_cons, run, List.foldl_cons, e]
      exact ih s hs
  rw [this _ hl]; decide

/-- **dropped_handler_splits_ledger**: without the resource handler in `AddOrUpdateClusterAndHost`'s chain the new cluster counts
on a manager of its own: with `max_retries = 1`, a retry in flight from before the update and a retry of a request routed after it
are BOTH admitted (the limit does not trip), and the current manager shows 1 with two in flight -/
theorem dropped_handler_splits_ledger :
    let s := run Code.dropped (init thr1 1) [.acquire 1 .retr (.info 0) (.info 0), .update false thr1 true 1, .acquire 3 .retr (.info 1) (.info 1)]
    count .retr s.live = 2 ∧ (curMgr s).cur.retr = 1 ∧
    count .retr (run Code.gen (init thr1 1) [.acquire 1 .retr (.info 0) (.info 0), .update false thr1 true 1, .acquire 3 .retr (.info 1) (.info 1)]).live = 1 := by
  decide

/-- **type_guard_orphans** (the defect that was fixed): with the type guard, a request in flight over an update that changes the
cluster type gives its slot back through its host — pointed at the NEW info by InheritClusterHostsHandler — to the fresh manager:
`Requests().Cur() = -1` with nothing in flight -/
theorem type_guard_orphans :
    let s := run Code.typeGuard (init thr1 1) [.acquire 0 .req (.host 0) (.host 0), .update true thr1 false 0, .release 0]
    (curMgr s).cur.req = -1 ∧ s.live = [] ∧
    (curMgr (run Code.gen (init thr1 1) [.acquire 0 .req (.host 0) (.host 0), .update true thr1 false 0, .release 0])).cur.req = 0 := by
  decide

/-- **reset_cur_goes_negative**: `updateResourceValue` resetting the counters: what was in flight is given back to a counter at 0 -/
theorem reset_cur_goes_negative :
    let s := run Code.resetCur (init thr1 1) [.acquire 0 .req (.host 0) (.host 0), .update true thr1 true 0, .release 0]
    (curMgr s).cur.req = -1 ∧ s.live = [] := by
  decide

/-- **threshold_through_zero_leaks** (KNOWN FINDING, the real programs): `Increase / Decrease` are no-ops while `max = 0`, so an
update that moves a threshold between 0 and non-zero under a held unit breaks the ledger.  (a) admitted unlimited (not counted),
limited to 1 by an update, released: `Cur() = -1`.  (b) admitted at limit 1 (counted), lifted to 0, released (not decremented),
limited to 1 again: `Cur() = 1` with nothing in flight and every later request refused. -/
theorem threshold_through_zero_leaks :
    (curMgr (run Code.gen (init ⟨0, 0, 0, 0⟩ 1) [.acquire 0 .req (.host 0) (.host 0), .update true thr1 true 0, .release 0])).cur.req = -1 ∧
    (let s := run Code.gen (init thr1 1) [.acquire 0 .req (.host 0) (.host 0), .update true ⟨0, 0, 0, 0⟩ true 0, .release 0, .update true thr1 true 0]
     (curMgr s).cur.req = 1 ∧ s.live = [] ∧ (acquire s 2 .req (.host 0) (.host 0)).2 = false) ∧
    zeroStable Code.gen (init ⟨0, 0, 0, 0⟩ 1) [.acquire 0 .req (.host 0) (.host 0), .update true thr1 true 0, .release 0] = false := by
  decide

-- non-vacuity: a zero-stable history with units in flight over updates through both mutators, a type change and changed thresholds
def histOk : List Op :=
  [.acquire 0 .req (.host 0) (.host 0), .acquire 1 .retr (.info 0) (.info 0), .update true ⟨2, 0, 2, 1⟩ true 0,
   .acquire 2 .req (.host 0) (.host 0), .update false ⟨1, 0, 1, 1⟩ false 1, .acquire 4 .req (.host 1) (.host 1), .release 0,
   .acquire 9 .conn (.info 2) (.host 1), .release 1, .release 2, .release 9]
example : zeroStable Code.gen (init thr1 1) histOk = true := by decide
example : (curMgr (run Code.gen (init thr1 1) (histOk.take 6))).cur = ⟨0, 0, 2, 1⟩ ∧
    (curMgr (run Code.gen (init thr1 1) (histOk.take 6))).max = ⟨1, 0, 1, 1⟩ ∧
    (run Code.gen (init thr1 1) histOk).live = [] ∧ (curMgr (run Code.gen (init thr1 1) histOk)).cur = ⟨0, 0, 0, 0⟩ := by decide
-- thresholds_follow_last_update: the request `4` above was refused at the NEW threshold 1 against the two admitted before the update
example : (acquire (run Code.gen (init thr1 1) (histOk.take 5)) 4 .req (.host 1) (.host 1)).2 = false := by decide
-- the histories of the harness: zero-stable by name, with a refusal at the new threshold, and the predicate is not trivially true
def shist : List SOp := [.start 0, .retry 0, .update true 0 ⟨1, 0, 2, 1⟩, .start 1, .update false 1 ⟨1, 0, 1, 1⟩, .start 2, .open_ 0,
  .retry 1, .fin 0, .fin 1, .close 0]
example : (Ref.init thr1).zeroStable shist = true := by decide
example : (refTrace (Ref.init thr1) shist).map (·.out) = [.a, .r, .u, .a, .u, .o, .a, .v, .e, .n, .e] := by decide
example : Spec.holds thr1 [.start 0, .retry 0, .update true 0 thr1, .fin 0]
    (objTrace Code.copy (Hist.init thr1) [.start 0, .retry 0, .update true 0 thr1, .fin 0]) = false := by decide
-- (a request slot alone is masked under `AddOrUpdatePrimaryCluster`: the inherited host is pointed at the new info, the decrement
-- follows the copy; through `AddOrUpdateClusterAndHost` the pool keeps the old host object and the copy stays for ever)
example : Spec.holds thr1 [.start 0, .update true 0 thr1, .fin 0]
    (objTrace Code.copy (Hist.init thr1) [.start 0, .update true 0 thr1, .fin 0]) = true ∧
    Spec.holds thr1 [.start 0, .update false 0 thr1, .fin 0]
    (objTrace Code.copy (Hist.init thr1) [.start 0, .update false 0 thr1, .fin 0]) = false := by decide
example : Inv (init thr1 1) := inv_init _ _
end Share10

end MosnVerif.Props.C10
