import MosnVerif.Lemmas.PoolSpec
import MosnVerif.Lemmas.StreamOnce
import MosnVerif.Lemmas.PoolMuxSpec
/-!
# C09 — upstream connection pools: exclusive leases, no leaks, no dirty reuse (property theorems only)

All theorems are about `Model/Pool.lean` (HTTP/1 pool and xprotocol ping-pong pool, both `Kind`s), whose decisions are
the regenerated functions of `Gen/Pool.lean`, and hold for EVERY pool configuration (`maxConn`, `maxReq`), EVERY list
of operations {new stream (connect ok | refused | timed out), response (with/without `Connection: close`), garbage reply, local
reset, late reset of a finished stream, go-away, unknown-id reply, connection close by either side, Shutdown, Close,
load on the shared requests breaker from other pools} and every intermediate state (`reach`).
-/
namespace MosnVerif.Props.C09
open MosnVerif.Model.Pool MosnVerif.Gen.Pool

/-- the state after an arbitrary operation list against a fresh pool -/
def reach (k : Kind) (maxConn maxReq : Nat) (ops : List Op) : State := run (init k maxConn maxReq) ops

/-- connection `c` is leased: some in-flight (not yet destroyed) stream runs on it -/
def Leased (s : State) (c : Nat) : Prop := ∃ i, i < s.nStreams ∧ (s.stream i).live = true ∧ (s.stream i).conn = c
/-- connection `c` sits in the pool's idle list -/
def Idle (s : State) (c : Nat) : Prop := c ∈ s.idle
/-- truth: the TCP connection of `c` is gone -/
def Closed (s : State) (c : Nat) : Prop := (s.client c).netOpen = false

theorem reach_inv (k : Kind) (maxConn maxReq : Nat) (ops : List Op) : Inv (reach k maxConn maxReq ops) :=
  inv_run _ (inv_init k maxConn maxReq) ops

/-- **partition**: at every quiescent point each connection the pool ever made is in exactly one of the states
{leased to a request, idle in the pool, closed}; and the pool's `closed` flag tells the truth. -/
theorem partition (k : Kind) (maxConn maxReq : Nat) (ops : List Op) (c : Nat)
    (hc : c < (reach k maxConn maxReq ops).nClients) :
    let s := reach k maxConn maxReq ops
    (Leased s c ∨ Idle s c ∨ Closed s c) ∧ ¬(Leased s c ∧ Idle s c) ∧ ¬(Leased s c ∧ Closed s c) ∧
    ¬(Idle s c ∧ Closed s c) ∧ ((s.client c).closed = !(s.client c).netOpen) := by
  intro s
  have h : Inv s := reach_inv k maxConn maxReq ops
  have hft := h.flagTruth c hc
  refine ⟨?_, ?_, ?_, ?_, ?_⟩
  · cases hcl : (s.client c).closed
    · rcases h.noLeak c hc hcl with h1 | h1
      · exact Or.inr (Or.inl h1)
      · exact Or.inl h1
    · right; right; show (s.client c).netOpen = false; rw [hft, hcl]; rfl
  · rintro ⟨⟨i, hi, hl, hcc⟩, hidle⟩; exact (h.idleOk c hidle).2.2 i hi hl hcc
  · rintro ⟨⟨i, hi, hl, hcc⟩, hcl⟩
    have h1 := h.liveOk i hi hl
    rw [hcc] at h1
    have h2 : (s.client c).netOpen = false := hcl
    rw [hft, h1] at h2; exact absurd h2 (by decide)
  · rintro ⟨hidle, hcl⟩
    have h1 := (h.idleOk c hidle).2.1
    have h2 : (s.client c).netOpen = false := hcl
    rw [hft, h1] at h2; exact absurd h2 (by decide)
  · rw [hft]; cases (s.client c).closed <;> rfl

/-- **books**: `totalClientCount` equals (number of in-flight streams) + (length of the idle list), the idle list
has no duplicates, and the shared requests breaker counts exactly the in-flight streams plus the slots held elsewhere
(it counts nothing when its limit is 0). Together with `exclusive` the first summand is the number of leased
connections. -/
theorem books (k : Kind) (maxConn maxReq : Nat) (ops : List Op) :
    let s := reach k maxConn maxReq ops
    s.total = (s.liveCount : Int) + (s.idle.length : Int) ∧ s.idle.Nodup ∧
    s.reqCur = (if s.maxReq = 0 then 0 else (s.ext : Int) + (s.liveCount : Int)) := by
  intro s
  have h : Inv s := reach_inv k maxConn maxReq ops
  exact ⟨h.books, h.idleNodup, h.req⟩

/-- the counters never go below zero (no wrap-around of the unsigned `totalClientCount`). -/
theorem counters_nonneg (k : Kind) (maxConn maxReq : Nat) (ops : List Op) :
    0 ≤ (reach k maxConn maxReq ops).total ∧ 0 ≤ (reach k maxConn maxReq ops).reqCur := by
  have h := reach_inv k maxConn maxReq ops
  refine ⟨by rw [h.books]; omega, ?_⟩
  rw [h.req]; split <;> omega

/-- **exclusive**: a ping-pong connection carries at most one in-flight stream. -/
theorem exclusive (k : Kind) (maxConn maxReq : Nat) (ops : List Op) (i j : Nat) :
    let s := reach k maxConn maxReq ops
    i < s.nStreams → j < s.nStreams → (s.stream i).live = true → (s.stream j).live = true →
    (s.stream i).conn = (s.stream j).conn → i = j := by
  intro s
  exact (reach_inv k maxConn maxReq ops).excl i j

/-- **clean_reuse**, first half: a connection on which some request was reset (local reset / timeout, remote reset,
connection failure) is closed at the next quiescent point — it is neither idle nor leased any more. -/
theorem clean_reuse (k : Kind) (maxConn maxReq : Nat) (ops : List Op) (i : Nat) :
    let s := reach k maxConn maxReq ops
    i < s.nStreams → (s.stream i).resets ≠ [] →
    Closed s (s.stream i).conn ∧ ¬ Idle s (s.stream i).conn ∧ ¬ Leased s (s.stream i).conn := by
  intro s hi hr
  have h : Inv s := reach_inv k maxConn maxReq ops
  have hcn := h.connOk i hi
  have hcl := h.dirtyClosed _ hcn (h.resetDirty i hi hr)
  refine ⟨by show (s.client _).netOpen = false; rw [h.flagTruth _ hcn, hcl]; rfl, ?_, ?_⟩
  · intro hidle; have := (h.idleOk _ hidle).2.1; rw [hcl] at this; exact absurd this (by decide)
  · rintro ⟨j, hj, hl, hcc⟩; have := h.liveOk j hj hl; rw [hcc, hcl] at this; exact absurd this (by decide)

/-- **clean_reuse**, second half: every earlier exchange on a connection that is idle or leased completed cleanly:
it received exactly one response and was never reset. -/
theorem clean_history (k : Kind) (maxConn maxReq : Nat) (ops : List Op) (i : Nat) :
    let s := reach k maxConn maxReq ops
    i < s.nStreams → (s.stream i).live = false → (Idle s (s.stream i).conn ∨ Leased s (s.stream i).conn) →
    (s.stream i).recv = 1 ∧ (s.stream i).resets = [] := by
  intro s hi hl hopen
  have h : Inv s := reach_inv k maxConn maxReq ops
  have hnr : (s.stream i).resets = [] := by
    cases hr : (s.stream i).resets with
    | nil => rfl
    | cons a r =>
      have := clean_reuse k maxConn maxReq ops i hi (by show (s.stream i).resets ≠ []; rw [hr]; simp)
      rcases hopen with ho | ho
      · exact absurd ho this.2.1
      · exact absurd ho this.2.2
  rcases h.deadWhy i hi hl with h1 | h1
  · exact ⟨h1, hnr⟩
  · exact absurd hnr h1

/-- **no_leak**, first half: a refused or failed `NewStream` (requests breaker full, connection limit reached,
connect failure) leaves the whole state — books and truth — exactly as it was. Holds in every state. -/
theorem no_leak (s : State) (dial : Dial) (h : (newStream s dial).2.isOk = false) :
    (newStream s dial).1 = s := newStream_refused s dial h

/-- `no_leak` for a failed dial spelled out: when no idle connection exists the call dials; whether the connect is
refused (`api.ConnectFailed`) or times out (`api.ConnectTimeout`) the call is not granted and the slot it took for the
new connection is free again (`totalClientCount` and everything else exactly as before). The counter movements of the
failure branch and of both event branches are regenerated (`h1DialFailDelta`, `ppDialFailDelta`). -/
theorem dial_failure_releases_slot (s : State) (dial : Dial) (hf : dial.fails = true) (hidle : s.idle = []) :
    (newStream s dial).2.isOk = false ∧ (newStream s dial).1 = s := by
  have h1 : (newStream s dial).2.isOk = false := by
    rw [newStream_isOk, acquire_isOk, hidle]
    simp [hf]
  exact ⟨h1, newStream_refused s dial h1⟩

/-- **no_leak**, second half (capacity comes back): in every reachable state a lease is granted exactly when the
requests breaker has room and fewer than `maxConn` connections are really leased (and a connection can be had).
Capacity therefore depends only on the truth, never on history: whatever finished, failed or was refused before. -/
theorem capacity_restored (k : Kind) (maxConn maxReq : Nat) (ops : List Op) (dial : Dial) :
    let s := reach k maxConn maxReq ops
    (newStream s dial).2.isOk = true ↔
      ((maxReq = 0 ∨ s.ext + s.liveCount < maxReq) ∧ (maxConn = 0 ∨ s.liveCount < maxConn) ∧
       (dial.fails = false ∨ s.idle ≠ [])) := by
  intro s
  have h : Inv s := reach_inv k maxConn maxReq ops
  have hk : s.maxConn = maxConn ∧ s.maxReq = maxReq := by
    have := run_cfg (init k maxConn maxReq) ops
    exact ⟨this.2.1, this.2.2⟩
  have := granted_iff s h dial
  rw [hk.1, hk.2] at this
  exact this

/-- **destroy_once**: every stream tells its listeners of its destruction at most once, exactly once when it is no
longer in flight; it hands over at most one response, and none after a reset. -/
theorem destroy_once (k : Kind) (maxConn maxReq : Nat) (ops : List Op) (i : Nat) :
    let s := reach k maxConn maxReq ops
    i < s.nStreams →
    (s.stream i).destroys ≤ 1 ∧ ((s.stream i).destroys = 0 ↔ (s.stream i).live = true) ∧
    (s.stream i).recv ≤ 1 ∧ (s.stream i).resets.length ≤ 1 ∧ ((s.stream i).recv = 1 → (s.stream i).resets = []) := by
  intro s hi
  have h : Inv s := reach_inv k maxConn maxReq ops
  cases hl : (s.stream i).live
  · have ⟨d1, d2, d3, d4⟩ := h.deadOnce i hi hl
    exact ⟨by omega, by simp [d1], d2, d3, d4⟩
  · have ⟨f1, f2, f3⟩ := h.liveFresh i hi hl
    exact ⟨by omega, by simp [f3], by omega, by simp [f2], by intro; exact f2⟩

/-- the executable predicate evaluated on the implementation's observations holds of every model observation. -/
theorem spec_holds_on_model (k : Kind) (maxConn maxReq : Nat) (ops : List Op) :
    let s := reach k maxConn maxReq ops
    obsSpec s.maxReq s.ext (obsOf s) = true ∧
    ∀ f : Dial, newStreamSpec s.maxConn s.maxReq s.ext f.fails (obsOf s) (newStream s f).2.isOk (obsOf (newStream s f).1) = true := by
  intro s
  have h : Inv s := reach_inv k maxConn maxReq ops
  exact ⟨obsSpec_holds s h, fun f => newStreamSpec_holds s h f⟩

/-! ### non-vacuity: concrete histories reaching the interesting states -/
-- reuse after a clean exchange: the same connection serves the second request
example : ((trace (init .h1 1 1) [.newStream .ok, .response 0 false, .newStream .ok]).map (·.1)) =
    [.ok 0, .none, .ok 0] := by decide
-- local reset: the connection is closed, the next request gets a new one; books are back to 1
example : let s := reach .pp 1 0 [.newStream .ok, .localReset 0, .newStream .ok]
    (s.client 0).netOpen = false ∧ s.idle = [] ∧ s.total = 1 ∧ (s.stream 1).conn = 1 := by decide
-- requests breaker full (held by another pool): refusal, no connection made, capacity back after release
example : ((trace (init .h1 2 1) [.extInc, .newStream .ok, .extDec, .newStream .ok]).map (·.1)) =
    [.none, .overflow, .none, .ok 0] := by decide
example : (reach .h1 2 1 [.extInc, .newStream .ok]).nClients = 0 := by decide
-- max_connections dial timeouts in a row, then a dial that succeeds: the slots were all given back
example : ((trace (init .h1 2 0) [.newStream .timeout, .newStream .timeout, .newStream .timeout, .newStream .ok, .newStream .refused, .newStream .ok]).map (·.1)) =
    [.connFail true, .connFail true, .connFail true, .ok 0, .connFail false, .ok 1] := by decide
example : (reach .h1 2 0 [.newStream .timeout, .newStream .timeout]).total = 0 := by decide
example : (reach .pp 1 0 [.newStream .timeout, .newStream .refused]).total = 0 := by decide
-- connection limit reached, then freed by a remote close of the leased connection
example : ((trace (init .pp 1 0) [.newStream .ok, .newStream .ok, .connClose 0 true, .newStream .ok]).map (·.1)) =
    [.ok 0, .overflow, .none, .ok 1] := by decide

/-! ## concurrent `ResetStream` / `DestroyStream` calls on one stream (the schedules of the quantifier)

`Model/StreamOnce.lean`: any number of goroutines, each issuing any list of `ResetStream` / `DestroyStream` calls on ONE
`BaseStream`, interleaved step by step (atomic accesses of `state`, `Lock` / `Unlock`, listener loops) by an arbitrary
schedule.  The step programs are regenerated (`Gen/StreamOnce.lean`). -/
section Concurrent
open MosnVerif.Model.StreamOnce MosnVerif.Gen.StreamOnce

/-- the tie's precondition: in the Go source every atomic access of `state` and every `Lock` of the two methods is
directly preceded by a verif yield point naming it, so the harness' scheduler can stop a goroutine before each. -/
theorem yield_sites_cover_atomics : yieldCovered = true := by decide

/-- the regenerated programs are in the class the invariant is proved for: `DestroyStream` passes ONE compare-and-swap
from the live state before anything else it does to the stream; `ResetStream` only load-guards, notifies and calls it. -/
theorem gen_progs_good : good genProgs = true := by decide

/-- for EVERY pair of step programs of that class, every set of goroutines and every schedule. -/
theorem destroy_once_concurrent_of_good (P : Progs) (hP : good P = true) (ts : List (List Call)) (sched : List Nat) :
    let c := (Conf.init P ts).run P sched
    c.destroys ≤ 1 ∧ (c.state = 0 → c.destroys = 0) ∧ c.resets ≤ resetCalls ts * rcount P.reset ∧
    (c.done = true → (∃ l ∈ ts, l ≠ []) → c.destroys = 1 ∧ c.state ≠ 0) := by
  intro c
  simp only [good, Bool.and_eq_true, beq_iff_eq] at hP
  obtain ⟨⟨hgd, hgr⟩, hrc⟩ := hP
  obtain ⟨new, body, hD⟩ := goodD_shape P.destroy hgd
  have hinv : Inv new body ts c := inv_run hD _ (inv_init hD hgr ts) sched
  have hFd : c.destroys ≤ F c := by simp only [F]; omega
  have hG : c.resets ≤ resetCalls ts * rcount P.reset := by
    have h1 := G_run P hrc (Conf.init P ts) sched
    rw [G_init P hrc ts] at h1
    have h2 : c.resets ≤ G c := by simp only [G]; omega
    exact Nat.le_trans h2 h1
  refine ⟨?_, ?_, hG, ?_⟩
  · by_cases hs : c.state = 0
    · have := (hinv.live hs).1; omega
    · have := hinv.dead hs; omega
  · intro hs; have := (hinv.live hs).1; omega
  · intro hdone ⟨l0, hl0, hne⟩
    have hall : ∀ l ∈ c.threads, l = [] := by
      intro l hl
      have := List.all_eq_true.mp hdone l hl
      simpa using this
    have hs : c.state ≠ 0 := by
      intro hs
      obtain ⟨t, ht⟩ := List.getElem?_of_mem hl0
      obtain ⟨l, hl, hw⟩ := (hinv.live hs).2.2 t l0 ht hne
      rw [hall l (List.mem_of_getElem? hl)] at hw
      exact absurd hw (by decide)
    have hF := hinv.dead hs
    have hz : (c.threads.map fires).sum = 0 :=
      sum_zero_of_all fires _ (fun x hx => by rw [hall x hx]; rfl)
    simp only [F, hz] at hF
    exact ⟨by omega, hs⟩

/-- **destroy_once_concurrent**: for every number of goroutines, every list of `ResetStream` / `DestroyStream` calls
each of them issues on one stream and EVERY schedule of their atomic steps, the destroy listeners are notified at most
once, and never while `state` still says the stream is live; the reset listeners are notified at most once per
`ResetStream` call — at most once when at most one of the overlapping calls is a `ResetStream` (a timeout's reset
overlapping the completion's `DestroyStream`). -/
theorem destroy_once_concurrent (ts : List (List Call)) (sched : List Nat) :
    let c := (Conf.init genProgs ts).run genProgs sched
    c.destroys ≤ 1 ∧ (c.state = 0 → c.destroys = 0) ∧ c.resets ≤ resetCalls ts ∧ (resetCalls ts ≤ 1 → c.resets ≤ 1) := by
  intro c
  have h := destroy_once_concurrent_of_good genProgs gen_progs_good ts sched
  have hr : rcount genProgs.reset = 1 := by decide
  rw [hr, Nat.mul_one] at h
  exact ⟨h.1, h.2.1, h.2.2.1, fun h1 => Nat.le_trans h.2.2.1 h1⟩

/-- … and exactly once as soon as every call has returned (at least one call was made): no schedule loses the
destruction, whoever wins the CAS delivers it. -/
theorem destroy_exactly_once_when_returned (ts : List (List Call)) (sched : List Nat)
    (hcall : ∃ l ∈ ts, l ≠ []) (hdone : ((Conf.init genProgs ts).run genProgs sched).done = true) :
    ((Conf.init genProgs ts).run genProgs sched).destroys = 1 ∧ ((Conf.init genProgs ts).run genProgs sched).state ≠ 0 :=
  (destroy_once_concurrent_of_good genProgs gen_progs_good ts sched).2.2.2 hdone hcall

/-- the executable predicate of the `once` cases holds of every model configuration. -/
theorem once_spec_holds_on_model (ts : List (List Call)) (sched : List Nat) :
    let c := (Conf.init genProgs ts).run genProgs sched
    onceSpec (resetCalls ts) (ts.map List.length).sum c.done c.state c.resets c.destroys = true := by
  intro c
  have h := destroy_once_concurrent ts sched
  have hcalls : (ts.map List.length).sum ≠ 0 → ∃ l ∈ ts, l ≠ [] := by
    intro hn
    by_cases hex : ∃ l ∈ ts, l ≠ []
    · exact hex
    · exfalso; apply hn
      have : ∀ l ∈ ts, l = [] := fun l hl => Classical.byContradiction (fun hne => hex ⟨l, hl, hne⟩)
      clear hn hex h
      induction ts with
      | nil => rfl
      | cons a r ih =>
        simp only [List.map_cons, List.sum_cons]
        rw [this a (by simp), ih (fun l hl => this l (by simp [hl]))]; rfl
  simp only [onceSpec, Bool.and_eq_true, Bool.or_eq_true, decide_eq_true_eq, Bool.not_eq_true', beq_iff_eq, bne_iff_ne, ne_eq]
  refine ⟨⟨⟨h.1, h.2.2.1⟩, ?_⟩, ?_⟩
  · by_cases hd : c.done = true
    · by_cases hn : (ts.map List.length).sum = 0
      · exact Or.inl (Or.inr hn)
      · have := destroy_exactly_once_when_returned ts sched (hcalls hn) hd
        exact Or.inr ⟨this.1, this.2⟩
    · left; left; simpa using hd
  · by_cases hz : c.destroys = 0
    · exact Or.inl hz
    · right; intro hs; exact hz (h.2.1 hs)

/-! ### witnesses (machine-checked) -/
-- the exactly-once guard written as "load, then store under the stream lock": two destroyers that both load before
-- either stores notify the destroy listeners TWICE (goroutines 0 and 1 each issue one DestroyStream)
example : ((Conf.init loadStoreProgs [[.destroy], [.destroy]]).run loadStoreProgs
    [0, 0, 1, 1, 0, 0, 0, 0, 0, 0, 0, 1, 1, 1, 1, 1, 1, 1]).destroys = 2 := by decide
-- the same with the seeded overlap: a timeout's ResetStream (goroutine 0) is still notifying its listeners when the
-- completion's DestroyStream (goroutine 1) passes its load
example : ((Conf.init loadStoreProgs [[.reset], [.destroy]]).run loadStoreProgs
    [0, 0, 0, 0, 1, 1, 0, 0, 0, 0, 0, 0, 0, 0, 0, 0, 0, 0, 1, 1, 1, 1, 1, 1, 1]).destroys = 2 := by decide
example : good loadStoreProgs = false := by decide
-- the current code under the same schedules: once
example : ((Conf.init genProgs [[.reset], [.destroy]]).run genProgs
    [0, 0, 0, 0, 1, 1, 0, 0, 0, 0, 0, 0, 0, 0, 0, 0, 0, 0, 1, 1, 1, 1, 1, 1, 1]).destroys = 1 := by decide
-- a quirk of the code that exists, outside the property: two OVERLAPPING ResetStream calls both pass the load guard
-- and both notify OnResetStream (the destroy still happens once) — hence "at most once per ResetStream call"
def twoResets : Conf := (Conf.init genProgs [[.reset], [.reset]]).run genProgs
  ([0, 0, 1, 1] ++ List.replicate 14 0 ++ List.replicate 8 1)
example : twoResets.resets = 2 ∧ twoResets.destroys = 1 ∧ twoResets.done = true := by decide
-- non-vacuity of `done`: a complete schedule exists
example : ((Conf.init genProgs [[.reset, .destroy], [.destroy]]).run genProgs
    ((List.replicate 25 0) ++ (List.replicate 10 1))).done = true := by decide

end Concurrent

/-! ## the multiplex pool (`Model/PoolMux.lean`): slots, shared connections, go-away

Every operation list {CheckAndInit (slot from the context | round robin; dial ok | refused | timed out), NewStream,
response, local reset, garbage, go-away, connection close by either side, Shutdown, Close, load on the shared requests
breaker}, every `max_connections` / `max_requests`. -/
section Mux
open MosnVerif.Model

/-- the state after an arbitrary operation list against a fresh multiplex pool -/
def mreach (maxConn maxReq : Nat) (ops : List PoolMux.Op) : PoolMux.State := PoolMux.run (PoolMux.init maxConn maxReq) ops

theorem mux_reach_inv (maxConn maxReq : Nat) (ops : List PoolMux.Op) : PoolMux.Inv (mreach maxConn maxReq ops) :=
  PoolMux.inv_run _ (PoolMux.inv_init maxConn maxReq) ops

/-- **books** (multiplex): the shared requests breaker counts exactly the requests in flight plus the slots held
elsewhere (nothing when its limit is 0); it never goes negative; both upstream request_active gauges (host, cluster)
count exactly the requests in flight.  "In flight" = streams with a receiver that have not ended: a one-way request
(`Op.newStreamOneway`) is never among them. -/
theorem mux_books (maxConn maxReq : Nat) (ops : List PoolMux.Op) :
    let s := mreach maxConn maxReq ops
    s.reqCur = (if s.maxReq = 0 then 0 else (s.ext : Int) + (s.liveCount : Int)) ∧ 0 ≤ s.reqCur ∧
    s.actHost = (s.liveCount : Int) ∧ s.actCluster = (s.liveCount : Int) := by
  intro s
  have hinv : PoolMux.Inv s := mux_reach_inv maxConn maxReq ops
  have h := hinv.core.req
  refine ⟨h, ?_, hinv.core.act.1, hinv.core.act.2⟩
  rw [h]; split <;> omega

/-- **a one-way request holds nothing**: in every reachable state, for every slot, `NewStream(ctx, nil)` — admitted or
refused — leaves the requests breaker, both request_active gauges, the slots, the connections and the streams exactly as
they were (the whole state): a one-way client stream is never destroyed or reset, so nothing could give a slot or a
gauge unit back.  Consequently any number of one-way requests changes neither the books nor the answer of the breaker
to the next request.  (Proved from the regenerated movements of the `receiver == nil` path of `NewStream`,
`Gen.PoolMuxMoves.muxLeaseMoves true`: with the one-way branch merged into the ordinary one this stops checking.) -/
theorem oneway_holds_nothing (maxConn maxReq : Nat) (ops : List PoolMux.Op) (k : Nat) :
    let s := mreach maxConn maxReq ops
    (PoolMux.step s (.newStreamOneway k)).1 = s ∧
    (∀ n, PoolMux.run s (List.replicate n (.newStreamOneway k)) = s) ∧
    (∀ c, (PoolMux.step s (.newStreamOneway k)).2 = .ok c →
      c < s.nClients ∧ (s.client c).netOpen = true ∧ (s.client c).goaway = 0 ∧
      Gen.Pool.canCreate s.maxReq s.reqCur = true) := by
  intro s
  have h : PoolMux.Inv s := mux_reach_inv maxConn maxReq ops
  refine ⟨PoolMux.newStreamOneway_state s k, ?_, ?_⟩
  · intro n
    induction n with
    | zero => rfl
    | succ n ih =>
      show PoolMux.run (PoolMux.step s (.newStreamOneway k)).1 _ = s
      rw [show (PoolMux.step s (.newStreamOneway k)).1 = s from PoolMux.newStreamOneway_state s k]; exact ih
  · intro c
    show (PoolMux.newStreamOneway s k).2 = .ok c → _
    unfold PoolMux.newStreamOneway
    simp only
    split
    · intro hc; cases hc
    split
    · intro hc; cases hc
    · intro hc; cases hc
    · rename_i c0 hs
      split
      · intro hc; cases hc
      · rename_i hu
        split
        · intro hc; cases hc
        · rename_i hcan
          intro hc
          cases hc
          have ⟨h1, _, h3⟩ := h.core.slotOk _ c hs
          have hst : (s.client c).state = Gen.PoolMux.muxConnected := by
            simp only [Gen.PoolMux.muxUnusable, decide_eq_true_eq, ne_eq, Decidable.not_not] at hu; exact hu
          exact ⟨h1, h3 hst, (h.core.st c h1).mp hst, by simpa using hcan⟩

/-- **no_leak** (multiplex): at every quiescent point every OPEN connection the pool ever made is either the
Connected client of its slot (the pool will lease requests on it) or is draining after a go-away with at least one
request still in flight — never open, unused and unreachable. (Fails for the code before the repair: after a go-away
with requests in flight and a re-connect, the drained connection stayed open and its close emptied the successor's
slot.) -/
theorem mux_no_leak (maxConn maxReq : Nat) (ops : List PoolMux.Op) (c : Nat) :
    let s := mreach maxConn maxReq ops
    c < s.nClients → (s.client c).netOpen = true →
    ((s.client c).slot < s.nSlots ∧ s.slot (s.client c).slot = .real c ∧ (s.client c).state = Gen.PoolMux.muxConnected) ∨
    (∃ i, i < s.nStreams ∧ (s.stream i).live = true ∧ (s.stream i).conn = c) := by
  intro s hc ho
  have h : PoolMux.Inv s := mux_reach_inv maxConn maxReq ops
  by_cases hg : (s.client c).goaway = 0
  · left
    have hs := h.core.openOk c hc ho hg
    exact ⟨h.core.slotRange _ c hs, hs, (h.core.st c hc).mpr hg⟩
  · right
    exact PoolMux.exists_of_countOn_pos _ _ _ (h.drain c hc ho hg)

/-- the pool's view is the truth: the Connected client of a slot has an open connection, and a request in flight is
on an open connection. -/
theorem mux_slot_truth (maxConn maxReq : Nat) (ops : List PoolMux.Op) :
    let s := mreach maxConn maxReq ops
    (∀ i c, s.slot i = .real c → (s.client c).state = Gen.PoolMux.muxConnected → c < s.nClients ∧ (s.client c).netOpen = true) ∧
    (∀ i, i < s.nStreams → (s.stream i).live = true → (s.client (s.stream i).conn).netOpen = true) := by
  intro s
  have h : PoolMux.Inv s := mux_reach_inv maxConn maxReq ops
  exact ⟨fun i c hs hst => ⟨(h.core.slotOk i c hs).1, (h.core.slotOk i c hs).2.2 hst⟩,
    fun i hi hl => (h.core.liveOk i hi hl).2⟩

/-- a lease is granted only on an open connection that has not been told to go away; a refusal (no usable client in
the slot, requests breaker full) changes nothing. -/
theorem mux_lease_sound (maxConn maxReq : Nat) (ops : List PoolMux.Op) (k : Nat) :
    let s := mreach maxConn maxReq ops
    (∀ c, (PoolMux.newStream s k).2 = .ok c → c < s.nClients ∧ (s.client c).netOpen = true ∧ (s.client c).goaway = 0) ∧
    ((PoolMux.newStream s k).2.isOk = false → (PoolMux.newStream s k).1 = s) := by
  intro s
  have h : PoolMux.Inv s := mux_reach_inv maxConn maxReq ops
  unfold PoolMux.newStream
  simp only
  split
  · exact ⟨fun c hc => (by cases hc), fun _ => rfl⟩
  split
  · exact ⟨fun c hc => (by cases hc), fun _ => rfl⟩
  · exact ⟨fun c hc => (by cases hc), fun _ => rfl⟩
  · rename_i c0 hs
    split
    · exact ⟨fun c hc => (by cases hc), fun _ => rfl⟩
    · rename_i hu
      split
      · exact ⟨fun c hc => (by cases hc), fun _ => rfl⟩
      · have ⟨h1, _, h3⟩ := h.core.slotOk _ c0 hs
        have hst : (s.client c0).state = Gen.PoolMux.muxConnected := by
          simp only [Gen.PoolMux.muxUnusable, decide_eq_true_eq, ne_eq, Decidable.not_not] at hu; exact hu
        refine ⟨fun c hc => ?_, fun hno => by simp [PoolMux.Res.isOk] at hno⟩
        cases hc
        exact ⟨h1, h3 hst, (h.core.st c0 h1).mp hst⟩

/-- **destroy_once** (multiplex): every stream tells its listeners of its end at most once — exactly once when it is
no longer in flight — and hands over at most one response, none after a reset. -/
theorem mux_destroy_once (maxConn maxReq : Nat) (ops : List PoolMux.Op) (i : Nat) :
    let s := mreach maxConn maxReq ops
    i < s.nStreams →
    (s.stream i).destroys ≤ 1 ∧ ((s.stream i).destroys = 0 ↔ (s.stream i).live = true) ∧
    (s.stream i).recv ≤ 1 ∧ (s.stream i).resets.length ≤ 1 ∧ ((s.stream i).recv = 1 → (s.stream i).resets = []) := by
  intro s hi
  have hinv : PoolMux.Inv s := mux_reach_inv maxConn maxReq ops
  have h := hinv.core.once i hi
  cases hl : (s.stream i).live
  · have ⟨d1, d2, d3, d4⟩ := h.2 hl
    exact ⟨by omega, by simp [d1], d2, d3, d4⟩
  · have ⟨f1, f2, f3⟩ := h.1 hl
    exact ⟨by omega, by simp [f1], by omega, by simp [f3], fun _ => f3⟩

/-- the executable predicate evaluated on the implementation's observations holds of every model observation. -/
theorem mux_spec_holds_on_model (maxConn maxReq : Nat) (ops : List PoolMux.Op) :
    let s := mreach maxConn maxReq ops
    PoolMux.obsSpec s.maxReq s.ext (PoolMux.obsOf s) = true :=
  PoolMux.obsSpec_holds _ (mux_reach_inv maxConn maxReq ops)

/-! ### non-vacuity -/
-- go-away with a request in flight, re-connect, then the old request completes: the drained connection is closed,
-- the successor keeps its slot
example : let s := mreach 1 0 [.checkAndInit (some 0) .ok, .newStream 0, .goAway 0, .checkAndInit (some 0) .ok, .response 0]
    (s.client 0).netOpen = false ∧ s.slot 0 = .real 1 ∧ (s.client 1).netOpen = true := by decide
-- the old connection is lost instead: the successor keeps its slot and serves the next request
example : ((PoolMux.trace (PoolMux.init 1 2) [.checkAndInit (some 0) .ok, .newStream 0, .newStream 0, .goAway 0,
      .checkAndInit (some 0) .ok, .connClose 0 true, .newStream 0]).map (·.1)) =
    [.ready false, .ok 0, .ok 0, .none, .ready false, .none, .ok 1] := by decide
example : (mreach 1 2 [.checkAndInit (some 0) .ok, .newStream 0, .newStream 0, .goAway 0, .connClose 0 true]).reqCur = 0 := by decide
-- one-way requests: granted on the Connected client, and after any number of them the breaker (max_requests = 1) still
-- admits an ordinary request; the gauges count that request only
example : ((PoolMux.trace (PoolMux.init 1 1) [.checkAndInit (some 0) .ok, .newStreamOneway 0, .newStreamOneway 0, .newStreamOneway 0,
      .newStream 0, .newStreamOneway 0]).map (fun x => (x.1, x.2.reqCur, x.2.actHost, x.2.actCluster))) =
    [(.ready false, 0, 0, 0), (.ok 0, 0, 0, 0), (.ok 0, 0, 0, 0), (.ok 0, 0, 0, 0), (.ok 0, 1, 1, 1), (.overflow, 1, 1, 1)] := by decide
-- a dial that is refused or times out leaves the slot empty; the next CheckAndInit connects
example : ((PoolMux.trace (PoolMux.init 2 0) [.checkAndInit (some 1) .timeout, .newStream 1, .checkAndInit (some 1) .refused,
      .checkAndInit (some 1) .ok, .checkAndInit (some 1) .ok, .newStream 1]).map (·.1)) =
    [.ready false, .connFail, .ready false, .ready false, .ready true, .ok 0] := by decide

end Mux

end MosnVerif.Props.C09
