import MosnVerif.Model.PoolSpec
namespace MosnVerif.Props.C09
open MosnVerif.Model.Pool

theorem placeholder : (init .h1 1 1).total = 0 := rfl

end MosnVerif.Props.C09
