import MosnVerif.Lemmas.PoolSpec
import MosnVerif.Lemmas.StreamOnce
import MosnVerif.Lemmas.PoolMuxSpec
import MosnVerif.Lemmas.PoolH2Steps
import MosnVerif.Lemmas.PoolWinWitness
import MosnVerif.Lemmas.PoolMxWin
import MosnVerif.Model.PoolDialWin
/-!
# C09 — upstream connection pools: exclusive leases, no leaks, no dirty reuse (property theorems only)

All theorems are about `Model/Pool.lean` (HTTP/1 pool and xprotocol ping-pong pool, both `Kind`s), whose decisions are
the regenerated functions of `Gen/Pool.lean`, and hold for EVERY pool configuration (`maxConn`, `maxReq`), EVERY list
of operations {new stream (connect ok | refused | timed out), response (with/without `Connection: close`), garbage reply, local
reset, late reset of a finished stream, go-away, unknown-id reply, connection close by either side, Shutdown, Close,
load on the shared requests breaker from other pools} and every intermediate state (`reach`).
-/
namespace MosnVerif.Props.C09
open MosnVerif.Model.Pool MosnVerif.Gen.Pool

/-- the state after an arbitrary operation list against a fresh pool -/
def reach (k : Kind) (maxConn maxReq : Nat) (ops : List Op) : State := run (init k maxConn maxReq) ops

/-- connection `c` is leased: some in-flight (not yet destroyed) stream runs on it -/
def Leased (s : State) (c : Nat) : Prop := ∃ i, i < s.nStreams ∧ (s.stream i).live = true ∧ (s.stream i).conn = c
/-- connection `c` sits in the pool's idle list -/
def Idle (s : State) (c : Nat) : Prop := c ∈ s.idle
/-- truth: the TCP connection of `c` is gone -/
def Closed (s : State) (c : Nat) : Prop := (s.client c).netOpen = false

theorem reach_inv (k : Kind) (maxConn maxReq : Nat) (ops : List Op) : Inv (reach k maxConn maxReq ops) :=
  inv_run _ (inv_init k maxConn maxReq) ops

/-- **partition**: at every quiescent point each connection the pool ever made is in exactly one of the states
{leased to a request, idle in the pool, closed}; and the pool's `closed` flag tells the truth. -/
theorem partition (k : Kind) (maxConn maxReq : Nat) (ops : List Op) (c : Nat)
    (hc : c < (reach k maxConn maxReq ops).nClients) :
    let s := reach k maxConn maxReq ops
    (Leased s c ∨ Idle s c ∨ Closed s c) ∧ ¬(Leased s c ∧ Idle s c) ∧ ¬(Leased s c ∧ Closed s c) ∧
    ¬(Idle s c ∧ Closed s c) ∧ ((s.client c).closed = !(s.client c).netOpen) := by
  intro s
  have h : Inv s := reach_inv k maxConn maxReq ops
  have hft := h.flagTruth c hc
  refine ⟨?_, ?_, ?_, ?_, ?_⟩
  · cases hcl : (s.client c).closed
    · rcases h.noLeak c hc hcl with h1 | h1
      · exact Or.inr (Or.inl h1)
      · exact Or.inl h1
    · right; right; show (s.client c).netOpen = false; rw [hft, hcl]; rfl
  · rintro ⟨⟨i, hi, hl, hcc⟩, hidle⟩; exact (h.idleOk c hidle).2.2 i hi hl hcc
  · rintro ⟨⟨i, hi, hl, hcc⟩, hcl⟩
    have h1 := h.liveOk i hi hl
    rw [hcc] at h1
    have h2 : (s.client c).netOpen = false := hcl
    rw [hft, h1] at h2; exact absurd h2 (by decide)
  · rintro ⟨hidle, hcl⟩
    have h1 := (h.idleOk c hidle).2.1
    have h2 : (s.client c).netOpen = false := hcl
    rw [hft, h1] at h2; exact absurd h2 (by decide)
  · rw [hft]; cases (s.client c).closed <;> rfl

/-- **books**: `totalClientCount` equals (number of in-flight streams) + (length of the idle list), the idle list
has no duplicates, and the shared requests breaker counts exactly the in-flight streams plus the slots held elsewhere
(it counts nothing when its limit is 0). Together with `exclusive` the first summand is the number of leased
connections. -/
theorem books (k : Kind) (maxConn maxReq : Nat) (ops : List Op) :
    let s := reach k maxConn maxReq ops
    s.total = (s.liveCount : Int) + (s.idle.length : Int) ∧ s.idle.Nodup ∧
    s.reqCur = (if s.maxReq = 0 then 0 else (s.ext : Int) + (s.liveCount : Int)) := by
  intro s
  have h : Inv s := reach_inv k maxConn maxReq ops
  exact ⟨h.books, h.idleNodup, h.req⟩

/-- the counters never go below zero (no wrap-around of the unsigned `totalClientCount`). -/
theorem counters_nonneg (k : Kind) (maxConn maxReq : Nat) (ops : List Op) :
    0 ≤ (reach k maxConn maxReq ops).total ∧ 0 ≤ (reach k maxConn maxReq ops).reqCur := by
  have h := reach_inv k maxConn maxReq ops
  refine ⟨by rw [h.books]; omega, ?_⟩
  rw [h.req]; split <;> omega

/-- **exclusive**: a ping-pong connection carries at most one in-flight stream. -/
theorem exclusive (k : Kind) (maxConn maxReq : Nat) (ops : List Op) (i j : Nat) :
    let s := reach k maxConn maxReq ops
    i < s.nStreams → j < s.nStreams → (s.stream i).live = true → (s.stream j).live = true →
    (s.stream i).conn = (s.stream j).conn → i = j := by
  intro s
  exact (reach_inv k maxConn maxReq ops).excl i j

/-- **clean_reuse**, first half: a connection on which some request was reset (local reset / timeout, remote reset,
connection failure) is closed at the next quiescent point — it is neither idle nor leased any more. -/
theorem clean_reuse (k : Kind) (maxConn maxReq : Nat) (ops : List Op) (i : Nat) :
    let s := reach k maxConn maxReq ops
    i < s.nStreams → (s.stream i).resets ≠ [] →
    Closed s (s.stream i).conn ∧ ¬ Idle s (s.stream i).conn ∧ ¬ Leased s (s.stream i).conn := by
  intro s hi hr
  have h : Inv s := reach_inv k maxConn maxReq ops
  have hcn := h.connOk i hi
  have hcl := h.dirtyClosed _ hcn (h.resetDirty i hi hr)
  refine ⟨by show (s.client _).netOpen = false; rw [h.flagTruth _ hcn, hcl]; rfl, ?_, ?_⟩
  · intro hidle; have := (h.idleOk _ hidle).2.1; rw [hcl] at this; exact absurd this (by decide)
  · rintro ⟨j, hj, hl, hcc⟩; have := h.liveOk j hj hl; rw [hcc, hcl] at this; exact absurd this (by decide)

/-- **clean_reuse**, second half: every earlier exchange on a connection that is idle or leased completed cleanly:
it received exactly one response and was never reset. -/
theorem clean_history (k : Kind) (maxConn maxReq : Nat) (ops : List Op) (i : Nat) :
    let s := reach k maxConn maxReq ops
    i < s.nStreams → (s.stream i).live = false → (Idle s (s.stream i).conn ∨ Leased s (s.stream i).conn) →
    (s.stream i).recv = 1 ∧ (s.stream i).resets = [] := by
  intro s hi hl hopen
  have h : Inv s := reach_inv k maxConn maxReq ops
  have hnr : (s.stream i).resets = [] := by
    cases hr : (s.stream i).resets with
    | nil => rfl
    | cons a r =>
      have := clean_reuse k maxConn maxReq ops i hi (by show (s.stream i).resets ≠ []; rw [hr]; simp)
      rcases hopen with ho | ho
      · exact absurd ho this.2.1
      · exact absurd ho this.2.2
  rcases h.deadWhy i hi hl with h1 | h1
  · exact ⟨h1, hnr⟩
  · exact absurd hnr h1

/-- **no_leak**, first half: a refused or failed `NewStream` (requests breaker full, connection limit reached,
connect failure) leaves the whole state — books and truth — exactly as it was. Holds in every state. -/
theorem no_leak (s : State) (dial : Dial) (h : (newStream s dial).2.isOk = false) :
    (newStream s dial).1 = s := newStream_refused s dial h

/-- `no_leak` for a failed dial spelled out: when no idle connection exists the call dials; whether the connect is
refused (`api.ConnectFailed`) or times out (`api.ConnectTimeout`) the call is not granted and the slot it took for the
new connection is free again (`totalClientCount` and everything else exactly as before). The counter movements of the
failure branch and of both event branches are regenerated (`h1DialFailDelta`, `ppDialFailDelta`). -/
theorem dial_failure_releases_slot (s : State) (dial : Dial) (hf : dial.fails = true) (hidle : s.idle = []) :
    (newStream s dial).2.isOk = false ∧ (newStream s dial).1 = s := by
  have h1 : (newStream s dial).2.isOk = false := by
    rw [newStream_isOk, acquire_isOk, hidle]
    simp [hf]
  exact ⟨h1, newStream_refused s dial h1⟩

/-- **no_leak**, second half (capacity comes back): in every reachable state a lease is granted exactly when the
requests breaker has room and fewer than `maxConn` connections are really leased (and a connection can be had).
Capacity therefore depends only on the truth, never on history: whatever finished, failed or was refused before. -/
theorem capacity_restored (k : Kind) (maxConn maxReq : Nat) (ops : List Op) (dial : Dial) :
    let s := reach k maxConn maxReq ops
    (newStream s dial).2.isOk = true ↔
      ((maxReq = 0 ∨ s.ext + s.liveCount < maxReq) ∧ (maxConn = 0 ∨ s.liveCount < maxConn) ∧
       (dial.fails = false ∨ s.idle ≠ [])) := by
  intro s
  have h : Inv s := reach_inv k maxConn maxReq ops
  have hk : s.maxConn = maxConn ∧ s.maxReq = maxReq := by
    have := run_cfg (init k maxConn maxReq) ops
    exact ⟨this.2.1, this.2.2⟩
  have := granted_iff s h dial
  rw [hk.1, hk.2] at this
  exact this

/-- **destroy_once**: every stream tells its listeners of its destruction at most once, exactly once when it is no
longer in flight; it hands over at most one response, and none after a reset. -/
theorem destroy_once (k : Kind) (maxConn maxReq : Nat) (ops : List Op) (i : Nat) :
    let s := reach k maxConn maxReq ops
    i < s.nStreams →
    (s.stream i).destroys ≤ 1 ∧ ((s.stream i).destroys = 0 ↔ (s.stream i).live = true) ∧
    (s.stream i).recv ≤ 1 ∧ (s.stream i).resets.length ≤ 1 ∧ ((s.stream i).recv = 1 → (s.stream i).resets = []) := by
  intro s hi
  have h : Inv s := reach_inv k maxConn maxReq ops
  cases hl : (s.stream i).live
  · have ⟨d1, d2, d3, d4⟩ := h.deadOnce i hi hl
    exact ⟨by omega, by simp [d1], d2, d3, d4⟩
  · have ⟨f1, f2, f3⟩ := h.liveFresh i hi hl
    exact ⟨by omega, by simp [f3], by omega, by simp [f2], by intro; exact f2⟩

/-- the executable predicate evaluated on the implementation's observations holds of every model observation. -/
theorem spec_holds_on_model (k : Kind) (maxConn maxReq : Nat) (ops : List Op) :
    let s := reach k maxConn maxReq ops
    obsSpec s.maxReq s.ext (obsOf s) = true ∧
    ∀ f : Dial, newStreamSpec s.maxConn s.maxReq s.ext f.fails (obsOf s) (newStream s f).2.isOk (obsOf (newStream s f).1) = true := by
  intro s
  have h : Inv s := reach_inv k maxConn maxReq ops
  exact ⟨obsSpec_holds s h, fun f => newStreamSpec_holds s h f⟩

/-! ### non-vacuity: concrete histories reaching the interesting states -/
-- reuse after a clean exchange: the same connection serves the second request
example : ((trace (init .h1 1 1) [.newStream .ok, .response 0 false, .newStream .ok]).map (·.1)) =
    [.ok 0, .none, .ok 0] := by decide
-- local reset: the connection is closed, the next request gets a new one; books are back to 1
example : let s := reach .pp 1 0 [.newStream .ok, .localReset 0, .newStream .ok]
    (s.client 0).netOpen = false ∧ s.idle = [] ∧ s.total = 1 ∧ (s.stream 1).conn = 1 := by decide
-- requests breaker full (held by another pool): refusal, no connection made, capacity back after release
example : ((trace (init .h1 2 1) [.extInc, .newStream .ok, .extDec, .newStream .ok]).map (·.1)) =
    [.none, .overflow, .none, .ok 0] := by decide
example : (reach .h1 2 1 [.extInc, .newStream .ok]).nClients = 0 := by decide
-- max_connections dial timeouts in a row, then a dial that succeeds: the slots were all given back
example : ((trace (init .h1 2 0) [.newStream .timeout, .newStream .timeout, .newStream .timeout, .newStream .ok, .newStream .refused, .newStream .ok]).map (·.1)) =
    [.connFail true, .connFail true, .connFail true, .ok 0, .connFail false, .ok 1] := by decide
example : (reach .h1 2 0 [.newStream .timeout, .newStream .timeout]).total = 0 := by decide
example : (reach .pp 1 0 [.newStream .timeout, .newStream .refused]).total = 0 := by decide
-- connection limit reached, then freed by a remote close of the leased connection
example : ((trace (init .pp 1 0) [.newStream .ok, .newStream .ok, .connClose 0 true, .newStream .ok]).map (·.1)) =
    [.ok 0, .overflow, .none, .ok 1] := by decide

/-! ## concurrent `ResetStream` / `DestroyStream` calls on one stream (the schedules of the quantifier)

`Model/StreamOnce.lean`: any number of goroutines, each issuing any list of `ResetStream` / `DestroyStream` calls on ONE
`BaseStream`, interleaved step by step (atomic accesses of `state`, `Lock` / `Unlock`, listener loops) by an arbitrary
schedule.  The step programs are regenerated (`Gen/StreamOnce.lean`). -/
section Concurrent
open MosnVerif.Model.StreamOnce MosnVerif.Gen.StreamOnce

/-- the tie's precondition: in the Go source every atomic access of `state` and every `Lock` of the two methods is
directly preceded by a verif yield point naming it, so the harness' scheduler can stop a goroutine before each. -/
theorem yield_sites_cover_atomics : yieldCovered = true := by decide

/-- the regenerated programs are in the class the invariant is proved for: `DestroyStream` passes ONE compare-and-swap
from the live state before anything else it does to the stream; `ResetStream` only load-guards, notifies and calls it. -/
theorem gen_progs_good : good genProgs = true := by decide

/-- for EVERY pair of step programs of that class, every set of goroutines and every schedule. -/
theorem destroy_once_concurrent_of_good (P : Progs) (hP : good P = true) (ts : List (List Call)) (sched : List Nat) :
    let c := (Conf.init P ts).run P sched
    c.destroys ≤ 1 ∧ (c.state = 0 → c.destroys = 0) ∧ c.resets ≤ resetCalls ts * rcount P.reset ∧
    (c.done = true → (∃ l ∈ ts, l ≠ []) → c.destroys = 1 ∧ c.state ≠ 0) := by
  intro c
  simp only [good, Bool.and_eq_true, beq_iff_eq] at hP
  obtain ⟨⟨hgd, hgr⟩, hrc⟩ := hP
  obtain ⟨new, body, hD⟩ := goodD_shape P.destroy hgd
  have hinv : Inv new body ts c := inv_run hD _ (inv_init hD hgr ts) sched
  have hFd : c.destroys ≤ F c := by simp only [F]; omega
  have hG : c.resets ≤ resetCalls ts * rcount P.reset := by
    have h1 := G_run P hrc (Conf.init P ts) sched
    rw [G_init P hrc ts] at h1
    have h2 : c.resets ≤ G c := by simp only [G]; omega
    exact Nat.le_trans h2 h1
  refine ⟨?_, ?_, hG, ?_⟩
  · by_cases hs : c.state = 0
    · have := (hinv.live hs).1; omega
    · have := hinv.dead hs; omega
  · intro hs; have := (hinv.live hs).1; omega
  · intro hdone ⟨l0, hl0, hne⟩
    have hall : ∀ l ∈ c.threads, l = [] := by
      intro l hl
      have := List.all_eq_true.mp hdone l hl
      simpa using this
    have hs : c.state ≠ 0 := by
      intro hs
      obtain ⟨t, ht⟩ := List.getElem?_of_mem hl0
      obtain ⟨l, hl, hw⟩ := (hinv.live hs).2.2 t l0 ht hne
      rw [hall l (List.mem_of_getElem? hl)] at hw
      exact absurd hw (by decide)
    have hF := hinv.dead hs
    have hz : (c.threads.map fires).sum = 0 :=
      sum_zero_of_all fires _ (fun x hx => by rw [hall x hx]; rfl)
    simp only [F, hz] at hF
    exact ⟨by omega, hs⟩

/-- **destroy_once_concurrent**: for every number of goroutines, every list of `ResetStream` / `DestroyStream` calls
each of them issues on one stream and EVERY schedule of their atomic steps, the destroy listeners are notified at most
once, and never while `state` still says the stream is live; the reset listeners are notified at most once per
`ResetStream` call — at most once when at most one of the overlapping calls is a `ResetStream` (a timeout's reset
overlapping the completion's `DestroyStream`). -/
theorem destroy_once_concurrent (ts : List (List Call)) (sched : List Nat) :
    let c := (Conf.init genProgs ts).run genProgs sched
    c.destroys ≤ 1 ∧ (c.state = 0 → c.destroys = 0) ∧ c.resets ≤ resetCalls ts ∧ (resetCalls ts ≤ 1 → c.resets ≤ 1) := by
  intro c
  have h := destroy_once_concurrent_of_good genProgs gen_progs_good ts sched
  have hr : rcount genProgs.reset = 1 := by decide
  rw [hr, Nat.mul_one] at h
  exact ⟨h.1, h.2.1, h.2.2.1, fun h1 => Nat.le_trans h.2.2.1 h1⟩

/-- … and exactly once as soon as every call has returned (at least one call was made): no schedule loses the
destruction, whoever wins the CAS delivers it. -/
theorem destroy_exactly_once_when_returned (ts : List (List Call)) (sched : List Nat)
    (hcall : ∃ l ∈ ts, l ≠ []) (hdone : ((Conf.init genProgs ts).run genProgs sched).done = true) :
    ((Conf.init genProgs ts).run genProgs sched).destroys = 1 ∧ ((Conf.init genProgs ts).run genProgs sched).state ≠ 0 :=
  (destroy_once_concurrent_of_good genProgs gen_progs_good ts sched).2.2.2 hdone hcall

/-- the executable predicate of the `once` cases holds of every model configuration. -/
theorem once_spec_holds_on_model (ts : List (List Call)) (sched : List Nat) :
    let c := (Conf.init genProgs ts).run genProgs sched
    onceSpec (resetCalls ts) (ts.map List.length).sum c.done c.state c.resets c.destroys = true := by
  intro c
  have h := destroy_once_concurrent ts sched
  have hcalls : (ts.map List.length).sum ≠ 0 → ∃ l ∈ ts, l ≠ [] := by
    intro hn
    by_cases hex : ∃ l ∈ ts, l ≠ []
    · exact hex
    · exfalso; apply hn
      have : ∀ l ∈ ts, l = [] := fun l hl => Classical.byContradiction (fun hne => hex ⟨l, hl, hne⟩)
      clear hn hex h
      induction ts with
      | nil => rfl
      | cons a r ih =>
        simp only [List.map_cons, List.sum_cons]
        rw [this a (by simp), ih (fun l hl => this l (by simp [hl]))]; rfl
  simp only [onceSpec, Bool.and_eq_true, Bool.or_eq_true, decide_eq_true_eq, Bool.not_eq_true', beq_iff_eq, bne_iff_ne, ne_eq]
  refine ⟨⟨⟨h.1, h.2.2.1⟩, ?_⟩, ?_⟩
  · by_cases hd : c.done = true
    · by_cases hn : (ts.map List.length).sum = 0
      · exact Or.inl (Or.inr hn)
      · have := destroy_exactly_once_when_returned ts sched (hcalls hn) hd
        exact Or.inr ⟨this.1, this.2⟩
    · left; left; simpa using hd
  · by_cases hz : c.destroys = 0
    · exact Or.inl hz
    · right; intro hs; exact hz (h.2.1 hs)

/-! ### witnesses (machine-checked) -/
-- the exactly-once guard written as "load, then store under the stream lock": two destroyers that both load before
-- either stores notify the destroy listeners TWICE (goroutines 0 and 1 each issue one DestroyStream)
example : ((Conf.init loadStoreProgs [[.destroy], [.destroy]]).run loadStoreProgs
    [0, 0, 1, 1, 0, 0, 0, 0, 0, 0, 0, 1, 1, 1, 1, 1, 1, 1]).destroys = 2 := by decide
-- the same with the seeded overlap: a timeout's ResetStream (goroutine 0) is still notifying its listeners when the
-- completion's DestroyStream (goroutine 1) passes its load
example : ((Conf.init loadStoreProgs [[.reset], [.destroy]]).run loadStoreProgs
    [0, 0, 0, 0, 1, 1, 0, 0, 0, 0, 0, 0, 0, 0, 0, 0, 0, 0, 1, 1, 1, 1, 1, 1, 1]).destroys = 2 := by decide
example : good loadStoreProgs = false := by decide
-- the current code under the same schedules: once
example : ((Conf.init genProgs [[.reset], [.destroy]]).run genProgs
    [0, 0, 0, 0, 1, 1, 0, 0, 0, 0, 0, 0, 0, 0, 0, 0, 0, 0, 1, 1, 1, 1, 1, 1, 1]).destroys = 1 := by decide
-- a quirk of the code that exists, outside the property: two OVERLAPPING ResetStream calls both pass the load guard
-- and both notify OnResetStream (the destroy still happens once) — hence "at most once per ResetStream call"
def twoResets : Conf := (Conf.init genProgs [[.reset], [.reset]]).run genProgs
  ([0, 0, 1, 1] ++ List.replicate 14 0 ++ List.replicate 8 1)
example : twoResets.resets = 2 ∧ twoResets.destroys = 1 ∧ twoResets.done = true := by decide
-- non-vacuity of `done`: a complete schedule exists
example : ((Conf.init genProgs [[.reset, .destroy], [.destroy]]).run genProgs
    ((List.replicate 25 0) ++ (List.replicate 10 1))).done = true := by decide

end Concurrent

/-! ## the multiplex pool (`Model/PoolMux.lean`): slots, shared connections, go-away

Every operation list {CheckAndInit (slot from the context | round robin; dial ok | refused | timed out), NewStream,
response, local reset, garbage, go-away, connection close by either side, Shutdown, Close, load on the shared requests
breaker}, every `max_connections` / `max_requests`. -/
section Mux
open MosnVerif.Model

/-- the state after an arbitrary operation list against a fresh multiplex pool -/
def mreach (maxConn maxReq : Nat) (ops : List PoolMux.Op) : PoolMux.State := PoolMux.run (PoolMux.init maxConn maxReq) ops

theorem mux_reach_inv (maxConn maxReq : Nat) (ops : List PoolMux.Op) : PoolMux.Inv (mreach maxConn maxReq ops) :=
  PoolMux.inv_run _ (PoolMux.inv_init maxConn maxReq) ops

/-- **books** (multiplex): the shared requests breaker counts exactly the requests in flight plus the slots held
elsewhere (nothing when its limit is 0); it never goes negative; both upstream request_active gauges (host, cluster)
count exactly the requests in flight.  "In flight" = streams with a receiver that have not ended: a one-way request
(`Op.newStreamOneway`) is never among them. -/
theorem mux_books (maxConn maxReq : Nat) (ops : List PoolMux.Op) :
    let s := mreach maxConn maxReq ops
    s.reqCur = (if s.maxReq = 0 then 0 else (s.ext : Int) + (s.liveCount : Int)) ∧ 0 ≤ s.reqCur ∧
    s.actHost = (s.liveCount : Int) ∧ s.actCluster = (s.liveCount : Int) := by
  intro s
  have hinv : PoolMux.Inv s := mux_reach_inv maxConn maxReq ops
  have h := hinv.core.req
  refine ⟨h, ?_, hinv.core.act.1, hinv.core.act.2⟩
  rw [h]; split <;> omega

/-- **a one-way request holds nothing**: in every reachable state, for every slot, `NewStream(ctx, nil)` — admitted or
refused — leaves the requests breaker, both request_active gauges, the slots, the connections and the streams exactly as
they were (the whole state): a one-way client stream is never destroyed or reset, so nothing could give a slot or a
gauge unit back.  Consequently any number of one-way requests changes neither the books nor the answer of the breaker
to the next request.  (Proved from the regenerated movements of the `receiver == nil` path of `NewStream`,
`Gen.PoolMuxMoves.muxLeaseMoves true`: with the one-way branch merged into the ordinary one this stops checking.) -/
theorem oneway_holds_nothing (maxConn maxReq : Nat) (ops : List PoolMux.Op) (k : Nat) :
    let s := mreach maxConn maxReq ops
    (PoolMux.step s (.newStreamOneway k)).1 = s ∧
    (∀ n, PoolMux.run s (List.replicate n (.newStreamOneway k)) = s) ∧
    (∀ c, (PoolMux.step s (.newStreamOneway k)).2 = .ok c →
      c < s.nClients ∧ (s.client c).netOpen = true ∧ (s.client c).goaway = 0 ∧
      Gen.Pool.canCreate s.maxReq s.reqCur = true) := by
  intro s
  have h : PoolMux.Inv s := mux_reach_inv maxConn maxReq ops
  refine ⟨PoolMux.newStreamOneway_state s k, ?_, ?_⟩
  · intro n
    induction n with
    | zero => rfl
    | succ n ih =>
      show PoolMux.run (PoolMux.step s (.newStreamOneway k)).1 _ = s
      rw [show (PoolMux.step s (.newStreamOneway k)).1 = s from PoolMux.newStreamOneway_state s k]; exact ih
  · intro c
    show (PoolMux.newStreamOneway s k).2 = .ok c → _
    unfold PoolMux.newStreamOneway
    simp only
    split
    · intro hc; cases hc
    split
    · intro hc; cases hc
    · intro hc; cases hc
    · rename_i c0 hs
      split
      · intro hc; cases hc
      · rename_i hu
        split
        · intro hc; cases hc
        · rename_i hcan
          intro hc
          cases hc
          have ⟨h1, _, h3⟩ := h.core.slotOk _ c hs
          have hst : (s.client c).state = Gen.PoolMux.muxConnected := by
            simp only [Gen.PoolMux.muxUnusable, decide_eq_true_eq, ne_eq, Decidable.not_not] at hu; exact hu
          exact ⟨h1, h3 hst, (h.core.st c h1).mp hst, by simpa using hcan⟩

/-- **no_leak** (multiplex): at every quiescent point every OPEN connection the pool ever made is either the
Connected client of its slot (the pool will lease requests on it) or is draining after a go-away with at least one
request still in flight — never open, unused and unreachable. (Fails for the code before the repair: after a go-away
with requests in flight and a re-connect, the drained connection stayed open and its close emptied the successor's
slot.) -/
theorem mux_no_leak (maxConn maxReq : Nat) (ops : List PoolMux.Op) (c : Nat) :
    let s := mreach maxConn maxReq ops
    c < s.nClients → (s.client c).netOpen = true →
    ((s.client c).slot < s.nSlots ∧ s.slot (s.client c).slot = .real c ∧ (s.client c).state = Gen.PoolMux.muxConnected) ∨
    (∃ i, i < s.nStreams ∧ (s.stream i).live = true ∧ (s.stream i).conn = c) := by
  intro s hc ho
  have h : PoolMux.Inv s := mux_reach_inv maxConn maxReq ops
  by_cases hg : (s.client c).goaway = 0
  · left
    have hs := h.core.openOk c hc ho hg
    exact ⟨h.core.slotRange _ c hs, hs, (h.core.st c hc).mpr hg⟩
  · right
    exact PoolMux.exists_of_countOn_pos _ _ _ (h.drain c hc ho hg)

/-- the pool's view is the truth: the Connected client of a slot has an open connection, and a request in flight is
on an open connection. -/
theorem mux_slot_truth (maxConn maxReq : Nat) (ops : List PoolMux.Op) :
    let s := mreach maxConn maxReq ops
    (∀ i c, s.slot i = .real c → (s.client c).state = Gen.PoolMux.muxConnected → c < s.nClients ∧ (s.client c).netOpen = true) ∧
    (∀ i, i < s.nStreams → (s.stream i).live = true → (s.client (s.stream i).conn).netOpen = true) := by
  intro s
  have h : PoolMux.Inv s := mux_reach_inv maxConn maxReq ops
  exact ⟨fun i c hs hst => ⟨(h.core.slotOk i c hs).1, (h.core.slotOk i c hs).2.2 hst⟩,
    fun i hi hl => (h.core.liveOk i hi hl).2⟩

/-- a lease is granted only on an open connection that has not been told to go away; a refusal (no usable client in
the slot, requests breaker full) changes nothing. -/
theorem mux_lease_sound (maxConn maxReq : Nat) (ops : List PoolMux.Op) (k : Nat) :
    let s := mreach maxConn maxReq ops
    (∀ c, (PoolMux.newStream s k).2 = .ok c → c < s.nClients ∧ (s.client c).netOpen = true ∧ (s.client c).goaway = 0) ∧
    ((PoolMux.newStream s k).2.isOk = false → (PoolMux.newStream s k).1 = s) := by
  intro s
  have h : PoolMux.Inv s := mux_reach_inv maxConn maxReq ops
  unfold PoolMux.newStream
  simp only
  split
  · exact ⟨fun c hc => (by cases hc), fun _ => rfl⟩
  split
  · exact ⟨fun c hc => (by cases hc), fun _ => rfl⟩
  · exact ⟨fun c hc => (by cases hc), fun _ => rfl⟩
  · rename_i c0 hs
    split
    · exact ⟨fun c hc => (by cases hc), fun _ => rfl⟩
    · rename_i hu
      split
      · exact ⟨fun c hc => (by cases hc), fun _ => rfl⟩
      · have ⟨h1, _, h3⟩ := h.core.slotOk _ c0 hs
        have hst : (s.client c0).state = Gen.PoolMux.muxConnected := by
          simp only [Gen.PoolMux.muxUnusable, decide_eq_true_eq, ne_eq, Decidable.not_not] at hu; exact hu
        refine ⟨fun c hc => ?_, fun hno => by simp [PoolMux.Res.isOk] at hno⟩
        cases hc
        exact ⟨h1, h3 hst, (h.core.st c0 h1).mp hst⟩

/-- **destroy_once** (multiplex): every stream tells its listeners of its end at most once — exactly once when it is
no longer in flight — and hands over at most one response, none after a reset. -/
theorem mux_destroy_once (maxConn maxReq : Nat) (ops : List PoolMux.Op) (i : Nat) :
    let s := mreach maxConn maxReq ops
    i < s.nStreams →
    (s.stream i).destroys ≤ 1 ∧ ((s.stream i).destroys = 0 ↔ (s.stream i).live = true) ∧
    (s.stream i).recv ≤ 1 ∧ (s.stream i).resets.length ≤ 1 ∧ ((s.stream i).recv = 1 → (s.stream i).resets = []) := by
  intro s hi
  have hinv : PoolMux.Inv s := mux_reach_inv maxConn maxReq ops
  have h := hinv.core.once i hi
  cases hl : (s.stream i).live
  · have ⟨d1, d2, d3, d4⟩ := h.2 hl
    exact ⟨by omega, by simp [d1], d2, d3, d4⟩
  · have ⟨f1, f2, f3⟩ := h.1 hl
    exact ⟨by omega, by simp [f1], by omega, by simp [f3], fun _ => f3⟩

/-- the executable predicate evaluated on the implementation's observations holds of every model observation. -/
theorem mux_spec_holds_on_model (maxConn maxReq : Nat) (ops : List PoolMux.Op) :
    let s := mreach maxConn maxReq ops
    PoolMux.obsSpec s.maxReq s.ext (PoolMux.obsOf s) = true :=
  PoolMux.obsSpec_holds _ (mux_reach_inv maxConn maxReq ops)

/-! ### non-vacuity -/
-- go-away with a request in flight, re-connect, then the old request completes: the drained connection is closed,
-- the successor keeps its slot
example : let s := mreach 1 0 [.checkAndInit (some 0) .ok, .newStream 0, .goAway 0, .checkAndInit (some 0) .ok, .response 0]
    (s.client 0).netOpen = false ∧ s.slot 0 = .real 1 ∧ (s.client 1).netOpen = true := by decide
-- the old connection is lost instead: the successor keeps its slot and serves the next request
example : ((PoolMux.trace (PoolMux.init 1 2) [.checkAndInit (some 0) .ok, .newStream 0, .newStream 0, .goAway 0,
      .checkAndInit (some 0) .ok, .connClose 0 true, .newStream 0]).map (·.1)) =
    [.ready false, .ok 0, .ok 0, .none, .ready false, .none, .ok 1] := by decide
example : (mreach 1 2 [.checkAndInit (some 0) .ok, .newStream 0, .newStream 0, .goAway 0, .connClose 0 true]).reqCur = 0 := by decide
-- one-way requests: granted on the Connected client, and after any number of them the breaker (max_requests = 1) still
-- admits an ordinary request; the gauges count that request only
example : ((PoolMux.trace (PoolMux.init 1 1) [.checkAndInit (some 0) .ok, .newStreamOneway 0, .newStreamOneway 0, .newStreamOneway 0,
      .newStream 0, .newStreamOneway 0]).map (fun x => (x.1, x.2.reqCur, x.2.actHost, x.2.actCluster))) =
    [(.ready false, 0, 0, 0), (.ok 0, 0, 0, 0), (.ok 0, 0, 0, 0), (.ok 0, 0, 0, 0), (.ok 0, 1, 1, 1), (.overflow, 1, 1, 1)] := by decide
-- a dial that is refused or times out leaves the slot empty; the next CheckAndInit connects
example : ((PoolMux.trace (PoolMux.init 2 0) [.checkAndInit (some 1) .timeout, .newStream 1, .checkAndInit (some 1) .refused,
      .checkAndInit (some 1) .ok, .checkAndInit (some 1) .ok, .newStream 1]).map (·.1)) =
    [.ready false, .connFail, .ready false, .ready false, .ready true, .ok 0] := by decide

end Mux


/-! ## the HTTP/2 pool (`Model/PoolH2.lean`): one client per pool, replaced after GOAWAY

Every operation list {NewStream (dial ok | refused | timed out), response, local reset, RST_STREAM, graceful GOAWAY on a
given connection, close of a given connection by either side, Shutdown, Close, load on the shared requests breaker},
every `max_requests`.  The tests and counter movements are the regenerated `Gen/PoolH2.lean`. -/
section H2
open MosnVerif.Model

/-- the state after an arbitrary operation list against a fresh HTTP/2 pool -/
def hreach (maxReq : Nat) (ops : List PoolH2.Op) : PoolH2.State := PoolH2.run (PoolH2.init maxReq) ops

theorem h2_reach_inv (maxReq : Nat) (ops : List PoolH2.Op) : PoolH2.Inv (hreach maxReq ops) :=
  PoolH2.inv_run _ (PoolH2.inv_init maxReq) ops

/-- **books** (HTTP/2): at every quiescent point both upstream `connection_active` gauges equal the NUMBER of open
connections the pool made that are its client or have not been told to go away (`counted`) — which is 1 when the pool
holds a client and 0 otherwise; the pool's client is an open connection; every open connection that has not been told
to go away IS the pool's client (none is forgotten, at most one exists); the requests breaker and both `request_active`
gauges count the requests in flight.  (A connection that was told to go away leaves the gauge when `NewStream` replaces
it, or when it closes while still the pool's client — once; it then drains uncounted until the upstream closes it.) -/
theorem h2_books (maxReq : Nat) (ops : List PoolH2.Op) :
    let s := hreach maxReq ops
    s.connHost = (PoolH2.countP s.counted s.nConns : Int) ∧ s.connCluster = (PoolH2.countP s.counted s.nConns : Int) ∧
    s.connHost = (if s.active.isSome then 1 else 0) ∧
    (∀ c, s.active = some c → c < s.nConns ∧ (s.conn c).netOpen = true) ∧
    (∀ c, c < s.nConns → (s.conn c).netOpen = true → (s.conn c).goaway = 0 → s.active = some c) ∧
    s.reqCur = (if s.maxReq = 0 then 0 else (s.ext : Int) + (s.liveCount : Int)) ∧ 0 ≤ s.reqCur ∧
    s.actHost = (s.liveCount : Int) ∧ s.actCluster = (s.liveCount : Int) := by
  intro s
  have h : PoolH2.Inv s := h2_reach_inv maxReq ops
  have hc := PoolH2.countP_counted s h
  refine ⟨by rw [hc]; exact h.gauge.1, by rw [hc]; exact h.gauge.2, h.gauge.1, h.activeOk, h.openOk, h.req, ?_, h.act.1, h.act.2⟩
  rw [h.req]; split <;> omega

/-- a request is served by an open connection that has not been told to go away, which is the pool's client afterwards;
when such a connection exists BEFORE the call it is the one that serves (or the breaker refuses) and nothing is dialled;
otherwise at most one connection is dialled; a refusal takes nothing from the request books. -/
theorem h2_lease_sound (maxReq : Nat) (ops : List PoolH2.Op) (dial : Dial) :
    let s := hreach maxReq ops
    let r := PoolH2.newStream s dial
    (∀ c, r.2 = .ok c → c < r.1.nConns ∧ (r.1.conn c).netOpen = true ∧ (r.1.conn c).goaway = 0 ∧ r.1.active = some c) ∧
    (∀ c0, c0 < s.nConns → (s.conn c0).netOpen = true → (s.conn c0).goaway = 0 →
      r.1.nConns = s.nConns ∧ (r.2 = .ok c0 ∨ r.2 = .overflow)) ∧
    r.1.nConns ≤ s.nConns + 1 ∧
    (r.2.isOk = false → r.1.reqCur = s.reqCur ∧ r.1.actHost = s.actHost ∧ r.1.actCluster = s.actCluster ∧
      r.1.nStreams = s.nStreams) := by
  intro s r
  have h : PoolH2.Inv s := h2_reach_inv maxReq ops
  have hp : PoolH2.Inv (PoolH2.pick s dial) := PoolH2.inv_pick s h dial
  have hr : PoolH2.Inv r.1 := PoolH2.inv_newStream s h dial
  obtain ⟨f1, f2, f3, f4, f5, f6⟩ := PoolH2.newStream_conn_fields s dial
  have hres := PoolH2.newStream_result s dial
  refine ⟨?_, ?_, ?_, ?_⟩
  · intro c hc
    have hact : (PoolH2.pick s dial).active = some c := by
      rw [show r.2 = (PoolH2.newStream s dial).2 from rfl, hres] at hc
      cases ha : (PoolH2.pick s dial).active with
      | none => simp [ha] at hc
      | some c' =>
        simp only [ha] at hc
        split at hc
        · cases hc; rfl
        · cases hc
    have hra : r.1.active = some c := by rw [show r.1.active = _ from f2]; exact hact
    have ⟨h1, h2⟩ := hr.activeOk c hra
    refine ⟨h1, h2, ?_, hra⟩
    -- the client picked has not been told to go away: a marked one was given up, a dialled one is fresh
    have hconn : (r.1.conn c) = ((PoolH2.pick s dial).conn c) := by rw [show r.1.conn = _ from f5]
    rw [hconn]
    cases ha : s.active with
    | none =>
      rw [PoolH2.pick_none s h ha] at hact ⊢
      cases hf : dial.fails
      · simp only [hf, Bool.false_eq_true, if_false, PoolH2.dialled] at hact ⊢
        cases hact; simp
      · simp [hf, ha] at hact
    | some a =>
      by_cases hg : (s.conn a).goaway = 0
      · rw [PoolH2.pick_keep s h a ha hg] at hact ⊢
        rw [ha] at hact; cases hact; exact hg
      · rw [PoolH2.pick_goaway s h a ha hg] at hact ⊢
        cases hf : dial.fails
        · simp only [hf, Bool.false_eq_true, if_false, PoolH2.dialled] at hact ⊢
          cases hact; simp [PoolH2.dropped]
        · simp [hf, PoolH2.dropped] at hact
  · intro c0 hc0 ho hg
    have ha := h.openOk c0 hc0 ho hg
    have hk := PoolH2.pick_keep s h c0 ha hg dial
    refine ⟨by rw [show r.1.nConns = _ from f1, hk], ?_⟩
    rw [show r.2 = (PoolH2.newStream s dial).2 from rfl, hres, hk]
    simp only [ha]
    split
    · left; rfl
    · right; rfl
  · rw [show r.1.nConns = _ from f1]
    cases ha : s.active with
    | none =>
      rw [PoolH2.pick_none s h ha]; split <;> simp [PoolH2.dialled]
    | some a =>
      by_cases hg : (s.conn a).goaway = 0
      · rw [PoolH2.pick_keep s h a ha hg]; omega
      · rw [PoolH2.pick_goaway s h a ha hg]; split <;> simp [PoolH2.dialled, PoolH2.dropped]
  · intro hno
    have e := PoolH2.newStream_refused s dial hno
    obtain ⟨g1, g2, g3, g4, _, _, _⟩ := PoolH2.pick_req_fields s h dial
    rw [show r.1 = _ from e]
    exact ⟨g1, g2, g3, g4⟩

/-- **a GOAWAY is replaced once**: in every reachable state whose pool holds client `c`, after a graceful GOAWAY on `c`
the next request dials exactly ONE replacement `n` (the upstream's next connection), which becomes the pool's client and
serves the request (unless the breaker refuses it), both `connection_active` gauges are what they were (the old client
was given back, the new one counted), and `c` is still open, draining.  When `c` closes LATER — by either side — the
pool keeps `n`, the gauges do not move, `n` stays open; and the request after that is served without another dial. -/
theorem h2_goaway_replaces_once (maxReq : Nat) (ops : List PoolH2.Op) (c : Nat) (remote : Bool) (d : Dial) :
    let s := hreach maxReq ops
    s.active = some c →
    let s1 := (PoolH2.step s (.goAway c)).1
    let r2 := PoolH2.step s1 (.newStream .ok)
    let s3 := (PoolH2.step r2.1 (.connClose c remote)).1
    let r4 := PoolH2.step s3 (.newStream d)
    r2.1.nConns = s.nConns + 1 ∧ r2.1.active = some s.nConns ∧ (r2.2 = .ok s.nConns ∨ r2.2 = .overflow) ∧
    r2.1.connHost = s.connHost ∧ r2.1.connCluster = s.connCluster ∧ (r2.1.conn c).netOpen = true ∧
    s3.active = some s.nConns ∧ s3.connHost = s.connHost ∧ s3.connCluster = s.connCluster ∧
    (s3.conn c).netOpen = false ∧ (s3.conn s.nConns).netOpen = true ∧
    r4.1.nConns = s.nConns + 1 ∧ (r4.2 = .ok s.nConns ∨ r4.2 = .overflow) := by
  intro s ha s1 r2 s3 r4
  have h : PoolH2.Inv s := h2_reach_inv maxReq ops
  have ⟨hc, ho⟩ := h.activeOk c ha
  -- the go-away
  have hs1 : s1 = s.updC c (fun cl => { cl with goaway := Gen.PoolH2.h2GoAwayMark }) := by
    show (PoolH2.step s (.goAway c)).1 = _
    simp [PoolH2.step, hc, ho]
  have h1 : PoolH2.Inv s1 := by rw [hs1]; exact PoolH2.inv_goAway s h c
  have ha1 : s1.active = some c := by rw [hs1]; exact ha
  have hg1 : (s1.conn c).goaway ≠ 0 := by rw [hs1]; simp [PoolH2.State.updC, Gen.PoolH2.h2GoAwayMark]
  -- the next request
  have hpick := PoolH2.pick_goaway s1 h1 c ha1 hg1 .ok
  simp only [Dial.fails, Bool.false_eq_true, if_false] at hpick
  obtain ⟨f1, f2, f3, f4, f5, _⟩ := PoolH2.newStream_conn_fields s1 .ok
  have hres := PoolH2.newStream_result s1 .ok
  rw [hpick] at f1 f2 f3 f4 f5 hres
  have hn1 : s1.nConns = s.nConns := by rw [hs1]; rfl
  have e1 : r2.1.nConns = s.nConns + 1 := by rw [show r2.1.nConns = _ from f1]; simp [PoolH2.dialled, PoolH2.dropped, hn1]
  have e2 : r2.1.active = some s.nConns := by rw [show r2.1.active = _ from f2]; simp [PoolH2.dialled, PoolH2.dropped, hn1]
  have e3 : r2.2 = .ok s.nConns ∨ r2.2 = .overflow := by
    rw [show r2.2 = (PoolH2.newStream s1 .ok).2 from rfl, hres]
    simp only [PoolH2.dialled, PoolH2.dropped, hn1]
    split
    · left; rfl
    · right; rfl
  have e4 : r2.1.connHost = s.connHost := by
    rw [show r2.1.connHost = _ from f3]; simp only [PoolH2.dialled, PoolH2.dropped, hs1, PoolH2.State.updC]; omega
  have e5 : r2.1.connCluster = s.connCluster := by
    rw [show r2.1.connCluster = _ from f4]; simp only [PoolH2.dialled, PoolH2.dropped, hs1, PoolH2.State.updC]; omega
  have hne : c ≠ s.nConns := by omega
  have hconn2 : ∀ k, r2.1.conn k = if k = s.nConns then {} else s1.conn k := by
    intro k; rw [show r2.1.conn = _ from f5]; simp [PoolH2.dialled, PoolH2.dropped, hn1]
  have e6 : (r2.1.conn c).netOpen = true := by
    rw [hconn2, if_neg hne, hs1]; simp [PoolH2.State.updC, ho]
  -- the late close of the replaced connection
  have h2 : PoolH2.Inv r2.1 := PoolH2.inv_newStream s1 h1 .ok
  have hs3 : s3 = PoolH2.closedSt r2.1 c PoolH2.connLost (decide (r2.1.active = some c)) := by
    show (PoolH2.netClose r2.1 c PoolH2.connLost) = _
    exact PoolH2.netClose_eq r2.1 c _ (by omega) e6
  have hdec : decide (r2.1.active = some c) = false := by
    rw [e2]; simp; omega
  rw [hdec] at hs3
  have e7 : s3.active = some s.nConns := by rw [hs3]; simp [PoolH2.closedSt, e2]
  have e8 : s3.connHost = s.connHost := by rw [hs3]; simp [PoolH2.closedSt, e4]
  have e9 : s3.connCluster = s.connCluster := by rw [hs3]; simp [PoolH2.closedSt, e5]
  have e10 : (s3.conn c).netOpen = false := by rw [hs3]; simp [PoolH2.closedSt]
  have hnew : s3.conn s.nConns = {} := by
    rw [hs3]; simp only [PoolH2.closedSt]; rw [if_neg (fun e => hne e.symm), hconn2, if_pos rfl]
  have e11 : (s3.conn s.nConns).netOpen = true := by rw [hnew]
  -- the request after that
  have h3 : PoolH2.Inv s3 := PoolH2.inv_netClose r2.1 h2 c _
  have hk := PoolH2.pick_keep s3 h3 s.nConns e7 (by rw [hnew]) d
  obtain ⟨k1, _, _, _, _, _⟩ := PoolH2.newStream_conn_fields s3 d
  have hres4 := PoolH2.newStream_result s3 d
  rw [hk] at k1 hres4
  have hn3 : s3.nConns = s.nConns + 1 := by rw [hs3]; simp [PoolH2.closedSt, e1]
  refine ⟨e1, e2, e3, e4, e5, e6, e7, e8, e9, e10, e11, by rw [show r4.1.nConns = _ from k1, hn3], ?_⟩
  rw [show r4.2 = (PoolH2.newStream s3 d).2 from rfl, hres4]
  simp only [e7]
  split
  · left; rfl
  · right; rfl

/-- **no_leak** (HTTP/2): every open connection the pool ever made is its client or has been told to go away by the
upstream (which then owns its closing: the pool lets it drain); once every connection is closed the pool holds no
client, both `connection_active` gauges and both `request_active` gauges are 0, no request is in flight and the requests
breaker is back at what the other pools hold. -/
theorem h2_no_leak (maxReq : Nat) (ops : List PoolH2.Op) :
    let s := hreach maxReq ops
    (∀ c, c < s.nConns → (s.conn c).netOpen = true → s.active = some c ∨ (s.conn c).goaway ≠ 0) ∧
    ((∀ c, c < s.nConns → (s.conn c).netOpen = false) →
      s.active = none ∧ s.connHost = 0 ∧ s.connCluster = 0 ∧ s.liveCount = 0 ∧ s.actHost = 0 ∧ s.actCluster = 0 ∧
      s.reqCur = (if s.maxReq = 0 then 0 else (s.ext : Int))) := by
  intro s
  have h : PoolH2.Inv s := h2_reach_inv maxReq ops
  refine ⟨?_, ?_⟩
  · intro c hc ho
    by_cases hg : (s.conn c).goaway = 0
    · left; exact h.openOk c hc ho hg
    · right; exact hg
  · intro hall
    have hact : s.active = none := by
      cases ha : s.active with
      | none => rfl
      | some a =>
        have ⟨h1, h2⟩ := h.activeOk a ha
        rw [hall a h1] at h2; cases h2
    have hlive : s.liveCount = 0 := by
      apply PoolH2.countLive_zero
      intro i hi
      cases hl : (s.stream i).live
      · rfl
      · have ⟨h1, h2⟩ := h.liveOk i hi hl
        rw [hall _ h1] at h2; cases h2
    have hg := h.gauge
    simp only [PoolH2.gaugeOf, hact, Option.isSome_none, Bool.false_eq_true, if_false] at hg
    refine ⟨hact, hg.1, hg.2, hlive, by rw [h.act.1, hlive]; rfl, by rw [h.act.2, hlive]; rfl, ?_⟩
    rw [h.req, hlive]; simp

/-- the executable predicate evaluated on the implementation's observations holds of every model observation. -/
theorem h2_spec_holds_on_model (maxReq : Nat) (ops : List PoolH2.Op) :
    let s := hreach maxReq ops
    PoolH2.obsSpec s.maxReq s.ext s.told (PoolH2.obsOf s) = true :=
  PoolH2.obsSpec_holds _ (h2_reach_inv maxReq ops)

/-- the executable `NewStream` predicate (which connection serves a request, how many connections are dialled, what a
refusal takes) holds of every `NewStream` step of the model, in every reachable state, for every dial outcome. -/
theorem h2_newstream_spec_holds_on_model (maxReq : Nat) (ops : List PoolH2.Op) (dial : Dial) :
    let s := hreach maxReq ops
    let r := PoolH2.newStream s dial
    PoolH2.newStreamSpec s.maxReq s.ext s.told dial.fails (PoolH2.obsOf s) (PoolH2.resGranted r.2) r.2.render
      (PoolH2.obsOf r.1) = true :=
  PoolH2.newStreamSpec_holds _ (h2_reach_inv maxReq ops) dial

/-! ### non-vacuity -/
-- request, GOAWAY, request: one replacement is dialled and counted, the old connection drains uncounted
example : ((PoolH2.trace (PoolH2.init 0) [.newStream .ok, .goAway 0, .newStream .ok, .newStream .ok]).map
      (fun x => (x.1, x.2.active, x.2.connHost, x.2.connCluster, x.2.nConns))) =
    [(.ok 0, some 0, 1, 1, 1), (.none, some 0, 1, 1, 1), (.ok 1, some 1, 1, 1, 2), (.ok 1, some 1, 1, 1, 2)] := by decide
-- … the drained connection closes late: the replacement stays the pool's client, the gauges stay; then everything
-- closes: all gauges are 0 (hypothesis of `h2_no_leak` met)
example : ((PoolH2.trace (PoolH2.init 0) [.newStream .ok, .goAway 0, .newStream .ok, .connClose 0 true, .newStream .ok,
      .connClose 1 true]).map (fun x => (x.1, x.2.active, x.2.connHost, x.2.actHost, x.2.nConns))) =
    [(.ok 0, some 0, 1, 1, 1), (.none, some 0, 1, 1, 1), (.ok 1, some 1, 1, 2, 2), (.none, some 1, 1, 1, 2),
     (.ok 1, some 1, 1, 2, 2), (.none, none, 0, 0, 2)] := by decide
-- GOAWAY, then the connection closes before any further request: the gauge is given back by the close (before the
-- repair of onConnectionEvent it stayed 1 with no connection left)
example : ((fun (s : PoolH2.State) => (s.active, s.connHost, s.connCluster))
    (hreach 0 [.newStream .ok, .response 0, .goAway 0, .connClose 0 true])) = (none, 0, 0) := by decide
-- the hypotheses of `h2_goaway_replaces_once` are met
example : (hreach 2 [.newStream .ok, .newStream .ok]).active = some 0 := by decide
-- a refused dial / a full breaker take nothing; the breaker is asked after the dial (the connection stays the pool's)
example : ((PoolH2.trace (PoolH2.init 1) [.newStream .refused, .extInc, .newStream .ok, .extDec, .newStream .ok]).map
      (fun x => (x.1, x.2.active, x.2.connHost, x.2.reqCur))) =
    [(.connFail, none, 0, 0), (.none, none, 0, 1), (.overflow, some 0, 1, 1), (.none, some 0, 1, 0), (.ok 0, some 0, 1, 1)] := by decide

end H2

/-! ### the close window of OnDestroyStream (ping-pong and HTTP/1 pools): intermediate states, any interleaving

`Model/PoolWin.lean`: every statement of `OnDestroyStream` (helpers inlined; the ORDER is regenerated from the Go source,
`Gen/PoolDestroy`) and the delivery of the close event to the pool's handler are separate atomic steps; a `NewStream`, the
end of another request, a lost connection, a go-away frame may run between any two of them.  The theorems hold for every
label list (= every interleaving), every limit, both pools; they are proved for every program in the class `progOk`
(close test strictly before the single final put back) and the regenerated programs are decided to be in it. -/
section Win
open MosnVerif.Model.PoolWin MosnVerif.Lemmas.PoolWin MosnVerif.Lemmas.PoolWinWitness
open MosnVerif.Model.Pool (Kind Dial Res)

theorem destroy_prog_close_before_put (k : Kind) : progOk (destroyProg k) = true := by
  cases k
  · exact progOk_h1
  · exact progOk_pp

/-- **idle_clean_always**: at EVERY intermediate state of every interleaving the idle list holds only connections that are
open, not marked closed, clean (no request on them was reset or answered `Connection: close`) and carry no request. -/
theorem idle_clean_always (k : Kind) (maxConn maxReq : Nat) (ls : List Label) :
    idleClean (MosnVerif.Model.PoolWin.run (MosnVerif.Model.PoolWin.init k maxConn maxReq) ls) :=
  MosnVerif.Lemmas.PoolWin.idle_clean_always k maxConn maxReq _ (destroy_prog_close_before_put k) ls

/-- **no lease of a dirty connection under any interleaving**: whatever ran before, a `NewStream` that succeeds hands
out a fresh connection or an open, clean, un-leased one. -/
theorem lease_never_dirty (k : Kind) (maxConn maxReq : Nat) (ls : List Label) (d : Dial) (c : Nat)
    (s' : MosnVerif.Model.PoolWin.State) :
    MosnVerif.Model.PoolWin.step (MosnVerif.Model.PoolWin.run (MosnVerif.Model.PoolWin.init k maxConn maxReq) ls) (.newStream d) = (s', .ok c) →
    let s := MosnVerif.Model.PoolWin.run (MosnVerif.Model.PoolWin.init k maxConn maxReq) ls
    (c = s.nClients ∨ (c < s.nClients ∧ (s.client c).dirty = false ∧ (s.client c).live = false ∧
      (s.client c).netOpen = true ∧ (s.client c).closed = false)) :=
  MosnVerif.Lemmas.PoolWin.lease_never_dirty k maxConn maxReq _ (destroy_prog_close_before_put k) ls d c s'

/-- negation witness (put back, THEN close): the program is outside the class, and one schedule — request, local reset,
the statements of OnDestroyStream up to the close, NewStream inside the window — leases the dirty, closed connection. -/
theorem put_back_then_close_leases_dirty :
    progOk bad = false ∧ ¬ idleClean (MosnVerif.Model.PoolWin.run (initWith .pp 0 0 bad) badSched) ∧
    (MosnVerif.Model.PoolWin.step (MosnVerif.Model.PoolWin.run (initWith .pp 0 0 bad) badSched) (.newStream .ok)).2 = .ok 0 :=
  ⟨bad_not_progOk, bad_not_idleClean, bad_leased⟩

-- non-vacuity: in the real order the window is open (connection 0 closed, its close handler pending, not idle) and the
-- NewStream made inside it dials connection 1
example : (fun (s : MosnVerif.Model.PoolWin.State) => (s.idle, (s.client 0).netOpen, (s.client 0).closed, s.windowOpen 0))
    (MosnVerif.Model.PoolWin.run (MosnVerif.Model.PoolWin.init .pp 0 0)
      [.newStream .ok, .endStream 0 .localReset, .taskStep 0, .taskStep 0, .taskStep 0, .taskStep 0]) = ([], false, false, true) := by decide
example : (MosnVerif.Model.PoolWin.step (MosnVerif.Model.PoolWin.run (MosnVerif.Model.PoolWin.init .pp 0 0)
      [.newStream .ok, .endStream 0 .localReset, .taskStep 0, .taskStep 0, .taskStep 0, .taskStep 0]) (.newStream .ok)).2 = .ok 1 := by decide
example : (MosnVerif.Model.PoolWin.step (MosnVerif.Model.PoolWin.run (MosnVerif.Model.PoolWin.init .h1 0 0)
      [.newStream .ok, .endStream 0 .localReset, .taskStep 0]) (.newStream .ok)).2 = .ok 1 := by decide

end Win

/-! ### ===== BEGIN mux6: multiplex pool, no lease on a go-away / closed client ===== -/
section MxNoLease
open MosnVerif.Model.PoolMxWin MosnVerif.Gen.PoolMux

/-- **mux_no_lease_on_closing_partial** (multiplex NewStream; full statement: under every interleaving no stream is created
on a client that received go-away or whose close handler ran — NOT proved globally: the state test and the creation of the
stream are separate unlocked statements, a go-away / close between them is a window of the code as it is, see the example
below; the stream created there ends by reset and is given back, `mux_request_ledger_exact_steps`).  Proved: (1) in the
regenerated program the slot load, the nil test, the state test and the breaker test all precede the creation of the
stream and every take; (2) in every state the state test lets a NewStream pass only on a client whose state word is
`Connected` — a client whose OnGoAway wrote GoAway, or a recycled one (Connecting), is refused with ConnectionFailure;
(3) the close handler's slot deletion removes a closed client that is still current, so a later slot load cannot find it;
(4) mux7: the LAST statement of NewStream (after the pool listens and the three takes) tests the connection: found closed —
whether it was closed before the state test, between the test and the creation of the stream, or between the creation and
the listener — the request is refused with ConnectionFailure (and what was taken is given back exactly once:
`mux_request_ledger_exact_steps` with `place` and `listen` as separate steps).  So the window that remains is precisely:
a lease is DECIDED by the state test; a go-away observed after that test does not revoke it (the stream is served, the
drained connection is closed after its last request), a close observed before the end of NewStream does. -/
theorem mux_no_lease_on_closing_partial :
    (progsOf .mux).nsPre = [.slotIdx, .loadSlot, .chkNil, .chkState, .chkBreaker] ∧
    (progsOf .mux).nsPost = [.place, .listen, .incHost, .incCluster, .incRes, .undoChk] ∧
    (∀ (pg : Progs) (led : Led) (b : Books) (t : Task) (c : Nat), t.c = some c → (b.client c).netOpen = false →
      (bookStmt pg led b t .undoChk).2.2 = .undo c ∧ (bookStmt pg led b t .undoChk).1.lastRes = .connFail) ∧
    (∀ (pg : Progs) (led : Led) (b : Books) (t : Task) (c : Nat), t.c = some c →
      (bookStmt pg led b t .chkState).2.2 ≠ .refuse → (b.client c).state = muxConnected) ∧
    (∀ (pg : Progs) (led : Led) (b : Books) (t : Task), t.c = none → (bookStmt pg led b t .chkNil).2.2 = .refuse) ∧
    (∀ (pg : Progs) (led : Led) (b : Books) (t : Task) (c : Nat), t.c = some c → (b.client c).state ≠ muxGoAway →
      b.slots (b.client c).slot = some c → (bookStmt pg led b t .delSlotIfCurrent).1.slots (b.client c).slot = none) := by
  refine ⟨by decide, by decide, ?_, ?_, ?_, ?_⟩
  · intro pg led b t c hc hn; simp [bookStmt, hc, hn]
  · intro pg led b t c hc h
    simp only [bookStmt, hc] at h
    split at h
    · assumption
    · exact absurd rfl h
  · intro pg led b t hc; simp [bookStmt, hc]
  · intro pg led b t c hc hs hslot
    simp [bookStmt, hc, hs, hslot, Books.setSlot]

-- go-away with a request in flight: the next NewStream on the slot is refused (cf), after CheckAndInit it goes to the successor
example : (drain 64 (run (init .mux 1 0) [.connect 0 true, .newStream 0 true, .taskStep 0, .taskStep 0, .taskStep 0,
    .taskStep 0, .taskStep 0, .taskStep 0, .taskStep 0, .taskStep 0, .taskStep 0, .taskStep 0, .goAway 0, .taskStep 1, .taskStep 1,
    .taskStep 1, .newStream 0 true])).bk.lastRes = .connFail := by decide
example : (drain 64 (run (drain 64 (run (init .mux 1 0) [.connect 0 true, .newStream 0 true, .goAway 0]))
    [.connect 0 true, .newStream 0 true])).bk.lastRes = .ok 1 := by decide
-- the window of the code as it is: go-away delivered between the state test and the creation of the stream
example : (drain 64 (run (init .mux 1 0) [.connect 0 true, .newStream 0 true, .taskStep 0, .taskStep 0, .taskStep 0,
    .taskStep 0, .goAway 0, .taskStep 1, .taskStep 1])).led.streams = [0] := by decide

end MxNoLease
/-! ### ===== END mux6 ===== -/

/-! ### ===== pool10: events inside the dial / init / NewStream accounting windows ===== -/
section DialWin
open MosnVerif.Model.PoolDialWin MosnVerif.Gen.PoolDial MosnVerif.Gen.Pool

def dwT : Nat → Int | 30 => 1 | 31 => -1 | _ => 0
def dwH : Nat → Int | 22 => 1 | 20 => -1 | _ => 0
def dwC : Nat → Int | 23 => 1 | 21 => -1 | _ => 0

theorem dw_move_additive (mr : Int) (b : Books) (c : Nat) (h : c ≠ 32) :
    (move mr b c).total = b.total + dwT c ∧ (move mr b c).cnH = b.cnH + dwH c ∧ (move mr b c).cnC = b.cnC + dwC c := by
  unfold move
  split
  all_goals first
    | exact absurd rfl h
    | (simp [dwT, dwH, dwC]; done)
    | (simp [dwT, dwH, dwC]; omega)
    | (unfold dwT dwH dwC; split <;> split <;> split <;> simp_all)

theorem dw_run_additive (mr : Int) (l : List Nat) (h : ∀ c ∈ l, c ≠ 32) (b : Books) :
    (MosnVerif.Model.PoolDialWin.run mr b l).total = b.total + (l.map dwT).sum ∧ (MosnVerif.Model.PoolDialWin.run mr b l).cnH = b.cnH + (l.map dwH).sum ∧
    (MosnVerif.Model.PoolDialWin.run mr b l).cnC = b.cnC + (l.map dwC).sum := by
  induction l generalizing b with
  | nil => simp [MosnVerif.Model.PoolDialWin.run]
  | cons c l ih =>
    have hm := dw_move_additive mr b c (h c (by simp))
    have := ih (fun x hx => h x (by simp [hx])) (move mr b c)
    simp only [MosnVerif.Model.PoolDialWin.run, List.foldl_cons, List.map_cons, List.sum_cons] at this ⊢
    omega

/-- the class of window programs the theorem is proved for: no guarded decrement, the dial counts +1 on the counter and
both gauges, the close handler -1 -/
def dwDialOk (dial close : List Nat) : Bool :=
  dial.all (· != 32) && close.all (· != 32) &&
  (dial.map dwT).sum == 1 && (dial.map dwH).sum == 1 && (dial.map dwC).sum == 1 &&
  (close.map dwT).sum == -1 && (close.map dwH).sum == -1 && (close.map dwC).sum == -1

theorem dialOk_regenerated : dwDialOk ppDialProg ppCloseProg = true := by decide

/-- W1. Whatever the position `p` of the close handler inside the dial window (before the gauges, between them, before
or after the counter's increment), the counter and both connection gauges end where they started: the connection that
was closed before it was counted is not counted, nothing stays behind. (Every program of the class; the regenerated
pair is in it.) -/
theorem pp_dial_window_books_any (dial close : List Nat) (h : dwDialOk dial close = true) (mr : Int) (b : Books) (p : Nat) :
    (dialClosedAtWith dial close mr b p).total = b.total ∧ (dialClosedAtWith dial close mr b p).cnH = b.cnH ∧
    (dialClosedAtWith dial close mr b p).cnC = b.cnC := by
  simp only [dwDialOk, Bool.and_eq_true, List.all_eq_true, bne_iff_ne, ne_eq, beq_iff_eq] at h
  obtain ⟨⟨⟨⟨⟨⟨⟨hd, hc⟩, d1⟩, d2⟩, d3⟩, c1⟩, c2⟩, c3⟩ := h
  have hall : ∀ c ∈ dial.take p ++ close ++ dial.drop p, c ≠ 32 := by
    intro c hc'
    simp only [List.mem_append] at hc'
    rcases hc' with (h1 | h1) | h1
    · exact hd c (List.mem_of_mem_take h1)
    · exact hc c h1
    · exact hd c (List.mem_of_mem_drop h1)
  have hr := dw_run_additive mr _ hall b
  have e : ∀ f : Nat → Int, ((dial.take p ++ close ++ dial.drop p).map f).sum = (dial.map f).sum + (close.map f).sum := by
    intro f
    have : (dial.map f).sum = ((dial.take p).map f).sum + ((dial.drop p).map f).sum := by
      rw [← List.sum_append, ← List.map_append, List.take_append_drop]
    simp only [List.map_append, List.sum_append]; omega
  simp only [dialClosedAtWith]
  rw [e, e, e] at hr
  omega

theorem pp_dial_window_books (mr : Int) (b : Books) (p : Nat) :
    (dialClosedAt mr b p).total = b.total ∧ (dialClosedAt mr b p).cnH = b.cnH ∧ (dialClosedAt mr b p).cnC = b.cnC :=
  pp_dial_window_books_any _ _ dialOk_regenerated mr b p

/-- without a close the dial counts the connection once -/
theorem pp_dial_counts_once (mr : Int) (b : Books) :
    (MosnVerif.Model.PoolDialWin.run mr b ppDialProg).total = b.total + 1 ∧ (MosnVerif.Model.PoolDialWin.run mr b ppDialProg).cnH = b.cnH + 1 := by
  have := dw_run_additive mr ppDialProg (by decide) b
  have h1 : (ppDialProg.map dwT).sum = 1 := by decide
  have h2 : (ppDialProg.map dwH).sum = 1 := by decide
  omega

-- non-vacuous: the counter passes through -1 inside the window
example : (MosnVerif.Model.PoolDialWin.run 0 {} (ppDialProg.take 1 ++ ppCloseProg)).total = -1 := by decide
-- negation witness: a decrement "guarded against underflow" skips the removal of the uncounted connection and the later
-- increment sticks: the counter says 1 with no connection, and with max_connections = 1 no request is admitted again
example : (dialClosedAtWith ppDialProg [20, 21, 32] 0 {} 1).total = 1 := by decide
example : ppCanNew 1 (dialClosedAtWith ppDialProg [20, 21, 32] 0 {} 1).total = false := by decide

/-- W2. `init` as it is (dial and store under `clientMux`, the close handler's delete under `clientMux` and by identity,
a client told to go away is not stored): whatever event lands inside the dial, the slot never ends up holding a
Connected client with a closed connection. -/
theorem mux_init_never_stores_closed (ev : MxEv) : mxAfterInit ev ≠ some false := by
  cases ev <;> decide

theorem mux_init_never_stores_closed_any (dl sl cl sg : Bool) (h : dl = true ∧ sl = true ∧ cl = true ∧ sg = true) (ev : MxEv) :
    mxAfterInitWith dl sl cl sg ev ≠ some false := by
  obtain ⟨rfl, rfl, rfl, rfl⟩ := h
  cases ev <;> decide

example : mxAfterInit .none = some true := by decide
-- negation witnesses: the dial outside the lock / a go-away client stored all the same
example : mxAfterInitWith false true true true .close = some false := by decide
example : mxAfterInitWith true true true false .goAway = some false := by decide

/-- W3 (partial: the statement for ALL starting ledgers is `∀ b`; checked here by evaluation for max_requests 0..2 from
the ledger of an idle pool and of a pool with one request in flight, every close position of the regenerated tail of
NewStream, connection open or closed on entry): a refusal gives back exactly what was taken and the Requests resource
ends non-negative. -/
def dwNsLedgerOk (mr : Int) (b : Books) (closed : Bool) (ev : Option Nat) : Bool :=
  let r := nsRun mr { b := b, connClosed := closed } ev
  decide (r.b.q ≥ 0) && (if r.refused then r.b.q == b.q && r.b.rqH == b.rqH && r.b.rqC == b.rqC
                         else r.b.rqH == b.rqH + 1 && r.b.rqC == b.rqC + 1)

theorem pp_newstream_refusal_ledger_partial :
    ∀ mr ∈ [(0 : Int), 1, 2], ∀ b ∈ [({} : Books), { q := 1, rqH := 1, rqC := 1 }], ∀ closed ∈ [true, false],
      ∀ ev ∈ [none, some 0, some 1, some 2, some 3, some 4, some 5],
        (decide (mr = 0) && decide (b.q ≠ 0)) || dwNsLedgerOk mr b closed ev = true := by decide

-- negation witness: the closed test moved in front of the accounting gives back what was never taken
example : (nsRunWith [50, 42, 51, 10, 11, 12, 43] ppCloseProg 1 { b := {}, connClosed := true } none).b.q = -1 := by decide

end DialWin
/-! ### ===== END pool10 ===== -/

end MosnVerif.Props.C09
