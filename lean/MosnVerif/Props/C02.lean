import MosnVerif.Lemmas.StreamTable
import MosnVerif.Model.StreamTableSpec
/-!
# C02 — request/response correlation on an xprotocol client stream connection (property theorems only)

About `Model/StreamTable.lean`: the per-connection id counter and table `clientStreams` of `streamConn`
(`pkg/stream/xprotocol/conn.go`), with the regenerated id generators of all five xprotocols (`Gen/StreamIds.lean`).
Every theorem quantifies over every protocol, every start value of the counter, EVERY list of operations
{new stream, one-way stream, reply frame with any request id in any order (duplicates, unknown ids, late replies),
stream reset, connection reset} and the stream objects involved.
-/
namespace MosnVerif.Props.C02
open MosnVerif.Model.StreamTable MosnVerif.Gen.StreamIds

def reach (p : Proto) (base : Int) (ops : List Op) : Conn := run (init p base) ops

/-- **refinement**: the association list behaves as a finite map — an insert / a delete is function update on
`lookup` — and along every run it never holds two entries for one id. -/
theorem table_refines_map (t : Table) (k k' : Int) (v : Nat) :
    lookup (insert t k v) k' = (if k' = k then some v else lookup t k') ∧
    lookup (erase t k) k' = (if k' = k then none else lookup t k') :=
  ⟨lookup_insert t k v k', lookup_erase t k k'⟩

theorem table_keys_distinct (p : Proto) (base : Int) (ops : List Op) :
    ((reach p base ops).table.map (·.1)).Nodup := (tinv_run _ (tinv_init p base) ops).keys

/-- **at most one delivery, and only the own id**: whatever the order of replies, duplicates, resets and connection
resets, a stream object is handed at most one response, and that response carries the request id the stream was
created with. -/
theorem delivery_once_and_own (p : Proto) (base : Int) (ops : List Op) (w : Nat) :
    let s := reach p base ops
    w < s.nW → (s.waiter w).got.length ≤ 1 ∧ ∀ g, g ∈ (s.waiter w).got → g.1 = (s.waiter w).id := by
  intro s hw
  exact (tinv_run _ (tinv_init p base) ops).got w hw

/-- **unknown ids deliver nothing**: a reply whose id is not in the table leaves the whole state untouched. -/
theorem unknown_dropped (s : Conn) (id : Int) (tok : Nat) (h : lookup s.table id = none) :
    step s (.reply id tok) = s := by
  simp [step, h]

/-- **duplicates deliver nothing**: right after a reply with id `id` was processed (delivered or not), the id is not
in the table, so a second reply with the same id is dropped. -/
theorem duplicate_dropped (s : Conn) (id : Int) (tok tok' : Nat) :
    step (step s (.reply id tok)) (.reply id tok') = step s (.reply id tok) := by
  apply unknown_dropped
  simp only [step]
  cases hl : lookup s.table id with
  | none => exact hl
  | some w =>
    show lookup (erase s.table id) id = none
    rw [lookup_erase]; simp

/-- **late reply after a reset**: once a stream that was not hit by a connection reset is reset (timeout, downstream
reset), its id is gone from the table: a late reply for it is dropped. -/
theorem late_reply_after_reset_dropped (s : Conn) (w : Nat) (tok : Nat) (hw : w < s.nW)
    (hcr : (s.waiter w).connReset = false) :
    step (step s (.resetStream w)) (.reply (s.waiter w).id tok) = step s (.resetStream w) := by
  apply unknown_dropped
  simp only [step, hw, if_true, hcr]
  have hd : resetDeletes clientStream false = true := by decide
  simp only [hd, if_true]
  rw [(baseReset_fields _ w).1]
  show lookup (erase s.table (s.waiter w).id) (s.waiter w).id = none
  rw [lookup_erase]; simp

/-- **ids_distinct**: along any run (the counter is only moved by allocations), two stream objects created fewer
than one generator period apart (2^32 for bolt / boltv2 / tars, 2^64 for dubbo / dubbo-thrift) carry different ids.
The hypothesis is explicit because the code has no collision check. -/
theorem ids_distinct (p : Proto) (base : Int) (ops : List Op) (hops : ∀ op, op ∈ ops → op.isSetBase = false)
    (v w : Nat) :
    let s := reach p base ops
    v < w → w < s.nW → w - v < period p → (s.waiter v).id ≠ (s.waiter w).id := by
  intro s hvw hw hper
  have hi : IdInv s p (u64 base) :=
    idinv_run _ p (u64 base) ⟨rfl, rfl, fun w hw => by simp [init] at hw⟩ ops hops
  rw [hi.ids v (by omega), hi.ids w hw]
  exact idAt_distinct p (u64 base) (u64_range base) v w hvw hper

/-- the limitation on record: exactly one period later the generator hands out the same id again … -/
theorem wrap_collision (p : Proto) (base : Int) (n : Nat) :
    idAt p (u64 base) (n + period p) = idAt p (u64 base) n := idAt_wrap p (u64 base) (u64_range base) n

/-- … and if the older stream is still waiting, the table entry is overwritten: the reply to the older request
is delivered to the newer stream (reachable in the model: the negation of correlation without the hypothesis). -/
theorem collision_misdelivers (s : Conn) (v : Nat) (hv : v < s.nW)
    (_hold : lookup s.table (gen s.proto s.base).2 = some v) :
    lookup (step s (.newStream false)).table (gen s.proto s.base).2 = some s.nW ∧ s.nW ≠ v := by
  refine ⟨?_, by omega⟩
  rw [step_newStream]
  have : registers (!false) = true := by decide
  simp only [this, if_true]
  show lookup (insert s.table _ s.nW) _ = some s.nW
  rw [lookup_insert]; simp

/-- **correlation**: if fewer than one generator period of stream objects were created on the connection, a stream
that holds a response holds the one produced for it: whenever the request id of the delivered frame is the id of
stream `w`, the receiving stream IS `w`. Nobody receives someone else's answer. -/
theorem correlation (p : Proto) (base : Int) (ops : List Op) (hops : ∀ op, op ∈ ops → op.isSetBase = false)
    (v w : Nat) (g : Int × Nat) :
    let s := reach p base ops
    s.nW ≤ period p → v < s.nW → w < s.nW → g ∈ (s.waiter v).got → g.1 = (s.waiter w).id → v = w := by
  intro s hn hv hw hg hgw
  have hown := (delivery_once_and_own p base ops v hv).2 g hg
  have heq : (s.waiter v).id = (s.waiter w).id := by rw [← hown, hgw]
  rcases Nat.lt_trichotomy v w with h | h | h
  · exact absurd heq (ids_distinct p base ops hops v w h hw (by omega))
  · exact h
  · exact absurd heq.symm (ids_distinct p base ops hops w v h hv (by omega))

/-- **ping-pong**: when a new stream is only opened while nothing is registered on the connection (what the
ping-pong pool guarantees: exclusive leases and no reuse after an abandoned exchange — C09 `exclusive`,
`clean_reuse`), at every point at most the latest stream is registered: any response that is delivered goes to the
most recent request — the k-th response answers the k-th request. -/
theorem pingpong_fifo (p : Proto) (base : Int) (ops : List Op) (hex : Exclusive (init p base) ops) (id : Int) (w : Nat) :
    let s := reach p base ops
    lookup s.table id = some w → w = s.nW - 1 := by
  intro s hl
  have hpp : PP s := pp_run _ (Or.inl rfl) ops hex
  rcases hpp with h | ⟨k, hk, _⟩
  · rw [h] at hl; simp [lookup_nil] at hl
  · rw [hk, lookup_cons] at hl
    by_cases hki : k = id
    · simp [hki] at hl; exact hl.symm
    · simp [hki, lookup_nil] at hl

/-- the executable per-observation predicate holds of every model state. -/
theorem spec_holds_on_model (p : Proto) (base : Int) (ops : List Op) :
    obsSpecC (obsOf (reach p base ops)) = true := by
  have h : TInv (reach p base ops) := tinv_run _ (tinv_init p base) ops
  generalize reach p base ops = s at h
  unfold obsSpecC
  simp only [Bool.and_eq_true, List.all_eq_true, decide_eq_true_eq, List.any_eq_true, beq_iff_eq]
  refine ⟨⟨?_, h.keys⟩, ?_⟩
  · intro ow how
    simp only [obsOf, List.mem_map, List.mem_range] at how
    obtain ⟨w, hw, rfl⟩ := how
    exact h.got w hw
  · intro k hk
    simp only [obsOf, List.mem_map] at hk
    obtain ⟨e, he, rfl⟩ := hk
    have ⟨h1, h2, h3⟩ := h.entry e he
    refine ⟨{ id := (s.waiter e.2).id, got := (s.waiter e.2).got, resets := (s.waiter e.2).resets }, ?_, ?_⟩
    · simp only [obsOf, List.mem_map, List.mem_range]; exact ⟨e.2, h1, rfl⟩
    · simp [h2, h3]

/-! ### non-vacuity -/
-- replies in reverse order, a duplicate and an unknown id: each stream gets exactly its own reply
example : let s := reach .bolt 0 [.newStream false, .newStream false, .reply 2 10, .reply 2 11, .reply 99 12, .reply 1 13]
    (s.waiter 0).got = [(1, 13)] ∧ (s.waiter 1).got = [(2, 10)] ∧ s.table = [] := by decide
-- crossing the uint32 wrap: ids 4294967295, 0, 1
example : let s := reach .bolt 4294967294 [.newStream false, .newStream false, .newStream false]
    (s.waiter 0).id = 4294967295 ∧ (s.waiter 1).id = 0 ∧ (s.waiter 2).id = 1 := by decide
-- tars: sign-extended int32
example : (gen .tars 2147483647).2 = 18446744071562067968 := by decide
-- an Exclusive (ping-pong) history
example : Exclusive (init .bolt 0) [.newStream false, .reply 1 0, .newStream false, .resetStream 1, .newStream false] :=
  exclusive_of_B _ _ (by decide)

end MosnVerif.Props.C02
