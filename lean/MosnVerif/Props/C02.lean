import MosnVerif.Lemmas.StreamTable
import MosnVerif.Model.StreamTableSpec
namespace MosnVerif.Props.C02
open MosnVerif.Model.StreamTable
theorem placeholder : (init .bolt 0).nW = 0 := rfl
end MosnVerif.Props.C02
