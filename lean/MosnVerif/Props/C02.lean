import MosnVerif.Lemmas.StreamTable
import MosnVerif.Lemmas.Correlate
import MosnVerif.Model.StreamTableSpec
import MosnVerif.Lemmas.DispatchCtx
import MosnVerif.Model.DispatchCtxSpec
import MosnVerif.Lemmas.BufReuse
import MosnVerif.Lemmas.HpackOrder
import MosnVerif.Lemmas.StreamGen
import MosnVerif.Lemmas.StreamGenPool
import MosnVerif.Lemmas.H2ClientTable
import MosnVerif.Lemmas.ProxyGen
/-!
# C02 — request/response correlation on an xprotocol client stream connection (property theorems only)

About `Model/StreamTable.lean`: the per-connection id counter and table `clientStreams` of `streamConn`
(`pkg/stream/xprotocol/conn.go`), with the regenerated id generators of all five xprotocols (`Gen/StreamIds.lean`).
Every theorem quantifies over every protocol, every start value of the counter, EVERY list of operations
{new stream, one-way stream, reply frame with any request id in any order (duplicates, unknown ids, late replies),
stream reset, connection reset} and the stream objects involved.
-/
namespace MosnVerif.Props.C02
open MosnVerif.Model.StreamTable MosnVerif.Gen.StreamIds

def reach (p : Proto) (base : Int) (ops : List Op) : Conn := run (init p base) ops

/-- **refinement**: the association list behaves as a finite map — an insert / a delete is function update on
`lookup` — and along every run it never holds two entries for one id. -/
theorem table_refines_map (t : Table) (k k' : Int) (v : Nat) :
    lookup (insert t k v) k' = (if k' = k then some v else lookup t k') ∧
    lookup (erase t k) k' = (if k' = k then none else lookup t k') :=
  ⟨lookup_insert t k v k', lookup_erase t k k'⟩

theorem table_keys_distinct (p : Proto) (base : Int) (ops : List Op) :
    ((reach p base ops).table.map (·.1)).Nodup := (tinv_run _ (tinv_init p base) ops).keys

/-- **at most one delivery, and only the own id**: whatever the order of replies, duplicates, resets and connection
resets, a stream object is handed at most one response, and that response carries the request id the stream was
created with. -/
theorem delivery_once_and_own (p : Proto) (base : Int) (ops : List Op) (w : Nat) :
    let s := reach p base ops
    w < s.nW → (s.waiter w).got.length ≤ 1 ∧ ∀ g, g ∈ (s.waiter w).got → g.1 = (s.waiter w).id := by
  intro s hw
  exact (tinv_run _ (tinv_init p base) ops).got w hw

/-- **unknown ids deliver nothing**: a reply whose id is not in the table leaves the whole state untouched. -/
theorem unknown_dropped (s : Conn) (id : Int) (tok : Nat) (h : lookup s.table id = none) :
    step s (.reply id tok) = s := by
  simp [step, h]

/-- **duplicates deliver nothing**: right after a reply with id `id` was processed (delivered or not), the id is not
in the table, so a second reply with the same id is dropped. -/
theorem duplicate_dropped (s : Conn) (id : Int) (tok tok' : Nat) :
    step (step s (.reply id tok)) (.reply id tok') = step s (.reply id tok) := by
  apply unknown_dropped
  simp only [step]
  cases hl : lookup s.table id with
  | none => exact hl
  | some w =>
    show lookup (erase s.table id) id = none
    rw [lookup_erase]; simp

/-- **late reply after a reset**: once a stream that was not hit by a connection reset is reset (timeout, downstream
reset), its id is gone from the table: a late reply for it is dropped. -/
theorem late_reply_after_reset_dropped (s : Conn) (w : Nat) (tok : Nat) (hw : w < s.nW)
    (hcr : (s.waiter w).connReset = false) :
    step (step s (.resetStream w)) (.reply (s.waiter w).id tok) = step s (.resetStream w) := by
  apply unknown_dropped
  simp only [step, hw, if_true, hcr]
  have hd : resetDeletes clientStream false = true := by decide
  simp only [hd, if_true]
  rw [(baseReset_fields _ w).1]
  show lookup (erase s.table (s.waiter w).id) (s.waiter w).id = none
  rw [lookup_erase]; simp

/-- **ids_distinct**: along any run (the counter is only moved by allocations), two stream objects created fewer
than one generator period apart (2^32 for bolt / boltv2 / tars, 2^64 for dubbo / dubbo-thrift) carry different ids.
The hypothesis is explicit because the code has no collision check. -/
theorem ids_distinct (p : Proto) (base : Int) (ops : List Op) (hops : ∀ op, op ∈ ops → op.isSetBase = false)
    (v w : Nat) :
    let s := reach p base ops
    v < w → w < s.nW → w - v < period p → (s.waiter v).id ≠ (s.waiter w).id := by
  intro s hvw hw hper
  have hi : IdInv s p (u64 base) :=
    idinv_run _ p (u64 base) ⟨rfl, rfl, fun w hw => by simp [init] at hw⟩ ops hops
  rw [hi.ids v (by omega), hi.ids w hw]
  exact idAt_distinct p (u64 base) (u64_range base) v w hvw hper

/-- the limitation on record: exactly one period later the generator hands out the same id again … -/
theorem wrap_collision (p : Proto) (base : Int) (n : Nat) :
    idAt p (u64 base) (n + period p) = idAt p (u64 base) n := idAt_wrap p (u64 base) (u64_range base) n

/-- … and if the older stream is still waiting, the table entry is overwritten: the reply to the older request
is delivered to the newer stream (reachable in the model: the negation of correlation without the hypothesis). -/
theorem collision_misdelivers (s : Conn) (v : Nat) (hv : v < s.nW)
    (_hold : lookup s.table (gen s.proto s.base).2 = some v) :
    lookup (step s (.newStream false)).table (gen s.proto s.base).2 = some s.nW ∧ s.nW ≠ v := by
  refine ⟨?_, by omega⟩
  rw [step_newStream]
  have : registers (!false) = true := by decide
  simp only [this, if_true]
  show lookup (insert s.table _ s.nW) _ = some s.nW
  rw [lookup_insert]; simp

/-- **correlation**: if fewer than one generator period of stream objects were created on the connection, a stream
that holds a response holds the one produced for it: whenever the request id of the delivered frame is the id of
stream `w`, the receiving stream IS `w`. Nobody receives someone else's answer. -/
theorem correlation (p : Proto) (base : Int) (ops : List Op) (hops : ∀ op, op ∈ ops → op.isSetBase = false)
    (v w : Nat) (g : Int × Nat) :
    let s := reach p base ops
    s.nW ≤ period p → v < s.nW → w < s.nW → g ∈ (s.waiter v).got → g.1 = (s.waiter w).id → v = w := by
  intro s hn hv hw hg hgw
  have hown := (delivery_once_and_own p base ops v hv).2 g hg
  have heq : (s.waiter v).id = (s.waiter w).id := by rw [← hown, hgw]
  rcases Nat.lt_trichotomy v w with h | h | h
  · exact absurd heq (ids_distinct p base ops hops v w h hw (by omega))
  · exact h
  · exact absurd heq.symm (ids_distinct p base ops hops w v h hv (by omega))

/-- **ping-pong**: when a new stream is only opened while nothing is registered on the connection (what the
ping-pong pool guarantees: exclusive leases and no reuse after an abandoned exchange — C09 `exclusive`,
`clean_reuse`), at every point at most the latest stream is registered: any response that is delivered goes to the
most recent request — the k-th response answers the k-th request. -/
theorem pingpong_fifo (p : Proto) (base : Int) (ops : List Op) (hex : Exclusive (init p base) ops) (id : Int) (w : Nat) :
    let s := reach p base ops
    lookup s.table id = some w → w = s.nW - 1 := by
  intro s hl
  have hpp : PP s := pp_run _ (Or.inl rfl) ops hex
  rcases hpp with h | ⟨k, hk, _⟩
  · rw [h] at hl; simp [lookup_nil] at hl
  · rw [hk, lookup_cons] at hl
    by_cases hki : k = id
    · simp [hki] at hl; exact hl.symm
    · simp [hki, lookup_nil] at hl

/-- the executable per-observation predicate holds of every model state. -/
theorem spec_holds_on_model (p : Proto) (base : Int) (ops : List Op) :
    obsSpecC (obsOf (reach p base ops)) = true := by
  have h : TInv (reach p base ops) := tinv_run _ (tinv_init p base) ops
  generalize reach p base ops = s at h
  unfold obsSpecC
  simp only [Bool.and_eq_true, List.all_eq_true, decide_eq_true_eq, List.any_eq_true, beq_iff_eq]
  refine ⟨⟨?_, h.keys⟩, ?_⟩
  · intro ow how
    simp only [obsOf, List.mem_map, List.mem_range] at how
    obtain ⟨w, hw, rfl⟩ := how
    exact h.got w hw
  · intro k hk
    simp only [obsOf, List.mem_map] at hk
    obtain ⟨e, he, rfl⟩ := hk
    have ⟨h1, h2, h3⟩ := h.entry e he
    refine ⟨{ id := (s.waiter e.2).id, got := (s.waiter e.2).got, resets := (s.waiter e.2).resets }, ?_, ?_⟩
    · simp only [obsOf, List.mem_map, List.mem_range]; exact ⟨e.2, h1, rfl⟩
    · simp [h2, h3]

/-! ### non-vacuity -/
-- replies in reverse order, a duplicate and an unknown id: each stream gets exactly its own reply
example : let s := reach .bolt 0 [.newStream false, .newStream false, .reply 2 10, .reply 2 11, .reply 99 12, .reply 1 13]
    (s.waiter 0).got = [(1, 13)] ∧ (s.waiter 1).got = [(2, 10)] ∧ s.table = [] := by decide
-- crossing the uint32 wrap: ids 4294967295, 0, 1
example : let s := reach .bolt 4294967294 [.newStream false, .newStream false, .newStream false]
    (s.waiter 0).id = 4294967295 ∧ (s.waiter 1).id = 0 ∧ (s.waiter 2).id = 1 := by decide
-- tars: sign-extended int32
example : (gen .tars 2147483647).2 = 18446744071562067968 := by decide
-- an Exclusive (ping-pong) history
example : Exclusive (init .bolt 0) [.newStream false, .reply 1 0, .newStream false, .resetStream 1, .newStream false] :=
  exclusive_of_B _ _ (by decide)


/-! ## end to end: downstream connection → proxy → upstream connection and back (`Model/Correlate.lean`)

N exchanges share one downstream and one upstream connection. Every theorem quantifies over every protocol's id
generator, every start value of the upstream counter and EVERY list of events {request decoded (any client id, any
token), forward (first try or retry), upstream reply frame with any id and payload in any order, try given up for a
retry, local error reply before or after the request was forwarded (timeouts, retries used up, resets, no host),
upstream connection reset}. Where the request id of a written frame comes from is regenerated (`Gen/StreamRestore`). -/
section EndToEnd
open MosnVerif.Model.Correlate hiding step run init
open MosnVerif.Gen.StreamRestore

def reachE (p : Proto) (base : Int) (evs : List Ev) : Sys := Model.Correlate.run (Model.Correlate.init p base) evs

/-- **id restoration** (about the regenerated placement of `SetRequestId`): whatever frame an xprotocol stream is handed
— a response decoded from the upstream, the request frame object for a local (hijack) reply, the request frame to be
forwarded — and whatever request id that frame currently carries (the request frame object carries the UPSTREAM id
once it has been forwarded), the frame the stream writes carries the stream's own id. -/
theorem id_restoration (direction sid streamType frameId : Int) (withData : Bool) :
    writtenId direction sid streamType frameId withData = sid := written_restores direction sid streamType frameId withData

/-- **end_to_end_correlation**: every frame written on the downstream connection was written for an exchange `k` of
that connection, carries exactly the request id the client used for `k`, and when it has a payload `t`, then `t` is what
the upstream stream object `w` received in the (one) reply frame carrying `w`'s own id, where `w` is a stream object
opened for exchange `k` and the request frame that went out under that id carried `k`'s token: the payload is the
upstream's reply to the request derived from `k`. Error replies carry no payload (`via = none`). -/
theorem end_to_end_correlation (p : Proto) (base : Int) (evs : List Ev) (f : DFrame) :
    let s := reachE p base evs
    f ∈ s.down →
      f.ex < s.nE ∧ f.id = (s.ex f.ex).did ∧ f.pay ≠ .mixed ∧
      ∀ t, f.pay = .ok t → ∃ w, f.via = some w ∧ w < s.up.nW ∧ s.owner w = f.ex ∧
        (s.up.waiter w).got = [((s.up.waiter w).id, t)] ∧
        s.wire[w]? = some ((s.up.waiter w).id, (s.ex f.ex).tok) := by
  intro s hf
  have h : Inv s p (u64 base) := inv_run (inv_init p base) evs
  have ⟨a, b, _, d, e⟩ := h.frames f hf
  refine ⟨a, b, d, ?_⟩
  intro t ht
  obtain ⟨w, w1, w2, w3, w4⟩ := e t ht
  exact ⟨w, w1, w2, w3, w4, by rw [← w3]; exact h.wire w w2⟩

/-- **each exchange gets at most one reply** (answer or error, never both, never twice) -/
theorem at_most_one_reply (p : Proto) (base : Int) (evs : List Ev) (k : Nat) :
    ((reachE p base evs).down.filter (fun f => f.ex == k)).length ≤ 1 := by
  have h : Inv (reachE p base evs) p (u64 base) := inv_run (inv_init p base) evs
  have hn := h.exNodup
  generalize (reachE p base evs).down = l at hn
  induction l with
  | nil => simp
  | cons a r ih =>
    simp only [List.map_cons, List.nodup_cons] at hn
    simp only [List.filter_cons]
    split
    · rename_i hak
      have hr : r.filter (fun f => f.ex == k) = [] := by
        rw [List.filter_eq_nil_iff]
        intro f hf hfk
        apply hn.1
        have e1 : a.ex = k := by simpa using hak
        have e2 : f.ex = k := by simpa using hfk
        rw [e1, ← e2]; exact List.mem_map_of_mem hf
      simp [hr]
    · exact ih hn.2

/-- **fresh upstream ids**: the w-th request frame written on the upstream connection carries the id of the w-th
allocation of the connection's generator (never the client's id) and the token of the exchange it was opened for … -/
theorem upstream_fresh_ids (p : Proto) (base : Int) (evs : List Ev) (w : Nat) :
    let s := reachE p base evs
    w < s.up.nW → s.wire[w]? = some (idAt p (u64 base) w, (s.ex (s.owner w)).tok) ∧ s.owner w < s.nE := by
  intro s hw
  have h : Inv s p (u64 base) := inv_run (inv_init p base) evs
  exact ⟨by rw [← h.idinv.ids w hw]; exact h.wire w hw, h.ownLt w hw⟩

/-- … so two requests in flight upstream never share an id below one generator period -/
theorem upstream_ids_distinct (p : Proto) (base : Int) (v w : Nat) (hvw : v < w) (hper : w - v < period p) :
    idAt p (u64 base) v ≠ idAt p (u64 base) w := idAt_distinct p (u64 base) (u64_range base) v w hvw hper

/-- **stale_reply_dropped**: once the try in flight of exchange `k` was ended locally — by a timeout / reset error reply
(`fail`) or given up for a retry (`abandon`) — a late upstream reply carrying the id of that try changes NOTHING: no
frame downstream, no state. (A stream reset by a connection reset stays in the table, as in the code; a reply for it is
handed to a listener that ignores it — `at_most_one_reply` covers that case.) -/
theorem stale_reply_dropped (s : Sys) (k w : Nat) (hk : k < s.nE) (hd : (s.ex k).done = false)
    (hc : (s.ex k).cur = some w) (hw : w < s.up.nW) (hcr : (s.up.waiter w).connReset = false) (tok : Nat) (body : Bool) :
    Model.Correlate.step (Model.Correlate.step s (.fail k)) (.reply (s.up.waiter w).id tok body) = Model.Correlate.step s (.fail k) ∧
    Model.Correlate.step (Model.Correlate.step s (.abandon k)) (.reply (s.up.waiter w).id tok body) =
      Model.Correlate.step s (.abandon k) := by
  have hl := lookup_after_reset s.up w hw hcr
  constructor
  · have h1 : (Model.Correlate.step s (.fail k)).up = Model.StreamTable.step s.up (.resetStream w) := by
      simp [Model.Correlate.step, hk, hd, hc]
    have h2 : lookup (Model.Correlate.step s (.fail k)).up.table (responseKey (s.up.waiter w).id) = none := by
      rw [h1, responseKey_eq]; exact hl
    generalize Model.Correlate.step s (.fail k) = s' at h2
    simp [Model.Correlate.step, h2]
  · have h1 : (Model.Correlate.step s (.abandon k)).up = Model.StreamTable.step s.up (.resetStream w) := by
      simp [Model.Correlate.step, hk, hd, hc]
    have h2 : lookup (Model.Correlate.step s (.abandon k)).up.table (responseKey (s.up.waiter w).id) = none := by
      rw [h1, responseKey_eq]; exact hl
    generalize Model.Correlate.step s (.abandon k) = s' at h2
    simp [Model.Correlate.step, h2]

/-- **nobody receives someone else's answer**: when the client's request ids are pairwise distinct (its own
obligation), a frame carrying the id of exchange `k` WAS written for `k` … -/
theorem client_attribution (p : Proto) (base : Int) (evs : List Ev) (f : DFrame) (k : Nat) :
    let s := reachE p base evs
    (∀ i j, i < s.nE → j < s.nE → (s.ex i).did = (s.ex j).did → i = j) →
    f ∈ s.down → k < s.nE → f.id = (s.ex k).did → f.ex = k := by
  intro s hinj hf hk hid
  have h : Inv s p (u64 base) := inv_run (inv_init p base) evs
  have ⟨a, b, _⟩ := h.frames f hf
  exact hinj _ _ a hk (by rw [← b, hid])

/-- … and no request id is answered twice on the downstream connection. -/
theorem reply_ids_distinct (p : Proto) (base : Int) (evs : List Ev) :
    let s := reachE p base evs
    (∀ i j, i < s.nE → j < s.nE → (s.ex i).did = (s.ex j).did → i = j) → ((framesOf s).map (·.1)).Nodup := by
  intro s hinj
  have h : Inv s p (u64 base) := inv_run (inv_init p base) evs
  have hn := h.exNodup
  unfold framesOf
  rw [List.map_map]
  unfold List.Nodup at hn ⊢
  rw [List.pairwise_map] at hn ⊢
  refine List.Pairwise.imp_of_mem ?_ hn
  intro a b ha hb hab heq
  apply hab
  have ⟨a1, a2, _⟩ := h.frames a ha
  have ⟨b1, b2, _⟩ := h.frames b hb
  simp only [Function.comp] at heq
  exact hinj _ _ a1 b1 (by rw [← a2, ← b2, heq])

/-- the executable end-to-end predicate (what the harness evaluates on the frames the real client received) holds of
everything the model can produce, for clients with pairwise distinct ids and upstreams that answer what they were asked -/
theorem e2e_spec_holds_on_model (p : Proto) (base : Int) (evs : List Ev) (hh : Honest (Model.Correlate.init p base) evs) :
    let s := reachE p base evs
    (∀ i j, i < s.nE → j < s.nE → (s.ex i).did = (s.ex j).did → i = j) → specE2E (reqsOf s) (framesOf s) = true := by
  intro s hinj
  have h : Inv s p (u64 base) := inv_run (inv_init p base) evs
  unfold specE2E
  simp only [Bool.and_eq_true, List.all_eq_true, List.any_eq_true, decide_eq_true_eq]
  refine ⟨?_, reply_ids_distinct p base evs hinj⟩
  intro x hx
  simp only [framesOf, List.mem_map] at hx
  obtain ⟨f, hf, rfl⟩ := hx
  have ⟨a, b, _, d, _⟩ := h.frames f hf
  refine ⟨((s.ex f.ex).did, (s.ex f.ex).tok), ?_, ?_⟩
  · simp only [reqsOf, List.mem_map, List.mem_range]; exact ⟨f.ex, a, rfl⟩
  · simp only [answers, Bool.and_eq_true, beq_iff_eq]
    refine ⟨b.symm, ?_⟩
    cases hp : f.pay with
    | ok t => simp; exact token_echo p base evs hh f t hf hp
    | err => rfl
    | mixed => exact absurd hp d

/-! ### non-vacuity (end to end) -/
-- three exchanges with client ids 7, 8, 9 on an upstream connection whose counter stands at 6 (upstream ids 7, 8, 9
-- in forwarding order 2, 0, 1): replies in a third order, exchange 1 times out and its late reply is dropped
def exRun : List Ev := [.request 7 100 true, .request 8 101 true, .request 9 102 true,
  .forward 2, .forward 0, .forward 1, .reply 8 100 true, .fail 1, .reply 9 101 true, .reply 7 102 true, .reply 7 102 true]
example : framesOf (reachE .bolt 6 exRun) = [(7, .ok 100), (8, .err), (9, .ok 102)] ∧
    (reachE .bolt 6 exRun).wire = [(7, 102), (8, 100), (9, 101)] := by decide
example : honestB (Model.Correlate.init .bolt 6) exRun = true ∧ specE2E (reqsOf (reachE .bolt 6 exRun)) (framesOf (reachE .bolt 6 exRun)) = true := by
  decide
-- a retry: the first try is given up, the retry gets a fresh id, the late answer to the first try is dropped
example : framesOf (reachE .bolt 0 [.request 50 1 true, .forward 0, .abandon 0, .forward 0, .reply 1 1 true, .reply 2 1 true]) = [(50, .ok 1)] ∧
    (reachE .bolt 0 [.request 50 1 true, .forward 0, .abandon 0, .forward 0, .reply 1 1 true, .reply 2 1 true]).wire = [(1, 1), (2, 1)] := by decide
-- the hypotheses of stale_reply_dropped are satisfiable
example : let s := reachE .bolt 0 [.request 50 1 true, .forward 0]
    0 < s.nE ∧ (s.ex 0).done = false ∧ (s.ex 0).cur = some 0 ∧ 0 < s.up.nW ∧ (s.up.waiter 0).connReset = false := by decide
-- what the seeded change does: a hijack reply that takes its id from the request frame object instead of the stream
-- carries the UPSTREAM id once the request was forwarded (id operations `[copyRequestId]` instead of `[setStreamId]`)
example : applyOps false 7 9 0 [.copyRequestId] = 9 ∧ applyOps false 7 9 0 [.setStreamId] = 7 := by decide

end EndToEnd

/-! ## per-frame isolation on the server stream connection (`streamConn.Dispatch`, Model/DispatchCtx.lean)

A request is handed to its receiver together with the stream-level context it was decoded with; the receiver (the
proxy's worker) reads frame, stream and context AFTER `Dispatch` has gone on.  `genShape` is the call structure of the
loop as regenerated from conn.go on this run (is `ctxManager.Get()` a statement of the loop? behind which stream types
is `ctxManager.Next()` reached?). -/
section DispatchContext
open MosnVerif.Model.DispatchCtx

/-- the regenerated loop fetches the context inside the loop and calls `Next` behind request, one-way and response
frames alike (this is the statement that stops checking when the loop is restructured) -/
theorem dispatch_shape_per_frame : genShape.perFrame := by decide

/-- **frame_context_isolated**: for EVERY chunking (list of `Dispatch` calls, any number of frames per call) and every
frame sequence (requests, one-ways, responses, heartbeats; any ids and tokens, equal ones included), whether or not the
codec pools its frame objects in the context: every receiver reads back exactly the id, headers/body token, stream id
and raw bytes of ITS OWN frame; no context is used by two frames; no context is held by two receivers (none is
released twice). -/
theorem frame_context_isolated (pf : Bool) (calls : List (List Frame)) :
    Isolated genShape pf (run genShape pf calls) :=
  isolated_of_inv (inv_run dispatch_shape_per_frame pf calls)

/-- no message mixes exchanges, at every moment: what the receivers hold after ANY prefix of the reads is the list of
their own frames (the delivered requests are exactly the request / one-way frames, each once, in order) -/
theorem receivers_see_own_frames (pf : Bool) (calls : List (List Frame)) :
    views genShape pf (run genShape pf calls) = (calls.flatten.filter (·.kind.delivers)).map own :=
  views_eq dispatch_shape_per_frame pf calls

/-- the executable predicate of the `ctx` cases holds of the model's output (snapshots after each call, at the end,
context classes, heartbeat acknowledgements) -/
theorem ctx_spec_holds_on_model (pf : Bool) (calls : List (List Frame)) :
    specCtx calls.flatten (runA genShape pf init [] calls).2 (views genShape pf (runA genShape pf init [] calls).1)
      (deliveredClasses (runA genShape pf init [] calls).1) (runA genShape pf init [] calls).1.acks = true := by
  have hA := runA_eq dispatch_shape_per_frame pf calls init [] (inv_init _ _) (by simp [Model.DispatchCtx.init])
  have hr : List.foldl (dispatch genShape pf) init calls = run genShape pf calls := rfl
  rw [hA.1, hA.2, hr]
  have hi := inv_run dispatch_shape_per_frame pf calls
  have hd := run_delivered genShape pf calls
  have hown : expect = own := rfl
  have hlen : (deliveredClasses (run genShape pf calls)).length = (calls.flatten.filter (·.kind.delivers)).length := by
    rw [← hd.1]; simp [deliveredClasses]
  simp only [specCtx, views_of_inv hi, hd.1, hd.2, hown, hlen, List.length_map, beq_self_eq_true, Bool.true_and,
    Bool.and_true, decide_eq_true_eq]
  exact classes_nodup hi

/-! ### non-vacuity, and what the two seeded restructurings do -/
def q1 : Frame := ⟨.request, 1, 101, 201⟩
def q2 : Frame := ⟨.request, 2, 102, 202⟩
def o3 : Frame := ⟨.oneway, 3, 103, 203⟩
def h4 : Frame := ⟨.heartbeat, 4, 0, 204⟩
def r5 : Frame := ⟨.response, 5, 105, 205⟩
-- three requests, a heartbeat and a response in ONE read: four receivers... each with its own frame
example : views genShape true (run genShape true [[q1, o3, h4, r5, q2]]) = [own q1, own o3, own q2] ∧
    (run genShape true [[q1, o3, h4, r5, q2]]).decoded = [0, 1, 2, 3, 4] ∧ (run genShape true [[q1, o3, h4, r5, q2]]).acks = [4] := by decide
-- `Get` hoisted out of the loop: one frame per read is fine ...
example : Isolated hoistedShape true (run hoistedShape true [[q1], [q2], [o3]]) := by decide
-- ... two requests completed by one read share a context: the first receiver finds the second request
example : ¬ Isolated hoistedShape true (run hoistedShape true [[q1, q2]]) := by decide
example : views hoistedShape true (run hoistedShape true [[q1, q2]]) = [own q2, own q2] := by decide
-- also for a codec that does not pool its frames: stream id and raw bytes are the neighbour's
example : views hoistedShape false (run hoistedShape false [[q1, q2]]) = [⟨some 1, some 101, some 2, some 2, some 202⟩, own q2] := by decide
-- `Next` only behind Request frames: requests and responses alone are fine ...
example : Isolated requestOnlyShape true (run requestOnlyShape true [[q1, q2], [q1]]) := by decide
-- ... a one-way request shares its context with the frame behind it, in one read or in two, and is released twice
example : ¬ Isolated requestOnlyShape true (run requestOnlyShape true [[o3], [q1]]) := by decide
example : views requestOnlyShape true (run requestOnlyShape true [[o3], [q1]]) = [⟨some 1, some 101, none, some 1, some 201⟩, own q1] ∧
    ((run requestOnlyShape true [[o3], [q1]]).delivered.map (·.ctx)) = [0, 0] := by decide

end DispatchContext

/-! ## pooled per-request buffers (`httpBufferCtx.Reset`, Model/BufReuse.lean)

`Gen.BufReset` is regenerated from the `Reset` methods of the pooled buffer contexts: the fields of each buffers struct
and what `Reset` clears (the whole struct, a whole field, or only a sub-field such as `.Header`). -/
section BufferReuse
open MosnVerif.Model.BufReuse MosnVerif.Gen.BufReset

/-- every regenerated `Reset` (HTTP/1 stream buffers, xprotocol stream buffers, proxy buffers, bolt / boltv2 codec
buffers) resets EVERY field of its buffers struct as a whole; the HTTP/1 struct has the four messages of the model -/
theorem reset_tables_complete : (all.all fullReset) = true ∧ covers http = true := by decide

/-- **clean_reuse**: for EVERY sequence of exchanges (forwarded or not, with and without request body, upstream answer
with / without body, HEAD, local reply, direct response with / without body), EVERY initial pool of clean objects and
EVERY hand-out order of the pool (`pick` per exchange: any pooled object or a new one), what the client and the
upstream receive for exchange k is what they would receive from a fresh object, and it carries only tokens of
exchange k: planned status, own header tokens, exactly the planned body (none for a body-less answer), and the upstream
sees the request with exactly its own body. -/
theorem clean_reuse (xs : List (Ex × Nat)) (pool : List Obj) (hp : ∀ o ∈ pool, o = Obj.zero) :
    run http pool xs = xs.map (fun x => (serve Obj.zero x.1).2) ∧
    ∀ x ∈ xs, ownOut x.1 (serve Obj.zero x.1).2 = true :=
  ⟨run_zero (by decide) reset_tables_complete.2 xs pool hp, fun x _ => serve_zero_own x.1⟩

/-- the same for any buffer context whose regenerated table is complete (the statement the other contexts instantiate) -/
theorem clean_reuse_of_complete (c : BufCtx) (hf : fullReset c = true) (hc : covers c = true)
    (xs : List (Ex × Nat)) (pool : List Obj) (hp : ∀ o ∈ pool, o = Obj.zero) :
    ∀ (i : Nat) (o : Out), (run c pool xs)[i]? = some o → ∃ x : Ex × Nat, xs[i]? = some x ∧ ownOut x.1 o = true := by
  intro i o h
  rw [run_zero hf hc xs pool hp, List.getElem?_map] at h
  cases hx : xs[i]? with
  | none => simp [hx] at h
  | some x =>
    simp only [hx, Option.map_some, Option.some.injEq] at h
    exact ⟨x, rfl, h ▸ serve_zero_own x.1⟩

/-- the executable predicate of the `h1b` cases holds of the model's output -/
theorem h1b_spec_holds_on_model (exs : List Ex) :
    ∀ o ∈ (run http [] (exs.map (fun e => (e, 0)))).zip exs, ownOut o.2 o.1 = true := by
  intro o ho
  rw [run_zero (by decide) reset_tables_complete.2 _ [] (by intro _ h; cases h)] at ho
  simp only [List.map_map] at ho
  have : ∀ (l : List Ex) (o : Out × Ex), o ∈ (l.map ((fun x : Ex × Nat => (serve Obj.zero x.1).2) ∘ fun e => (e, 0))).zip l →
      ownOut o.2 o.1 = true := by
    intro l
    induction l with
    | nil => intro o h; cases h
    | cons e es ih =>
      intro o h
      simp only [List.map_cons, List.zip_cons_cons, List.mem_cons] at h
      rcases h with h | h
      · rw [h]; exact serve_zero_own e
      · exact ih o h
  exact this exs o ho

/-! ### non-vacuity, and what a partial Reset does -/
def exUp (k : Nat) (body : Bool) : Ex := ⟨k, true, false, false, some body, none, 200⟩
def exNoRoute (k : Nat) : Ex := ⟨k, false, false, false, none, none, 404⟩
def exPost (k : Nat) : Ex := ⟨k, true, false, true, some false, none, 200⟩
/-- the seeded change: only the header of serverResponse is reset -/
def partialHttp : BufCtx := { http with clears := http.clears.map (fun p => if p.1 == "serverResponse" then (p.1, ["Header"]) else p) }
example : fullReset partialHttp = false := by decide
-- an answer with a body, then a 404 on the recycled object: with the regenerated Reset the 404 has no body ...
example : (run http [] [(exUp 0 true, 0), (exNoRoute 1, 0)]).map (·.respB) = [["r0"], []] := by decide
-- ... with the partial Reset it carries the body of exchange 0, and so does a later upstream answer without body
example : (run partialHttp [] [(exUp 0 true, 0), (exNoRoute 1, 0), (exUp 2 false, 0)]).map (·.respB) = [["r0"], ["r0"], ["r0"]] := by decide
example : (run partialHttp [] [(exUp 0 true, 0), (exNoRoute 1, 0)]).map (ownOut (exNoRoute 1)) = [false, false] := by decide
-- a new object instead of the recycled one hides it: the hand-out order matters once Reset is partial
example : (run partialHttp [] [(exUp 0 true, 0), (exNoRoute 1, 7)]).map (·.respB) = [["r0"], []] := by decide
-- client side: clientRequest not reset => a later body-less request carries an earlier request's body upstream
def partialClient : BufCtx := { http with clears := http.clears.filter (fun p => p.1 != "clientRequest") }
example : ((run partialClient [] [(exPost 0, 0), (exUp 1 false, 0)]).map (·.up)) =
    [some (["q0"], ["q0"]), some (["q1"], ["q0"])] := by decide

end BufferReuse

/-! ## HPACK encode / write atomicity on one HTTP/2 connection (Model/HpackOrder.lean)

`Gen.H2WriteLock`: EVERY function of pkg/module/http2/mhttp2.go that uses an HPACK encoder or writes HEADERS /
CONTINUATION frames (found again on each run, placed on the server or the client side by its receiver type), with its
lock / unlock / deferred unlock / HPACK-encode / frame-write actions in source order; and the names of the functions of
the other files of the package that use an encoder. -/
section HpackWriteOrder
open MosnVerif.Model.HpackOrder MosnVerif.Gen.H2WriteLock

/-- closed world of encoder users: outside mhttp2.go only the x/net code MOSN carries along touches an HPACK encoder
(its serve-loop frame writers, `ClientConn.roundTrip` / `writeRequestBody` under `wmu`, and the encode helpers the
M… functions call inside their critical sections); every function of mhttp2.go that does is in `fns`, and each of them
both encodes and writes. A new user anywhere in the package changes one of the two lists. -/
theorem h2_encoder_users :
    stockUsers = ["ClientConn.encodeHeaders", "ClientConn.encodeTrailers", "ClientConn.roundTrip", "ClientConn.writeHeader",
      "clientStream.writeRequestBody", "encKV", "encodeHeaders", "serverConn.processSetting",
      "write100ContinueHeadersFrame.writeFrame", "writePushPromise.writeFrame", "writeResHeaders.writeFrame"] ∧
    fns.map (·.name) = ["MServerConn.writeHeaders", "MClientConn.WriteHeaders", "MClientStream.writeDataAndTrailer"] ∧
    fns.all (fun f => f.acts.contains .enc && f.acts.contains .wr) = true := by decide

/-- per connection side (one encoder, one connection) there is ONE mutex that EVERY function of the side holds without
interruption from before its first encode action until after its last frame write (CONTINUATIONs included); a mutex
only some of them hold does not count -/
theorem h2_write_lock_discipline :
    (commonGuard serverFns).isEmpty = false ∧ (commonGuard clientFns).isEmpty = false ∧
    fns.all (fun f => atomicEncWrite f.acts) = true := by decide

/-- HPACK table discipline: whatever the table, a block decodes to the header list it was encoded from and leaves the
decoder's table equal to the encoder's -/
theorem hpack_block_sync (cap : Nat) (t : Model.HpackOrder.Table) (fs : List Field) :
    decBlock cap t (encBlock cap t fs).2 = some ((encBlock cap t fs).1, fs) := dec_enc_block cap fs t

/-- **hpack_wire_order**: on either connection side, ANY number of concurrent writers, each a call of ANY of the
side's regenerated functions (request headers and trailers mixed), one header block each, any header lists, any table
capacity, and EVERY interleaving the named mutexes allow (a writer is excluded only by writers holding a mutex of the
same name): at most one block is between encode and write; the wire followed by that block is the encode order, so a
peer decoding in wire order with one table reconstructs, block by block, exactly (stream, header list) as encoded —
the decoded list is a prefix of the encode order, every pair is the pair of one of the writers —, and once nothing is
in flight the tables agree. -/
theorem hpack_wire_order (side : List Fn) (hside : side = serverFns ∨ side = clientFns)
    (calls : List Fn) (hcalls : ∀ f ∈ calls, f ∈ side)
    (cap : Nat) (reqs : List (Nat × List Field)) (sched : List Nat) :
    let s := (Sys.start cap reqs (calls.map (fun f => heldAcross f.acts))).run sched
    decAll cap [] (s.wire ++ s.inFlight) = some (s.encT, s.sent) ∧
    (∃ t o, decAll cap [] s.wire = some (t, o) ∧ o <+: s.sent) ∧
    (s.pending = [] → decAll cap [] s.wire = some (s.encT, s.sent)) ∧
    (∀ x ∈ s.sent, x ∈ reqs) ∧ s.pending.length ≤ 1 := by
  intro s
  have hne : (commonGuard side).isEmpty = false := by
    rcases hside with rfl | rfl
    · exact h2_write_lock_discipline.1
    · exact h2_write_lock_discipline.2.1
  obtain ⟨m, hm⟩ : ∃ m, m ∈ commonGuard side := by
    cases hc : commonGuard side with
    | nil => simp [hc] at hne
    | cons a r => exact ⟨a, by simp⟩
  have hg : ∀ g ∈ calls.map (fun f => heldAcross f.acts), m ∈ g := by
    intro g hg
    obtain ⟨f, hf, rfl⟩ := List.mem_map.mp hg
    exact commonGuard_mem hm f (hcalls f hf)
  have hi : Inv m s := inv_run (inv_start m cap reqs _ hg) sched
  have hc := run_cap (Sys.start cap reqs (calls.map (fun f => heldAcross f.acts))) sched
  have hsync : decAll cap [] (s.wire ++ s.inFlight) = some (s.encT, s.sent) := by
    have h := dec_enc_all cap s.sent []
    have hs := hi.sync
    have hcap : s.cap = cap := hc.1
    rw [hcap] at hs
    rw [hs] at h
    exact h
  refine ⟨hsync, ?_, ?_, ?_, ?_⟩
  · obtain ⟨t1, o1, o2, h1, _, h3⟩ := decAll_append cap _ _ _ _ _ hsync
    exact ⟨t1, o1, h1, ⟨o2, h3.symm⟩⟩
  · intro hp
    have : s.inFlight = [] := by simp [Sys.inFlight, hp]
    rw [this, List.append_nil] at hsync
    exact hsync
  · intro x hx
    have := hi.own x hx
    rw [hc.2] at this
    exact this
  · rcases hi.pend with h1 | ⟨_, _, _, h1, _⟩ <;> simp [h1]

/-! ### non-vacuity, and what the seeded changes do -/
def p0 : Field := ("x-p0", "v0")
def p1 : Field := ("x-p1", "v1")
def p2 : Field := ("x-p2", "v2")
def wreqs : List (Nat × List Field) := [(1, [("x-u0", "r0"), p1]), (3, [p2, ("x-u1", "r1")]), (5, [p0, p1, p2])]
def guardsOf (fs : List Fn) : List (List String) := fs.map (fun f => heldAcross f.acts)
-- the real guards: the server function holds mu; both client functions hold hmu (WriteHeaders also mu)
example : guardsOf serverFns = [["mu"]] ∧ guardsOf clientFns = [["hmu", "mu"], ["hmu"]] ∧
    commonGuard serverFns = ["mu"] ∧ commonGuard clientFns = ["hmu"] := by decide
-- writer 2 warms the table, then writers 0 and 1 in either order: the peer sees what was sent
example : (decAll 8 [] ((Sys.start 8 wreqs (guardsOf [serverWriteHeaders, serverWriteHeaders, serverWriteHeaders])).run
      [2, 2, 1, 1, 0, 0]).wire).map (·.2) =
    some [(5, [p0, p1, p2]), (3, [p2, ("x-u1", "r1")]), (1, [("x-u0", "r0"), p1])] := by decide
-- client side, request headers (writers 0, 2) and trailers (writer 1) mixed; writer 1 tries to get between writer 0's
-- encode and write and is excluded by hmu: its steps are lost until writer 0 has written
def mixedRun : Sys :=
  (Sys.start 8 wreqs (guardsOf [clientWriteHeaders, clientTrailers, clientWriteHeaders])).run [2, 2, 0, 1, 1, 0, 1, 1]
example : mixedRun.wire.map (·.stream) = [5, 1, 3] ∧
    (decAll 8 [] mixedRun.wire).map (·.2) = some [wreqs[2], wreqs[0], wreqs[1]] := by decide
-- the mutex released between encoding and writing: no guard ...
def leaky : List Act := [.lock "mu", .enc, .enc, .unlock "mu", .wr, .wr]
example : atomicEncWrite leaky = false ∧ heldAcross leaky = [] := by decide
-- ... a lock taken again only around the write does not help either
example : atomicEncWrite [.lock "mu", .enc, .unlock "mu", .lock "mu", .wr, .unlock "mu"] = false := by decide
-- a trailing unlock after the last write is fine
example : heldAcross [.lock "mu", .enc, .wr, .wr, .unlock "mu"] = ["mu"] := by decide
-- the server mutex released before the CONTINUATION frames: no guard, no common mutex
example : commonGuard [⟨"MServerConn.writeHeaders", [.lock "mu", .enc, .enc, .wr, .unlock "mu", .wr]⟩] = [] := by decide
-- writer 0 encodes, writer 1 encodes and writes, writer 0 writes: both streams SILENTLY get the other's pool value
-- (x-p1 for x-p2 and vice versa): no decoding error, wrong header values
example : (decAll 8 [] ((Sys.start 8 wreqs [heldAcross leaky, heldAcross leaky, heldAcross leaky]).run [2, 2, 0, 1, 1, 0]).wire).map (·.2) =
    some [(5, [p0, p1, p2]), (3, [p1, ("x-u1", "r1")]), (1, [("x-u0", "r0"), p2])] := by decide
-- without a warm table the lagging decoder fails outright
example : decAll 8 [] ((Sys.start 8 [(1, [p0]), (3, [p0])] [[], []]).run [0, 1, 1, 0]).wire = none := by decide

/-- NEGATION WITNESS for "each function holds SOME mutex" (the seeded shape): WriteHeaders releases hmu after encoding
and keeps only mu across the write; the trailers path holds only hmu. Each function on its own is atomic, the side has
no common mutex, ... -/
def seededWriteHeaders : Fn :=
  ⟨"MClientConn.WriteHeaders", [.lock "mu", .deferUnlock "mu", .lock "hmu", .enc, .unlock "hmu", .wr]⟩
example : atomicEncWrite seededWriteHeaders.acts = true ∧ atomicEncWrite clientTrailers.acts = true ∧
    guardsOf [seededWriteHeaders, clientTrailers] = [["mu"], ["hmu"]] ∧
    commonGuard [seededWriteHeaders, clientTrailers] = [] := by decide
/-- ... and the schedule exists: stream 1's request warms the table; stream 5's request headers are encoded (inserting
x-checksum), stream 3's trailers are encoded AFTER them (x-checksum as an index) and written BEFORE them: wire order
3, 5 against encode order 5, 3, and the peer reads stream 3's trailers as `user-agent: go` -/
def sreqs : List (Nat × List Field) :=
  [(5, [(":path", "/b"), ("x-checksum", "abc123")]), (3, [("x-checksum", "abc123")]), (1, [("user-agent", "go")])]
def seededRun : Sys :=
  (Sys.start 8 sreqs (guardsOf [seededWriteHeaders, clientTrailers, seededWriteHeaders])).run [2, 2, 0, 1, 1, 0]
example : seededRun.sent.map (·.1) = [1, 5, 3] ∧ seededRun.wire.map (·.stream) = [1, 3, 5] ∧
    (decAll 8 [] seededRun.wire).map (·.2) =
      some [(1, [("user-agent", "go")]), (3, [("user-agent", "go")]), (5, [(":path", "/b"), ("x-checksum", "abc123")])] := by
  decide
-- the same schedule with the real functions: the trailers' steps are excluded until the headers are on the wire
def realRun : Sys :=
  (Sys.start 8 sreqs (guardsOf [clientWriteHeaders, clientTrailers, clientWriteHeaders])).run [2, 2, 0, 1, 1, 0, 1, 1]
example : realRun.wire.map (·.stream) = [1, 5, 3] ∧
    (decAll 8 [] realRun.wire).map (·.2) = some [sreqs[2], sreqs[0], sreqs[1]] := by decide

end HpackWriteOrder

/-! ## Stream objects in pooled buffers: the receiver wrapper destroys the generation it was made for (kind `sgen`)

Model/StreamGen: pooled stream objects with identity and generation, one worker per exchange, one I/O goroutine per
connection running the wrapper's `OnReceive` as the action list regenerated from pkg/stream/client.go. -/
section StreamGenerations
open MosnVerif.Model.StreamGen MosnVerif.Lemmas.StreamGen MosnVerif.Gen.RecvOrder

/-- the regenerated order of clientStreamReceiverWrapper.OnReceive is destroy, then deliver -/
theorem wrapper_destroys_before_delivering : realProg = goodProg := by decide

/-- one wrapper per stream, bound to the caller's receiver, pointing at the protocol's (pooled) stream object; the
decode-error path only notifies -/
theorem wrapper_identity : wrapperPerStream = true ∧ wrapperKeepsPointer = true ∧ wrapperOnDecodeError = [.deliver] := by decide

/-- HTTP/1 clears `conn.stream`, xprotocol removes the id from the table BEFORE the receiver is notified; xprotocol and
HTTP/2 remove by the id read from the frame, never through the stream object (which may serve the next request
once its receiver was notified: HTTP/2 removes after delivering) -/
theorem tables_release_before_or_by_wire_id :
    h1HandleResponse.head? = some .unslot ∧ xHandleResponse = [.removeKey, .deliver] ∧
    Act.removeViaObj ∉ h2HandleFrame ∧ Act.destroy ∉ h2HandleFrame ∧ Act.removeKey ∈ h2HandleFrame := by decide

/-- **destroy_hits_own_generation**: for EVERY schedule of worker and I/O steps, any number of exchanges, objects and
connections and every hand-out order of the buffer pool: every DestroyStream a wrapper executes acts on the generation the
wrapper was created for, and a connection the pool takes back through it is the connection of that wrapper's own exchange
(whose response has been read: the wrapper only runs after the read) -/
theorem destroy_hits_own_generation (evs : List Ev) :
    ∀ r ∈ (run realProg {} evs).log, r.genHit = r.genMade ∧ ∀ c, r.gave = some c → c = r.own := by
  rw [wrapper_destroys_before_delivering]
  exact (inv_run evs {} inv_init).logOk

/-- until its worker has finished it (which needs the notification), an exchange's pooled object keeps the generation
and the listeners that exchange gave it: nobody re-initialises a stream object under a running wrapper -/
theorem object_stable_until_finished (evs : List Ev) (k : Nat) :
    let s := run realProg {} evs
    (s.ex k).taken = true → (s.ex k).done = false →
      (s.obj (s.ex k).obj).gen = (s.ex k).gen ∧ (s.obj (s.ex k).obj).owner = some k ∧ (s.obj (s.ex k).obj).lis = (s.ex k).conn := by
  intro s ht hd
  have h := (inv_run evs {} inv_init)
  rw [← wrapper_destroys_before_delivering] at h
  have := h.own k ht hd
  exact ⟨this.1, this.2.1, this.2.2.1⟩

/-- an exchange is notified at most once, with the answer its wrapper was started with -/
theorem notified_once (evs : List Ev) (k : Nat) :
    let s := run realProg {} evs
    (s.ex k).got = [] ∨ (s.ex k).got = [(s.ex k).rtok] := by
  intro s
  have h := (inv_run evs {} inv_init)
  rw [← wrapper_destroys_before_delivering] at h
  by_cases hg : (s.ex k).got = []
  · exact Or.inl hg
  · exact Or.inr (h.gotOk k hg).2

/-- **the pool hypothesis**, stated in C09's vocabulary and DISCHARGED for every schedule: the idle list has no
duplicates and holds only connections the pool made; an idle connection is leased to nobody (C09 `partition`); a
connection is leased to ONE exchange at a time, from its `take` until its wrapper's DestroyStream (C09 `exclusive`); an
idle or not yet dialled connection has no request in flight on it (C09 `idle_clean_always` / `lease_never_dirty`: what is
leased again carries nothing of an earlier exchange). Proved by induction over the schedule for the pool as
Model/StreamGen has it (LIFO idle list, give-back by the DestroyStream of the generation the pool client listens on); it
needs `destroy_hits_own_generation` - with the seeded deliver-before-destroy order `excl` is false (witness below). -/
theorem pool_hypothesis_holds (evs : List Ev) : PoolHyp (run realProg {} evs) := by
  rw [wrapper_destroys_before_delivering]
  exact (full_run evs {} full_init).pool

/-- what is written on a connection and not answered yet is at most the request of its lease holder, and `conn.stream`
points at that holder: the response read next on a connection is handed to the wrapper of the exchange that asked -/
theorem wire_belongs_to_holder (evs : List Ev) (c j : Nat) :
    let s := run realProg {} evs
    j ∈ s.wire c → s.wire c = [j] ∧ s.slot c = some j ∧ (s.ex j).conn = c ∧ holds (s.ex j) := by
  intro s hj
  have h : Full s := by
    show Full (run realProg {} evs)
    rw [wrapper_destroys_before_delivering]
    exact full_run evs {} full_init
  have hw := h.wire.wireOk c j hj
  have hs := h.inv.slotOk c j hw.2
  exact ⟨hw.1, hw.2, hs.2.2, hs.2.1, Or.inl hs.1⟩

/-- **no_foreign_answer** (FULL statement): for EVERY schedule `evs` - any interleaving of take / send / read / io /
finish events of any number of exchanges over any number of pooled stream objects and connections, every hand-out order
of the buffer pool - under the regenerated real order of the receiver wrapper: whatever exchange `k` is handed is the
answer to its own request. (With `notified_once`: it is handed nothing or exactly `[k]`.) -/
theorem no_foreign_answer (evs : List Ev) (k j : Nat) :
    ((run realProg {} evs).ex k).got = [j] → j = k := by
  rw [wrapper_destroys_before_delivering]
  exact got_own _ (full_run evs {} full_init) k j

/-- … in the form the driver evaluates: handed nothing, or exactly the own answer -/
theorem got_nothing_or_own (evs : List Ev) (k : Nat) :
    ((run realProg {} evs).ex k).got = [] ∨ ((run realProg {} evs).ex k).got = [k] := by
  rcases notified_once evs k with h | h
  · exact Or.inl h
  · exact Or.inr (by rw [h, no_foreign_answer evs k _ h])

def pipeline (n : Nat) : List Ev :=
  (List.range n).flatMap (fun k => [.take k 0, .send k, .read 0, .io k, .io k, .finish k])

-- non-vacuity: a schedule in which every exchange IS answered (four exchanges through one object and one connection)
set_option maxRecDepth 8000 in
example : ∀ k < 4, ((run realProg {} (pipeline 4)).ex k).got = [k] := by decide

/-- the witness schedule: A answered, notified; its worker finishes and recycles; B takes the same object on a new
connection; the I/O goroutine goes on; C asks the pool; B and C write; B's answer arrives -/
def lateDestroy : List Ev :=
  [.take 0 0, .send 0, .read 0, .io 0, .finish 0, .take 1 0, .io 0, .take 2 1, .send 1, .send 2, .read 1, .io 2, .io 2]

/-- with the REAL order the worker's steps can only follow the whole wrapper and the same requests are harmless: everybody is answered by nobody else, each destroy hits its own generation -/
example : let s := run realProg {} [.take 0 0, .send 0, .read 0, .io 0, .io 0, .finish 0, .take 1 0, .take 2 1, .send 1, .send 2,
      .read 0, .io 1, .io 1, .read 1, .io 2, .io 2]
    (s.ex 0).got = [0] ∧ (s.ex 1).got = [1] ∧ (s.ex 2).got = [2] ∧ (s.ex 1).obj = (s.ex 0).obj ∧ (s.ex 1).gen = 2 ∧
    s.log.all (fun r => r.genHit == r.genMade) = true := by decide

/-- NEGATION WITNESS for deliver-before-destroy: the late destroy hits generation 2 of object 0 (made by B), the pool
takes B's connection back while B is in flight, C is leased it and receives B's answer -/
example : let s := run [.deliver, .destroy] {} lateDestroy
    (∃ r ∈ s.log, r.ex = 0 ∧ r.genMade = 1 ∧ r.genHit = 2 ∧ r.gave = some 1 ∧ r.own = 0) ∧
    (s.ex 2).conn = (s.ex 1).conn ∧ (s.ex 2).got = [1] ∧ (s.ex 1).got = [] := by decide

/-- … and the pool hypothesis is what breaks: B and C hold the same connection at the same time (`excl` fails) -/
example : let s := run [.deliver, .destroy] {} (lateDestroy.take 10)
    (s.ex 1).taken = true ∧ (s.ex 2).taken = true ∧ (s.ex 1).pc = none ∧ (s.ex 2).pc = none ∧
    (s.ex 1).conn = (s.ex 2).conn ∧ s.wire (s.ex 1).conn = [1, 2] := by decide

end StreamGenerations

/-! ## The HTTP/2 client stream tables (kind `h2tbl`)

Model/H2ClientTable: the module's table `MClientConn.streams` (what `HandleFrame` hands up) and the stream layer's table
`clientStreamConnection.streams` (who is notified), ids from `MClientConn.newStream`. `Gen.H2ClientTable` regenerates every
syntactic use of the two tables in the client types (closed world), the key expression of every insert / lookup / delete
site as a function of the id the site has at hand, and every guard. All theorems quantify over every start value of the id
counter and EVERY list of operations {request opened (with / without receiver), HEADERS / DATA / trailers / RST_STREAM /
WINDOW_UPDATE with any stream id in any order, GOAWAY, local reset, connection reset, connection error}. -/
section H2ClientTable
open MosnVerif.Model.H2ClientTable MosnVerif.Model.H2ClientTableSpec MosnVerif.Gen.H2ClientTable

/-- the state after an arbitrary operation list on a connection whose id counter started at `first` -/
def h2reach (first : Int) (ops : List Model.H2ClientTable.Op) : Model.H2ClientTable.Conn :=
  Model.H2ClientTable.run genShape (Model.H2ClientTable.init first) ops

/-- closed world: these are ALL uses of the two tables in the methods of the client types, WriteHeaders allocates the id,
writes HEADERS with it and registers the stream only after the write succeeded (all under cc.mu), ResetStream resets the
module stream, removes the table entry, then notifies; the stream layer registers under the module's id, only after a
successful write; a connection reset marks every stream before it resets it; the GOAWAY branch touches no stream -/
theorem h2_table_sites :
    tableSites = ["clientStreamConnection.OnEvent:range", "clientStreamConnection.ActiveStreamsNum:len",
      "clientStreamConnection.Reset:range", "clientStreamConnection.handleFrame:lookup",
      "clientStreamConnection.handleFrame:delete", "clientStreamConnection.handleFrame:delete",
      "clientStreamConnection.handleError:lookup", "clientStream.endStream:insert", "clientStream.ResetStream:delete"] ∧
    modTableSites = ["MClientConn.WriteHeaders:insert", "MClientConn.processSettings:range", "MClientConn.streamByID:lookup",
      "MClientConn.streamByID:delete"] ∧
    writeHeadersActs = [.alloc, .encode, .write, .failReturns, .insert] ∧ resetActs = [.moduleReset, .tableDelete, .notify] ∧
    insertIdIsModuleId = true ∧ insertOnlyOnSuccess = true ∧ connResetMarksThenResets = true ∧ goawayTouchesStreams = false ∧
    idInit = 1 := by decide

/-- every insert / lookup / delete site of both tables uses the id it has at hand unchanged (the frame's stream id, the
error's stream id, the stream object's own id), ids step by 2 in uint32, and every guard is the expected one: the
regenerated shape IS the shape the theorems below are proved for -/
theorem h2_shape : genShape = goodShape := by
  simp only [genShape, goodShape, Shape.mk.injEq]
  and_intros
  all_goals first
    | rfl
    | (funext a; (set_option linter.unusedSimpArgs false in simp [newStreamId, Gen.H2ClientTable.u32, validStreamID, unknownDataIsConnError, goawayLast, errCodeNo, goawayActs, goawayOverrides]); done)
    | (funext a b; (set_option linter.unusedSimpArgs false in simp [newStreamId, Gen.H2ClientTable.u32, validStreamID, unknownDataIsConnError, goawayLast, errCodeNo, goawayActs, goawayOverrides]); done)
    | (funext a b; by_cases h : a = 0 <;> simp [goawayLast, errCodeNo, h])

theorem h2_reach_inv (first : Int) (ops : List Model.H2ClientTable.Op) : HInv (h2reach first ops) := by
  unfold h2reach; rw [h2_shape]; exact hinv_run _ (hinv_init first) ops

/-- **delivery_once_and_own** (HTTP/2): every stream object is handed at most ONE outcome - one response or one reset
notification, never both, never two - and every piece of a response it is handed (header, each body piece, trailer) came
in a frame carrying its OWN stream id, the header being there: header and body never come from different exchanges -/
theorem h2_delivery_once_and_own (first : Int) (ops : List Model.H2ClientTable.Op) (w : Nat) :
    let s := h2reach first ops
    (s.str w).got.length + (s.str w).resets.length ≤ 1 ∧ ∀ d ∈ (s.str w).got, Own (s.str w).id d := by
  intro s
  have h := h2_reach_inv first ops
  exact ⟨h.once w, (h.own w).1⟩

/-- the stream table is a finite map whose ids belong to registered, not yet answered stream objects; what the module
table holds the stream table holds too, for a stream that is not destroyed -/
theorem h2_tables_consistent (first : Int) (ops : List Model.H2ClientTable.Op) (k : Int) (w : Nat) :
    let s := h2reach first ops
    ((s.tbl.map (·.1)).Nodup) ∧
    (lookup s.tbl k = some w → w < s.nW ∧ (s.str w).id = k ∧ (s.str w).got = []) ∧
    (lookup s.mod k = some w → lookup s.tbl k = some w ∧ (s.str w).live = true) := by
  intro s
  have h := h2_reach_inv first ops
  exact ⟨h.tkeys, fun hl => let t := h.tentry k w hl; ⟨t.1, t.2.1, t.2.2.1⟩, fun hl => let t := h.mentry k w hl; ⟨t.1, t.2.1⟩⟩

/-- **unknown_dropped** (HTTP/2): in EVERY state, a HEADERS / DATA / trailers / RST_STREAM frame whose id the module table
does not hold (never opened, already answered, reset) is delivered to nobody: no stream object's deliveries change, no
id is allocated; a HEADERS frame changes nothing at all -/
theorem h2_unknown_dropped (s : Model.H2ClientTable.Conn) (id : Int) (hm : lookup s.mod id = none)
    (op : Model.H2ClientTable.Op) (hop : op.frameOn id) :
    (∀ w, ((Model.H2ClientTable.step genShape s op).str w).got = (s.str w).got) ∧
    (Model.H2ClientTable.step genShape s op).next = s.next ∧
    (∀ tok e, id ≠ 0 → Model.H2ClientTable.step genShape s (.headers id tok e) = s) := by
  rw [h2_shape]
  have h := frame_no_entry s id hm op hop
  refine ⟨fun w => (h.2.2.1 w).2.2 rfl, h.1, ?_⟩
  intro tok e hne
  unfold Model.H2ClientTable.step
  split
  · rfl
  · simp only [onHeaders, hne, if_false]
    rcases sb_cases s (G.modHeadersKey id) (G.modHeadersRemove e) with ⟨_, hsb⟩ | ⟨mw, hl, _⟩
    · rw [hsb]
    · have : G.modHeadersKey id = id := rfl
      rw [this, hm] at hl; simp at hl

/-- **late_reply_after_reset_dropped** (HTTP/2): once `ResetStream` ran on a stream whose request went out (timeout,
downstream reset, RST_STREAM or stream error from the peer, connection reset), whatever happens afterwards short of a
new request (`ops`), a frame carrying that stream's id is delivered to nobody -/
theorem h2_late_reply_after_reset_dropped (s : Model.H2ClientTable.Conn) (w : Nat) (r : Reason)
    (hcs : (s.str w).hasCs = true) (ops : List Model.H2ClientTable.Op) (hops : ∀ op ∈ ops, ∀ o, op ≠ .open_ o)
    (op : Model.H2ClientTable.Op) (hop : op.frameOn (s.str w).id) :
    let s1 := Model.H2ClientTable.run genShape (resetStream genShape s w r) ops
    ∀ k, ((Model.H2ClientTable.step genShape s1 op).str k).got = (s1.str k).got := by
  rw [h2_shape]
  intro s1 k
  have hm := mod_none_run _ _ (resetStream_mod_none s w r hcs) ops hops
  exact ((frame_no_entry s1 _ hm op hop).2.2.1 k).2.2 rfl

/-- **ids_distinct** (HTTP/2): the stream objects whose request went out carry ids in (0, 2^31), odd when the counter
started odd (NewClientConn: 1), and two of them fewer than 2^31 requests apart carry different ids: no id is reused
before the counter has left the valid range (after which no request goes out on the connection any more: see the
example below) -/
theorem h2_ids_distinct (first : Int) (ops : List Model.H2ClientTable.Op) (v w : Nat) :
    let s := h2reach first ops
    v < w → w < s.nW → (s.str v).hasCs = true → (s.str w).hasCs = true → w - v < 2147483648 →
      (s.str v).id ≠ (s.str w).id ∧ 0 < (s.str v).id ∧ (s.str v).id < 2147483648 ∧
      (first % 2 = 1 → (s.str v).id % 2 = 1) ∧
      (first % 4294967296 + 2 * w < 4294967296 → (s.str v).id < (s.str w).id) := by
  intro s hvw hw hv hw' hd
  have h : IdInv s first := by
    show IdInv (h2reach first ops) first
    unfold h2reach; rw [h2_shape]; exact idinv_run _ first (idinv_init first) ops
  have a := h.ids v (by omega)
  have b := h.ids w hw
  have va : G.valid (Model.H2ClientTable.idAt first v) = true := by rw [← a.1]; exact hv
  have vb : G.valid (Model.H2ClientTable.idAt first w) = true := by rw [← b.1]; exact hw'
  have ea := a.2; rw [if_pos va] at ea
  have eb := b.2; rw [if_pos vb] at eb
  have rv := valid_range _ (idAt_range first v) va
  rw [ea, eb]
  refine ⟨idAt_distinct first v w hvw hd, rv.1, rv.2, idAt_odd first v, ?_⟩
  intro hlt
  unfold Model.H2ClientTable.idAt; omega

/-- **goaway_resets_only_above_last** (HTTP/2): a GOAWAY resets NOBODY and removes nothing (it records the
last-stream-id and tells the pool); and when a stream that is not destroyed yet is reset later, for whatever reason
`r`, its listeners are told `r` - except that exactly the streams with an id ABOVE the recorded last-stream-id are told
ConnectionFailed (the request was not processed: retry). Every other stream object is untouched by that reset. -/
theorem h2_goaway_resets_only_above_last (s : Model.H2ClientTable.Conn) (last code : Int) (w : Nat) (r : Reason) :
    ((Model.H2ClientTable.step genShape s (.goaway last code)).str = s.str ∧
     (Model.H2ClientTable.step genShape s (.goaway last code)).tbl = s.tbl ∧
     (Model.H2ClientTable.step genShape s (.goaway last code)).mod = s.mod) ∧
    ((s.str w).live = true →
      ((resetStream genShape s w r).str w).resets =
        (s.str w).resets ++ [if 0 < s.last ∧ s.last < (s.str w).id then Reason.connFailed else r] ∧
      ∀ k, k ≠ w → (resetStream genShape s w r).str k = s.str k) := by
  rw [h2_shape]
  refine ⟨?_, resetStream_reason s w r⟩
  unfold Model.H2ClientTable.step
  split
  · exact ⟨rfl, rfl, rfl⟩
  · simp only [onGoAway]; split <;> exact ⟨rfl, rfl, rfl⟩

/-- the executable predicates evaluated on the implementation's snapshots hold of every model state (ids: below 2^31
stream objects per connection) -/
theorem h2_spec_holds_on_model (first : Int) (ops : List Model.H2ClientTable.Op) :
    obsSpec (obsOf (h2reach first ops)) = true ∧
    ((h2reach first ops).nW ≤ 2147483648 →
      obsSpecIds (first % 2 == 1) ((List.range (h2reach first ops).nW).map (fun w => ((h2reach first ops).str w).id)) = true) := by
  refine ⟨obsSpec_of_hinv _ (h2_reach_inv first ops), ?_⟩
  have h : IdInv (h2reach first ops) first := by
    unfold h2reach; rw [h2_shape]; exact idinv_run _ first (idinv_init first) ops
  exact obsSpecIds_of_idinv _ first h

/-- **nobody is answered or failed by somebody else's frame** - the step predicates evaluated between consecutive
snapshots of the implementation hold between consecutive model states: a HEADERS / DATA / trailers / RST_STREAM frame
with stream id `id` that leaves the connection open changes the deliveries and reset notifications ONLY of stream
objects registered under `id`; GOAWAY, WINDOW_UPDATE, SETTINGS and a new request change nobody's; a ResetStream of stream
object w notifies only w and answers nobody; a connection reset / connection error answers nobody -/
theorem h2_step_spec_holds_on_model (first : Int) (ops : List Model.H2ClientTable.Op) :
    let s := h2reach first ops
    (∀ id op, Model.H2ClientTable.Op.frameOn id op → (Model.H2ClientTable.step genShape s op).closed = false →
      frameStepSpec id (obsOf s) (obsOf (Model.H2ClientTable.step genShape s op)) = true) ∧
    (∀ op, ((∃ l c, op = .goaway l c) ∨ (∃ i, op = .window i) ∨ op = .noise ∨ (∃ o, op = .open_ o)) →
      quietStepSpec (obsOf s) (obsOf (Model.H2ClientTable.step genShape s op)) = true) ∧
    (∀ w, resetStepSpec (some w) (obsOf s) (obsOf (Model.H2ClientTable.step genShape s (.reset w))) = true) ∧
    resetStepSpec none (obsOf s) (obsOf (Model.H2ClientTable.step genShape s .connReset)) = true ∧
    resetStepSpec none (obsOf s) (obsOf (Model.H2ClientTable.step genShape s .connError)) = true := by
  intro s
  have h := h2_reach_inv first ops
  rw [h2_shape]
  exact ⟨fun id op hop hc => frameStepSpec_of s h id op hop hc, fun op hop => quietStepSpec_of s op hop, resetStepSpec_of s⟩

/-! ### non-vacuity and what other shapes do -/
-- three requests, answers interleaved frame by frame in another order, a duplicate END_STREAM, an unknown id, a trailer
example : let s := h2reach 1 [.open_ false, .open_ false, .open_ false, .headers 5 2 false, .headers 1 0 false, .data 5 2 false false,
      .headers 3 1 true, .headers 3 1 true, .data 1 0 false false, .headers 9 77 true, .data 5 2 true false, .trailers 1 0]
    (s.str 0).got = [⟨some ⟨1, 0⟩, [⟨1, 0⟩], some ⟨1, 0⟩⟩] ∧ (s.str 1).got = [⟨some ⟨3, 1⟩, [], none⟩] ∧
    (s.str 2).got = [⟨some ⟨5, 2⟩, [⟨5, 2⟩, ⟨5, 2⟩], none⟩] ∧ s.tbl = [] ∧ s.mod = [] ∧ s.closed = false := by decide
-- timeout, then the late answer: dropped; RST_STREAM from the peer: the stream is told RemoteReset, a later DATA is dropped
example : let s := h2reach 1 [.open_ false, .open_ false, .reset 0, .headers 1 0 false, .data 1 0 true false, .headers 3 1 false,
      .rst 3, .data 3 1 true false]
    (s.str 0).got = [] ∧ (s.str 0).resets = [.localReset] ∧ (s.str 1).got = [] ∧ (s.str 1).resets = [.remoteReset] ∧
    s.rst = [1] ∧ s.closed = false := by decide
-- GOAWAY(last = 3) in the middle resets nobody; the connection reset that follows tells 1 and 3 "terminated", 5 and 7 "failed: retry"
example : let s := h2reach 1 [.open_ false, .open_ false, .open_ false, .open_ false, .goaway 3 0, .headers 1 0 true, .connReset]
    (s.str 0).got = [⟨some ⟨1, 0⟩, [], none⟩] ∧ (s.str 0).resets = [] ∧ (s.str 1).resets = [.connTerm] ∧
    (s.str 2).resets = [.connFailed] ∧ (s.str 3).resets = [.connFailed] ∧ s.goaways = 1 := by decide
-- the 31-bit boundary: 2^31-1 is the last id that goes out; afterwards every request is refused and reset, none registered
example : let s := h2reach 2147483645 [.open_ false, .open_ false, .open_ false, .open_ false]
    (s.str 0).id = 2147483645 ∧ (s.str 1).id = 2147483647 ∧ (s.str 2).hasCs = false ∧ (s.str 2).resets = [.connFailed] ∧
    (s.str 3).hasCs = false ∧ s.wire = [2147483645, 2147483647] ∧ s.goaways = 2 := by decide
-- hypotheses of `h2_late_reply_after_reset_dropped` / `h2_unknown_dropped` are met by real states
example : ((h2reach 1 [.open_ false]).str 0).hasCs = true ∧ lookup (h2reach 1 [.open_ false, .headers 1 0 true]).mod 1 = none := by decide

/-- NEGATION WITNESS (lookup by `id-2`): the answer to the second request (id 3) is handed to the first (id 1) -/
def lookupMinus2 : Shape := { goodShape with frameLookupKey := fun id => (id - 2) % 4294967296 }
example : let s := Model.H2ClientTable.run lookupMinus2 (Model.H2ClientTable.init 1) [.open_ false, .open_ false, .headers 3 1 true]
    (s.str 0).id = 1 ∧ (s.str 0).got = [⟨some ⟨3, 1⟩, [], none⟩] ∧ (s.str 1).got = [] := by decide
/-- NEGATION WITNESS (RST_STREAM of stream k handed to stream k+2): the peer cancels request 1, request 3 is failed -/
def rstPlus2 : Shape := { goodShape with errLookupKey := fun id => (id + 2) % 4294967296 }
example : let s := Model.H2ClientTable.run rstPlus2 (Model.H2ClientTable.init 1) [.open_ false, .open_ false, .rst 1, .headers 3 1 true]
    (s.str 0).resets = [] ∧ (s.str 1).resets = [.remoteReset] ∧ (s.str 1).got = [] := by decide
/-- a ResetStream that does not remove the table entry: nobody is misdelivered (the module table still refuses the late
answer), but the entry stays for ever: the refinement `h2_tables_consistent` fails -/
def noDeleteOnReset : Shape := { goodShape with resetDeletes := fun _ => false }
example : let s := Model.H2ClientTable.run noDeleteOnReset (Model.H2ClientTable.init 1) [.open_ false, .reset 0, .headers 1 0 true]
    (s.str 0).got = [] ∧ s.tbl = [(1, 0)] ∧ s.mod = [] := by decide

end H2ClientTable

end MosnVerif.Props.C02

/-! ## Pooled proxy objects: generation tags guarding late callbacks (builder c02g10; Model/ProxyGen, Gen.ProxyGen)

One pooled `downStream` object with its whole history, any number of exchanges taking / giving it, any number of armed
timer callbacks of any kind, EVERY schedule of {other object's newActiveStream, take, arm, fire (Stop is too late from
here), one statement of a started callback, upstream answer, cleanStream's CAS + Stop, giveStream}. An exchange IS the
generation it was given. The callbacks' statement lists are a parameter; the code's are regenerated. -/
namespace MosnVerif.Props.C02
section ProxyGenerations
open MosnVerif.Model.ProxyGen MosnVerif.Lemmas.ProxyGen
open MosnVerif.Gen.ProxyGen (Step)

/-- the invariant holds along every schedule, for every family of guarded callback shapes -/
theorem proxygen_invariant (progs : Nat → Bool × List Step) (hp : ∀ k, guarded (progs k).1 (progs k).2 = true)
    (evs : List Ev) : MosnVerif.Lemmas.ProxyGen.Inv (run progs {} evs) := by
  have h0 : MosnVerif.Lemmas.ProxyGen.Inv ({} : St) :=
    ⟨Nat.le_refl _, fun _ => rfl, fun h => by simp at h, fun _ h => by simp at h, fun _ h => by simp at h,
     fun _ h => by simp at h, fun _ h => by simp at h⟩
  suffices ∀ s, MosnVerif.Lemmas.ProxyGen.Inv s → MosnVerif.Lemmas.ProxyGen.Inv (run progs s evs) from this _ h0
  induction evs with
  | nil => exact fun s h => h
  | cons e r ih => exact fun s h => ih _ (step_inv progs hp s h e)

/-- **late_callback_harmless**: whatever the interleaving of Stop, clean, give, take (by the next exchange, any number of
times) and the callback's own statements: a callback armed for exchange A only ever resets the upstream stream of /
produces an error reply for (`hits`) and only ever writes the response token / expiry flag of (`touched`) exchange A
itself, and only while A still holds the object. (The one thing it may do to a later exchange B is clear B's
reuseBuffer flag - B's buffers are then not recycled; that is the code's behaviour and is harmless for correlation.) -/
theorem late_callback_harmless (progs : Nat → Bool × List Step) (hp : ∀ k, guarded (progs k).1 (progs k).2 = true)
    (evs : List Ev) :
    (∀ h ∈ (run progs {} evs).hits, h.hit = h.own ∧ h.held = true) ∧ (∀ t ∈ (run progs {} evs).touched, t.2 = t.1) :=
  ⟨(proxygen_invariant progs hp evs).hits, (proxygen_invariant progs hp evs).touched⟩

/-- **reply_produced_for_own_exchange**: every reply (the upstream's answer or a timeout error reply) is received by the
exchange it was produced for -/
theorem reply_produced_for_own_exchange (progs : Nat → Bool × List Step) (hp : ∀ k, guarded (progs k).1 (progs k).2 = true)
    (evs : List Ev) : ∀ r ∈ (run progs {} evs).replies, r.2 = r.1 :=
  (proxygen_invariant progs hp evs).replies

/-- the two timer callbacks of the code (regenerated statement lists, generation read when armed) are guarded shapes -/
theorem real_callbacks_guarded : ∀ k, guarded (realProgs k).1 (realProgs k).2 = true := by
  intro k; cases k with
  | zero => decide
  | succ n => exact (by decide : guarded (realProgs 1).1 (realProgs 1).2 = true)

/-- … so the statements above hold of the code's callbacks, for every schedule -/
theorem late_timer_callbacks_harmless (evs : List Ev) :
    (∀ h ∈ (run realProgs {} evs).hits, h.hit = h.own ∧ h.held = true) ∧
    (∀ t ∈ (run realProgs {} evs).touched, t.2 = t.1) ∧ (∀ r ∈ (run realProgs {} evs).replies, r.2 = r.1) :=
  ⟨(late_callback_harmless realProgs real_callbacks_guarded evs).1, (late_callback_harmless realProgs real_callbacks_guarded evs).2,
   reply_produced_for_own_exchange realProgs real_callbacks_guarded evs⟩

/-- the sites the model's `take` / `clean` / `give` stand for are as modelled: one fresh counter value per
newActiveStream and reuseBuffer := 1, nobody else writes ID; cleanStream = CAS first, timers stopped BEFORE giveStream,
giveStream last and the only Give; giveStream needs reuseBuffer = 1 and no reset; Reset zeroes the object; the worker
task carries the generation read before it was scheduled and its re-entry points test it first -/
theorem pool_sites_as_modelled :
    MosnVerif.Gen.ProxyGen.newStreamFreshGen = true ∧ MosnVerif.Gen.ProxyGen.newStreamSetsReuse = true ∧
    MosnVerif.Gen.ProxyGen.genWriters = 2 ∧
    MosnVerif.Gen.ProxyGen.cleanOrder = [.casCleaned, .resetUpstream, .stopTimers, .destroyFilters, .delete, .give] ∧
    MosnVerif.Gen.ProxyGen.cleanUpStopsTimers = true ∧
    MosnVerif.Gen.ProxyGen.giveNeedsReuse = true ∧ MosnVerif.Gen.ProxyGen.giveNeedsNoReset = true ∧
    MosnVerif.Gen.ProxyGen.givesElsewhere = 0 ∧ MosnVerif.Gen.ProxyGen.resetZeroes = true ∧
    MosnVerif.Gen.ProxyGen.workerCaptures = true ∧ MosnVerif.Gen.ProxyGen.workerPassesGen = true ∧
    MosnVerif.Gen.ProxyGen.processErrorTestsGen = true ∧ MosnVerif.Gen.ProxyGen.waitNotifyTestsGen = true ∧
    MosnVerif.Gen.ProxyGen.onReentryExhaustedTestsGen = true := by decide

/-- the racing schedule: A takes the object, arms timer `k`, the timer fires (callback started, nothing executed), A's
answer arrives, A cleans (Stop too late) and gives, B takes the same object, then the callback runs `n` statements -/
def lateSchedule (k n : Nat) : List Ev :=
  [.take, .arm k, .fire 0, .respond, .clean, .give, .take] ++ List.replicate n (.step 0)

-- non-vacuous: the code's callbacks DO act on their own exchange (a plain timeout), and on the racing schedule they act on nobody
example : (run realProgs {} [.take, .arm 0, .fire 0, .step 0, .step 0, .step 0, .step 0, .step 0]).hits = [⟨1, 1, true⟩] := by decide
example : (run realProgs {} [.tick, .take, .arm 1, .fire 0, .step 0, .step 0, .step 0, .step 0, .step 0, .step 0]).hits = [⟨2, 2, true⟩] := by decide
example : (run realProgs {} (lateSchedule 0 8)).hits = [] ∧ (run realProgs {} (lateSchedule 0 8)).touched = [] ∧
    (run realProgs {} (lateSchedule 0 8)).o.gen = 2 ∧ (run realProgs {} (lateSchedule 0 8)).o.reuse = false := by decide
example : (run realProgs {} (lateSchedule 1 8)).hits = [] ∧ (run realProgs {} (lateSchedule 1 8)).replies = [(1, 1)] := by decide

/-- NEGATION WITNESS (i): no generation test - A's callback takes B's response token and times B out -/
example : (run (fun _ => (true, [.noReuse, .testCleaned, .casResp, .act])) {} (lateSchedule 0 4)).hits = [⟨1, 2, true⟩] ∧
    guarded true [.noReuse, .testCleaned, .casResp, .act] = false := by decide
/-- NEGATION WITNESS (ii): the generation is read when the callback FIRES - it reads B's and the test passes -/
example : (run (fun _ => (false, [.loadGen, .noReuse, .testCleaned, .testGen, .casResp, .act])) {} (lateSchedule 0 6)).hits = [⟨1, 2, true⟩] ∧
    guarded false [.loadGen, .noReuse, .testCleaned, .testGen, .casResp, .act] = false ∧
    guarded true [.noReuse, .testCleaned, .loadGen, .testGen, .casResp, .act] = false := by decide
/-- NEGATION WITNESS (iii): the test is there but the reuseBuffer store is not: the callback passes the test while A
holds the object, A finishes and B takes the object before the CAS -/
example : (run (fun _ => (true, [.testCleaned, .testGen, .casResp, .act])) {}
      [.take, .arm 0, .fire 0, .step 0, .step 0, .respond, .clean, .give, .take, .step 0, .step 0]).hits = [⟨1, 2, true⟩] ∧
    guarded true [.testCleaned, .testGen, .casResp, .act] = false := by decide

end ProxyGenerations
end MosnVerif.Props.C02
