import MosnVerif.Lemmas.Route
/-!
# C04 — route selection follows the documented precedence, deterministically (property theorems only)

`build` = `router.NewRouters` (tables), `findVirtualHost`, `selectRoute`/`allRoutes` = `MatchRoute`/`MatchAllRoutes`
on the built rules; the lookup `findHighestPriorityIndex`, the sort comparison `Less` and the matcher functions are the
regenerated `Gen.Route.*`.  `Spec.*` is the documented behaviour written from the configuration alone.
Every theorem holds for **every** regex oracle `rx` and **every** sorting function with `sort.Sort`'s contract.
-/
namespace MosnVerif.Props.C04
open MosnVerif.Model.Route

/-- **vhost_refines**: for every configuration `NewRouters` accepts, every result `sort.Sort` may produce and every
Host value (unset, empty, unparsable, any case, any port), the virtual host found is the one the documented
precedence gives: exact host + exact port, exact host + `*` port, longest matching wildcard suffix with exact port,
then with `*` port, then the default `*`; host names compared case-insensitively. -/
theorem vhost_refines (srt : List Wild → List Wild) (hs : IsSorter srt) (cfg : Config) (t : Tables)
    (hb : build srt cfg = .ok t) (host : Option Str) :
    findVirtualHost t host = Spec.vhost cfg host :=
  vhost_refines_core hs hb host

/-- the same for the **regenerated** `routersImpl.findVirtualHost` run on a request's variable context. -/
theorem vhost_refines_gen (srt : List Wild → List Wild) (hs : IsSorter srt) (cfg : Config) (t : Tables)
    (hb : build srt cfg = .ok t) (ctx : Str → Option Str) :
    Gen.Route.findVirtualHost splitGraceful t ctx = Spec.vhost cfg (ctx Gen.Route.varHost) := by
  rw [gen_findVirtualHost]; exact vhost_refines_core hs hb _

/-- **sort instability is harmless**: two sort results (e.g. different orders among equally long suffixes) never
change the selected virtual host. -/
theorem vhost_sort_irrelevant (srt srt' : List Wild → List Wild) (hs : IsSorter srt) (hs' : IsSorter srt')
    (cfg : Config) (t t' : Tables) (hb : build srt cfg = .ok t) (hb' : build srt' cfg = .ok t') (host : Option Str) :
    findVirtualHost t host = findVirtualHost t' host := by
  rw [vhost_refines srt hs cfg t hb, vhost_refines srt' hs' cfg t' hb']

/-- **case-insensitive**: Host values that differ only in letter case select the same virtual host (configured
domains are lower-cased when the tables are built, so the same holds on the configuration side by construction). -/
theorem vhost_case_insensitive (srt : List Wild → List Wild) (hs : IsSorter srt) (cfg : Config) (t : Tables)
    (hb : build srt cfg = .ok t) (h h' : Str) (heq : lower h = lower h') :
    findVirtualHost t (some h) = findVirtualHost t (some h') := by
  rw [vhost_refines srt hs cfg t hb, vhost_refines srt hs cfg t hb]
  exact vhost_case_insensitive_core cfg h h' heq

/-- the selected virtual host is a configured one (or −1 = none). -/
theorem vhost_in_range (srt : List Wild → List Wild) (hs : IsSorter srt) (cfg : Config) (t : Tables)
    (hb : build srt cfg = .ok t) (host : Option Str) :
    findVirtualHost t host = -1 ∨ (0 ≤ findVirtualHost t host ∧ findVirtualHost t host < cfg.length) := by
  rw [vhost_refines srt hs cfg t hb]; exact vhost_index_valid cfg host

/-- **rule_refines**: a rule built by `NewRouteBase` matches a request exactly when all matchers of the configured
route hold (path / prefix / regex, header conjunction, method via the request variable, variable matchers, RPC
headers), for every regex oracle. -/
theorem rule_refines (rx : RxOracle) (req : Req) (m : MatchCfg) (rule : Rule) (h : mkRule m = .ok rule) :
    matchRule rx req rule = Spec.ruleHolds rx req m :=
  MosnVerif.Model.Route.rule_refines rx req h

/-- **route_first_match**: within a virtual host the selected route is the first one, in configuration order, whose
matchers all hold. -/
theorem route_first_match (rx : RxOracle) (req : Req) (ms : List MatchCfg) (rules : List Rule)
    (h : mkRules ms = .ok rules) (j : Nat) :
    selectRoute rx req rules = some j ↔
      (∃ m, ms[j]? = some m ∧ Spec.ruleHolds rx req m = true) ∧
      ∀ i m, i < j → ms[i]? = some m → Spec.ruleHolds rx req m = false := by
  rw [select_refines rx req h, Spec.route, List.findIdx?_eq_some_iff_getElem]
  constructor
  · rintro ⟨hj, hp, hlt⟩
    refine ⟨⟨ms[j], by simp [hj], hp⟩, ?_⟩
    intro i m hi hm
    have hil : i < ms.length := by omega
    have := hlt i hi
    rw [List.getElem?_eq_getElem hil] at hm
    injection hm with hm
    rw [← hm]; simpa using this
  · rintro ⟨⟨m, hm, hp⟩, hlt⟩
    have hj : j < ms.length := by
      rcases Nat.lt_or_ge j ms.length with h | h
      · exact h
      · rw [List.getElem?_eq_none h] at hm; cases hm
    refine ⟨hj, ?_, ?_⟩
    · rw [List.getElem?_eq_getElem hj] at hm; injection hm with hm; rw [hm]; exact hp
    · intro i hi
      have hil : i < ms.length := by omega
      have := hlt i ms[i] hi (List.getElem?_eq_getElem hil)
      simp [this]

/-- **route_none_iff**: "no route" is returned only if no configured route matches. -/
theorem route_none_iff (rx : RxOracle) (req : Req) (ms : List MatchCfg) (rules : List Rule)
    (h : mkRules ms = .ok rules) :
    selectRoute rx req rules = none ↔ ∀ m ∈ ms, Spec.ruleHolds rx req m = false := by
  rw [select_refines rx req h, Spec.route, List.findIdx?_eq_none_iff]

/-- **all_routes**: `MatchAllRoutes` returns exactly the routes whose matchers hold, in configuration order, and its
first element is what `MatchRoute` returns. -/
theorem all_routes (rx : RxOracle) (req : Req) (ms : List MatchCfg) (rules : List Rule)
    (h : mkRules ms = .ok rules) :
    allRoutes rx req rules = Spec.routesAll rx req ms ∧ (allRoutes rx req rules).head? = selectRoute rx req rules := by
  exact ⟨allRoutes_refines rx req h, allRoutes_head rx req rules⟩

/-- **answer_refines** (the property end to end): on every accepted configuration, for every request and every oracle,
`MatchRoute` / `MatchAllRoutes` return what the documented behaviour prescribes — the result is a function of
(configuration, request) only. -/
theorem answer_refines (srt : List Wild → List Wild) (hs : IsSorter srt) (cfg : Config) (t : Tables)
    (hb : build srt cfg = .ok t) (rx : RxOracle) (req : Req) :
    answer rx t cfg req = Spec.answer rx cfg req :=
  MosnVerif.Model.Route.answer_refines hs hb rx req

/-- the regenerated lookup is the four-step cascade followed by the default (ties `Gen.Route` to the proofs). -/
theorem gen_lookup_is_cascade (t : Tables) (host port : Str) :
    Gen.Route.findHighestPriorityIndex t host port = findIdx t host port :=
  gen_findIdx t host port

/-- the regenerated entry loops: `GetRouteFromEntries` returns the first rule whose `Match` is non-nil,
`GetAllRoutesFromEntries` all of them in order; the regenerated variable-rule loop is the closed-form fold. -/
theorem gen_entry_loops (rx : RxOracle) (req : Req) (rules : List Rule) :
    selectRoute rx req rules = rules.findIdx? (matchRule rx req) ∧
    allRoutes rx req rules = (List.range rules.length).filter (fun i => (rules[i]?).any (matchRule rx req)) ∧
    ∀ items, Gen.Route.variableMatch rx req.var items = varLoop rx req.var items true Gen.Route.modelAnd :=
  ⟨selectRoute_eq rx req rules, allRoutes_eq rx req rules, fun items => gen_variableMatch rx req.var items⟩

/-- variable matchers that are all `and` form a plain conjunction. -/
theorem variables_and_is_conjunction (rx : RxOracle) (req : Req) (vs : List VarCfg)
    (hand : ∀ v ∈ vs, Spec.isOr v = false) (acc : Bool) :
    Spec.varsHold rx req vs acc = (acc && vs.all (Spec.varItemHolds rx req)) := by
  induction vs generalizing acc with
  | nil => simp [Spec.varsHold]
  | cons v r ih =>
    have h1 : Spec.isOr v = false := hand v (by simp)
    simp only [Spec.varsHold, h1, Bool.false_eq_true, if_false, List.all_cons]
    rw [ih (fun x hx => hand x (List.mem_cons_of_mem _ hx)), Bool.and_assoc]

-- ---------------------------------------------------------------- non-vacuity
/-- the driver's sorter satisfies the `sort.Sort` contract, so the hypotheses `IsSorter srt`, `build srt cfg = ok t`
are satisfiable -/
theorem isort_is_sorter : IsSorter isort := isort_isSorter

/-- a configuration with an exact host, an exact host with port, two overlapping wildcard suffixes, a ported
wildcard, a default, mixed case -/
def exCfg : Config :=
  [ ⟨["a.cc".toList], []⟩, ⟨["A.cc:80".toList], []⟩, ⟨["*.cc".toList], []⟩, ⟨["*.b.CC".toList, "*.cc:*".toList], []⟩,
    ⟨["*".toList], []⟩ ]

example : ∃ t, build isort exCfg = .ok t := ⟨_, rfl⟩
example : Spec.vhost exCfg (some "A.CC".toList) = 0 := by decide
example : Spec.vhost exCfg (some "a.cc:80".toList) = 1 := by decide
example : Spec.vhost exCfg (some "x.b.cc".toList) = 3 := by decide          -- longest suffix wins over `*.cc`
example : Spec.vhost exCfg (some "x.a.cc".toList) = 2 := by decide
example : Spec.vhost exCfg (some "x.a.cc:81".toList) = 3 := by decide       -- wildcard port
example : Spec.vhost exCfg (some "x.org".toList) = 4 := by decide           -- default
example : Spec.vhost exCfg none = 4 ∧ Spec.vhost exCfg (some []) = 4 ∧ Spec.vhost exCfg (some "a:b:c".toList) = 4 := by decide
example : Spec.vhost [⟨["a.cc".toList], []⟩] (some "b.cc".toList) = -1 := by decide
example : lower "A.Cc:80".toList = lower "a.cC:80".toList := by decide

/-- a route list mixing kinds: the prefix rule with a method matcher shadows the later catch-all only for GET -/
def exRoutes : List MatchCfg :=
  [ ⟨"/a".toList, [], none, [], [⟨"method".toList, "GET".toList, false, ⟨0, false⟩⟩], []⟩,
    ⟨[], [], some ⟨1, true⟩, [], [], []⟩,
    ⟨[], [], none, [], [], []⟩ ]

def exReq (method path : String) : Req :=
  { var := fun k => if k = "x-mosn-method".toList then some method.toList else if k = "x-mosn-path".toList then some path.toList else none,
    hdr := fun _ => none, dsl := fun _ => none }

example : ∃ rules, mkRules exRoutes = .ok rules := ⟨_, rfl⟩
example : Spec.route (fun _ _ => false) (exReq "GET" "/a/b") exRoutes = some 0 := by decide
example : Spec.route (fun _ _ => true) (exReq "POST" "/a/b") exRoutes = some 1 := by decide
example : Spec.route (fun _ _ => false) (exReq "POST" "/a/b") exRoutes = some 2 := by decide
example : Spec.route (fun _ _ => false) (exReq "POST" "/a/b") (exRoutes.take 2) = none := by decide

end MosnVerif.Props.C04
