import MosnVerif.Lemmas.Route
import MosnVerif.Lemmas.RouteRegex
/-!
# C04 — route selection follows the documented precedence, deterministically (property theorems only)

`build` = `router.NewRouters` (tables), `findVirtualHost`, `selectRoute`/`allRoutes` = `MatchRoute`/`MatchAllRoutes`
on the built rules; the lookup `findHighestPriorityIndex`, the sort comparison `Less` and the matcher functions are the
regenerated `Gen.Route.*`.  `Spec.*` is the documented behaviour written from the configuration alone.
Every theorem holds for **every** regex oracle `rx` and **every** sorting function with `sort.Sort`'s contract.
-/
namespace MosnVerif.Props.C04
open MosnVerif.Model.Route

/-- **vhost_refines**: for every configuration `NewRouters` accepts, every result `sort.Sort` may produce and every
Host value (unset, empty, unparsable, any case, any port), the virtual host found is the one the documented
precedence gives: exact host + exact port, exact host + `*` port, longest matching wildcard suffix with exact port,
then with `*` port, then the default `*`; host names compared case-insensitively. -/
theorem vhost_refines (srt : List Wild → List Wild) (hs : IsSorter srt) (cfg : Config) (t : Tables)
    (hb : build srt cfg = .ok t) (host : Option Str) :
    findVirtualHost t host = Spec.vhost cfg host :=
  vhost_refines_core hs hb host

/-- the same for the **regenerated** `routersImpl.findVirtualHost` run on a request's variable context. -/
theorem vhost_refines_gen (srt : List Wild → List Wild) (hs : IsSorter srt) (cfg : Config) (t : Tables)
    (hb : build srt cfg = .ok t) (ctx : Str → Option Str) :
    Gen.Route.findVirtualHost splitGraceful t ctx = Spec.vhost cfg (ctx Gen.Route.varHost) := by
  rw [gen_findVirtualHost]; exact vhost_refines_core hs hb _

/-- **sort instability is harmless**: two sort results (e.g. different orders among equally long suffixes) never
change the selected virtual host. -/
theorem vhost_sort_irrelevant (srt srt' : List Wild → List Wild) (hs : IsSorter srt) (hs' : IsSorter srt')
    (cfg : Config) (t t' : Tables) (hb : build srt cfg = .ok t) (hb' : build srt' cfg = .ok t') (host : Option Str) :
    findVirtualHost t host = findVirtualHost t' host := by
  rw [vhost_refines srt hs cfg t hb, vhost_refines srt' hs' cfg t' hb']

/-- **case-insensitive**: Host values that differ only in letter case select the same virtual host (configured
domains are lower-cased when the tables are built, so the same holds on the configuration side by construction). -/
theorem vhost_case_insensitive (srt : List Wild → List Wild) (hs : IsSorter srt) (cfg : Config) (t : Tables)
    (hb : build srt cfg = .ok t) (h h' : Str) (heq : lower h = lower h') :
    findVirtualHost t (some h) = findVirtualHost t (some h') := by
  rw [vhost_refines srt hs cfg t hb, vhost_refines srt hs cfg t hb]
  exact vhost_case_insensitive_core cfg h h' heq

/-- the selected virtual host is a configured one (or −1 = none). -/
theorem vhost_in_range (srt : List Wild → List Wild) (hs : IsSorter srt) (cfg : Config) (t : Tables)
    (hb : build srt cfg = .ok t) (host : Option Str) :
    findVirtualHost t host = -1 ∨ (0 ≤ findVirtualHost t host ∧ findVirtualHost t host < cfg.length) := by
  rw [vhost_refines srt hs cfg t hb]; exact vhost_index_valid cfg host

/-- **rule_refines**: a rule built by `NewRouteBase` matches a request exactly when all matchers of the configured
route hold (path / prefix / regex, header conjunction, method via the request variable, variable matchers, RPC
headers), for every regex oracle and **every kind of request header map** (`req.kind`: the exact-name maps of
xprotocol / RPC, the case-insensitive HTTP/1 and HTTP/2 maps): a configured header name is matched as the request's
protocol matches names (`Spec.hdrValue`), whichever constructor (`CreateHTTPHeaderMatcher` for path / prefix / regex
rules, `CreateCommonHeaderMatcher` for RPC rules — both regenerated) built the matcher. -/
theorem rule_refines (rx : RxOracle) (req : Req) (m : MatchCfg) (rule : Rule) (h : mkRule m = .ok rule) :
    matchRule rx req rule = Spec.ruleHolds rx req m :=
  MosnVerif.Model.Route.rule_refines rx req h


-- ---------------------------------------------------------------- header names (both constructors x every map kind)

/-- **header_name_rule**: what the matchers read from the request, `headers.Get(name)` of the request's header map,
is the documented rule `Spec.hdrValue`: the first header whose name equals the configured name — byte for byte on an
xprotocol / RPC map, ignoring letter case on an HTTP map (HTTP/2: pseudo headers from the request line, an empty
value counts as absent). -/
theorem header_name_rule (req : Req) (name : Str) : req.hdr name = Spec.hdrValue req name := hdr_spec req name

/-- **constructors_keep_names**: every matcher built by `CreateCommonHeaderMatcher` and by `CreateHTTPHeaderMatcher`
(regenerated) looks up a configured name *verbatim* — neither constructor normalises it — and keeps the configured
value; entries are kept in configuration order. -/
theorem constructors_keep_names (hs : List HeaderCfg) :
    (∀ kv ∈ Gen.Route.createCommonHeaderMatcher hs, ∃ h ∈ hs, kv.Name = h.name ∧ kv.Value.Value = h.value) ∧
    (∀ kv ∈ (Gen.Route.createHTTPHeaderMatcher hs).headers, ∃ h ∈ hs, kv.Name = h.name ∧ kv.Value.Value = h.value) ∧
    (Gen.Route.createCommonHeaderMatcher hs).map (·.Name) = (hs.filter (fun h => (newKV h).isSome)).map (·.name) := by
  have key : ∀ (h : HeaderCfg) (kv : KeyValueData), newKV h = some kv → kv.Name = h.name ∧ kv.Value.Value = h.value := by
    intro h kv hk
    unfold newKV at hk
    split at hk
    · split at hk
      · injection hk with hk; rw [← hk]; exact ⟨rfl, rfl⟩
      · cases hk
    · injection hk with hk; rw [← hk]; exact ⟨rfl, rfl⟩
  refine ⟨?_, ?_, ?_⟩
  · intro kv hkv
    rw [gen_createCommon, List.mem_filterMap] at hkv
    obtain ⟨h, hh, hk⟩ := hkv
    exact ⟨h, hh, key h kv hk⟩
  · intro kv hkv
    rw [gen_createHttp] at hkv
    simp only [List.mem_filterMap, List.mem_filter] at hkv
    obtain ⟨h, ⟨hh, _⟩, hk⟩ := hkv
    exact ⟨h, hh, key h kv hk⟩
  · rw [gen_createCommon]
    induction hs with
    | nil => rfl
    | cons h r ih =>
      simp only [List.filterMap_cons, List.filter_cons]
      cases hk : newKV h with
      | none => simpa using ih
      | some kv => simp [ih, (key h kv hk).1]

/-- **rpc_matcher_refines** / **http_matcher_refines**: each constructor followed by its `Matches`, against a request
carried by any header map: the conjunction of the configured matchers under the documented name rule (plus, for
HTTP rules, the effective `method` matcher on the request variable). -/
theorem rpc_matcher_refines (rx : RxOracle) (req : Req) (hs : List HeaderCfg) :
    Gen.Route.commonMatches rx req.hdr (Gen.Route.createCommonHeaderMatcher hs) = hs.all (Spec.headerHolds rx req) :=
  createCommon_all rx req hs

theorem http_matcher_refines (rx : RxOracle) (req : Req) (hs : List HeaderCfg) :
    Gen.Route.httpMatches rx req.var req.hdr (Gen.Route.createHTTPHeaderMatcher hs) = Spec.httpHeadersHold rx req hs :=
  http_refines rx req hs

/-- **http_names_case_insensitive**: on an HTTP request (HTTP/1 map; HTTP/2 map for regular headers) names that differ
only in letter case read the same value — so re-casing a configured name, or the name a client sends, never changes
which route is selected. -/
theorem http_names_case_insensitive (req : Req) (n n' : Str) (hk : req.kind = .fold ∨ (req.kind = .h2 ∧ n.head? ≠ some ':' ∧ n'.head? ≠ some ':'))
    (heq : lower n = lower n') : Spec.hdrValue req n = Spec.hdrValue req n' := by
  unfold Spec.hdrValue
  rcases hk with hk | ⟨hk, h1, h2⟩
  · simp only [hk, heq]
  · simp only [hk, h1, h2, if_false, heq]

/-- **rpc_names_exact**: on an xprotocol / RPC request (keys of the map are unique) a configured name reads the value
stored under exactly that name, and nothing stored under a differently-cased name. -/
theorem rpc_names_exact (req : Req) (hk : req.kind = .exact) (hu : (req.hdrs.map (·.1)).Nodup) (n v : Str) :
    Spec.hdrValue req n = some v ↔ (n, v) ∈ req.hdrs := by
  unfold Spec.hdrValue
  simp only [hk]
  generalize req.hdrs = l at hu
  induction l with
  | nil => simp
  | cons a r ih =>
    obtain ⟨k, w⟩ := a
    simp only [List.map_cons, List.nodup_cons] at hu
    simp only [List.find?_cons]
    by_cases hkn : k = n
    · subst hkn
      simp only [decide_true, Option.map_some, Option.some.injEq, List.mem_cons, Prod.mk.injEq, true_and]
      constructor
      · intro h; exact Or.inl h.symm
      · rintro (h | h)
        · exact h.symm
        · exact absurd (List.mem_map_of_mem (f := (·.1)) h) hu.1
    · simp only [hkn, decide_false, List.mem_cons, Prod.mk.injEq]
      rw [ih hu.2]
      constructor
      · intro h; exact Or.inr h
      · rintro (⟨h, _⟩ | h)
        · exact absurd h.symm hkn
        · exact h

/-- **no_query_matcher**: no rule `NewRouteBase` builds carries a query-parameter matcher (the field exists in
`BaseHTTPRouteRule`, `matchRoute` consults it, no constructor sets it): query parameters never influence selection. -/
theorem no_query_matcher (m : MatchCfg) (rule : Rule) (h : mkRule m = .ok rule) :
    match rule with
    | .prefix_ b _ | .path b _ | .regex b _ => b.configQueryParameters = none
    | _ => True := by
  unfold mkRule at h
  split at h
  · injection h with h; subst h; rfl
  · split at h
    · injection h with h; subst h; rfl
    · split at h
      · split at h
        · injection h with h; subst h; rfl
        · cases h
      · split at h
        · split at h
          · injection h with h; subst h; trivial
          · cases h
        · split at h
          · injection h with h; subst h; trivial
          · injection h with h; subst h; trivial

/-- selection does not depend on the query-string parser (`Req.pq`), because no query-parameter matcher exists. -/
theorem query_parser_irrelevant (rx : RxOracle) (req : Req) (pq' : Str → List (Str × Str)) (m : MatchCfg) (rule : Rule)
    (h : mkRule m = .ok rule) : matchRule rx { req with pq := pq' } rule = matchRule rx req rule := by
  have hq := no_query_matcher m rule h
  cases rule with
  | prefix_ b p =>
    obtain ⟨u, hm, q⟩ := b
    simp only at hq; subst hq
    show Gen.Route.prefixMatch rx pq' req.var req.hdr _ p = Gen.Route.prefixMatch rx req.pq req.var req.hdr _ p
    rw [prefixMatch_eq, prefixMatch_eq]
  | path b p =>
    obtain ⟨u, hm, q⟩ := b
    simp only at hq; subst hq
    show Gen.Route.pathMatch rx pq' req.var req.hdr _ p = Gen.Route.pathMatch rx req.pq req.var req.hdr _ p
    rw [pathMatch_eq, pathMatch_eq]
  | regex b p =>
    obtain ⟨u, hm, q⟩ := b
    simp only at hq; subst hq
    show Gen.Route.regexMatch rx pq' req.var req.hdr _ p = Gen.Route.regexMatch rx req.pq req.var req.hdr _ p
    rw [regexMatch_eq, regexMatch_eq]
  | _ => rfl

/-- **route_first_match**: within a virtual host the selected route is the first one, in configuration order, whose
matchers all hold — for every request, i.e. every header-map kind, every multiset of carried header names. -/
theorem route_first_match (rx : RxOracle) (req : Req) (ms : List MatchCfg) (rules : List Rule)
    (h : mkRules ms = .ok rules) (j : Nat) :
    selectRoute rx req rules = some j ↔
      (∃ m, ms[j]? = some m ∧ Spec.ruleHolds rx req m = true) ∧
      ∀ i m, i < j → ms[i]? = some m → Spec.ruleHolds rx req m = false := by
  rw [select_refines rx req h, Spec.route, List.findIdx?_eq_some_iff_getElem]
  constructor
  · rintro ⟨hj, hp, hlt⟩
    refine ⟨⟨ms[j], by simp [hj], hp⟩, ?_⟩
    intro i m hi hm
    have hil : i < ms.length := by omega
    have := hlt i hi
    rw [List.getElem?_eq_getElem hil] at hm
    injection hm with hm
    rw [← hm]; simpa using this
  · rintro ⟨⟨m, hm, hp⟩, hlt⟩
    have hj : j < ms.length := by
      rcases Nat.lt_or_ge j ms.length with h | h
      · exact h
      · rw [List.getElem?_eq_none h] at hm; cases hm
    refine ⟨hj, ?_, ?_⟩
    · rw [List.getElem?_eq_getElem hj] at hm; injection hm with hm; rw [hm]; exact hp
    · intro i hi
      have hil : i < ms.length := by omega
      have := hlt i ms[i] hi (List.getElem?_eq_getElem hil)
      simp [this]

/-- **route_none_iff**: "no route" is returned only if no configured route matches. -/
theorem route_none_iff (rx : RxOracle) (req : Req) (ms : List MatchCfg) (rules : List Rule)
    (h : mkRules ms = .ok rules) :
    selectRoute rx req rules = none ↔ ∀ m ∈ ms, Spec.ruleHolds rx req m = false := by
  rw [select_refines rx req h, Spec.route, List.findIdx?_eq_none_iff]

/-- **all_routes**: `MatchAllRoutes` returns exactly the routes whose matchers hold, in configuration order, and its
first element is what `MatchRoute` returns. -/
theorem all_routes (rx : RxOracle) (req : Req) (ms : List MatchCfg) (rules : List Rule)
    (h : mkRules ms = .ok rules) :
    allRoutes rx req rules = Spec.routesAll rx req ms ∧ (allRoutes rx req rules).head? = selectRoute rx req rules := by
  exact ⟨allRoutes_refines rx req h, allRoutes_head rx req rules⟩

/-- **answer_refines** (the property end to end): on every accepted configuration, for every request and every oracle,
`MatchRoute` / `MatchAllRoutes` return what the documented behaviour prescribes — the result is a function of
(configuration, request) only. -/
theorem answer_refines (srt : List Wild → List Wild) (hs : IsSorter srt) (cfg : Config) (t : Tables)
    (hb : build srt cfg = .ok t) (rx : RxOracle) (req : Req) :
    answer rx t cfg req = Spec.answer rx cfg req :=
  MosnVerif.Model.Route.answer_refines hs hb rx req


/-! ## regex matchers: reference semantics (Model/RouteRegex.lean)

Which matcher kinds are anchored, as the code has it: **none**.  The variable matcher `regex`
(`VariableRouteRuleImpl.Match`), the path `regex` route (`RegexRouteRuleImpl.Match`), every header matcher with
`regex: true` (`StringMatch.Matches`, HTTP and RPC rules, the lone `service` regex included) call
`regexp.MatchString`: the pattern may match anywhere in the value; only `^` / `$` written in the pattern anchor it.
Exact matchers (`value`, header `value` with `regex: false`, `path`) compare the whole string, `prefix` its beginning. -/

open MosnVerif.Model.RouteRegex in
/-- **literal_regex_is_infix**: a pattern without meta characters (`regexp.QuoteMeta p == p`) is inside the subset and
matches exactly the values that contain it as a contiguous sub-string — not only the values equal to it. -/
theorem literal_regex_is_infix (p : Str) (h : isLiteral p = true) :
    ∃ re, parseRe p = some re ∧ ∀ v, (matchesRe re v = true ↔ p <:+: v) :=
  ⟨lit p, parseRe_literal p ((isLiteral_iff p).mp h), fun v => matches_lit p v⟩

example : MosnVerif.Model.RouteRegex.isLiteral "/v1/".toList = true := by decide
/-- storing a meta-free `regex` as the item's exact value changes the answer: "/v1/" matches "/api/v1/users" -/
example : MosnVerif.Model.RouteRegex.matchString "/v1/".toList "/api/v1/users".toList = some true
    ∧ "/v1/".toList ≠ "/api/v1/users".toList := by decide
example : MosnVerif.Model.RouteRegex.matchString "^/v1/".toList "/api/v1/users".toList = some false := by decide
example : MosnVerif.Model.RouteRegex.matchString "^(GET|POST)$".toList "POST".toList = some true := by decide
example : MosnVerif.Model.RouteRegex.matchString "/v[0-9]+/".toList "/api/v12/x".toList = some true := by decide

open MosnVerif.Model.RouteRegex in
/-- under the reference oracle a literal pattern is an infix test, whatever the oracle says elsewhere -/
theorem literal_regex_unanchored (pats : Nat → Option Str) (rx : RxOracle) (id : Nat) (p : Str)
    (hp : pats id = some p) (hl : isLiteral p = true) (s : Str) :
    refRx pats rx id s = true ↔ p <:+: s := by
  simp only [refRx, hp, Option.bind_some, parseRe_literal p ((isLiteral_iff p).mp hl)]
  exact matches_lit p s

open MosnVerif.Model.RouteRegex in
/-- a variable matcher `{name, regex: p}` with a meta-free `p` holds iff the variable's value contains `p`
(a `value` configured beside it is irrelevant: the regex wins) -/
theorem literal_variable_matcher (pats : Nat → Option Str) (rx : RxOracle) (req : Req) (name value model p : Str)
    (id : Nat) (ok : Bool) (hp : pats id = some p) (hl : isLiteral p = true) :
    Spec.varItemHolds (refRx pats rx) req ⟨name, value, some ⟨id, ok⟩, model⟩ = true ↔ p <:+: (req.var name).getD [] := by
  simp only [Spec.varItemHolds]
  exact literal_regex_unanchored pats rx id p hp hl _

open MosnVerif.Model.RouteRegex in
/-- a header matcher `{name, value: p, regex: true}` with a meta-free `p` holds iff the request carries the header and
its value contains `p` -/
theorem literal_header_matcher (pats : Nat → Option Str) (rx : RxOracle) (req : Req) (name p : Str) (id : Nat)
    (hp : pats id = some p) (hl : isLiteral p = true) :
    Spec.headerHolds (refRx pats rx) req ⟨name, p, true, ⟨id, true⟩⟩ = true ↔
      ∃ v, Spec.hdrValue req name = some v ∧ p <:+: v := by
  simp only [Spec.headerHolds, if_true]
  cases hv : Spec.hdrValue req name with
  | none => simp
  | some v => simp [literal_regex_unanchored pats rx id p hp hl v]

open MosnVerif.Model.RouteRegex in
/-- **first match with the reference regex semantics**: when the regex oracle (Go's `regexp` in the correspondence
run) agrees with the reference matcher on the patterns inside the subset, `MatchRoute` / `MatchAllRoutes` return the
documented answer computed with the reference matcher -/
theorem answer_refines_reference (srt : List Wild → List Wild) (hs : IsSorter srt) (cfg : Config) (t : Tables)
    (hb : build srt cfg = .ok t) (pats : Nat → Option Str) (rx : RxOracle)
    (hrx : ∀ id s, rx id s = refRx pats rx id s) (req : Req) :
    answer rx t cfg req = Spec.answer (refRx pats rx) cfg req := by
  have e : refRx pats rx = rx := funext fun id => funext fun s => (hrx id s).symm
  rw [e]
  exact answer_refines srt hs cfg t hb rx req

/-- the regenerated **parse decision** of `ParseToVariableMatchItem` equals the closed form `parseVarItem` the rule
constructor of the model uses: `value` fills `value`, `regex` is compiled (by the matcher's `regexp.Compile` oracle) into
`regexPattern` — for every pattern, meta-free or not; there is no shortcut that stores a regex as an exact value. -/
theorem gen_parseVarItem (v : VarCfg) : Gen.Route.parseToVariableMatchItem v = parseVarItem v := by
  obtain ⟨name, value, regex, model⟩ := v
  have d1 : (default : VarItem).value = none := rfl
  have d2 : (default : VarItem).regexPattern = none := rfl
  unfold Gen.Route.parseToVariableMatchItem parseVarItem
  cases regex with
  | none =>
    by_cases hv : value = [] <;> by_cases hm : model = [] <;>
      by_cases h1 : lower model = Gen.Route.modelAnd <;> by_cases h2 : lower model = Gen.Route.modelOr <;>
      simp [VarCfg.regexText, hv, hm, d1, d2, h1, h2]
  | some r =>
    obtain ⟨id, ok⟩ := r
    cases ok <;> by_cases hv : value = [] <;> by_cases hm : model = [] <;>
      by_cases h1 : lower model = Gen.Route.modelAnd <;> by_cases h2 : lower model = Gen.Route.modelOr <;>
      simp [VarCfg.regexText, VarCfg.compile, hv, hm, d1, h1, h2]

/-- a configured `regex` always ends up in the item's `regexPattern` (and a configured `value` beside it in `value`) -/
theorem regex_is_compiled_not_stored (v : VarCfg) (r : Rx) (item : VarItem) (hr : v.regex = some r)
    (h : Gen.Route.parseToVariableMatchItem v = some item) :
    item.regexPattern = some r.id ∧ item.value = (if v.value = [] then none else some v.value) := by
  rw [gen_parseVarItem] at h
  obtain ⟨name, value, regex, model⟩ := v
  simp only at hr
  subst hr
  unfold parseVarItem at h
  simp only at h
  split at h
  · rename_i p m hp hm
    cases hok : r.ok with
    | false => simp [hok] at hp
    | true =>
      simp [hok] at hp
      cases h
      exact ⟨by rw [← hp], rfl⟩
  · cases h

example : Gen.Route.parseToVariableMatchItem ⟨"x-mosn-path".toList, [], some ⟨1, true⟩, []⟩
    = some ⟨"x-mosn-path".toList, none, some 1, Gen.Route.modelAnd⟩ := by decide

/-- the regenerated lookup is the four-step cascade followed by the default (ties `Gen.Route` to the proofs). -/
theorem gen_lookup_is_cascade (t : Tables) (host port : Str) :
    Gen.Route.findHighestPriorityIndex t host port = findIdx t host port :=
  gen_findIdx t host port

/-- the regenerated entry loops: `GetRouteFromEntries` returns the first rule whose `Match` is non-nil,
`GetAllRoutesFromEntries` all of them in order; the regenerated variable-rule loop is the closed-form fold. -/
theorem gen_entry_loops (rx : RxOracle) (req : Req) (rules : List Rule) :
    selectRoute rx req rules = rules.findIdx? (matchRule rx req) ∧
    allRoutes rx req rules = (List.range rules.length).filter (fun i => (rules[i]?).any (matchRule rx req)) ∧
    ∀ items, Gen.Route.variableMatch rx req.var items = varLoop rx req.var items true Gen.Route.modelAnd :=
  ⟨selectRoute_eq rx req rules, allRoutes_eq rx req rules, fun items => gen_variableMatch rx req.var items⟩

/-- variable matchers that are all `and` form a plain conjunction. -/
theorem variables_and_is_conjunction (rx : RxOracle) (req : Req) (vs : List VarCfg)
    (hand : ∀ v ∈ vs, Spec.isOr v = false) (acc : Bool) :
    Spec.varsHold rx req vs acc = (acc && vs.all (Spec.varItemHolds rx req)) := by
  induction vs generalizing acc with
  | nil => simp [Spec.varsHold]
  | cons v r ih =>
    have h1 : Spec.isOr v = false := hand v (by simp)
    simp only [Spec.varsHold, h1, Bool.false_eq_true, if_false, List.all_cons]
    rw [ih (fun x hx => hand x (List.mem_cons_of_mem _ hx)), Bool.and_assoc]

-- ---------------------------------------------------------------- non-vacuity
/-- the driver's sorter satisfies the `sort.Sort` contract, so the hypotheses `IsSorter srt`, `build srt cfg = ok t`
are satisfiable -/
theorem isort_is_sorter : IsSorter isort := isort_isSorter

/-- a configuration with an exact host, an exact host with port, two overlapping wildcard suffixes, a ported
wildcard, a default, mixed case -/
def exCfg : Config :=
  [ ⟨["a.cc".toList], []⟩, ⟨["A.cc:80".toList], []⟩, ⟨["*.cc".toList], []⟩, ⟨["*.b.CC".toList, "*.cc:*".toList], []⟩,
    ⟨["*".toList], []⟩ ]

example : ∃ t, build isort exCfg = .ok t := ⟨_, rfl⟩
example : Spec.vhost exCfg (some "A.CC".toList) = 0 := by decide
example : Spec.vhost exCfg (some "a.cc:80".toList) = 1 := by decide
example : Spec.vhost exCfg (some "x.b.cc".toList) = 3 := by decide          -- longest suffix wins over `*.cc`
example : Spec.vhost exCfg (some "x.a.cc".toList) = 2 := by decide
example : Spec.vhost exCfg (some "x.a.cc:81".toList) = 3 := by decide       -- wildcard port
example : Spec.vhost exCfg (some "x.org".toList) = 4 := by decide           -- default
example : Spec.vhost exCfg none = 4 ∧ Spec.vhost exCfg (some []) = 4 ∧ Spec.vhost exCfg (some "a:b:c".toList) = 4 := by decide
example : Spec.vhost [⟨["a.cc".toList], []⟩] (some "b.cc".toList) = -1 := by decide
example : lower "A.Cc:80".toList = lower "a.cC:80".toList := by decide

/-- a route list mixing kinds: the prefix rule with a method matcher shadows the later catch-all only for GET -/
def exRoutes : List MatchCfg :=
  [ ⟨"/a".toList, [], none, [], [⟨"method".toList, "GET".toList, false, ⟨0, false⟩⟩], []⟩,
    ⟨[], [], some ⟨1, true⟩, [], [], []⟩,
    ⟨[], [], none, [], [], []⟩ ]

def exReq (method path : String) : Req :=
  { var := fun k => if k = "x-mosn-method".toList then some method.toList else if k = "x-mosn-path".toList then some path.toList else none,
    dsl := fun _ => none }

example : ∃ rules, mkRules exRoutes = .ok rules := ⟨_, rfl⟩
example : Spec.route (fun _ _ => false) (exReq "GET" "/a/b") exRoutes = some 0 := by decide
example : Spec.route (fun _ _ => true) (exReq "POST" "/a/b") exRoutes = some 1 := by decide
example : Spec.route (fun _ _ => false) (exReq "POST" "/a/b") exRoutes = some 2 := by decide
example : Spec.route (fun _ _ => false) (exReq "POST" "/a/b") (exRoutes.take 2) = none := by decide


-- header names: an RPC rule and an HTTP rule keyed on `Service-Name`, then a catch-all
def exHdrRoutes : List MatchCfg :=
  [ ⟨[], [], none, [], [⟨"Service-Name".toList, "pay".toList, false, ⟨0, false⟩⟩], []⟩,
    ⟨"/".toList, [], none, [], [⟨"Service-Name".toList, "^p".toList, true, ⟨1, true⟩⟩], []⟩,
    ⟨[], [], none, [], [], []⟩ ]

def exHdrReq (kind : MapKind) (hdrs : List (String × String)) : Req :=
  { var := fun k => if k = "x-mosn-path".toList then some "/x".toList else none,
    kind := kind, hdrs := hdrs.map (fun kv => (kv.1.toList, kv.2.toList)),
    pseudo := [(":authority".toList, "a.cc".toList), (":path".toList, "/x".toList), (":method".toList, "GET".toList)] }

example : ∃ rules, mkRules exHdrRoutes = .ok rules := ⟨_, rfl⟩
-- xprotocol / RPC map: only the exact-case key matches; the lower-cased key falls through to the catch-all
example : Spec.route (fun _ _ => true) (exHdrReq .exact [("Service-Name", "pay")]) exHdrRoutes = some 0 := by decide
example : Spec.route (fun _ _ => false) (exHdrReq .exact [("service-name", "pay")]) exHdrRoutes = some 2 := by decide
example : Spec.route (fun _ _ => true) (exHdrReq .exact [("service-name", "pay"), ("Service-Name", "x")]) exHdrRoutes = some 1 := by decide
-- HTTP maps: any case matches, the first carried header of that name counts
example : Spec.route (fun _ _ => false) (exHdrReq .fold [("service-name", "pay")]) exHdrRoutes = some 0 := by decide
example : Spec.route (fun _ _ => false) (exHdrReq .fold [("SERVICE-NAME", "x"), ("Service-Name", "pay")]) exHdrRoutes = some 2 := by decide
example : Spec.route (fun _ _ => false) (exHdrReq .h2 [("service-name", "pay")]) exHdrRoutes = some 0 := by decide
example : Spec.route (fun _ _ => false) (exHdrReq .h2 [("service-name", "")]) exHdrRoutes = some 2 := by decide
example : Spec.hdrValue (exHdrReq .h2 []) ":authority".toList = some "a.cc".toList := by decide
example : Spec.hdrValue (exHdrReq .fold [(":authority", "b")]) ":Authority".toList = some ['b'] := by decide
-- hypotheses of http_names_case_insensitive / rpc_names_exact are satisfiable
example : (exHdrReq .fold [("K", "v")]).kind = .fold ∧ lower "Service-Name".toList = lower "service-NAME".toList := by decide
example : (((exHdrReq .exact [("K", "v"), ("k", "w")]).hdrs).map (·.1)).Nodup := by decide

/-- **lowercasing_breaks_exact_maps** (why the constructors must keep names verbatim): lower-casing the configured name
of an RPC rule changes the selected route on an xprotocol request that carries the configured name — the rule is
skipped for the request it is written for, and taken for a request carrying the lower-cased key. -/
theorem lowercasing_breaks_exact_maps :
    let cfg := exHdrRoutes
    let cfg' := exHdrRoutes.map (fun m => { m with headers := m.headers.map (fun h => { h with name := lower h.name }) })
    Spec.route (fun _ _ => false) (exHdrReq .exact [("Service-Name", "pay")]) cfg = some 0 ∧
    Spec.route (fun _ _ => false) (exHdrReq .exact [("Service-Name", "pay")]) cfg' = some 2 ∧
    Spec.route (fun _ _ => false) (exHdrReq .exact [("service-name", "pay")]) cfg = some 2 ∧
    Spec.route (fun _ _ => false) (exHdrReq .exact [("service-name", "pay")]) cfg' = some 0 ∧
    -- ... and is invisible on an HTTP request
    Spec.route (fun _ _ => false) (exHdrReq .fold [("Service-Name", "pay")]) cfg' = some 0 := by decide

end MosnVerif.Props.C04
