import MosnVerif.Model.Route
namespace MosnVerif.Props.C04
open MosnVerif.Model.Route

theorem placeholder : (1 : Nat) = 1 := rfl

end MosnVerif.Props.C04
