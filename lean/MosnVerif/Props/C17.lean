import MosnVerif.Lemmas.Headers
import MosnVerif.Lemmas.Retry
import MosnVerif.Lemmas.RouteFinalize
import MosnVerif.Lemmas.HeaderWiring
import MosnVerif.Lemmas.RetryPolicy
import MosnVerif.Lemmas.HeaderMaps
import MosnVerif.Lemmas.PerTryArm
/-!
# C17 — route actions, timeouts and the retry policy are applied exactly as configured (property theorems only)

Part 1: header mutations at the three levels, and the effective timeout (`Model/Headers.lean`).
Part 2 (namespace `Retry` below): the retry policy on the attempt machine of `Model/Retry.lean` (regenerated retry decision
inside `onUpstreamHeaders` / `onUpstreamReset` / `doRetry` / the timers), local replies of redirect / direct-response routes,
prefix rewrite and redirect assembly.
Part 5 (section `PolicyBuild`, at the end): the retry policy FROM CONFIGURATION — the regenerated construction in
`NewRouteRuleImplBase`, the regenerated accessors (nil policy included) — into `parseProxyTimeout` and the attempt machine.
-/
namespace MosnVerif.Props.C17
open MosnVerif.Model.Headers MosnVerif.Gen.HeaderMutation MosnVerif.Gen.ProxyTimeout

/-- **headers_spec (request side)**: for every three-level mutation configuration, every initial header map and every
header name, the final value of that header is the fold — in the order route → virtual host → router config, within a
level all additions in configuration order then all removals — of exactly the mutations naming it, by the documented
rule (append joins with "," onto an existing non-empty value, otherwise overwrite; removal deletes).  In particular
headers are independent of one another, and the level order is the regenerated `requestOrder`. -/
theorem headers_spec_request (l : Levels) (h : Hdrs) (k : String) :
    get (finalize requestOrder l h) k = specValue (specOps l) k (get h k) := by
  have : requestOrder = [.route, .vhost, .router] := by decide
  rw [this, finalize_eq_ops, get_foldl_ops]

/-- **headers_spec (response side)** -/
theorem headers_spec_response (l : Levels) (h : Hdrs) (k : String) :
    get (finalize responseOrder l h) k = specValue (specOps l) k (get h k) := by
  have : responseOrder = [.route, .vhost, .router] := by decide
  rw [this, finalize_eq_ops, get_foldl_ops]

/-- a header that no configured mutation names is passed through untouched -/
theorem untouched_preserved (l : Levels) (h : Hdrs) (k : String)
    (hk : ∀ o ∈ specOps l, o.key ≠ k) : get (finalize requestOrder l h) k = get h k := by
  rw [headers_spec_request]
  unfold specValue
  have : (specOps l).filter (fun o => o.key == k) = [] := by
    rw [List.filter_eq_nil_iff]; intro o ho; simpa using hk o ho
  rw [this]; rfl

/-- if the last mutation naming `k` (in level order) is a removal, the header is absent -/
theorem removed_absent (l : Levels) (h : Hdrs) (k : String) (pre post : List Op)
    (hs : specOps l = pre ++ [.remove k] ++ post) (hpost : ∀ o ∈ post, o.key ≠ k) :
    get (finalize requestOrder l h) k = none := by
  rw [headers_spec_request, hs]
  unfold specValue
  have : post.filter (fun o => o.key == k) = [] := by
    rw [List.filter_eq_nil_iff]; intro o ho; simpa using hpost o ho
  rw [List.filter_append, List.filter_append, this, List.append_nil, List.foldl_append]
  simp [List.filter_cons, Op.key, stepVal]

/-- if the last mutation naming `k` is an addition with append=false, the header has exactly the configured value -/
theorem overwrite_last (l : Levels) (h : Hdrs) (a : Add) (pre post : List Op) (ha : a.append = false)
    (hs : specOps l = pre ++ [.add a] ++ post) (hpost : ∀ o ∈ post, o.key ≠ a.name) :
    get (finalize requestOrder l h) a.name = some a.value := by
  rw [headers_spec_request, hs]
  unfold specValue
  have : post.filter (fun o => o.key == a.name) = [] := by
    rw [List.filter_eq_nil_iff]; intro o ho; simpa using hpost o ho
  rw [List.filter_append, List.filter_append, this, List.append_nil, List.foldl_append]
  generalize List.foldl stepVal (get h a.name) (List.filter (fun o => o.key == a.name) pre) = v
  cases v <;> simp [List.filter_cons, Op.key, stepVal, ha]

/-- an addition with append=true onto an existing non-empty value joins with a comma -/
theorem append_joins (v : String) (a : Add) (hv : v.length > 0) (ha : a.append = true) :
    stepVal (some v) (.add a) = some (v ++ "," ++ a.value) := by
  simp [stepVal, hv, ha]

/-- **timeout_precedence**: for every route, every header/variable content and every integer parser, the effective
timeouts computed by the regenerated `parseProxyTimeout` are: protocol-supplied variable if present and numeric, else the
request's timeout header if present and numeric, else the route's, else what was there; a global timeout that is zero
or ([c08l9]) negative becomes the default; and a per-try timeout ≥ the global timeout is disabled (0). -/
theorem timeout_precedence (parseInt : String → Option Int) (g0 t0 : Int) (hasRoute : Bool) (rg rt : Int)
    (hT hG vT vG : Option String) :
    parseProxyTimeout parseInt g0 t0 hasRoute rg rt hT hG vT vG =
      (specGlobal parseInt g0 hasRoute rg hG vG, specTry parseInt g0 t0 hasRoute rg rt hT hG vT vG) := by
  rw [ppt_eq]
  unfold ppt' specTry specGlobal pickTimeout
  simp only [upd_eq]
  generalize hT.bind parseInt = a
  generalize hG.bind parseInt = b
  generalize vT.bind parseInt = c
  generalize vG.bind parseInt = d
  cases hasRoute <;> cases a <;> cases b <;> cases c <;> cases d <;> simp

/-! [c08l9] begin: the effective global timeout is positive -/
/-- **global_timeout_positive** [c08l9]: for every route, every header / variable content (negative numbers included)
and every integer parser, the global timeout that comes out of the regenerated `parseProxyTimeout` is > 0 — the response
timer (`if s.timeout.GlobalTimeout > 0` in downstream.go) is therefore always armed: no request waits for a silent
upstream without a timer. (Before the fix a header `x-mosn-global-timeout: -5` gave (-5 ms, 0): both timers disarmed.) -/
theorem global_timeout_positive (parseInt : String → Option Int) (g0 t0 : Int) (hasRoute : Bool) (rg rt : Int)
    (hT hG vT vG : Option String) :
    0 < (parseProxyTimeout parseInt g0 t0 hasRoute rg rt hT hG vT vG).1 := by
  rw [timeout_precedence]
  simp only [specGlobal]
  split <;> omega

-- non-vacuity: a negative header value and a negative variable value end up as the default
example : parseProxyTimeout (fun s => if s = "-5" then some (-5) else none) 0 0 true 3000000000 100000000
    none (some "-5") none none = (60000000000, 100000000) := by decide
example : parseProxyTimeout (fun s => if s = "-5" then some (-5) else none) 0 0 false 0 0
    none none none (some "-5") = (60000000000, 0) := by decide
/-! [c08l9] end -/

/-- the per-try timeout that comes out is always strictly below the global one or disabled -/
theorem try_below_global (parseInt : String → Option Int) (g0 t0 : Int) (hasRoute : Bool) (rg rt : Int)
    (hT hG vT vG : Option String) :
    let r := parseProxyTimeout parseInt g0 t0 hasRoute rg rt hT hG vT vG
    r.2 = 0 ∨ r.2 < r.1 := by
  rw [timeout_precedence]
  simp only [specTry]
  split <;> omega

-- non-vacuity: a concrete three-level configuration meeting the hypotheses of `removed_absent` / `overwrite_last`
def exLevels : Levels :=
  Levels.mk (Parser.mk [Model.Headers.Add.mk "x" "1" true] ["y"]) (Parser.mk [Model.Headers.Add.mk "x" "2" true] [])
    (Parser.mk [Model.Headers.Add.mk "y" "3" false] [])
example : specOps exLevels = [.add ⟨"x", "1", true⟩] ++ [.remove "y"] ++ [.add ⟨"x", "2", true⟩, .add ⟨"y", "3", false⟩] := rfl
example : specOps exLevels = [.add ⟨"x", "1", true⟩, .remove "y", .add ⟨"x", "2", true⟩] ++ [.add ⟨"y", "3", false⟩] ++ [] := rfl
-- tests (evaluated, not proofs): the model on a concrete request
#guard get (finalize requestOrder exLevels [("x", "0"), ("y", "9")]) "x" == some "0,1,2"
#guard get (finalize requestOrder exLevels [("x", "0"), ("y", "9")]) "y" == some "3"
#guard parseProxyTimeout (fun s => s.toInt?) 0 0 true 5000000000 1000000000 none (some "300") (some "abc") none == (300000000, 0)

/-! ## Part 2 — retry policy, local replies, rewrite, redirect -/
section Retry
open MosnVerif.Model.Retry MosnVerif.Gen.RetryState MosnVerif.Gen.RouteAction

def exPolicy' : Policy := { retryOn := true, numRetries := 2, codes := [503], tryTimeout := true, disable := false }

/-- the budget the code computes from the configured `num_retries` (regenerated `newRetryState`) is `max 3 num_retries`:
a configured value below 3 is raised to 3 -/
theorem budget_floor (n : Nat) : initialBudget (n : Int) = ((max 3 n : Nat) : Int) := initialBudget_eq n

/-- **attempts_bounded**: for EVERY retry policy (retry_on, num_retries, status-code list, per-try timeout, disable flag), every
first host-selection result and EVERY sequence of per-attempt outcomes and oracle answers, the number of `pool.NewStream`
calls (admitted or refused) is at most one plus the effective retry budget `max 3 num_retries`. -/
theorem attempts_bounded (p : Policy) (host0 : Option Nat) (ls : List Label) :
    attemptCount (run p host0 ls).trace ≤ 1 + max 3 p.numRetries := by
  have h := run_good p host0 ls
  have h1 := h.rem_nonneg
  have h2 := h.bound
  rw [h.count]
  unfold budget at h2
  omega

/-- the regenerated retry decision on response headers is exactly the configured condition -/
theorem decision_on_response (p : Policy) (c : Nat) :
    doRetryCheck true p.disable p.retryOn false (c : Int) (codesInt p) "" = retryable p (.resp c) := check_resp p c

/-- the regenerated retry decision on a reset / refused stream / timer is exactly the configured condition, whatever status an
earlier attempt left in the status variable -/
theorem decision_on_reset (p : Policy) (o : Outcome) (staleAbsent : Bool) (staleCode : Int) (ho : ∀ c, o ≠ .resp c) :
    doRetryCheck true p.disable p.retryOn staleAbsent staleCode (codesInt p) (reasonOf o) = retryable p o :=
  check_reset p o staleAbsent staleCode ho

/-- every trace of the machine is accepted by the declarative acceptor `traceOk` (which the driver also evaluates on the
implementation's trace) -/
theorem trace_accepted (p : Policy) (host0 : Option Nat) (ls : List Label) : traceOk p (run p host0 ls).trace = true := by
  obtain ⟨c, hc, _⟩ := (run_good p host0 ls).acc
  simp [traceOk, hc]

/-- **retry_only_if**: wherever a host selection for attempt `k` (hence an attempt) occurs in a trace, `k` is the number of attempts
made so far, and either nothing happened before (the first attempt) or the event immediately before it is an outcome of the
outstanding attempt that is retryable under the configured policy — and before that outcome no downstream response had started,
the global timeout had not fired and the worker had not left.  (`retryable p .global = false`, so the retryable outcome itself is
never the global timeout.) -/
theorem retry_only_if (p : Policy) (host0 : Option Nat) (ls : List Label) (pre post : List Ev) (k : Nat)
    (h : (run p host0 ls).trace = pre ++ [.choose k] ++ post) :
    k = attemptCount pre ∧
    (pre = [] ∨ ∃ pre' o, pre = pre' ++ [.outcome o] ∧ retryable p o = true ∧ ∀ e ∈ pre', ends e = false) := by
  obtain ⟨c, hc, _⟩ := (run_good p host0 ls).acc
  rw [h] at hc
  obtain ⟨c1, c2, h1, h2⟩ := scan_split p _ _ _ _ _ hc
  simp only [scanStep] at h2
  split at h2
  · rename_i hk
    obtain ⟨hk1, hk2, hk3, hk4⟩ := hk
    have hn := scan_n p _ _ _ h1
    refine ⟨by rw [hk1, hn]; simp [scanInit], ?_⟩
    rcases scan_permit p _ _ _ h1 hk2 with ⟨hnil, _⟩ | ⟨t', o, c', ht, hr, hs, hd⟩
    · exact Or.inl hnil
    · exact Or.inr ⟨t', o, ht, hr, (scan_alive p _ _ _ hs hd).2⟩
  · simp at h2

/-- **fresh_host**: every `pool.NewStream` of attempt `k` is immediately preceded by a host selection made for attempt `k`
(each retry re-runs host selection; no attempt reuses the previous selection) -/
theorem fresh_host (p : Policy) (host0 : Option Nat) (ls : List Label) (pre post : List Ev) (k h : Nat)
    (ht : (run p host0 ls).trace = pre ++ [.attempt k h] ++ post) :
    ∃ pre', pre = pre' ++ [.choose k] := by
  obtain ⟨c, hc, _⟩ := (run_good p host0 ls).acc
  rw [ht] at hc
  obtain ⟨c1, c2, h1, h2⟩ := scan_split p _ _ _ _ _ hc
  simp only [scanStep] at h2
  split at h2
  · rename_i hk
    rcases scan_chosen p _ _ _ h1 hk.2 with ⟨_, hinit⟩ | ⟨t', ht'⟩
    · simp [scanInit] at hinit
    · exact ⟨t', by rw [hk.1]; exact ht'⟩
  · simp at h2

/-- no attempt after the response started / the global timeout / the worker left: once an ending event is in the trace, no
host selection and no attempt follows -/
theorem nothing_after_end (p : Policy) (host0 : Option Nat) (ls : List Label) (pre post : List Ev) (e e' : Ev)
    (h : (run p host0 ls).trace = pre ++ [e] ++ post) (he : ends e = true) (hm : e' ∈ post) :
    (∀ k, e' ≠ .choose k) ∧ (∀ k x, e' ≠ .attempt k x) := by
  obtain ⟨pa, pb, rfl⟩ := List.append_of_mem hm
  constructor
  · intro k hk; subst hk
    have h' : (run p host0 ls).trace = (pre ++ [e] ++ pa) ++ [.choose k] ++ pb := by rw [h]; simp
    obtain ⟨_, hr⟩ := retry_only_if p host0 ls _ _ _ h'
    rcases hr with hnil | ⟨t', o, ht, hro, hall⟩
    · simp at hnil
    · have hin : e ∈ pre ++ [e] ++ pa := by simp
      rw [ht] at hin
      rcases List.mem_append.mp hin with hin | hin
      · rw [hall e hin] at he; simp at he
      · simp at hin; subst hin
        cases o <;> simp_all [ends, retryable]
  · intro k x hk; subst hk
    have h' : (run p host0 ls).trace = (pre ++ [e] ++ pa) ++ [.attempt k x] ++ pb := by rw [h]; simp
    obtain ⟨t', ht'⟩ := fresh_host p host0 ls _ _ _ _ h'
    have h'' : (run p host0 ls).trace = t' ++ [.choose k] ++ ([.attempt k x] ++ pb) := by rw [h', ht']; simp
    obtain ⟨_, hr⟩ := retry_only_if p host0 ls _ _ _ h''
    have hin : e ∈ t' ++ [.choose k] := by rw [← ht']; simp
    rcases List.mem_append.mp hin with hin | hin
    · rcases hr with hnil | ⟨t2, o, ht, hro, hall⟩
      · subst hnil; simp at hin
      · rw [ht] at hin
        rcases List.mem_append.mp hin with hin | hin
        · rw [hall e hin] at he; simp at he
        · simp at hin; subst hin
          cases o <;> simp_all [ends, retryable]
    · simp at hin; subst hin; simp [ends] at he

/-- **retry_when_configured** (the converse of `retry_only_if`): whenever the outstanding attempt ends in an outcome that is retryable
under the configured policy, budget is left, the `Retries` breaker admits, a healthy host exists and the worker has a pass left,
the request IS retried: exactly one host selection and one new attempt on the selected host follow, and one unit of budget is used -/
theorem retry_when_configured (p : Policy) (s : St) (l : Label) (h : Nat)
    (hlive : s.live = true) (hrs : s.hasRS = true) (hst : s.started = false) (hrem : s.remaining ≠ 0) (hloops : s.loops ≠ 0)
    (hret : retryable p l.o = true) (hcc : l.canCreate = true) (hh : l.host = some h)
    (hpt : l.o = .perTry → p.tryTimeout = true) :
    (step p s l).trace = s.trace ++ [.outcome l.o, .choose s.attempts, .attempt s.attempts h] ∧
    (step p s l).attempts = s.attempts + 1 ∧ (step p s l).remaining = s.remaining - 1 :=
  step_retries p s l h hlive hrs hst hrem hloops hret hcc hh hpt

example : (start exPolicy' (some 0)).live = true ∧ (start exPolicy' (some 0)).hasRS = true ∧ (start exPolicy' (some 0)).started = false ∧
    (start exPolicy' (some 0)).remaining ≠ 0 ∧ (start exPolicy' (some 0)).loops ≠ 0 ∧ retryable exPolicy' (.resp 503) = true := by decide

/-- never after a response has started: once the downstream response has started (and no attempt is outstanding), whatever
arrives — a late reset of the answered upstream stream, a timer, a connection event — changes nothing: no retry decision is
taken and no upstream event is produced (the regenerated guard of `onUpstreamReset` contains `!downstreamResponseStarted`) -/
theorem started_is_final (p : Policy) (s : St) (l : Label) (h1 : s.live = false) (h2 : s.started = true) : step p s l = s := by
  unfold step
  simp [h1, h2, resetGuard_started]

/-- **local_reply_no_upstream**: a route with a direct response answers with exactly the configured status and body, a route
with a redirect (and no direct response) with the configured code and the assembled location — and in both cases the exchange
contains that one reply and NO host selection and NO upstream attempt, for every policy, oracle and outcome sequence
(branch order of `chooseHost` regenerated). -/
theorem local_reply_no_upstream (r : RouteFacts) (q : Req) (p : Policy) (host0 : Option Nat) (ls : List Label) (hr : r.hasRoute = true) :
    (∀ d, r.direct = some d →
        localReply r q = some { status := d.status, location := none, body := d.body } ∧ exchange r q p host0 ls = [.reply d.status]) ∧
    (∀ rd, r.direct = none → r.redirect = some rd →
        localReply r q = some { status := rd.code, location := some (redirectLocation rd q), body := "" } ∧
        exchange r q p host0 ls = [.reply rd.code]) := by
  have ho : chooseHostOrder = [.noRoute, .direct, .redirect, .noRule, .noSnapshot, .pool] := by decide
  constructor
  · intro d hd
    have : localReply r q = some { status := d.status, location := none, body := d.body } := by
      simp [localReply, chooseBranch, ho, List.find?, branchHolds, hr, hd]
    exact ⟨this, by simp [exchange, this]⟩
  · intro rd hd hrd
    have : localReply r q = some { status := rd.code, location := some (redirectLocation rd q), body := "" } := by
      simp [localReply, chooseBranch, ho, List.find?, branchHolds, hr, hd, hrd]
    exact ⟨this, by simp [exchange, this]⟩

/-- a local reply contains no upstream attempt -/
theorem local_reply_attempts (r : RouteFacts) (q : Req) (p : Policy) (host0 : Option Nat) (ls : List Label) (lr : LocalReply)
    (h : localReply r q = some lr) : attemptCount (exchange r q p host0 ls) = 0 := by
  simp [exchange, h, attemptCount, isAttempt]

/-- **rewrite_spec** (prefix rewrite): when the path starts with the matched prefix the new path is `prefix_rewrite ++ rest`;
otherwise the prefix branch leaves the path alone (regenerated `finalizePathHeader` prefix branch) -/
theorem rewrite_spec (pr m rest : List Char) : prefixRewritePath pr m (m ++ rest) = some (pr ++ rest) := by
  simp [prefixRewritePath]

theorem rewrite_spec_no_prefix (pr m path : List Char) (h : m.isPrefixOf path = false) : prefixRewritePath pr m path = none := by
  simp [prefixRewritePath, h]

/-- `finalizePathHeader` as a whole: nothing configured or empty path ⇒ untouched and no original-path header; prefix rewrite
configured and the path starts with the matched prefix ⇒ rewritten and the original path recorded (prefix rewrite wins over
regex rewrite) -/
theorem rewrite_prefix_records_original (c : RewriteCfg) (m path : String) (rest : List Char) (re : String → String)
    (hp : c.prefixRewrite ≠ "") (hne : path ≠ "") (hpath : path.toList = m.toList ++ rest) :
    finalizePath c m path re = (String.ofList (c.prefixRewrite.toList ++ rest), some path) := by
  have hl : c.prefixRewrite.length ≠ 0 := by
    intro h; apply hp; exact String.length_eq_zero_iff.mp h
  have hd : rewriteDisabled c.prefixRewrite c.regex = false := by
    simp [rewriteDisabled, hl]
  simp [finalizePath, hd, hne, hl, hpath, prefixRewritePath]

theorem rewrite_none_configured (m path : String) (re : String → String) :
    finalizePath { prefixRewrite := "", regex := "" } m path re = (path, none) := by
  simp [finalizePath, rewriteDisabled]

/-- **redirect_spec**: scheme, host and path of the location default to the request's own when not configured (regenerated
`getStringOr`); with an unchanged scheme the host is used as is -/
theorem redirect_spec_defaults (s d : String) : getStringOr s d = if s = "" then d else s := by
  unfold getStringOr
  by_cases h : s = ""
  · subst h; simp
  · have : s.length ≠ 0 := fun hl => h (String.length_eq_zero_iff.mp hl)
    simp [h, this]

theorem redirect_spec_same_scheme (rd : Redirect) (q : Req) (hs : rd.scheme = "" ∨ rd.scheme = q.scheme) :
    redirectLocation rd q =
      urlString q.scheme (if rd.host = "" then q.host else rd.host) (if rd.path = "" then q.path else rd.path) q.query := by
  have : getStringOr rd.scheme q.scheme = q.scheme := by
    rw [redirect_spec_defaults]; rcases hs with h | h <;> simp [h]
  simp [redirectLocation, this, redirect_spec_defaults]

/-- the port is dropped exactly for `host:443` when redirecting to http and `host:80` when redirecting to https -/
theorem redirect_port_rule (scheme port : String) :
    stripPort scheme port = ((scheme = "http" ∧ port = "443") ∨ (scheme = "https" ∧ port = "80")) := by
  simp [stripPort]

-- non-vacuity / tests (evaluated): a policy with 2 retries on 503, three hosts round-robin
def exPolicy : Policy := { retryOn := true, numRetries := 2, codes := [503], tryTimeout := true, disable := false }
def exLabels : List Label :=
  [⟨.resp 503, true, some 1⟩, ⟨.connFail, true, some 2⟩, ⟨.remoteReset, true, some 0⟩, ⟨.resp 200, true, some 1⟩]
example : (run exPolicy (some 0) exLabels).trace =
    [.choose 0, .attempt 0 0, .outcome (.resp 503), .choose 1, .attempt 1 1, .outcome .connFail, .choose 2, .attempt 2 2,
     .outcome .remoteReset, .reply 502] := by decide
example : (run exPolicy (some 0) exLabels).trace = [.choose 0, .attempt 0 0, .outcome (.resp 503)] ++ [.choose 1] ++
    [.attempt 1 1, .outcome .connFail, .choose 2, .attempt 2 2, .outcome .remoteReset, .reply 502] := by decide
-- the budget is max 3 num_retries: with num_retries = 0 and retry_on, four attempts on four 503s
#guard attemptCount (run { exPolicy with numRetries := 0, codes := [] } (some 0) (List.replicate 9 ⟨.resp 503, true, some 1⟩)).trace == 4
-- the acceptor rejects a retry after a non-retryable outcome, after a reply, and an attempt without host selection
#guard traceOk exPolicy [.choose 0, .attempt 0 0, .outcome .remoteReset, .choose 1, .attempt 1 1] == false
#guard traceOk exPolicy [.choose 0, .attempt 0 0, .outcome (.resp 503), .reply 503, .choose 1, .attempt 1 1] == false
#guard traceOk exPolicy [.choose 0, .attempt 0 0, .outcome (.resp 503), .attempt 1 0] == false
#guard traceOk exPolicy [.choose 0, .attempt 0 0, .outcome .global, .choose 1, .attempt 1 1] == false
#guard traceOk exPolicy [.choose 0, .attempt 0 0, .outcome (.resp 503), .choose 1, .attempt 1 1, .outcome (.resp 200), .reply 200]
example : localReply { hasRoute := true, direct := some ⟨418, "teapot"⟩, redirect := some ⟨301, "https", "", "/n"⟩, hasRule := true, hasSnapshot := true }
    ⟨"http", "a:80", "/x", "k=v"⟩ = some ⟨418, none, "teapot"⟩ := by decide
#guard redirectLocation ⟨301, "https", "", "/n"⟩ ⟨"http", "a:80", "/x", "k=v"⟩ == "https://a/n?k=v"
#guard redirectLocation ⟨301, "", "b", ""⟩ ⟨"http", "a:80", "/x", ""⟩ == "http://b/x"
#guard finalizePath ⟨"/new", ""⟩ "/old" "/old/rest" id == ("/new/rest", some "/old/rest")

end Retry

/-! ## Part 3 — a hop's route actions on a request that ARRIVES WITH STATE

`Model/RouteFinalize.lean`: `finalizeRequest r s` is `<rule>.FinalizeRequestHeaders` on the request state `s` = (incoming header map,
path variable, host variable); `finalizePathHeader` / `finalizeRequestHeaders` and the call order of the three HTTP rules are
regenerated statement by statement (`Gen/RouteFinalize.lean`) — every read of the header map or of a variable the Go code makes
is part of the function the theorems are about.  All theorems quantify over the WHOLE incoming state: the header map is client
controlled and is written by every MOSN hop before this one. -/
section Finalize
open MosnVerif.Model.RouteFinalize MosnVerif.Gen.RouteFinalize

/-- **finalize_path_spec**: for every route, every incoming header map, host variable and received path, the path variable after
the hop is `rewrite(received path)` — a function of the route and of the received path ONLY -/
theorem finalize_path_spec (r : Route) (s : Req) : (finalizeRequest r s).path = specPath r s.path :=
  finalizeRequest_path r s

/-- the path rewrite does not depend on anything the request carries besides the path: two requests with the same received
path — whatever headers (x-mosn-original-path included) and host variable they arrive with — leave the hop with the same path -/
theorem rewrite_ignores_incoming_state (r : Route) (s s' : Req) (hp : s.path = s'.path) :
    (finalizeRequest r s).path = (finalizeRequest r s').path := by
  rw [finalize_path_spec, finalize_path_spec, hp]

/-- **finalize_headers_spec**: every header after the hop, for every incoming header map: the original-path header is the RECEIVED
path whenever a rewrite applied (whatever value arrived in it, whatever the configured mutations do to it); every other header —
and the original-path header when no rewrite applied — is the fold of exactly the configured mutations naming it over the value
that arrived (route → virtual host → router config) -/
theorem finalize_headers_spec (r : Route) (s : Req) (k : String) :
    get (finalizeRequest r s).hdrs k = specHeader r s k := finalizeRequest_header r s k

/-- **original_is_received**: when this hop rewrites, the recorded original path is this hop's received path, regardless of a
pre-existing x-mosn-original-path header -/
theorem original_is_received (r : Route) (s : Req) (p np : String) (hp : s.path = some p) (hr : specRewrite r p = some np) :
    (finalizeRequest r s).path = some np ∧ get (finalizeRequest r s).hdrs headerOriginalPath = some p := by
  constructor
  · rw [finalize_path_spec, hp]; simp [specPath, hr]
  · rw [finalize_headers_spec]; simp [specHeader, rewrites, hp, hr]

/-- prefix rewrite, stated outright: a received path `matched ++ rest` leaves as `prefix_rewrite ++ rest`, recorded original =
received path, for every incoming header map -/
theorem prefix_rewrite_regardless (r : Route) (s : Req) (rest : List Char) (hc : r.cfg.prefixRewrite ≠ "")
    (hp : s.path = some (String.ofList (r.matched.toList ++ rest))) (hne : r.matched.toList ++ rest ≠ []) :
    (finalizeRequest r s).path = some (r.cfg.prefixRewrite ++ String.ofList rest) ∧
    get (finalizeRequest r s).hdrs headerOriginalPath = s.path := by
  have hd : List.drop r.matched.length (r.matched.toList ++ rest) = rest := by
    have : r.matched.length = r.matched.toList.length := String.length_toList.symm
    rw [this, List.drop_left]
  have hr : specRewrite r (String.ofList (r.matched.toList ++ rest)) = some (r.cfg.prefixRewrite ++ String.ofList rest) := by
    simp [specRewrite, hc, hd]
    simpa using hne
  rw [hp]
  exact original_is_received r s _ _ hp hr

/-- **finalize_host_spec**: the host variable after the hop: `host_rewrite` when configured — unconditionally, whatever host
variable / host headers the request arrived with —, else the value of the `auto_host_rewrite_header` header AFTER the header
mutations when present, else (auto_host_rewrite on a STRICT_DNS cluster) the upstream host name, else untouched -/
theorem finalize_host_spec (r : Route) (s : Req) : (finalizeRequest r s).host = specHost r s := finalizeRequest_host r s

theorem host_rewrite_regardless (r : Route) (s : Req) (hc : r.cfg.hostRewrite ≠ "") :
    (finalizeRequest r s).host = some r.cfg.hostRewrite := by
  rw [finalize_host_spec]; simp [specHost, hc]

/-- **two_hop**: a MOSN → MOSN chain.  The second hop receives what the first hop produced (its path variable, its headers —
the original-path header the first hop recorded included — and its host variable).  Each hop rewrites ITS OWN received path:
the final path is `rewrite₂(rewrite₁(p))`, and when the second hop rewrites, the recorded original is the path the second hop
received (= `rewrite₁(p)`), not the first hop's. -/
theorem two_hop (r1 r2 : Route) (s : Req) :
    (finalizeRequest r2 (finalizeRequest r1 s)).path = specPath r2 (specPath r1 s.path) ∧
    (rewrites r2 (specPath r1 s.path) = true →
      get (finalizeRequest r2 (finalizeRequest r1 s)).hdrs headerOriginalPath = specPath r1 s.path) := by
  constructor
  · rw [finalize_path_spec, finalize_path_spec]
  · intro h
    rw [finalize_headers_spec]
    simp [specHeader, finalize_path_spec, h]

-- non-vacuity / tests (evaluated)
def exRoute (prw m : String) : Route :=
  { kind := .prefix, matched := m, cfg := ⟨prw, "", false, "up.example", "", false⟩,
    levels := ⟨⟨[⟨"x-a", "1", true⟩], ["x-mosn-original-path"]⟩, ⟨[], []⟩, ⟨[], []⟩⟩, regexReplace := id, env := ⟨false, "", ""⟩ }
def exReq : Req := ⟨[("x-mosn-original-path", "/forged"), ("x-a", "0")], some "/api/users", some "client.host"⟩
example : specRewrite (exRoute "/v2" "/api") "/api/users" = some "/v2/users" := by decide
example : exReq.path = some (String.ofList ((exRoute "/v2" "/api").matched.toList ++ "/users".toList)) := by decide
#guard (finalizeRequest (exRoute "/v2" "/api") exReq).path == some "/v2/users"
#guard get (finalizeRequest (exRoute "/v2" "/api") exReq).hdrs "x-mosn-original-path" == some "/api/users"
#guard get (finalizeRequest (exRoute "/v2" "/api") exReq).hdrs "x-a" == some "0,1"
#guard (finalizeRequest (exRoute "/v2" "/api") exReq).host == some "up.example"
-- no rewrite at this hop: the configured removal of the (forged) original-path header is applied
#guard get (finalizeRequest (exRoute "/v2" "/zzz") exReq).hdrs "x-mosn-original-path" == none
-- two hops: the second hop rewrites the path it received and records that one
#guard (finalizeRequest (exRoute "/svc" "/v2") (finalizeRequest (exRoute "/v2" "/api") exReq)).path == some "/svc/users"
#guard get (finalizeRequest (exRoute "/svc" "/v2") (finalizeRequest (exRoute "/v2" "/api") exReq)).hdrs "x-mosn-original-path" == some "/v2/users"
example : rewrites (exRoute "/svc" "/v2") (specPath (exRoute "/v2" "/api") exReq.path) = true := by decide

end Finalize

/-! ## Part 4 — the parsers are built from the configured fields of their own direction (construction wiring) -/
section Wiring
open MosnVerif.Model.HeaderWiring MosnVerif.Gen.HeaderWiring

/-- **wiring_is_diagonal**: in the table regenerated from `NewConfigImpl` / `NewVirtualHostImpl` / `NewRouteRuleImplBase`,
every level's request parser is built from (request_headers_to_add, request_headers_to_remove) and its response parser from
(response_headers_to_add, response_headers_to_remove) of that level's own configuration object; no slot is missing. -/
theorem wiring_is_diagonal (lv : Level) (d : Dir) : lookup parserWiring lv d = some (diagonalRow lv d) :=
  lookup_parserWiring lv d

/-- `getHeaderParser` (regenerated nil rule) only returns the nil parser when neither list is configured -/
theorem nil_parser_only_when_unconfigured (addsNil removesNil : Bool) (h : parserIsNil addsNil removesNil = true) :
    addsNil = true ∧ removesNil = true := parserIsNil_sound _ _ h

/-- **response_headers_spec**: for EVERY three-level configuration (four independent fields per level, nil or not) and every
incoming response header map, after `FinalizeResponseHeaders` of a rule built from that configuration the value of every
header name is the fold of exactly the RESPONSE-direction mutations naming it — route, then virtual host, then router
configuration (the regenerated `responseOrder`); per level the additions in configured order (append joins onto a non-empty
value, otherwise overwrite), then that level's response removals.  No request-direction field occurs on the right. -/
theorem response_headers_spec (c : Config) (h : Hdrs) (k : String) :
    get (finalizeResponseHeaders c h) k = specValue (specOps (dirLevels c .response)) k (get h k) := by
  unfold finalizeResponseHeaders
  rw [finalizeDir_eq, headers_spec_response]

/-- the request direction, built from configuration -/
theorem request_headers_spec (c : Config) (h : Hdrs) (k : String) :
    get (finalizeRequestMutations c h) k = specValue (specOps (dirLevels c .request)) k (get h k) := by
  unfold finalizeRequestMutations
  rw [finalizeDir_eq, headers_spec_request]

/-- two configurations agree on the fields of direction `d` at every level -/
def sameDirection (c c' : Config) : Dir → Prop
  | .request => ∀ lv, (c.at lv).requestHeadersToAdd = (c'.at lv).requestHeadersToAdd ∧
      (c.at lv).requestHeadersToRemove = (c'.at lv).requestHeadersToRemove
  | .response => ∀ lv, (c.at lv).responseHeadersToAdd = (c'.at lv).responseHeadersToAdd ∧
      (c.at lv).responseHeadersToRemove = (c'.at lv).responseHeadersToRemove

/-- **direction_isolation**: whatever is configured for the request direction (at any level) has no effect on responses … -/
theorem direction_isolation (c c' : Config) (hs : sameDirection c c' .response) (h : Hdrs) :
    finalizeResponseHeaders c h = finalizeResponseHeaders c' h := by
  unfold finalizeResponseHeaders
  rw [finalizeDir_eq, finalizeDir_eq]
  have h1 := hs .route; have h2 := hs .vhost; have h3 := hs .router
  simp only [Config.at] at h1 h2 h3
  simp only [dirLevels, h1.1, h1.2, h2.1, h2.2, h3.1, h3.2]

/-- … and vice versa -/
theorem direction_isolation_request (c c' : Config) (hs : sameDirection c c' .request) (h : Hdrs) :
    finalizeRequestMutations c h = finalizeRequestMutations c' h := by
  unfold finalizeRequestMutations
  rw [finalizeDir_eq, finalizeDir_eq]
  have h1 := hs .route; have h2 := hs .vhost; have h3 := hs .router
  simp only [Config.at] at h1 h2 h3
  simp only [dirLevels, h1.1, h1.2, h2.1, h2.2, h3.1, h3.2]

-- non-vacuity: two configurations that differ in every request field and agree on the response direction
def exCfg : Config :=
  { route := { responseHeadersToAdd := some [⟨"server", "mosn", false⟩] },
    vhost := { responseHeadersToRemove := some ["x-internal"], requestHeadersToRemove := some ["server"] },
    router := { responseHeadersToAdd := some [⟨"x-via", "m", true⟩], requestHeadersToAdd := some [⟨"x-internal", "1", true⟩] } }
def exCfg' : Config :=
  { route := { responseHeadersToAdd := some [⟨"server", "mosn", false⟩], requestHeadersToRemove := some ["x-via"] },
    vhost := { responseHeadersToRemove := some ["x-internal"] },
    router := { responseHeadersToAdd := some [⟨"x-via", "m", true⟩] } }
example : sameDirection exCfg exCfg' .response := by intro lv; cases lv <;> exact ⟨rfl, rfl⟩
example : isDiagonal parserWiring = true := by decide
-- tests (evaluated): a virtual host configuring ONLY response removals gets a parser and the removal is applied;
-- its request removal of `server` does not touch the response
#guard get (finalizeResponseHeaders exCfg [("x-internal", "7"), ("server", "up"), ("x-via", "a")]) "x-internal" == none
#guard get (finalizeResponseHeaders exCfg [("x-internal", "7"), ("server", "up"), ("x-via", "a")]) "server" == some "mosn"
#guard get (finalizeResponseHeaders exCfg [("x-internal", "7"), ("server", "up"), ("x-via", "a")]) "x-via" == some "a,m"
#guard get (finalizeRequestMutations exCfg [("x-internal", "7"), ("server", "up")]) "server" == none
#guard get (finalizeRequestMutations exCfg [("x-internal", "7"), ("server", "up")]) "x-internal" == some "7,1"

/-- negation witness: with the crossed table (virtual-host response parser fed the REQUEST removals) the table is not
diagonal, the response spec fails — the configured response removal is not applied, a request removal is applied to the
response — and, for a virtual host that only configures response removals, no parser is built at all -/
example : isDiagonal crossedWiring = false := by decide
example : get (finalizeDir crossedWiring responseOrder exCfg .response [("x-internal", "7"), ("server", "up")]) "x-internal"
    ≠ specValue (specOps (dirLevels exCfg .response)) "x-internal" (some "7") := by decide
example : (builtParser crossedWiring exCfg' .vhost .response).isNone = true := by decide
example : (builtParser parserWiring exCfg' .vhost .response).isSome = true := by decide

end Wiring

/-! ## Part 5 — the retry policy is built from the configuration for EVERY value of `retry_on`, and what the proxy reads of it

`Model/RetryPolicy.lean` over `Gen.RetryPolicyBuild` (construction guard and field expressions of `NewRouteRuleImplBase`, the four
accessors of `retryPolicyImpl` with their nil answers), composed with the regenerated `parseProxyTimeout` (Part 1) and the
attempt machine (Part 2). -/
section PolicyBuild
open MosnVerif.Model.Retry MosnVerif.Model.RetryPolicy MosnVerif.Gen.RetryPolicyBuild

/-- **policy_fields_follow_config**: for every configured `retry_policy` — every `retry_on`, per-try timeout, `num_retries`, status
code list — each configured field is what its accessor answers (`RetryOn()`, `TryTimeout()`, `NumRetries()`,
`RetryableStatusCodes()`); a route without `retry_policy` answers false / 0 / 0 / no codes. In particular `retry_on = false`
does not hide `retry_timeout` and `num_retries` from the proxy. -/
theorem policy_fields_follow_config (cfg : Option RetryCfg) : effectivePolicy cfg = specEffective cfg :=
  effective_eq_spec cfg

/-- the same, field by field, for a configured policy -/
theorem policy_fields_reach_accessors (c : RetryCfg) :
    (effectivePolicy (some c)).retryOn = c.retryOn ∧ (effectivePolicy (some c)).tryTimeout = c.retryTimeout ∧
    (effectivePolicy (some c)).numRetries = (c.numRetries : Int) ∧ (effectivePolicy (some c)).statusCodes = c.statusCodes.map Int.ofNat := by
  rw [policy_fields_follow_config]; exact ⟨rfl, rfl, rfl, rfl⟩

/-- **try_timeout_effective**: the effective timeouts of a request on a route with a configured `retry_policy` are those of
`timeout_precedence` with the CONFIGURED `retry_timeout` in the route's place — for both values of `retry_on`, every header /
variable content and every integer parser. -/
theorem try_timeout_effective (parseInt : String → Option Int) (c : RetryCfg) (rg : Int) (hT hG vT vG : Option String) :
    effectiveTimeouts parseInt (some c) rg hT hG vT vG =
      (specGlobal parseInt 0 true rg hG vG, specTry parseInt 0 0 true rg c.retryTimeout hT hG vT vG) := by
  unfold effectiveTimeouts
  rw [timeout_precedence, (policy_fields_reach_accessors c).2.1]

/-- … and when neither a per-try header nor a per-try variable overrides (absent or not numeric), the per-try timeout of the
request IS the route's `retry_timeout` (disabled only when it is not below the effective global timeout) — whatever `retry_on` -/
theorem try_timeout_effective_route (parseInt : String → Option Int) (c : RetryCfg) (rg : Int) (hT hG vT vG : Option String)
    (h1 : hT.bind parseInt = none) (h2 : vT.bind parseInt = none) :
    (effectiveTimeouts parseInt (some c) rg hT hG vT vG).2 =
      if c.retryTimeout ≥ specGlobal parseInt 0 true rg hG vG then 0 else c.retryTimeout := by
  rw [try_timeout_effective]
  simp [specTry, pickTimeout, h1, h2]

/-- a per-try timer is armed for the attempts of such a request iff the configured `retry_timeout` is positive and below the global
timeout: the silent upstream is cut after `retry_timeout`, not after the global timeout -/
theorem try_timer_armed (parseInt : String → Option Int) (c : RetryCfg) (rg : Int) (hG vG : Option String) (dis : Bool)
    (hpos : 0 < c.retryTimeout) (hlt : c.retryTimeout < specGlobal parseInt 0 true rg hG vG) :
    (routePolicy parseInt (some c) rg none hG none vG dis).tryTimeout = true := by
  unfold routePolicy machinePolicy
  rw [try_timeout_effective_route parseInt c rg none hG none vG rfl rfl]
  have : ¬ c.retryTimeout ≥ specGlobal parseInt 0 true rg hG vG := by omega
  simp [this, hpos]

/-- the machine policy of a configured route: `retry_on`, `num_retries` and the code list are the configured ones -/
theorem route_policy_fields (parseInt : String → Option Int) (c : RetryCfg) (rg : Int) (hT hG vT vG : Option String) (dis : Bool) :
    let p := routePolicy parseInt (some c) rg hT hG vT vG dis
    p.retryOn = c.retryOn ∧ p.numRetries = c.numRetries ∧ p.codes = c.statusCodes ∧ p.disable = dis := by
  simp only [routePolicy, machinePolicy, policy_fields_follow_config, specEffective, toNat_codes]
  simp

/-- all labels are connect failures (stream reset ConnectionFailed or `pool.NewStream` refused with ConnectionFailure) with an
admitting breaker and a healthy next host -/
def ConnectFailures (ls : List Label) : Prop :=
  ∀ l ∈ ls, (l.o = .connFail ∨ l.o = .poolConnFail) ∧ l.canCreate = true ∧ l.host.isSome = true

/-- **connect_failure_budget_exact**: on a route with a configured `retry_policy`, a request whose attempts all end in a connect
failure makes EXACTLY `1 + min k (max 3 num_retries)` upstream attempts for `k` failures — so exactly `1 + max 3 num_retries`
once there are enough failures — REGARDLESS of `retry_on` (retries not disabled for the request), for every timeout source. -/
theorem connect_failure_budget_exact (parseInt : String → Option Int) (c : RetryCfg) (rg : Int) (hT hG vT vG : Option String)
    (h0 : Nat) (ls : List Label) (hcf : ConnectFailures ls) :
    attemptCount (run (routePolicy parseInt (some c) rg hT hG vT vG false) (some h0) ls).trace
      = 1 + min ls.length (max 3 c.numRetries) := by
  have hf := route_policy_fields parseInt c rg hT hG vT vG false
  simp only at hf
  rw [run_retried_count _ h0 ls, hf.2.1]
  intro l hl
  obtain ⟨ho, hcc, hh⟩ := hcf l hl
  refine ⟨?_, hcc, hh, ?_⟩
  · rcases ho with ho | ho <;> simp [ho, retryable, hf.2.2.2]
  · rcases ho with ho | ho <;> simp [ho]

/-- the other retryable causes (a listed status code / any 5xx without a list, connection termination, per-try timeout) use the
same budget ONLY with `retry_on` … -/
theorem other_causes_budget_with_retry_on (p : Policy) (h0 : Nat) (ls : List Label) (hall : AllRetried p ls) :
    attemptCount (run p (some h0) ls).trace = 1 + min ls.length (max 3 p.numRetries) :=
  run_retried_count p h0 ls hall

/-- … and without `retry_on` none of them is retried: exactly one attempt, whatever follows -/
theorem other_causes_not_retried_without_retry_on (p : Policy) (h0 : Nat) (l : Label) (ls : List Label) (hro : p.retryOn = false)
    (ho : (∃ c, l.o = .resp c) ∨ l.o = .termination ∨ l.o = .perTry) (hpt : l.o = .perTry → p.tryTimeout = true) :
    attemptCount (run p (some h0) (l :: ls)).trace = 1 := by
  apply run_not_retried_count p h0 l ls _ hpt
  rcases ho with ⟨c, ho⟩ | ho | ho <;> simp [ho, retryable, hro]

-- non-vacuity and the seeded defect class: retry_on = false with a per-try timeout and num_retries above the floor
def exCfgOff : RetryCfg := { retryOn := false, retryTimeout := 200000000, numRetries := 5, statusCodes := [] }
def exFails (k : Nat) : List Label := (List.range k).map (fun i => failLabel (if i % 2 = 0 then .poolConnFail else .connFail) (i + 1))

example : effectivePolicy (some exCfgOff) = ⟨false, 200000000, 5, []⟩ := by decide
example : (effectiveTimeouts (fun _ => none) (some exCfgOff) 5000000000 none none none none) = (5000000000, 200000000) := by decide
example : ConnectFailures (exFails 8) := by unfold ConnectFailures; decide
example : attemptCount (run (routePolicy (fun _ => none) (some exCfgOff) 5000000000 none none none none false) (some 0) (exFails 8)).trace = 6 := by decide
example : AllRetried { retryOn := true, numRetries := 4, codes := [], tryTimeout := true, disable := false }
    [failLabel (.resp 503) 1, failLabel .perTry 2, failLabel .termination 3] := by unfold AllRetried; decide
/-- negation witness: a construction guarded by `retry_on` (`if retry_policy != nil && retry_policy.retry_on`) hides the per-try
timeout and the configured budget of such a route: accessors of the nil policy -/
def guardedBuild (cfg : Option RetryCfg) : Option Built :=
  match cfg with
  | some c => if c.retryOn then build (some c) else none
  | none => none
example : accessors (guardedBuild (some exCfgOff)) = ⟨false, 0, 0, []⟩ := by decide
example : accessors (guardedBuild (some exCfgOff)) ≠ specEffective (some exCfgOff) := by decide
example : (parseProxyTimeout (fun _ => none) 0 0 true 5000000000 (accessors (guardedBuild (some exCfgOff))).tryTimeout none none none none).2 = 0 := by decide
example : attemptCount (run (machinePolicy (accessors (guardedBuild (some exCfgOff))) 0 false) (some 0) (exFails 8)).trace = 4 := by decide

end PolicyBuild

/-! ## Part 6 [c17h10] — header mutations over the REAL protocol header maps

`Model/HeaderMaps.lean`: the interface `HMap` (get / set / add / del + range, names identified through `norm`) with the
instances `common` (protocol.CommonHeader), `fh kind` (HTTP/1: fasthttp request / response header behind MOSN's wrapper),
`h2` (HTTP/2: net/http.Header), `bolt` (xprotocol key-value list with its `Changed` flag); `evaluateHeaders` regenerated
statement by statement (`Gen.HeaderEval`: which of Get / Set / Del is called with which name and value under which
condition), the wiring table and the level order regenerated as before. -/
section HeaderMapsPart
open MosnVerif.Model.HeaderMaps MosnVerif.Model.HeaderWiring MosnVerif.Gen.HeaderWiring

/-- **mutation_spec_generic**: for EVERY header map that satisfies `HeaderMapLaws` (for an observation `obs` of it: what
`Get` answers, or the first value the printed header shows), every three-level mutation configuration whose names the laws
cover, every well-formed initial map and every header name: after `Finalize{Request,Response}Headers` the observation of
that header is — up to blank (absent = present-but-empty) — the fold, in the order route → virtual host → router
configuration, additions then removals within a level, of exactly the mutations whose name the map identifies with it, by
the documented rule (`stepVal`: append joins with "," onto a non-empty value, otherwise overwrite; removal deletes).
`headers_spec_request/response` are the instance `common` (exact, see `mutation_spec_generic_strict`). -/
theorem mutation_spec_generic {M : Type} (I : HMap M) (Inv : M → Prop) (ok : String → Prop) (obs : M → String → Option String)
    (L : HeaderMapLaws I Inv ok obs) (l : Levels) (m : M) (hm : Inv m) (hok : ∀ o ∈ specOps l, ok o.key) (k : String) :
    BlankEq (obs (Model.HeaderMaps.finalize I requestOrder l m) k) (specValueN I.norm (specOps l) k (obs m k)) ∧
    BlankEq (obs (Model.HeaderMaps.finalize I responseOrder l m) k) (specValueN I.norm (specOps l) k (obs m k)) := by
  have h1 : requestOrder = [.route, .vhost, .router] := by decide
  have h2 : responseOrder = [.route, .vhost, .router] := by decide
  rw [h1, h2, Model.HeaderMaps.finalize_eq_ops]
  exact ⟨obs_foldl_ops L _ m k hm hok, obs_foldl_ops L _ m k hm hok⟩

/-- **mutation_spec_generic_strict**: under the exact laws (reading back gives exactly the value set, nothing after a
removal) the observation after the mutations EQUALS the reference -/
theorem mutation_spec_generic_strict {M : Type} (I : HMap M) (Inv : M → Prop) (ok : String → Prop) (obs : M → String → Option String)
    (L : HeaderMapLawsStrict I Inv ok obs) (l : Levels) (m : M) (hm : Inv m) (hok : ∀ o ∈ specOps l, ok o.key) (k : String) :
    obs (Model.HeaderMaps.finalize I requestOrder l m) k = specValueN I.norm (specOps l) k (obs m k) ∧
    obs (Model.HeaderMaps.finalize I responseOrder l m) k = specValueN I.norm (specOps l) k (obs m k) := by
  have h1 : requestOrder = [.route, .vhost, .router] := by decide
  have h2 : responseOrder = [.route, .vhost, .router] := by decide
  rw [h1, h2, Model.HeaderMaps.finalize_eq_ops]
  exact ⟨obs_foldl_ops_strict L _ m k hm hok, obs_foldl_ops_strict L _ m k hm hok⟩

/-- **mutation_spec_from_config**: the same for a rule built by `router.NewRouters` FROM CONFIGURATION (regenerated wiring
table, nil-parser rule and level order) on any lawful protocol map: only that direction's fields count -/
theorem mutation_spec_from_config {M : Type} (I : HMap M) (Inv : M → Prop) (ok : String → Prop) (obs : M → String → Option String)
    (L : HeaderMapLaws I Inv ok obs) (c : Config) (d : Dir) (m : M) (hm : Inv m)
    (hok : ∀ o ∈ specOps (dirLevels c d), ok o.key) (k : String) :
    BlankEq (obs (finalizeBuilt I c d m) k) (specValueN I.norm (specOps (dirLevels c d)) k (obs m k)) := by
  rw [finalizeBuilt_eq, orderOf_eq, Model.HeaderMaps.finalize_eq_ops]
  exact obs_foldl_ops L _ m k hm hok

/-- untouched_preserved, generic: a header no configured mutation names (in the map's normal form) keeps its observation -/
theorem untouched_preserved_generic {M : Type} (I : HMap M) (Inv : M → Prop) (ok : String → Prop) (obs : M → String → Option String)
    (L : HeaderMapLaws I Inv ok obs) (l : Levels) (m : M) (hm : Inv m) (hok : ∀ o ∈ specOps l, ok o.key) (k : String)
    (hk : ∀ o ∈ specOps l, I.norm o.key ≠ I.norm k) :
    BlankEq (obs (Model.HeaderMaps.finalize I requestOrder l m) k) (obs m k) := by
  have h := (mutation_spec_generic I Inv ok obs L l m hm hok k).1
  have : (specOps l).filter (fun o => I.norm o.key == I.norm k) = [] := by
    rw [List.filter_eq_nil_iff]; intro o ho; simpa using hk o ho
  unfold specValueN at h
  rw [this] at h
  exact h

/-- removed_absent, generic: if the last mutation naming `k` is a removal, the header is absent (or, on a map that cannot
tell, empty) -/
theorem removed_absent_generic {M : Type} (I : HMap M) (Inv : M → Prop) (ok : String → Prop) (obs : M → String → Option String)
    (L : HeaderMapLaws I Inv ok obs) (l : Levels) (m : M) (hm : Inv m) (hok : ∀ o ∈ specOps l, ok o.key) (k r : String)
    (pre post : List Op) (hr : I.norm r = I.norm k)
    (hs : specOps l = pre ++ [.remove r] ++ post) (hpost : ∀ o ∈ post, I.norm o.key ≠ I.norm k) :
    isBlank (obs (Model.HeaderMaps.finalize I requestOrder l m) k) = true := by
  have h := (mutation_spec_generic I Inv ok obs L l m hm hok k).1
  have hp : post.filter (fun o => I.norm o.key == I.norm k) = [] := by
    rw [List.filter_eq_nil_iff]; intro o ho; simpa using hpost o ho
  unfold specValueN at h
  rw [hs, List.filter_append, List.filter_append, hp, List.append_nil, List.foldl_append] at h
  simp only [List.filter_cons, Op.key, hr, beq_self_eq_true, if_true, List.filter_nil, List.foldl_cons, List.foldl_nil, stepVal] at h
  rcases h with h | ⟨h, _⟩
  · rw [h]; rfl
  · exact h

/-- overwrite_last, generic: if the last mutation naming `k` is an addition with append=false, the header has exactly the
configured value (when that value is not empty; an empty one may show as absent) -/
theorem overwrite_last_generic {M : Type} (I : HMap M) (Inv : M → Prop) (ok : String → Prop) (obs : M → String → Option String)
    (L : HeaderMapLaws I Inv ok obs) (l : Levels) (m : M) (hm : Inv m) (hok : ∀ o ∈ specOps l, ok o.key) (a : Add)
    (pre post : List Op) (ha : a.append = false) (hv : a.value ≠ "")
    (hs : specOps l = pre ++ [.add a] ++ post) (hpost : ∀ o ∈ post, I.norm o.key ≠ I.norm a.name) :
    obs (Model.HeaderMaps.finalize I requestOrder l m) a.name = some a.value := by
  have h := (mutation_spec_generic I Inv ok obs L l m hm hok a.name).1
  have hp : post.filter (fun o => I.norm o.key == I.norm a.name) = [] := by
    rw [List.filter_eq_nil_iff]; intro o ho; simpa using hpost o ho
  unfold specValueN at h
  rw [hs, List.filter_append, List.filter_append, hp, List.append_nil, List.foldl_append] at h
  have hx : ∀ v, stepVal v (.add a) = some a.value := by intro v; cases v <;> simp [stepVal, ha]
  simp only [List.filter_cons, Op.key, beq_self_eq_true, if_true, List.filter_nil, List.foldl_cons, List.foldl_nil, hx] at h
  exact h.eq_of_nonblank (isBlank_some_ne hv)

/-! ### the instances satisfy the laws -/

/-- protocol.CommonHeader: exact laws, every name, every map, observation = `Get` -/
theorem common_header_laws : HeaderMapLawsStrict common (fun _ => True) (fun _ => True) Model.Headers.get := common_laws

/-- HTTP/2 (net/http.Header): exact laws for the first value held under a name (every name, every map, repeated values
included); `Get` agrees with it up to blank -/
theorem http2_header_laws : HeaderMapLawsStrict h2 (fun _ => True) (fun _ => True) h2First := h2_laws

/-- bolt: exact laws, every name, on frames without a repeated key (kept by `Set` and `Del`); observation = `Get` -/
theorem bolt_header_laws : HeaderMapLawsStrict bolt boltNoDup (fun _ => True) boltGet := bolt_laws

/-- HTTP/1 (fasthttp request and response header): the laws for every PLAIN name — every name but the cookie header
(`Set` adds), the names fasthttp swallows (Transfer-Encoding, Date) and the unmodelled framing names (Content-Length,
Connection, Trailer) —, mixed-case spellings and dedicated fields (Host / Content-Type / User-Agent resp. Content-Type /
Content-Encoding / Server) included; the one inexact law: a dedicated field SET TO THE EMPTY VALUE is not printed -/
theorem fasthttp_header_laws (kind : FhKind) :
    HeaderMapLaws (fh kind) (fhInv kind) (fun k => fhPlain kind k = true) (fhObs kind) := fh_laws kind

/-- the fasthttp observation is what the printed header (VisitAll, and the re-parsed wire text) shows first under the name -/
theorem fasthttp_obs_is_printed (kind : FhKind) (m : Fh) (k : String) (hi : fhInv kind m) (h : fhPlain kind k = true) :
    look (fh kind) m k = fhObs kind m k := fh_look_eq_obs kind m k hi h

/-- **fasthttp_mutation_spec**: HTTP/1, rule built from configuration: the first line the printed header shows under any
plain name after the hop = the reference over the mutations of that direction whose (case-insensitively, `Foo-Bar`
normalised) name it is -/
theorem fasthttp_mutation_spec (kind : FhKind) (c : Config) (d : Dir) (m : Fh) (hm : fhInv kind m)
    (hok : ∀ o ∈ specOps (dirLevels c d), fhPlain kind o.key = true) (k : String) (hk : fhPlain kind k = true) :
    BlankEq (look (fh kind) (finalizeBuilt (fh kind) c d m) k) (specValueN fhNorm (specOps (dirLevels c d)) k (look (fh kind) m k)) := by
  have hinv : fhInv kind (finalizeBuilt (fh kind) c d m) := by
    rw [finalizeBuilt_eq, orderOf_eq, Model.HeaderMaps.finalize_eq_ops]
    generalize specOps (dirLevels c d) = ops at hok
    induction ops generalizing m with
    | nil => exact hm
    | cons o r ih =>
      exact ih _ (inv_applyOp (fh_laws kind) m o hm (hok o (List.mem_cons_self ..))) (fun o' ho' => hok o' (List.mem_cons_of_mem _ ho'))
  rw [fh_look_eq_obs kind _ k hinv hk, fh_look_eq_obs kind m k hm hk]
  exact mutation_spec_from_config (fh kind) _ _ _ (fh_laws kind) c d m hm hok k

/-- HTTP/2 and bolt, rule built from configuration: exact -/
theorem http2_mutation_spec (c : Config) (d : Dir) (m : H2) (k : String) :
    h2First (finalizeBuilt h2 c d m) k = specValueN h2Norm (specOps (dirLevels c d)) k (h2First m k) := by
  rw [finalizeBuilt_eq, orderOf_eq, Model.HeaderMaps.finalize_eq_ops]
  exact obs_foldl_ops_strict h2_laws _ m k trivial (fun _ _ => trivial)

theorem bolt_mutation_spec (c : Config) (d : Dir) (m : Bolt) (hm : boltNoDup m) (k : String) :
    boltGet (finalizeBuilt bolt c d m) k = specValueN id (specOps (dirLevels c d)) k (boltGet m k) := by
  rw [finalizeBuilt_eq, orderOf_eq, Model.HeaderMaps.finalize_eq_ops]
  exact obs_foldl_ops_strict bolt_laws _ m k hm (fun _ _ => trivial)

/-! ### repeated values, cookies, the bolt `Changed` flag: exact statements and the stated exceptions -/

/-- overwrite on fasthttp leaves ONE line with the configured value however many lines of the name arrived (since fix
4b5fb7c1c; `Set` alone replaces only the first: witness below) -/
theorem fasthttp_overwrite_one_line (kind : FhKind) (m : Fh) (a : Add) (ha : a.append = false)
    (h : fhPlain kind a.name = true) (hs : kind.singles.contains (fhNorm a.name) = false) :
    fhLines (applyAdd (fh kind) m a) (fhNorm a.name) = [a.value] := fh_overwrite_one_line kind m a ha h hs

/-- overwrite on net/http.Header leaves exactly the configured value, whatever list was there -/
theorem http2_overwrite_one_value (m : H2) (a : Add) (ha : a.append = false) :
    vals h2 (applyAdd h2 m a) a.name = [a.value] := h2_overwrite_one_value m a ha

/-- overwrite of the request cookies leaves exactly the configured cookies -/
theorem fasthttp_cookie_overwrite (m : Fh) (v : String) (hv : v ≠ "") :
    (applyAdd (fh .request) m ⟨"cookie", v, false⟩).cookies = parseCookies v ∧
    (applyAdd (fh .request) m ⟨"cookie", v, false⟩).h.filter (fun e => e.1 == "Cookie") = [] := fh_cookie_overwrite m v hv

/-- an addition always marks the bolt frame changed (the encoder then re-serialises the header block instead of re-sending
the raw bytes: the mutation reaches the wire); a removal marks it when it removed something -/
theorem bolt_addition_marks_changed (m : Bolt) (a : Add) : (applyAdd bolt m a).changed = true := by
  simp only [Model.HeaderMaps.applyAdd, addStep_eq, HMap.ops, bolt]
  cases boltGet m a.name <;> simp only <;> (repeat' split) <;> rfl

theorem bolt_removal_marks_changed (m : Bolt) (k : String) (h : m.kvs.any (·.1 == k) = true) :
    (applyRemove bolt m k).changed = true := by
  simp [applyRemove, removeStep_eq, HMap.ops, bolt, boltDel, h]

-- non-vacuity: maps meeting the invariants, configurations meeting `hok`
example : fhInv .request (fhDecode .request [("X-A", "1"), ("x-a", "2"), ("Host", "h"), ("Cookie", "a=1")]) := by
  constructor
  · decide
  · intro h; cases h
example : fhPlain .request "fOo-bAr" = true ∧ fhPlain .request "host" = true ∧ fhPlain .request "cookie" = false := by decide
example : boltNoDup ⟨[("service", "s"), ("Service", "S")], false⟩ := by unfold boltNoDup; decide
-- tests (evaluated): mixed-case removal, dedicated field, repeated line, per instance
example : fhRange .request (applyRemove (fh .request) (fhDecode .request [("fOo-bAr", "1"), ("FOO-BAR", "2"), ("x-b", "3")]) "foo-bar") = [("X-B", "3")] := by decide
example : fhRange .request (applyAdd (fh .request) (fhDecode .request [("Host", "h1")]) ⟨"host", "h2", false⟩) = [("Host", "h2")] := by decide
example : fhRange .request (applyAdd (fh .request) (fhDecode .request [("Host", "h1")]) ⟨"host", "", false⟩) = [] := by decide
example : fhRange .request (applyAdd (fh .request) (fhDecode .request [("X-A", "1"), ("x-a", "2")]) ⟨"x-a", "n", true⟩) = [("X-A", "1,n"), ("X-A", "2")] := by decide
example : fhRange .request (applyAdd (fh .request) (fhDecode .request [("X-A", "1"), ("x-a", "2")]) ⟨"x-a", "n", false⟩) = [("X-A", "n")] := by decide
/-- why the overwrite deletes first: `Set` alone replaces only the first of two lines / adds to the cookies -/
example : fhRange .request (fhSet .request (fhDecode .request [("X-A", "1"), ("x-a", "2")]) "x-a" "n") = [("X-A", "n"), ("X-A", "2")] := by decide
example : fhRange .request (fhSet .request (fhDecode .request [("Cookie", "a=1")]) "cookie" "c=3") = [("Cookie", "a=1; c=3")] := by decide
/-- stated exceptions (KNOWN_FINDINGS, classes x-h2-multi-append / x-bolt-dup-del / x-h1-cookie-append): machine-checked witnesses
that the multi-valued reference `stepVals` is NOT met there -/
example : h2Range (applyAdd h2 [("X-A", ["1", "2"])] ⟨"x-a", "n", true⟩) = [("X-A", "1,n")] ∧
    stepVals ["1", "2"] (.add ⟨"x-a", "n", true⟩) = ["1,n", "2"] := by decide
example : (applyRemove bolt ⟨[("k", "1"), ("k", "2")], false⟩ "k").kvs = [("k", "2")] ∧ stepVals ["1", "2"] (.remove "k") = [] := by decide
example : (applyAdd bolt ⟨[("k", "1"), ("k", "2"), ("k", "3")], false⟩ ⟨"k", "n", false⟩).kvs = [("k", "n"), ("k", "3")] := by decide
example : fhRange .request (applyAdd (fh .request) (fhDecode .request [("Cookie", "a=1")]) ⟨"cookie", "c=3", true⟩) = [("Cookie", "a=1; a=1,c=3")] := by decide
/-- a response header that still invents a Content-Type (before fix 29096f6e6): the append lands on a value never sent -/
example : fhGet .response { (fhDecode .response [("x-a", "1")]) with noDefaultCT := false } "content-type" = some "text/plain; charset=utf-8" ∧
    fhGet .response (fhDecode .response [("x-a", "1")]) "content-type" = none := by decide

end HeaderMapsPart

/-! ### [c17h10] auto_host_rewrite on a STRICT_DNS cluster (third host-rewrite branch; driven through the proxy core by kind `ah`) -/
section AutoHost
open MosnVerif.Model.RouteFinalize MosnVerif.Gen.RouteFinalize

/-- **auto_host_rewrite_strict_dns**: with neither `host_rewrite` nor `auto_host_rewrite_header` configured,
`auto_host_rewrite` on a route whose cluster (snapshot of the cluster manager) is of type STRICT_DNS sets the host variable
to the hostname of the upstream host selected for the request — whatever host the request arrived with, for every header
mutation configuration -/
theorem auto_host_rewrite_strict_dns (r : Route) (s : Req) (h1 : r.cfg.hostRewrite = "") (h2 : r.cfg.autoHostRewriteHeader = "")
    (h3 : r.cfg.autoHostRewrite = true) (h4 : r.env.hasSnapshot = true) (h5 : r.env.clusterType = strictDNSCluster) :
    (finalizeRequest r s).host = some r.env.upstreamHostname := by
  rw [finalize_host_spec]; simp [specHost, h1, h2, h3, h4, h5]

/-- … and leaves it alone on a cluster of any other type, on a route whose cluster has no snapshot, or when switched off -/
theorem auto_host_rewrite_only_strict_dns (r : Route) (s : Req) (h1 : r.cfg.hostRewrite = "") (h2 : r.cfg.autoHostRewriteHeader = "")
    (h : r.cfg.autoHostRewrite = false ∨ r.env.hasSnapshot = false ∨ r.env.clusterType ≠ strictDNSCluster) :
    (finalizeRequest r s).host = s.host := by
  rw [finalize_host_spec]
  rcases h with h | h | h <;> simp [specHost, h1, h2, h]

def exAutoRoute (hostname : String) : Route :=
  { kind := .prefix, matched := "/", cfg := ⟨"", "", false, "", "", true⟩, levels := ⟨⟨[], []⟩, ⟨[], []⟩, ⟨[], []⟩⟩,
    regexReplace := id, env := ⟨true, "STRICT_DNS", hostname⟩ }
example : (finalizeRequest (exAutoRoute "h0.up.example") ⟨[], some "/a", some "orig.example"⟩).host = some "h0.up.example" := by decide
/-- **auto_host_rewrite_per_attempt_partial** — full statement: EVERY upstream attempt carries the hostname of ITS OWN
selected host. What holds: the first attempt does (theorem above); `doRetry` selects a new host and re-sends what the one
`FinalizeRequestHeaders` call left, so a retried attempt on host h1 carries h0's name (finding, kind `ah` retry cases).
Machine-checked negation witness: the value left for host h0 is not the reference for host h1. -/
theorem auto_host_rewrite_per_attempt_partial (r : Route) (s : Req) :
    (finalizeRequest r s).host = specHost r s := finalize_host_spec r s
example : (finalizeRequest (exAutoRoute "h0.up.example") ⟨[], some "/a", none⟩).host ≠
    specHost (exAutoRoute "h1.up.example") ⟨[], some "/a", none⟩ := by decide

end AutoHost

/-! ## Part 7 [c17pt] — the per-try timeout is armed for EVERY attempt, the last one the budget allows included

`Gen.PerTryArm` (regenerated from pkg/proxy/downstream.go): `armCond` = the full condition under which
`setupPerReqTimeout` creates the timer (early returns negated, enclosing conditions conjoined), its call sites
(`onUpstreamRequestSent` for the first attempt, `doRetry` for every retried one), the tests of the timer callback and what
`onPerReqTimeout` / `onResponseTimeout` hand on. `Model/PerTryArm.lean` evaluates it for every attempt the attempt machine of
Part 2 creates, on the state `setupPerReqTimeout` sees at that moment (budget left AFTER the retry decision, retry_on, …). -/
section PerTryTimer
open MosnVerif.Model.PerTryArm MosnVerif.Gen.PerTryArm MosnVerif.Model.Retry MosnVerif.Gen.RetryState

/-- **per_try_arm_condition_exact**: the regenerated condition under which the per-try timer is created is exactly
`TryTimeout > 0` — whatever the retry state, the budget left, retry_on, num_retries, the attempt … (a guard on any of them
makes the regenerated expression differ and this proof fail) -/
theorem per_try_arm_condition_exact (a : ArmState) : armCond a = decide (a.tryTimeout > 0) := armCond_exact a

/-- both call sites arm: the first complete send of a two-way request, and `doRetry` on either of its routes (global timer
already armed / not yet), after the request of the new attempt was handed to the upstream stream, with the request's per-try
timeout as duration -/
theorem per_try_arm_call_sites :
    requestSentArms true false = true ∧ (∀ g, doRetryCall g ≠ .none) ∧ doRetryArmsAfterSend = true ∧ armDurationIsTryTimeout = true :=
  ⟨requestSentArms_two_way, doRetryCall_arms, by decide, by decide⟩

/-- what the timer callback tests before it acts (stream cleaned, generation changed, response slot lost), then `onPerReqTimeout` -/
theorem per_try_callback_guards :
    callbackGuards = ["cleaned", "idChanged", "casLost"] ∧ callbackAction = "s.onPerReqTimeout" ∧
    perTryActsWhen = "!s.downstreamResponseStarted" ∧ perTryResetsUpstream = true := by decide

/-- **per_try_timer_armed_every_attempt**: for EVERY retry policy (retry_on, num_retries, codes, disable), every first host
selection, EVERY history of outcomes and oracle answers and either state of the global timer at each retry: with an
effective per-try timeout > 0, every attempt the machine creates — one log entry per `pool.NewStream`, at most
1 + max 3 num_retries of them — has its per-try timer armed; in particular the LAST attempt the budget allows (created
with `retiesRemaining = 0`). -/
theorem per_try_timer_armed_every_attempt (p : Policy) (tryT : Int) (g : Nat → Bool) (host0 : Option Nat) (ls : List Label)
    (h : tryT > 0) :
    (armLog p tryT g host0 ls).length = attemptCount (run p host0 ls).trace ∧
    (∀ b ∈ armLog p tryT g host0 ls, b = true) ∧
    (armLog p tryT g host0 ls).length ≤ 1 + max 3 p.numRetries := by
  have hinv := armLog_inv p tryT g h ls
    (start p host0, if (start p host0).attempts = 1 then [firstArmed armCond (armState p tryT (start p host0))] else [])
    (by rcases start_attempts p host0 with h0 | h0 <;> simp [h0])
    (by
      intro b hb
      split at hb
      · simp only [List.mem_singleton] at hb; rw [hb]; exact firstArmed_pos p tryT _ h
      · simp at hb)
  simp only at hinv
  obtain ⟨h1, h2, h3⟩ := hinv
  have hlen : (armLog p tryT g host0 ls).length = attemptCount (run p host0 ls).trace := by
    unfold armLog armLogWith
    simp only
    rw [h1, h3, (run_good p host0 ls).count]
    rfl
  refine ⟨hlen, h2, ?_⟩
  rw [hlen]
  exact attempts_bounded p host0 ls

/-- **silent_attempt_bounded_by_try_timeout**: a SILENT attempt number k (no upstream event) whose request was sent at
`sent` ends at `sent + TryTimeout`, by the per-try timer, whenever that is before the global deadline — for EVERY attempt
k of every run, the last one included -/
theorem silent_attempt_bounded_by_try_timeout (p : Policy) (tryT : Int) (g : Nat → Bool) (host0 : Option Nat) (ls : List Label)
    (h : tryT > 0) (k : Nat) (hk : k < (armLog p tryT g host0 ls).length) (sent deadline : Int) (hd : sent + tryT < deadline) :
    silentEnd ((armLog p tryT g host0 ls)[k]) sent tryT deadline = (sent + tryT, .perTry) := by
  have hb := (per_try_timer_armed_every_attempt p tryT g host0 ls h).2.1 _ (List.getElem_mem hk)
  simp [silentEnd, hb, hd]

/-- tie with `try_below_global`: with the effective timeouts the regenerated `parseProxyTimeout` computes, a silent attempt
sent when the global timer starts (the first one) ALWAYS ends by its per-try timer: an enabled per-try timeout is below the
global one -/
theorem silent_attempt_within_effective_timeouts (parseInt : String → Option Int) (g0 t0 : Int) (hasRoute : Bool) (rg rt : Int)
    (hT hG vT vG : Option String) (sent : Int)
    (hpos : (parseProxyTimeout parseInt g0 t0 hasRoute rg rt hT hG vT vG).2 > 0) :
    silentEnd true sent (parseProxyTimeout parseInt g0 t0 hasRoute rg rt hT hG vT vG).2
        (sent + (parseProxyTimeout parseInt g0 t0 hasRoute rg rt hT hG vT vG).1) =
      (sent + (parseProxyTimeout parseInt g0 t0 hasRoute rg rt hT hG vT vG).2, .perTry) := by
  have hb := try_below_global parseInt g0 t0 hasRoute rg rt hT hG vT vG
  simp only at hb
  have : sent + (parseProxyTimeout parseInt g0 t0 hasRoute rg rt hT hG vT vG).2 <
      sent + (parseProxyTimeout parseInt g0 t0 hasRoute rg rt hT hG vT vG).1 := by
    rcases hb with hb | hb <;> omega
  simp [silentEnd, this]

/-- **last_attempt_reply_is_per_try**: the per-try timer firing on an attempt with no retry left (budget exhausted) is
answered at once with the timeout status 504, for the reset reason `UpstreamPerTryTimeout` that `onPerReqTimeout` hands on
(response flag UpstreamRequestTimeout) — not the global timer's `UpstreamGlobalTimeout` -/
theorem last_attempt_reply_is_per_try (p : Policy) (s : St) (c : Bool) (hst : Option Nat)
    (hl : s.live = true) (ht : p.tryTimeout = true) (hr : s.remaining = 0) (hloops : s.loops ≠ 0) :
    (step p s ⟨.perTry, c, hst⟩).trace = s.trace ++ [.outcome .perTry, .reply timeoutExceptionCode] ∧
    reasonOf .perTry = perTryReason ∧ perTryReason ≠ globalReason ∧ perTryFlag = "UpstreamRequestTimeout" := by
  refine ⟨?_, by decide, by decide, by decide⟩
  have hcode : convertReasonToCode upstreamPerTryTimeout = timeoutExceptionCode := by decide
  have hsr : ∀ chk cc, shouldRetry 0 chk cc = (rcNoRetry, 0) := by intro chk cc; simp [shouldRetry]
  have hno : resetRetryCond (retry rcNoRetry) = false := by decide
  unfold step
  simp only [hl, ht, Bool.true_eq_false, and_false, if_false]
  unfold stepReset
  simp only [reasonOf]
  by_cases hg : resetGuard upstreamPerTryTimeout s.started s.hasRS = true
  · simp only [hg, if_true, retryCall, hr, hsr, hno, Bool.false_eq_true, if_false]
    unfold hijack
    simp [hloops, hcode, List.append_assoc]
  · simp only [hg, if_false]
    unfold hijack
    simp [hloops, hcode, List.append_assoc]

-- non-vacuity / tests: floor budget 3 (num_retries 0), three refused connects, then the LAST attempt
def exPtPolicy : Policy := { retryOn := false, numRetries := 0, codes := [], tryTimeout := true, disable := false }
def exPtFails : List Label := [⟨.poolConnFail, true, some 1⟩, ⟨.connFail, true, some 0⟩, ⟨.poolConnFail, true, some 1⟩]
example : armLog exPtPolicy 60000000 (fun _ => true) (some 0) exPtFails = [true, true, true, true] := by decide
example : (run exPtPolicy (some 0) exPtFails).remaining = 0 ∧ (run exPtPolicy (some 0) exPtFails).live = true := by decide
example : silentEnd true 45 60 1200 = (105, .perTry) := by decide
/-- negation witness for the budget-guarded variant (`if retryState != nil && retiesRemaining == 0 { return }`): the LAST
attempt gets no timer and a silent upstream holds it until the global deadline -/
example : (armLogWith armCondBudgetGuarded exPtPolicy 60000000 (fun _ => true) (some 0) exPtFails).2 = [true, true, true, false] := by decide
example : silentEnd false 45 60 1200 = (1200, .global) := by decide
example : ∃ a : ArmState, a.tryTimeout > 0 ∧ armCondBudgetGuarded a ≠ decide (a.tryTimeout > 0) :=
  ⟨{ tryTimeout := 1, hasRetryState := true, retiesRemaining := 0 }, by decide⟩

end PerTryTimer

end MosnVerif.Props.C17
