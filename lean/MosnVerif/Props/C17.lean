import MosnVerif.Lemmas.Headers
/-!
# C17 — route actions, timeouts and the retry policy are applied exactly as configured (property theorems only)

Part 1 (this file, built first): header mutations at the three levels, and the effective timeout.
The retry-budget / attempts part lives on the downstream machine (added by the proxy-core slice).
-/
namespace MosnVerif.Props.C17
open MosnVerif.Model.Headers MosnVerif.Gen.HeaderMutation MosnVerif.Gen.ProxyTimeout

/-- **headers_spec (request side)**: for every three-level mutation configuration, every initial header map and every
header name, the final value of that header is the fold — in the order route → virtual host → router config, within a
level all additions in configuration order then all removals — of exactly the mutations naming it, by the documented
rule (append joins with "," onto an existing non-empty value, otherwise overwrite; removal deletes).  In particular
headers are independent of one another, and the level order is the regenerated `requestOrder`. -/
theorem headers_spec_request (l : Levels) (h : Hdrs) (k : String) :
    get (finalize requestOrder l h) k = specValue (specOps l) k (get h k) := by
  have : requestOrder = [.route, .vhost, .router] := by decide
  rw [this, finalize_eq_ops, get_foldl_ops]

/-- **headers_spec (response side)** -/
theorem headers_spec_response (l : Levels) (h : Hdrs) (k : String) :
    get (finalize responseOrder l h) k = specValue (specOps l) k (get h k) := by
  have : responseOrder = [.route, .vhost, .router] := by decide
  rw [this, finalize_eq_ops, get_foldl_ops]

/-- a header that no configured mutation names is passed through untouched -/
theorem untouched_preserved (l : Levels) (h : Hdrs) (k : String)
    (hk : ∀ o ∈ specOps l, o.key ≠ k) : get (finalize requestOrder l h) k = get h k := by
  rw [headers_spec_request]
  unfold specValue
  have : (specOps l).filter (fun o => o.key == k) = [] := by
    rw [List.filter_eq_nil_iff]; intro o ho; simpa using hk o ho
  rw [this]; rfl

/-- if the last mutation naming `k` (in level order) is a removal, the header is absent -/
theorem removed_absent (l : Levels) (h : Hdrs) (k : String) (pre post : List Op)
    (hs : specOps l = pre ++ [.remove k] ++ post) (hpost : ∀ o ∈ post, o.key ≠ k) :
    get (finalize requestOrder l h) k = none := by
  rw [headers_spec_request, hs]
  unfold specValue
  have : post.filter (fun o => o.key == k) = [] := by
    rw [List.filter_eq_nil_iff]; intro o ho; simpa using hpost o ho
  rw [List.filter_append, List.filter_append, this, List.append_nil, List.foldl_append]
  simp [List.filter_cons, Op.key, stepVal]

/-- if the last mutation naming `k` is an addition with append=false, the header has exactly the configured value -/
theorem overwrite_last (l : Levels) (h : Hdrs) (a : Add) (pre post : List Op) (ha : a.append = false)
    (hs : specOps l = pre ++ [.add a] ++ post) (hpost : ∀ o ∈ post, o.key ≠ a.name) :
    get (finalize requestOrder l h) a.name = some a.value := by
  rw [headers_spec_request, hs]
  unfold specValue
  have : post.filter (fun o => o.key == a.name) = [] := by
    rw [List.filter_eq_nil_iff]; intro o ho; simpa using hpost o ho
  rw [List.filter_append, List.filter_append, this, List.append_nil, List.foldl_append]
  generalize List.foldl stepVal (get h a.name) (List.filter (fun o => o.key == a.name) pre) = v
  cases v <;> simp [List.filter_cons, Op.key, stepVal, ha]

/-- an addition with append=true onto an existing non-empty value joins with a comma -/
theorem append_joins (v : String) (a : Add) (hv : v.length > 0) (ha : a.append = true) :
    stepVal (some v) (.add a) = some (v ++ "," ++ a.value) := by
  simp [stepVal, hv, ha]

/-- **timeout_precedence**: for every route, every header/variable content and every integer parser, the effective
timeouts computed by the regenerated `parseProxyTimeout` are: protocol-supplied variable if present and numeric, else the
request's timeout header if present and numeric, else the route's, else what was there; a zero global timeout becomes the
default; and a per-try timeout ≥ the global timeout is disabled (0). -/
theorem timeout_precedence (parseInt : String → Option Int) (g0 t0 : Int) (hasRoute : Bool) (rg rt : Int)
    (hT hG vT vG : Option String) :
    parseProxyTimeout parseInt g0 t0 hasRoute rg rt hT hG vT vG =
      (specGlobal parseInt g0 hasRoute rg hG vG, specTry parseInt g0 t0 hasRoute rg rt hT hG vT vG) := by
  rw [ppt_eq]
  unfold ppt' specTry specGlobal pickTimeout
  simp only [upd_eq]
  generalize hT.bind parseInt = a
  generalize hG.bind parseInt = b
  generalize vT.bind parseInt = c
  generalize vG.bind parseInt = d
  cases hasRoute <;> cases a <;> cases b <;> cases c <;> cases d <;> simp

/-- the per-try timeout that comes out is always strictly below the global one or disabled -/
theorem try_below_global (parseInt : String → Option Int) (g0 t0 : Int) (hasRoute : Bool) (rg rt : Int)
    (hT hG vT vG : Option String) :
    let r := parseProxyTimeout parseInt g0 t0 hasRoute rg rt hT hG vT vG
    r.2 = 0 ∨ r.2 < r.1 := by
  rw [timeout_precedence]
  simp only [specTry]
  split <;> omega

-- non-vacuity: a concrete three-level configuration meeting the hypotheses of `removed_absent` / `overwrite_last`
def exLevels : Levels :=
  Levels.mk (Parser.mk [Model.Headers.Add.mk "x" "1" true] ["y"]) (Parser.mk [Model.Headers.Add.mk "x" "2" true] [])
    (Parser.mk [Model.Headers.Add.mk "y" "3" false] [])
example : specOps exLevels = [.add ⟨"x", "1", true⟩] ++ [.remove "y"] ++ [.add ⟨"x", "2", true⟩, .add ⟨"y", "3", false⟩] := rfl
example : specOps exLevels = [.add ⟨"x", "1", true⟩, .remove "y", .add ⟨"x", "2", true⟩] ++ [.add ⟨"y", "3", false⟩] ++ [] := rfl
-- tests (evaluated, not proofs): the model on a concrete request
#guard get (finalize requestOrder exLevels [("x", "0"), ("y", "9")]) "x" == some "0,1,2"
#guard get (finalize requestOrder exLevels [("x", "0"), ("y", "9")]) "y" == some "3"
#guard parseProxyTimeout (fun s => s.toInt?) 0 0 true 5000000000 1000000000 none (some "300") (some "abc") none == (300000000, 0)

end MosnVerif.Props.C17
