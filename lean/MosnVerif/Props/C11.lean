import MosnVerif.Lemmas.Transfer
import MosnVerif.Lemmas.Shutdown
import MosnVerif.Lemmas.StageManager
import MosnVerif.Lemmas.H2GoAway
import MosnVerif.Lemmas.ShutdownVirtual
import MosnVerif.Lemmas.TransferLookup
import MosnVerif.Lemmas.UpgTiming
import MosnVerif.Lemmas.UpgHandshake
import MosnVerif.Lemmas.HandoverQueue
import MosnVerif.Lemmas.HandoverStream
import MosnVerif.Lemmas.H1Drain
import MosnVerif.Lemmas.H2GoAwaySend
import MosnVerif.Lemmas.TlsHandover
/-!
# C11 — graceful shutdown and hot upgrade lose no requests (property theorems only; level `other`)

What is proved is the logical part: the listener state machine, the drain loop, the event machine of one listener with
its connections (the signal is one label of the schedule), the stage manager's order, and the connection-transfer
message codec.  Real signal delivery, fd passing between two processes and kernel accept queues are outside any model.
-/
namespace MosnVerif.Props.C11
open MosnVerif.Model.Shutdown MosnVerif.Model.Transfer
open MosnVerif.Gen.Shutdown

/-! ## connection-transfer codec -/

/-- **transfer_roundtrip**: for ALL byte strings (buffered read bytes, TLS bytes — lengths below 2^32, the width of the
header fields) and whatever follows on the stream, the receiver reconstructs exactly what the sender handed over and
leaves the rest of the stream untouched. -/
theorem transfer_roundtrip (data tls rest : Bytes) (h1 : data.length < 4294967296) (h2 : tls.length < 4294967296) :
    decodeRead (encodeRead data tls ++ rest) = some (data, tls, rest) := by
  have hh : recvHead (encodeRead data tls ++ rest) = some (data.length, tls.length, data ++ tls ++ rest) := by
    have := recvHead_buildHead data.length tls.length h1 h2 (data ++ tls ++ rest)
    simpa [encodeRead_eq, List.append_assoc] using this
  have hm : recvMsg (data ++ tls ++ rest) (Gen.Transfer.readPayloadLen (data.length : Int) (tls.length : Int)).toNat
      = some (data ++ tls, rest) := by
    rw [readPayloadLen_nat, ← List.length_append]
    exact recvMsg_append (data ++ tls) rest
  rw [decodeRead_some_of _ _ _ _ _ _ hh hm, slice_data, slice_tls]

/-- the write-buffer message: (connection id, bytes) round-trips the same way -/
theorem transfer_write_roundtrip (id : Nat) (data rest : Bytes) (hid : id < 4294967296) (hd : data.length < 4294967296) :
    decodeWrite (encodeWrite id data ++ rest) = some (id, data, rest) := by
  have hh : recvHead (encodeWrite id data ++ rest) = some (data.length, id, data ++ rest) := by
    have := recvHead_buildHead data.length id hd hid (data ++ rest)
    simpa [encodeWrite_eq, List.append_assoc] using this
  exact decodeWrite_some_of _ _ _ _ _ _ hh (recvMsg_append data rest)

/-- the connection-id reply round-trips -/
theorem transfer_id_roundtrip (id : Nat) (h : id < 4294967296) : decodeID (encodeID id) = id := by
  have : encodeID id = putU32 id ++ [] := by
    simp [encodeID, writeAt, Gen.Transfer.idLen, putU32, List.replicate]
  rw [this]
  simp only [decodeID, recvMsg, Gen.Transfer.idRecvLen, List.append_nil, putU32_length]
  simp only [Nat.lt_irrefl, if_false]
  have ht : (putU32 id).take 4 = putU32 id := List.take_of_length_le (by simp [putU32_length])
  rw [ht]
  simpa using getU32_putU32 id h []

/-- an incomplete message is never delivered as a (different) message: every proper prefix makes the receiver fail -/
theorem transfer_prefix_fails (data tls : Bytes) (h1 : data.length < 4294967296) (h2 : tls.length < 4294967296)
    (n : Nat) (hn : n < (encodeRead data tls).length) : decodeRead ((encodeRead data tls).take n) = none :=
  decodeRead_prefix_none data tls h1 h2 n hn

/-- **buffered bytes intact**: the connection the new process creates starts with exactly the bytes the old process had
read and not yet consumed (and the same TLS bytes), so a request half received before the hand-over is completed by
the bytes that arrive after it. -/
theorem handover_buffer_intact (buffered tls : Bytes) (h1 : buffered.length < 4294967296) (h2 : tls.length < 4294967296) :
    handover buffered tls = some (buffered, tls) := by
  have := transfer_roundtrip buffered tls [] h1 h2
  simp only [List.append_nil] at this
  simp [handover, this]

/-- with the regenerated allocation of the inherited buffer no amount of buffered bytes makes the new process drop
the connection it has just taken over (before the fix: 64, 128, 256, … bytes did) -/
theorem adopted_connection_survives (n : Nat) : adoptedSurvives n = true := by
  simp [adoptedSurvives, Gen.Transfer.inheritedBufferSpare]

/-- the type byte tells a read transfer (with fd) from a write transfer -/
theorem transfer_type_distinguishes : recvIsWrite (typeByte false) = true ∧ recvIsWrite (typeByte true) = false := by decide

-- non-vacuity: a message whose payload itself looks like a header, with TLS bytes and trailing bytes
example : decodeRead (encodeRead [0, 0, 0, 1, 0, 0, 0, 2, 255] [7, 7] ++ [9]) = some ([0, 0, 0, 1, 0, 0, 0, 2, 255], [7, 7], [9]) := by decide
example : encodeRead [1, 2, 3] [4] = [0, 0, 0, 3, 0, 0, 0, 1, 1, 2, 3, 4] := by decide
example : decodeRead ((encodeRead [1, 2, 3] [4]).take 11) = none := by decide

/-! ## which listener of the new process adopts a handed-over connection (`Model/TransferLookup.lean`) -/
section lookup
open MosnVerif.Model.TransferLookup MosnVerif.Lemmas.TransferLookup

/-- **handover_finds_listener**: for EVERY list of listeners of the new process and every connection whose local
address was accepted by some listener `L` of the list — `L` configured on exactly that address, or on the IPv4 or the
IPv6 wildcard of its port (either opens a dual-stack socket: IPv6 AND IPv4 peers, whose local address is IPv4) — the
regenerated look-up of `transferFindListen` returns a listener; it is a listener of the list, of the connection's
network, configured on the connection's address or on a wildcard of its port; and unless the list holds another
wildcard listener of that port it is `L` (its address) or a listener on exactly the connection's address. -/
theorem handover_finds_listener (ls : List Lst) (L : Lst) (a : Local) (hm : L ∈ ls) (hacc : accepted L a) :
    ∃ R, find ls a = some R ∧ R ∈ ls ∧ accepted R a ∧
      ((∀ M ∈ ls, M.network = a.network → (M.addr = v4wild a ∨ M.addr = v6wild a) → M.addr = L.addr) →
        R.addr = L.addr ∨ R.addr = a.str) := by
  obtain ⟨R, hR⟩ := findWith_isSome candidates ls a L hm hacc.1 (accepted_addr_mem_candidates L a hacc)
  obtain ⟨h1, h2, h3⟩ := findWith_some candidates ls a R hR
  refine ⟨R, hR, h1, ⟨h2, candidates_serve a R.addr h3⟩, ?_⟩
  intro huniq
  rcases candidates_serve a R.addr h3 with h | ⟨_, h⟩
  · exact Or.inr h
  · exact Or.inl (huniq R h1 h2 h)

/-- a listener configured on exactly the connection's local address (e.g. the `bind_port: false` listener a
`use_original_dst` listener handed the connection to) is preferred to the wildcard listener that owns the socket: the
adopted connection is served by the same configuration as before the upgrade -/
theorem handover_prefers_exact (ls : List Lst) (L : Lst) (a : Local) (hm : L ∈ ls) (hn : L.network = a.network)
    (he : L.addr = a.str) : ∃ R, find ls a = some R ∧ R ∈ ls ∧ R.network = a.network ∧ R.addr = a.str :=
  find_prefers_exact ls L a hm hn he

/-- **the connection is adopted with its buffered bytes**: under the same hypotheses the new process creates the
connection on that listener with exactly the bytes the old process had read and not consumed (and the TLS bytes), and
the id it answers is the new connection's id, never `transferErr` -/
theorem handover_adopts_with_buffer (ls : List Lst) (L : Lst) (a : Local) (hm : L ∈ ls) (hacc : accepted L a)
    (buffered tls : Bytes) (h1 : buffered.length < 4294967296) (h2 : tls.length < 4294967296) (newId : Nat) :
    (∃ R, adopt ls a buffered tls = some (R, buffered, tls) ∧ R ∈ ls ∧ accepted R a) ∧ answeredId ls a newId = newId := by
  obtain ⟨R, hR, hmem, hs, _⟩ := handover_finds_listener ls L a hm hacc
  refine ⟨⟨R, ?_, hmem, hs⟩, ?_⟩
  · simp [adopt, hR, handover_buffer_intact buffered tls h1 h2]
  · simp [answeredId, hR]

/-- a connection no listener of the new configuration serves is not adopted: the old process is told `transferErr` -/
theorem handover_unserved_refused (ls : List Lst) (a : Local) (h : ∀ M ∈ ls, ¬ accepted M a) (newId : Nat) :
    find ls a = none ∧ answeredId ls a newId = Gen.Transfer.transferErr := by
  have hn : find ls a = none := by
    cases hf : find ls a with
    | none => rfl
    | some R =>
      obtain ⟨h1, h2, h3⟩ := findWith_some candidates ls a R hf
      exact absurd ⟨h2, candidates_serve a R.addr h3⟩ (h R h1)
  exact ⟨hn, by simp [answeredId, hn, Gen.TransferLookup.noListenerAnswersErr]⟩

-- non-vacuity: an IPv4 peer on a dual-stack `[::]` listener, next to a distractor and a listener on another port
example : accepted ⟨"tcp", "[::]:2045"⟩ ⟨false, "tcp", "127.0.0.1:2045", "2045", true⟩ := by decide
example : find [⟨"tcp", "0.0.0.0:80"⟩, ⟨"udp", "[::]:2045"⟩, ⟨"tcp", "[::]:2045"⟩] ⟨false, "tcp", "127.0.0.1:2045", "2045", true⟩
    = some ⟨"tcp", "[::]:2045"⟩ := by decide
-- an exact-address listener (e.g. one that binds no port) is preferred to the wildcard that accepted the connection
example : find [⟨"tcp", "0.0.0.0:80"⟩, ⟨"tcp", "127.0.0.1:80"⟩] ⟨false, "tcp", "127.0.0.1:80", "80", true⟩ = some ⟨"tcp", "127.0.0.1:80"⟩ := by decide
example : find [⟨"unix", "/tmp/a.sock"⟩] ⟨true, "unix", "/tmp/a.sock", "", false⟩ = some ⟨"unix", "/tmp/a.sock"⟩ := by decide
-- the witness for the rule "one wildcard, chosen by the connection's address family": the IPv4 peer of a dual-stack
-- listener finds nothing, the new process answers id 0 and the connection is lost
example : findWith singleWildcard [⟨"tcp", "[::]:2045"⟩] ⟨false, "tcp", "127.0.0.1:2045", "2045", true⟩ = none := by decide
-- why the last clause needs its hypothesis: with both wildcards of one port configured, the IPv4 one is found first
example : find [⟨"tcp", "[::]:80"⟩, ⟨"tcp", "0.0.0.0:80"⟩] ⟨false, "tcp", "[::1]:80", "80", false⟩ = some ⟨"tcp", "0.0.0.0:80"⟩ := by decide
end lookup

/-! ## listener -/

/-- **no_accept_after_stop (listener)**: after `Shutdown`, at whatever upgrade stage and from whatever listener state,
no sequence of operations without a `Start` makes the listener accept again — in particular every later probe is
not accepted. -/
theorem listener_no_accept_after_shutdown (l : Lis) (stage : Int) (ops : List LOp)
    (hs : ∀ op ∈ ops, op.isStart = false) : accepting (lisRun (lisShutdown l stage).1 ops) = false :=
  accepting_false_of_state _ (lisRun_not_running _ ops hs (lisShutdown_not_running l stage))

/-- outside the upgrade stage `Shutdown` closes the listening socket of a bound listener (new connections are refused);
in the upgrade stage it leaves the socket open for the new process and only stops accepting. -/
theorem shutdown_closes_unless_upgrading (l : Lis) (stage : Int) (hb : l.bind = true) (hr : l.hasRaw = true)
    (ho : l.sockOpen = true) (hst : l.state ≠ ListenerClosed) :
    (lisShutdown l stage).1.sockOpen = (decide (stage = Upgrading)) := by
  unfold lisShutdown shutdownOnlyStops
  by_cases h : stage = Upgrading
  · simp [h, ho]
  · simp only [h, decide_false, Bool.false_eq_true, ↓reduceIte]
    unfold lisClose closeStep
    simp [hst, hb, hr]

/-- a running bound listener always runs the go-away broadcast and the drain on `Shutdown`, in every stage -/
theorem shutdown_always_drains (l : Lis) (stage : Int) (hb : l.bind = true) (hs : l.state = ListenerRunning) :
    (lisShutdown l stage).2.shutdownCb = 1 := by
  unfold lisShutdown
  split
  · simp [stopAccept, shutdownCbStop, hs, ListenerRunning, ListenerClosed, ListenerStopped]
  · simp [shutdownCbClose, hb]

-- non-vacuity: a restart brings a closed listener back, which is why the hypothesis "no Start" is needed
example : accepting (lisRun (lisShutdown (lisInit true true) Running).1 [.start true]) = true := by decide
example : accepting (lisRun (lisInit true true) [.start false]) = true := by decide
example : probeResult (lisRun (lisInit true true) [.start false, .shutdown Upgrading]) = "pend" := by decide
example : probeResult (lisRun (lisInit true true) [.start false, .shutdown GracefulStopping]) = "ref" := by decide

/-! ## drain loop -/

/-- **drain_waits (loop)**: `waitConnectionsClose` sleeps exactly while requests are active and the drain time is not
exceeded, and leaves at the first sample with no active request or with the drain time exceeded. -/
theorem drain_loop_exit (maxWait : Int) (samples : List (Int × Int)) (n : Nat) (r w : Int)
    (h : drainLoop maxWait samples = (n, some (r, w))) :
    samples[n]? = some (r, w) ∧ (r ≤ 0 ∨ w > maxWait) ∧
    ∀ i, i < n → ∃ ri wi, samples[i]? = some (ri, wi) ∧ ri > 0 ∧ wi ≤ maxWait :=
  drainLoop_spec maxWait samples n r w h

example : drainLoop 150 [(2, 0), (1, 10), (1, 20), (0, 30)] = (3, some (0, 30)) := by decide
example : drainLoop 20 [(1, 0), (1, 10), (1, 20), (1, 30), (0, 40)] = (3, some (1, 30)) := by decide

/-! ## the event machine: one listener, its connections, the gauge, the drain -/

/-- **no_accept_after_stop**: for every event list, once the graceful stop began no connect label succeeds any more:
whatever events follow, the set of connections does not grow. -/
theorem no_accept_after_stop (s0 : Sys) (h0 : s0.stopBegan = false) (es es' : List Ev)
    (hb : (run s0 es).stopBegan = true) :
    (run (run s0 es) es').conns.length = (run s0 es).conns.length := by
  have inv : stopInv (run s0 es) := run_stopInv s0 es (fun h => by simp [h0] at h)
  exact run_conns_length _ es' (inv hb)

/-- **drain_waits**: for every event list, the exit label (the drain loop returns, a stopping process goes on to exit)
can only have fired when no request was active or the drain time had elapsed. -/
theorem drain_waits (s0 : Sys) (h0 : s0.exited = false) (es : List Ev) (hx : (run s0 es).exited = true) :
    (run s0 es).gauge ≤ 0 ∨ (run s0 es).waited > (run s0 es).maxWait :=
  run_exitInv s0 es (fun h => by simp [h0] at h) hx

/-- **inflight_completes**: for every event list — that is, wherever the signal falls in the label sequence of the
request — a request that MOSN has decoded (it is counted in `request_active`) and not yet answered is never cut off by
the exit unless the drain time has elapsed.  Equivalently: if it completes within the drain time, it completes. -/
theorem inflight_completes (s0 : Sys) (hwf : s0.wf) (h0 : s0.exited = false) (es : List Ev) (i : Nat)
    (hx : (run s0 es).exited = true) (ha : phaseAt (run s0 es).conns i = some .active) :
    (run s0 es).waited > (run s0 es).maxWait := by
  have hg := run_wf s0 es hwf
  have hp := phaseAt_active_pos _ i ha
  rcases drain_waits s0 h0 es hx with h | h
  · unfold Sys.wf at hg; omega
  · exact h

/-- the go-away broadcast reaches every existing connection exactly once per `Shutdown` that runs the callback -/
theorem goaway_broadcast (s : Sys) (stage : Int) (hx : s.exited = false)
    (hcb : (lisShutdown s.lis stage).2.shutdownCb > 0) :
    (step s (.signal stage)).conns =
      s.conns.map (fun c => { c with goAway := c.goAway + 1, notified := c.notified + (if s.notifies then 1 else 0) })
    ∧ (step s (.signal stage)).draining = true ∧ (step s (.signal stage)).waited = 0 := by
  simp [step, hx, hcb, onShutdownWaits, onShutdownBroadcasts]

/-- regenerated facts about the stream layers' go-away behaviour that the hand-written event machine and the driver
rely on: HTTP/2 ignores streams begun after its GOAWAY *and discards their DATA frames* (so such a stream cannot take
the connection — and the streams in flight on it — down), the GOAWAY names the last processed stream (the refused
request is retryable), xprotocol sends the codec's go-away frame, HTTP/1 has no notification, and only xprotocol
connections are handed over to the new process. -/
theorem goaway_facts :
    h2IgnoresNewStreamsAfterGoAway = true ∧ h2DiscardsDataAboveLastStream = true ∧ h2GoAwayCarriesLastStream = true ∧
    xprotocolSendsGoAwayFrame = true ∧ http1GoAwayIsNoop = true ∧
    transferableXprotocol = true ∧ transferableHttp1 = false ∧ transferableHttp2 = false := by decide

/-- the part of the statement MOSN does NOT guarantee on a plain graceful stop (machine-checked witness of the
finding): a request whose bytes have only partly arrived is not counted by the drain loop, so the exit label is enabled
immediately — here with 15 s of drain time left — while that request is still incomplete. -/
theorem incomplete_request_unprotected :
    let s := run (sysInit drainDefaultMs false false) [.connect, .bytes 0, .signal GracefulStopping, .exit]
    s.exited = true ∧ phaseAt s.conns 0 = some .incomplete ∧ s.waited = 0 ∧ s.maxWait = 15000 := by decide

-- non-vacuity of the hypotheses: a decoded request holds the exit back until it is answered or the time is up
example : (run (sysInit 150 false false) [.connect, .decoded 0, .signal GracefulStopping, .tick 10, .exit]).exited = false := by decide
example : (run (sysInit 150 false false) [.connect, .decoded 0, .signal GracefulStopping, .tick 10, .respDone 0, .exit]).exited = true := by decide
example : (run (sysInit 150 false false) [.connect, .decoded 0, .signal GracefulStopping, .tick 160, .exit]).exited = true := by decide
example : (run (sysInit 150 false false) [.connect, .signal Upgrading, .connect, .connect]).conns.length = 1 := by decide
example : (sysInit 150 false false).wf := by unfold Sys.wf; decide
-- HTTP/2 traits: a stream that exists at the signal completes, a stream begun after the GOAWAY is refused (retryable)
example : ((run (sysInit 150 true true) [.connect, .decoded 0, .signal GracefulStopping, .respDone 0]).conns.map (·.served)) = [1] := by decide
example : ((run (sysInit 150 true true) [.connect, .bytes 0, .signal GracefulStopping, .decoded 0]).conns.map (fun c => (c.refusedReq, c.notified))) = [(1, 1)] := by decide

/-! ## listeners that bind no port (`bind_port: false`, fed by a `use_original_dst` listener) -/

/-- a listener that binds no port is never Running, whatever is done to it (`Start` ignores it, a restart too): the
graceful stop must not depend on the listener having been Running -/
theorem virtual_never_running (inherit : Bool) (ops : List LOp) :
    (lisRun (lisInit false inherit) ops).state ≠ ListenerRunning ∧ accepting (lisRun (lisInit false inherit) ops) = false := by
  have h := (lisRun_virtual (lisInit false inherit) ops rfl (by simp [lisInit, ListenerInited, ListenerRunning])).2
  exact ⟨h, accepting_false_of_state _ h⟩

/-- **virtual_listener_drains**: `Shutdown` of an initialised listener that is neither Closed nor already Stopped
invokes the shutdown callback (go-away broadcast + drain) exactly once — in EVERY stage (hot upgrade: through the
regenerated early return of `stopAccept`; SIGTERM: through the close branch), whether or not it binds a port, whatever
its state (Inited for a listener that binds no port, Running for one that does). -/
theorem virtual_listener_drains (l : Lis) (stage : Int) (hc : l.state ≠ ListenerClosed) (hs : l.state ≠ ListenerStopped) :
    (lisShutdown l stage).2.shutdownCb = 1 :=
  lisShutdown_cb l stage hc hs

/-- outside the upgrade stage (SIGTERM: GracefulStopping) the callback runs whatever the listener's state and kind -/
theorem shutdown_outside_upgrade_drains (l : Lis) (stage : Int) (h : stage ≠ Upgrading) :
    (lisShutdown l stage).2.shutdownCb = 1 :=
  lisShutdown_cb_close l stage (by simp [shutdownOnlyStops, h])

/-- the event machine of a listener that binds no port: whatever happened before (any event list without a signal
leaves it Inited), the first signal — in any stage — reaches every existing connection with the go-away and starts the
drain; so `drain_waits` / `inflight_completes` protect the requests in flight on it. -/
theorem virtual_goaway_broadcast (s : Sys) (stage : Int) (hx : s.exited = false)
    (hc : s.lis.state ≠ ListenerClosed) (hs : s.lis.state ≠ ListenerStopped) :
    (step s (.signal stage)).conns =
      s.conns.map (fun c => { c with goAway := c.goAway + 1, notified := c.notified + (if s.notifies then 1 else 0) })
    ∧ (step s (.signal stage)).draining = true ∧ (step s (.signal stage)).waited = 0 :=
  goaway_broadcast s stage hx (by rw [virtual_listener_drains s.lis stage hc hs]; decide)

-- non-vacuity: the virtual listener of the model is Inited, binds nothing; the hot-upgrade Shutdown and the SIGTERM
-- Shutdown both run the callback; a second Shutdown in the upgrade stage does not (already Stopped)
example : lisVirtual.state = ListenerInited ∧ lisVirtual.bind = false := by decide
example : (lisShutdown lisVirtual Upgrading).2.shutdownCb = 1 ∧ (lisShutdown lisVirtual GracefulStopping).2.shutdownCb = 1 := by decide
example : (lisShutdown (lisShutdown lisVirtual Upgrading).1 Upgrading).2.shutdownCb = 0 := by decide
-- a request waiting for the upstream on a long-lived connection of a virtual listener holds the exit back in the
-- upgrade stage, the connections (bolt with go-away) are notified
example : let s := run (sysVirtual 150 true false 2) [.decoded 1, .signal Upgrading, .tick 10, .exit]
    s.exited = false ∧ s.conns.map (·.notified) = [1, 1] ∧ s.lis.state = ListenerStopped := by decide
example : (run (sysVirtual 150 true false 2) [.decoded 1, .signal Upgrading, .tick 10, .respDone 1, .exit]).exited = true := by decide
-- the rule "only a Running listener stops accepting" (not MOSN's) skips exactly these listeners
example : let stopOnlyRunning (st : Int) : Int × Bool := if st != ListenerRunning then (st, false) else (ListenerStopped, true)
    (stopOnlyRunning lisVirtual.state).2 = false ∧ (stopAccept lisVirtual.state lisVirtual.bind false).2 = true := by decide

/-! ## HTTP/2: the streams in flight when the graceful GOAWAY goes out (`Model/H2GoAway.lean`) -/
section h2goaway
open MosnVerif.Model MosnVerif.Lemmas.H2GoAway
open MosnVerif.Model.H2GoAway (getS setS bodyFrames stepWith runWith dropAllRule Out)

/-- **inflight_h2_body_completes**: on every reachable state `c0` of an HTTP/2 server connection that has not sent a
GOAWAY, let the HEADERS of a new request (odd id above every earlier one, optional content-length) arrive, followed by
ANY event list `evs` in which the frames of that stream are exactly the rest of its request — DATA frames of any sizes
within the declared length, ended by END_STREAM on the last one or by trailers — and everything else is arbitrary:
frames of other streams, and the graceful shutdown (`GoAway()`) **at any position, any number of times**: before the
first DATA frame, between two DATA frames, between the last DATA frame and the trailers, after the end.  Unless a
protocol violation on another stream tears the connection down, the request is handed to the proxy with its complete
body.  (The guards of `processData` / `processHeaders` enter through `Gen.H2GoAway.dataDiscarded` / `headersIgnored`.) -/
theorem inflight_h2_body_completes (pre evs : List H2GoAway.Ev) (id : Nat) (decl : Option Nat) (tr : Bool) (chunks : List Nat) :
    let c0 := (H2GoAway.run H2GoAway.Conn.initial pre).1
    c0.dead = false → c0.inGoAway = false → id % 2 = 1 → getS c0 id = none → c0.maxId < id →
    evs.filter (fun e => !e.other id) = bodyFrames id tr chunks →
    (∀ d, decl = some d → chunks.sum ≤ d) → (tr = true ∨ chunks ≠ []) →
    (H2GoAway.run c0 (.headers id false decl :: evs)).1.dead = false →
    Out.deliver id chunks.sum ∈ (H2GoAway.run c0 (.headers id false decl :: evs)).2 := by
  intro c0 hd hg hodd hnone hmax hp hdecl hend hfin
  have hstep := open_step c0 id decl hd hg hodd hnone hmax
  rw [run_cons, hstep] at hfin ⊢
  have hk : Keeps ({ setS c0 id ⟨id, false, 0, decl, false⟩ with maxId := id } : H2GoAway.Conn) id ⟨id, false, 0, decl, false⟩ :=
    ⟨hd, getS_setS_eq c0 id _, Nat.le_refl _, fun h => by rw [show ({ setS c0 id ⟨id, false, 0, decl, false⟩ with maxId := id } : H2GoAway.Conn).inGoAway = c0.inGoAway from rfl, hg] at h; exact Bool.noConfusion h⟩
  have := inflight_complete id decl tr hodd evs chunks _ 0 hk hfin hp (by intro d h; have := hdecl d h; omega) hend
  simpa using this

/-- **inflight_h2_goaway_between_frames**: the statement without any survival hypothesis, for a connection that carries
this request only: HEADERS, then the body frames with `GoAway()` invoked at ANY position `n` among them (before the
first DATA frame, between any two, before the trailers, after the end) — the connection stays open and the request is
delivered with its complete body. -/
theorem inflight_h2_goaway_between_frames (id : Nat) (decl : Option Nat) (tr : Bool) (chunks : List Nat) (n : Nat)
    (hodd : id % 2 = 1) (hdecl : ∀ d, decl = some d → chunks.sum ≤ d) (hend : tr = true ∨ chunks ≠ []) :
    let evs := H2GoAway.Ev.headers id false decl ::
      ((bodyFrames id tr chunks).take n ++ [H2GoAway.Ev.shutdown] ++ (bodyFrames id tr chunks).drop n)
    (H2GoAway.run H2GoAway.Conn.initial evs).1.dead = false ∧
    Out.deliver id chunks.sum ∈ (H2GoAway.run H2GoAway.Conn.initial evs).2 := by
  intro evs
  have hbody := body_other id tr chunks
  let tl := (bodyFrames id tr chunks).take n ++ [H2GoAway.Ev.shutdown] ++ (bodyFrames id tr chunks).drop n
  have hall : ∀ e ∈ tl, e = H2GoAway.Ev.shutdown ∨ H2GoAway.Ev.other id e = false := by
    intro e he
    simp only [tl, List.mem_append, List.mem_singleton] at he
    rcases he with (he | he) | he
    · exact Or.inr (hbody e (List.mem_of_mem_take he))
    · exact Or.inl he
    · exact Or.inr (hbody e (List.mem_of_mem_drop he))
  have hfilter : tl.filter (fun e => !H2GoAway.Ev.other id e) = bodyFrames id tr chunks := by
    have hf : ∀ l : List H2GoAway.Ev, (∀ e ∈ l, H2GoAway.Ev.other id e = false) →
        l.filter (fun e => !H2GoAway.Ev.other id e) = l := by
      intro l hl
      apply List.filter_eq_self.2
      intro e he; simp [hl e he]
    simp only [tl, List.filter_append]
    rw [hf _ (fun e he => hbody e (List.mem_of_mem_take he)), hf _ (fun e he => hbody e (List.mem_of_mem_drop he))]
    simp [H2GoAway.Ev.other, List.take_append_drop]
  have hstep := open_step H2GoAway.Conn.initial id decl rfl rfl hodd rfl (show (0 : Nat) < id by omega)
  have hk : Keeps ({ setS H2GoAway.Conn.initial id ⟨id, false, 0, decl, false⟩ with maxId := id } : H2GoAway.Conn) id
      ⟨id, false, 0, decl, false⟩ :=
    ⟨rfl, getS_setS_eq _ id _, Nat.le_refl _, fun h => Bool.noConfusion h⟩
  have halive := alone_alive id decl tr hodd tl chunks _ 0 hk hall hfilter
    (by intro d h; have := hdecl d h; omega)
  show (H2GoAway.run H2GoAway.Conn.initial (.headers id false decl :: tl)).1.dead = false ∧
    Out.deliver id chunks.sum ∈ (H2GoAway.run H2GoAway.Conn.initial (.headers id false decl :: tl)).2
  rw [run_cons, hstep]
  refine ⟨halive, ?_⟩
  have := inflight_complete id decl tr hodd tl chunks _ 0 hk halive hfilter
    (by intro d h; have := hdecl d h; omega) hend
  simpa using this

/-- the rule owed by `processData` and `processHeaders`, as regenerated: after a graceful GOAWAY nothing of a stream at
or below the last stream id is dropped; after it no new stream is opened (its id would exceed the last stream id) -/
theorem h2_goaway_rule (code : Int) (id last : Nat) (h : id ≤ last) :
    Gen.H2GoAway.dataDiscarded true Gen.H2GoAway.gracefulCode id last = false ∧
    Gen.H2GoAway.headersIgnored true Gen.H2GoAway.gracefulCode id last = false ∧
    Gen.H2GoAway.dataDiscarded false code id last = false ∧
    (last < id → Gen.H2GoAway.headersIgnored true code id last = true) :=
  ⟨dataDiscarded_inflight true _ id last (fun _ => rfl) h, headersIgnored_inflight true _ id last (fun _ => rfl) h,
   dataDiscarded_inflight false code id last (fun h => Bool.noConfusion h) h, fun h' => by omega⟩

/-- **refused_stream_harmless**: a stream the client begins after the GOAWAY (its id is above the last stream id; the
client may not have seen the GOAWAY yet) cannot disturb the connection: its HEADERS, DATA and RST_STREAM frames are
dropped without any effect — no connection error, so the requests in flight survive it. -/
theorem refused_stream_harmless (c : H2GoAway.Conn) (j n : Nat) (es : Bool) (d : Option Nat)
    (hg : c.inGoAway = true) (hj : c.maxId < j) :
    H2GoAway.step c (.headers j es d) = (c, []) ∧ H2GoAway.step c (.data j n es) = (c, []) ∧
    H2GoAway.step c (.rst j) = (c, []) :=
  ⟨refused_stream_step c _ j hg hj (Or.inr (Or.inl ⟨es, d, rfl⟩)),
   refused_stream_step c _ j hg hj (Or.inr (Or.inr (Or.inl ⟨n, es, rfl⟩))),
   refused_stream_step c _ j hg hj (Or.inr (Or.inr (Or.inr rfl)))⟩

-- non-vacuity / the mutator's description "goaway between data frames": HEADERS, DATA(100), GoAway(), DATA(200, END_STREAM)
example : (H2GoAway.run H2GoAway.Conn.initial [.headers 1 false (some 300), .data 1 100 false, .shutdown, .data 1 200 true]).2 =
    [Out.goAway 1 0, Out.deliver 1 300] := by decide
-- ... between the last DATA frame and the trailers; and a stream begun after the GOAWAY is ignored, its DATA discarded
example : (H2GoAway.run H2GoAway.Conn.initial [.headers 1 false none, .data 1 100 false, .shutdown, .headers 3 false none, .data 3 5 true,
    .headers 1 true none]).2 = [Out.goAway 1 0, Out.deliver 1 100] := by decide
-- the witness for the rule "drop DATA whenever a GOAWAY has been sent": the half-received request is never delivered
example : (runWith dropAllRule H2GoAway.Conn.initial [.headers 1 false (some 300), .data 1 100 false, .shutdown, .data 1 200 true]).2 =
    [Out.goAway 1 0] := by decide
-- an error GOAWAY (here: DATA on an idle stream) does discard everything and the connection is closed
example : (H2GoAway.run H2GoAway.Conn.initial [.headers 1 false none, .data 7 1 false, .data 1 5 true]).2 =
    [Out.goAway 1 1, Out.closed] := by decide
end h2goaway

/-! ## HTTP/2: responses in flight when the graceful GOAWAY goes out (send side, control frames; `Model/H2GoAwaySend.lean`) -/
section H2GoAwaySendProps
open MosnVerif.Model MosnVerif.Lemmas.H2GoAwaySend MosnVerif.Lemmas.Flow

/-- **goaway_keeps_inflight_progress**: for EVERY event list of an HTTP/2 server connection — graceful shut-downs
(`GoAway()` of the proxy, a GOAWAY of the peer) at any positions, any number of times, interleaved with requests being
answered, sender passes, WINDOW_UPDATE on streams and on the connection, SETTINGS (initial window, max frame size),
PING, PRIORITY — the flow-control state reached is EXACTLY the state of the flow model of C18 under the same schedule
without the go-aways (only requests begun after the GOAWAY are refused): the GOAWAY takes no credit, no SETTINGS and
no wake-up away from the streams in flight.  Hence (composition with C18) the DATA written never exceeds the peer's
windows, and a response body of ANY size completes once a conformant peer has granted its rest on the stream and on
the connection — however the grants are interleaved with the GOAWAY.  The go-away tests of processWindowUpdate /
processSettings / processPing / processHeaders are the regenerated ones. -/
theorem goaway_keeps_inflight_progress (evs : List H2GoAwaySend.Ev) (hw : ∀ e ∈ evs, e.wf = true) (i : Nat) :
    let s := (H2GoAwaySend.run H2GoAwaySend.St.initial evs).flow
    s = Flow.run (Flow.St.initial .server) (H2GoAwaySend.labelsFrom false evs) ∧
    Flow.peerOk s.trace = true ∧ s.panicked = false ∧
    ((Flow.peerOf s.trace).conformant = true → i < s.count →
      ((s.strm i).rem : Int) ≤ (Flow.peerOf s.trace).w i → ((s.strm i).rem : Int) ≤ (Flow.peerOf s.trace).connW →
      ((Flow.pump s i (s.strm i).rem).strm i).rem = 0 ∧
      Flow.sentOn i (Flow.pump s i (s.strm i).rem).trace = Flow.sentOn i s.trace + (s.strm i).rem) := by
  intro s
  have ht : s = Flow.run (Flow.St.initial .server) (H2GoAwaySend.labelsFrom false evs) :=
    run_transparent evs H2GoAwaySend.St.initial false agree_initial
  have hl := labelsFrom_wf evs false hw
  have hinv : Inv s := by rw [ht]; exact inv_run _ _ hl (inv_initial .server)
  refine ⟨ht, hinv.ok, hinv.nopanic, ?_⟩
  intro hconf hi h1 h2
  have hex : Exact s := by rw [ht]; exact exact_run _ _ hl (inv_initial .server) (exact_initial .server)
  obtain ⟨hc, e2, e3⟩ := hex hconf
  by_cases hr : (s.strm i).rem = 0
  · rw [hr]; exact ⟨hr, by simp [Flow.pump]⟩
  · have htr := tracked_of s i hi (by omega)
    have := pump_completes i (s.strm i).rem s hinv hc hi (Nat.le_refl _) (by rw [e3 i htr]; exact h1) (by rw [e2]; exact h2)
    exact ⟨this.1, this.2.1⟩

/-- after a graceful GOAWAY (any event list, the connection alive) PING is still answered, SETTINGS are still applied
and acknowledged, WINDOW_UPDATE (stream and connection level) still adds its credit -/
theorem goaway_control_frames_processed (evs : List H2GoAwaySend.Ev) (l : Flow.Label) :
    let s := H2GoAwaySend.run H2GoAwaySend.St.initial evs
    s.flow.closed = false →
    (H2GoAwaySend.step s .ping).pingAcks = s.pingAcks + 1 ∧
    (H2GoAwaySend.step s (.flow l)).flow = Flow.step s.flow l ∧
    (H2GoAwaySend.isSettings l = true → (Flow.step s.flow l).closed = false →
      (H2GoAwaySend.step s (.flow l)).settingsAcks = s.settingsAcks + 1) := by
  intro s hcl
  obtain ⟨g, hc, _⟩ := run_agree evs H2GoAwaySend.St.initial false agree_initial
  have hc' : s.code = Gen.H2GoAway.gracefulCode := hc
  refine ⟨?_, ?_, ?_⟩
  · simp [H2GoAwaySend.step, H2GoAwaySend.stepWith, H2GoAwaySend.codeRules, hcl, hc', ping_graceful]
  · simp only [H2GoAwaySend.step, H2GoAwaySend.stepWith, H2GoAwaySend.codeRules, hc', wu_graceful, settings_graceful, hcl]
    split <;> (try split) <;> simp_all
  · intro hs hnc
    have hnw : H2GoAwaySend.isWu l = false := by cases l <;> simp_all [H2GoAwaySend.isWu, H2GoAwaySend.isSettings]
    simp [H2GoAwaySend.step, H2GoAwaySend.stepWith, H2GoAwaySend.codeRules, hc', settings_graceful, hcl, hs, hnw, hnc]

-- non-vacuity and the negation witness: a response of 70000 bytes, 65535 of them written when the GOAWAY goes out;
-- the client then grants credit on the stream and on the connection
def h2gwDemo : List H2GoAwaySend.Ev :=
  [.open 70000, .flow (.send 0), .flow (.send 0), .flow (.send 0), .flow (.send 0), .flow (.send 0), .shutdown, .ping,
   .flow (.wuStream 0 70000), .flow (.wuConn 70000), .flow (.send 0), .flow (.send 0)]
example : ∀ e ∈ h2gwDemo, e.wf = true := by decide
example : let s := H2GoAwaySend.run H2GoAwaySend.St.initial h2gwDemo
    (s.flow.strm 0).rem = 0 ∧ Flow.sentOn 0 s.flow.trace = 70000 ∧ s.pingAcks = 1 ∧ s.inGoAway = true ∧ s.goAways = 1 := by decide
example : ((H2GoAwaySend.run H2GoAwaySend.St.initial (h2gwDemo.take 6)).flow.strm 0).rem = 4465 := by decide
-- a request begun after the GOAWAY is refused, one begun before it is not
example : (H2GoAwaySend.run H2GoAwaySend.St.initial [.open 10, .shutdown, .open 10]).flow.count = 1 := by decide
/-- negation witness (the seeded defect class: WINDOW_UPDATE ignored once a GOAWAY was sent): the rest of the body is
never written although the client granted the credit -/
theorem goaway_ignoring_window_update_stalls :
    ((H2GoAwaySend.runWith H2GoAwaySend.ignoreWuRules H2GoAwaySend.St.initial h2gwDemo).flow.strm 0).rem = 4465 := by decide

end H2GoAwaySendProps


/-! ## the drain mark of an HTTP/1 server connection (hot upgrade: `Connection: close` on the next response) -/
section H1DrainProps
open MosnVerif.Model MosnVerif.Lemmas.H1Drain

/-- **h1_goaway_sticky**: for EVERY interleaving of the mark (the transfer event of the old process's read loop) with
request-parse and response-write events — `pre` is whatever happened on the connection before the mark (idle, a request
outstanding, several keep-alive requests served), `post` whatever happens after it (the rest of a half-received request
is parsed, the upstream answers, further requests arrive): the mark is never cleared, and after the mark the
connection writes at most ONE more response — it carries `Connection: close` and the connection is closed right after
it (or nothing is written and the connection stays open, still marked).  The assignment rules are the regenerated
`markUpdate` / `parseUpdate`, the close decision the regenerated `respCloses`. -/
theorem h1_goaway_sticky (pre post : List H1Drain.Ev) :
    let c := (H1Drain.run H1Drain.Conn.initial (pre ++ [H1Drain.Ev.mark])).1
    c.flag = true ∧ (H1Drain.run c post).1.flag = true ∧
    (c.closed = false →
      ((H1Drain.run c post).2 = [] ∧ (H1Drain.run c post).1.closed = false) ∨
      ((H1Drain.run c post).2 = [H1Drain.Out.resp true, H1Drain.Out.closed] ∧ (H1Drain.run c post).1.closed = true)) ∧
    (c.closed = true → (H1Drain.run c post).2 = []) := by
  intro c
  have hf : c.flag = true := by
    show (H1Drain.run H1Drain.Conn.initial (pre ++ [H1Drain.Ev.mark])).1.flag = true
    rw [run_append, run_cons, run_nil]
    exact mark_sets (H1Drain.run H1Drain.Conn.initial pre).1.flag
  exact ⟨hf, run_flag c post hf, fun hc => run_marked c post hf hc, fun hc => run_closed c post hc⟩

/-- the first response after the mark IS written with `Connection: close`: whether a request was outstanding at the
mark (`cur = some rc`: parsed and waiting for the upstream) and its response ends, or the connection was idle / a
request half received and the (rest of the) request is parsed and answered — each followed by anything. -/
theorem h1_first_response_after_mark_closes (pre rest : List H1Drain.Ev) (rc : Bool) :
    let c := (H1Drain.run H1Drain.Conn.initial (pre ++ [H1Drain.Ev.mark])).1
    c.closed = false →
    (c.cur.isSome = true → (H1Drain.run c (H1Drain.Ev.respond :: rest)).2 = [H1Drain.Out.resp true, H1Drain.Out.closed]) ∧
    (c.cur = none → (H1Drain.run c (H1Drain.Ev.parse rc :: H1Drain.Ev.respond :: rest)).2 = [H1Drain.Out.resp true, H1Drain.Out.closed]) := by
  intro c hc
  have hf : c.flag = true := (h1_goaway_sticky pre []).1
  have key : ∀ (d : H1Drain.Conn) (r : Bool), d.cur = some r → d.closed = false → d.flag = true →
      (H1Drain.step d H1Drain.Ev.respond).2 = [H1Drain.Out.resp true, H1Drain.Out.closed] ∧
      (H1Drain.step d H1Drain.Ev.respond).1.closed = true := by
    intro d r h1 h2 h3
    simp [H1Drain.step, H1Drain.stepWith, h1, h2, h3, resp_of_mark r]
  constructor
  · intro hcur
    obtain ⟨r, hr⟩ := Option.isSome_iff_exists.mp hcur
    have h1 := key c r hr hc hf
    rw [run_cons, h1.1, run_closed _ rest h1.2]; rfl
  · intro hcur
    have hp : (H1Drain.step c (H1Drain.Ev.parse rc)).2 = [] ∧ (H1Drain.step c (H1Drain.Ev.parse rc)).1.closed = false ∧
        (H1Drain.step c (H1Drain.Ev.parse rc)).1.cur = some rc := by
      refine ⟨?_, ?_, ?_⟩ <;> simp [H1Drain.step, H1Drain.stepWith, hc, hcur]
    have h1 := key _ rc hp.2.2 hp.2.1 (step_flag c _ hf)
    rw [run_cons, hp.1, run_cons, h1.1, run_closed _ rest h1.2]; rfl

-- non-vacuity: a keep-alive connection serves requests without `Connection: close` until it is marked; the mark while
-- idle, while a request waits for the upstream, and while the response is being written (ordered after that respond)
example : (H1Drain.run H1Drain.Conn.initial [.parse false, .respond, .parse false, .respond]).2 = [.resp false, .resp false] := by decide
example : (H1Drain.run H1Drain.Conn.initial [.parse false, .respond, .mark, .parse false, .respond, .parse false, .respond]).2 =
    [.resp false, .resp true, .closed] := by decide
example : (H1Drain.run H1Drain.Conn.initial [.parse false, .mark, .respond, .parse false]).2 = [.resp true, .closed] := by decide
example : (H1Drain.run H1Drain.Conn.initial [.parse false, .respond, .mark]).1.closed = false := by decide
/-- negation witness (the seeded defect class: the mark overwritten by every parsed request): a keep-alive client whose
connection was marked while idle is never told to reconnect -/
theorem h1_overwrite_loses_mark :
    (H1Drain.runWith H1Drain.overwriteRules H1Drain.Conn.initial [.parse false, .respond, .mark, .parse false, .respond, .parse false, .respond]).2 =
    [.resp false, .resp false, .resp false] := by decide

end H1DrainProps


/-! ## stage manager -/

/-- **stage order monotone**: for every event list the environment can produce (Reload/Upgrade notices only once `Run`
has returned; an init-stage callback only gives a stop notice), the values stored in the manager's state never go down
in rank — start-up stages in order, Running ⇄ StartingNewServer/Upgrading at the rank of Running, then
GracefulStopping, Stopping, AfterStop, Stopped; in particular a manager that began stopping never returns to Running. -/
theorem stage_order_monotone (fromUpgrade : Bool) (es : List SMEv) (h : guarded (smInit fromUpgrade) es) :
    monoRev (smRun (smInit fromUpgrade) es).hist :=
  (smRun_inv _ es (smInit_inv fromUpgrade) h).good.mono

/-- the regenerated `SetState` orders of `Run` and `Stop` ascend strictly through the regenerated enum -/
theorem run_then_stop_ascending :
    (runSeq ++ stopSeqGraceful).Pairwise (· < ·) ∧ (runSeq ++ stopSeqDirect).Pairwise (· < ·) := by decide

/-- when the Application is shut down by the graceful-stop stage the state is GracefulStopping, which makes the
listeners close their sockets; inside the upgrade handler it is Upgrading, which makes them only stop accepting. -/
theorem stage_selects_listener_mode :
    shutdownOnlyStops GracefulStopping = false ∧ shutdownOnlyStops Running = false ∧ shutdownOnlyStops Upgrading = true ∧
    gracefulSetsStateFirst = true ∧ gracefulPrefix = [GracefulStopping] := by decide

-- non-vacuity: a guarded history with an upgrade that fails, resumes, and a later SIGTERM
example : guarded (smInit false)
    ((List.replicate 6 (SMEv.boot none false false)) ++ [.notice actUpgrade (some false) false, .notice actGracefulStop none false, .mainStop false]) := by decide
example : (smRun (smInit false)
    ((List.replicate 6 (SMEv.boot none false false)) ++ [.notice actUpgrade (some false) false, .notice actGracefulStop none false, .mainStop false])).hist.reverse
    = [1, 2, 3, 4, 5, 6, 13, 6, 8, 9, 10, 11] := by decide
-- without the guard the claim is false: an Upgrade notice during start-up lets the state go down again
example : ¬ monoRev (smRun (smInit false) [.boot none false false, .boot none false false, .notice actUpgrade none false, .boot none false false]).hist := by decide


/-! ## hot upgrade: long-lived connections are handed over before the old process exits -/
section UpgTimingProps
open MosnVerif.Model.UpgTiming MosnVerif.Gen.UpgTiming

/-- **start_aligns_transfer_timeout**: on EVERY start path (cold or inherited; `setOnStart` is the regenerated path
condition of the call in `Mosn.TransferConnection`) and for every configured graceful_timeout (0 = absent),
`network.TransferTimeout` ends up equal to `server.GracefulTimeout`. -/
theorem start_aligns_transfer_timeout (inherited : Bool) (cfg : Nat) :
    transferTimeoutAfterStart inherited cfg = graceful cfg :=
  transferTimeout_eq_graceful inherited cfg

/-- **handover_before_exit**: for every graceful timeout (unbounded), every read timeout `R`, every start path and
every random draw `r` of the read loop, a transferable connection is handed over strictly before the old process's
exit timer `WaitConnectionsDone(GracefulTimeout)` fires — even when the stop signal and the expiry of the hand-over
timer are each noticed a full read timeout late. -/
theorem handover_before_exit (inherited : Bool) (cfg R r : Nat)
    (hr : r < randBound (transferTimeoutAfterStart inherited cfg)) :
    handoverLatest (transferTimeoutAfterStart inherited cfg) r R < lifetime (graceful cfg) R := by
  rw [transferTimeout_eq_graceful] at *
  unfold handoverLatest lifetime transferInstant waitConnectionsDone
  unfold randBound at hr
  omega

example : (5 : Nat) < randBound (transferTimeoutAfterStart false 5000) := by decide
example : handoverLatest (transferTimeoutAfterStart false 5000) 4999 15000 = 39999 ∧ lifetime (graceful 5000) 15000 = 40000 := by decide

/-- the executable form used by the driver agrees: every start fits -/
theorem start_fits (inherited : Bool) (cfg R : Nat) :
    fits (transferTimeoutAfterStart inherited cfg) (graceful cfg) R = true := by
  have hp := graceful_pos cfg
  rw [transferTimeout_eq_graceful]
  unfold fits handoverLatest lifetime transferInstant waitConnectionsDone randBound
  simp
  omega

/-- **default_schedule_misses_exit** (negation witness for a start that leaves the 30 s default in place): with a
graceful timeout below 15 s some draw of the read loop lands at or after the exit even if nothing is noticed late. -/
theorem default_schedule_misses_exit (g : Nat) (hg : g < 15000) :
    ∃ r, r < randBound defaultTransferTimeoutMs ∧
      lifetime g defaultConnReadTimeoutMs ≤ transferInstant defaultTransferTimeoutMs r := by
  refine ⟨2 * g, ?_, ?_⟩ <;>
    simp only [randBound, defaultTransferTimeoutMs, lifetime, waitConnectionsDone, defaultConnReadTimeoutMs, transferInstant] <;> omega

example : fits defaultTransferTimeoutMs 5000 defaultConnReadTimeoutMs = false := by decide

end UpgTimingProps

/-! ## hot upgrade: writes issued while a connection is being handed over -/
section HandoverQueueProps
open MosnVerif.Model.HandoverQueue MosnVerif.Gen.HandoverQueue

/-- **handover_writes_preserved**: for EVERY sequence of writes the old process issues on a connection that is being
handed over (any number, far beyond the queue's capacity) and EVERY schedule of the writer and the forwarding loop
(including any number of writer turns before the loop has started: the window before `transferRead` returned), with
the enqueue form and the capacity regenerated from `writeDirectly`: no write is given up, and what was forwarded to
the new process, what is queued and what the writer has not yet written is, in this order, exactly the writer's
sequence.  Assumption of the `blockingTimeout` form: the forwarding loop starts before the timer fires. -/
theorem handover_writes_preserved {α : Type} (ws : List α) (sched : List MosnVerif.Model.HandoverQueue.Ev) :
    (runG ws sched).forwarded ++ (runG ws sched).queue ++ (runG ws sched).pending = ws ∧ (runG ws sched).dropped = [] :=
  run_inv enqueueMode (by decide) writeBufferCap ws sched { pending := ws } ⟨by simp, rfl⟩

/-- hence: once the writer is through and the queue is empty, the new process received all writes, in order -/
theorem handover_writes_complete {α : Type} (ws : List α) (sched : List MosnVerif.Model.HandoverQueue.Ev)
    (hp : (runG ws sched).pending = []) (hq : (runG ws sched).queue = []) : (runG ws sched).forwarded = ws := by
  have h := (handover_writes_preserved ws sched).1
  rw [hp, hq] at h
  simpa using h

/-- non-vacuous: 10 writes in the window (8 fit, the 9th waits), then the loop runs — all arrive -/
example : (runG (List.range 10) (harnessWindow 10 ++ harnessRest 10)).pending = []
    ∧ (runG (List.range 10) (harnessWindow 10 ++ harnessRest 10)).queue = []
    ∧ (runG (List.range 10) (harnessWindow 10 ++ harnessRest 10)).forwarded = List.range 10 := by decide
example : ((runG (List.range 17) (harnessWindow 17)).queue.length, (runG (List.range 17) (harnessWindow 17)).pending.length) = (8, 9) := by decide

/-- negation witness for the give-up-when-full enqueue: the 9th write of the window is lost -/
example : (run .dropWhenFull 8 { pending := List.range 9 } (harnessWindow 9 ++ harnessRest 9)).dropped = [8]
    ∧ (run .dropWhenFull 8 { pending := List.range 9 } (harnessWindow 9 ++ harnessRest 9)).forwarded = List.range 8 := by decide

end HandoverQueueProps

/-! ## hot upgrade: a write IN PROGRESS when the connection is handed over (c11w9; `Model/HandoverStream.lean`) -/
section HandoverStreamProps
open MosnVerif.Model.HandoverStream MosnVerif.Gen.HandoverLock

/-- the step lists the proofs are about are the regenerated ones: `notifyTransfer` takes the mutex `writeDirectly`
holds from before its mark test until after `doWrite` -/
theorem handover_steps_regenerated : writeSteps = realW ∧ handoverSteps = realH ∧ sameMutex = true := by decide

/-- **handover_stream_intact**: for EVERY list of writes of the old process (each any number `k` of partial writes),
EVERY list of writes of the new process and EVERY schedule of the old writer, the hand-over thread and the new
process's writer - with the step order of `writeDirectly`, of `notifyTransfer` and of `connection.transfer` regenerated -
the socket's chunk sequence is intact: every write is contiguous (its chunks adjacent and in order, the next write
begins only after the previous one is complete: no interleaving of two writes) and no chunk of the old process follows
a chunk of the new process. -/
theorem handover_stream_intact (ws news : List Wr) (sched : List MosnVerif.Model.HandoverStream.Ev) :
    intactR (runG ws news sched).rsock = true := by
  have h := inv_run sched (init ws news) (inv_init ws news)
  unfold runG
  rw [handover_steps_regenerated.1, handover_steps_regenerated.2.1]
  simp only [intactR, Bool.and_eq_true]
  exact ⟨h.Wl, h.Q⟩

/-- in words of the two processes: the stream is the old process's chunks followed by the new process's (`rsock` is
newest first) -/
theorem handover_old_before_new (ws news : List Wr) (sched : List MosnVerif.Model.HandoverStream.Ev) :
    ∃ a b, (runG ws news sched).rsock = a ++ b ∧ (∀ e ∈ a, e.side = .new) ∧ (∀ e ∈ b, e.side = .old) := by
  have h := handover_stream_intact ws news sched
  simp only [intactR, Bool.and_eq_true] at h
  exact sortedR_split _ h.2

/-- **handover_waits_for_write**: when the descriptor has left for the new process, no write of the old process is
between its mark test and the end of its `doWrite` (the hand-over queued behind the write in progress), and none ever
will be: the mark is set. -/
theorem handover_waits_for_write (ws news : List Wr) (sched : List MosnVerif.Model.HandoverStream.Ev)
    (hfd : (runG ws news sched).fdSent = true) :
    (runG ws news sched).mark = true ∧ (runG ws news sched).oidx = 0
      ∧ ∀ w, (runG ws news sched).ocur = some w → ¬ ((runG ws news sched).opc = 2 ∨ (runG ws news sched).opc = 3) := by
  have h := inv_run sched (init ws news) (inv_init ws news)
  unfold runG at hfd ⊢
  rw [handover_steps_regenerated.1, handover_steps_regenerated.2.1] at hfd ⊢
  have hm := h.F hfd
  refine ⟨hm, ?_, h.J hm⟩
  rcases Nat.eq_zero_or_pos (run realW realH (init ws news) sched).oidx with h0 | hpos
  · exact h0
  · obtain ⟨w, hw, h3, _⟩ := h.O0 hpos
    exact absurd (Or.inr h3) (h.J hm w hw)

/-- **handover_writes_split** (composition with `handover_writes_preserved`): for every schedule the old writer's
sequence is, in order: the writes that went to the socket directly, the diverted ones - of which, for every schedule
of the forwarding loop, what was forwarded, what is queued and what is not yet enqueued is again the sequence, nothing
dropped -, the write not yet at its mark test, and the writes not yet begun. -/
theorem handover_writes_split (ws news : List Wr) (sched : List MosnVerif.Model.HandoverStream.Ev)
    (qsched : List MosnVerif.Model.HandoverQueue.Ev) :
    let s := runG ws news sched
    let q := MosnVerif.Model.HandoverQueue.runG s.diverted qsched
    s.direct ++ ((q.forwarded ++ q.queue ++ q.pending) ++ (unclassified s ++ s.opend)) = ws ∧ q.dropped = [] := by
  intro s q
  have h := acc_run ws sched (init ws news) (acc_init ws news)
  have hq := handover_writes_preserved s.diverted qsched
  refine ⟨?_, hq.2⟩
  have hs : s = run realW realH (init ws news) sched := by
    show runG ws news sched = _
    unfold runG
    rw [handover_steps_regenerated.1, handover_steps_regenerated.2.1]
  show s.direct ++ (((MosnVerif.Model.HandoverQueue.runG s.diverted qsched).forwarded ++ (MosnVerif.Model.HandoverQueue.runG s.diverted qsched).queue ++ (MosnVerif.Model.HandoverQueue.runG s.diverted qsched).pending) ++ (unclassified s ++ s.opend)) = ws
  rw [hq.1, hs]
  exact h.P

/-- the harness's schedule: write 1 (4 partial writes) blocked after 2 of them, the hand-over tries, the client reads -/
def hwlSched : List MosnVerif.Model.HandoverStream.Ev :=
  List.replicate 6 .o ++ List.replicate 4 .h ++ [.n, .n] ++ List.replicate 4 .o ++ List.replicate 4 .h ++ [.n, .n] ++ List.replicate 12 .o

/-- non-vacuous: on that schedule the hand-over waits, write 1 is completed, then the new process's frame, and the two
later writes of the old process are diverted -/
example : (runG [⟨1, 4⟩, ⟨3, 1⟩, ⟨4, 1⟩] [⟨2, 1⟩] hwlSched).rsock.reverse
      = [⟨.old, 1, 0, 4⟩, ⟨.old, 1, 1, 4⟩, ⟨.old, 1, 2, 4⟩, ⟨.old, 1, 3, 4⟩, ⟨.new, 2, 0, 1⟩]
    ∧ (runG [⟨1, 4⟩, ⟨3, 1⟩, ⟨4, 1⟩] [⟨2, 1⟩] hwlSched).diverted = [⟨3, 1⟩, ⟨4, 1⟩]
    ∧ (runG [⟨1, 4⟩, ⟨3, 1⟩, ⟨4, 1⟩] [⟨2, 1⟩] (hwlSched.take 10)).fdSent = false
    ∧ (runG [⟨1, 4⟩, ⟨3, 1⟩, ⟨4, 1⟩] [⟨2, 1⟩] hwlSched).fdSent = true := by decide

/-- negation witness, mark without the lock (`notifyTransfer` = a plain store): the descriptor leaves while write 1 is
inside `doWrite`, the new process's frame lands between its chunks -/
example : (run realW [.setMark, .sendFd] (init [⟨1, 4⟩] [⟨2, 1⟩]) hwlSched).rsock.reverse
      = [⟨.old, 1, 0, 4⟩, ⟨.old, 1, 1, 4⟩, ⟨.new, 2, 0, 1⟩, ⟨.old, 1, 2, 4⟩, ⟨.old, 1, 3, 4⟩]
    ∧ intactR (run realW [.setMark, .sendFd] (init [⟨1, 4⟩] [⟨2, 1⟩]) hwlSched).rsock = false
    ∧ (run realW [.setMark, .sendFd] (init [⟨1, 4⟩] [⟨2, 1⟩]) (hwlSched.take 10)).fdSent = true := by decide

/-- negation witness, `writeDirectly` releasing the mutex between appendBuffer and doWrite: the same -/
example : intactR (run [.lock, .check, .append, .unlock, .io] realH (init [⟨1, 4⟩] [⟨2, 1⟩]) hwlSched).rsock = false := by decide

end HandoverStreamProps

/-! ## hot upgrade: the hand-shake never leaves a listener without an acceptor -/
section UpgHandshakeProps
open MosnVerif.Model.UpgHandshake MosnVerif.Gen.UpgHandshake

/-- **upgrade_always_one_acceptor**: with the old process's step order regenerated from `ReconfigureHandler` and the
new process's ack deadline / give-up rule from `transferConnectionHandler`: for EVERY drain time (unbounded), EVERY set
of requests in flight (their remaining durations), every instant `tReady` at which the new process reports ready, every
length of `WaitConnectionsDone` and EVERY instant `t`, the old or the new process accepts on the shared listeners. -/
theorem upgrade_always_one_acceptor (tReady drainTime wd : Nat) (inflight : List Nat) (t : Nat) :
    oldAccepts (upgrade tReady drainTime inflight wd) t = true ∨
      newAccepts (upgrade tReady drainTime inflight wd) tReady t = true := by
  unfold upgrade
  rw [upgrade_eq]
  by_cases h : tReady ≤ readyDeadlineMs
  · simp only [h, if_true, oldAccepts, newAccepts, gaveUpAt, newGivesUpWithoutAck, newAcceptsBeforeReady, ackDeadlineMs]
    by_cases ht : t < tReady + 3000
    · left; simp [ht]
    · right; simp; omega
  · left; simp [h, oldAccepts]

/-- **new_never_gives_up**: when the old process is healthy (the ready byte arrives within its read deadline) the new
process gets its ack in time, whatever the drain takes -/
theorem new_never_gives_up (tReady drainTime wd : Nat) (inflight : List Nat) (h : tReady ≤ readyDeadlineMs) :
    gaveUpAt (upgrade tReady drainTime inflight wd) tReady = none := by
  unfold upgrade
  rw [upgrade_eq]
  simp [h, gaveUpAt, ackDeadlineMs]

/-- the ack is written before `stopAccept`, and the old process exits only after the drain and `WaitConnectionsDone` -/
theorem ack_before_stop_accept (tReady drainTime wd : Nat) (inflight : List Nat) (h : tReady ≤ readyDeadlineMs) :
    ∃ a s e, (upgrade tReady drainTime inflight wd).ackAt = some a ∧ (upgrade tReady drainTime inflight wd).stopAt = some s ∧
      (upgrade tReady drainTime inflight wd).exitAt = some e ∧ a ≤ s ∧ s + shutdownDur drainTime inflight + wd ≤ e := by
  unfold upgrade
  rw [upgrade_eq]
  simp [h]

example : (200 : Nat) ≤ readyDeadlineMs := by decide
example : (upgrade 200 15000 [20000, 40] 60000).stopAt = some 3200 ∧ (upgrade 200 15000 [20000, 40] 60000).exitAt = some 78200 := by decide

/-- negation witness (shutdown before the ack, drain longer than the ack deadline): the new process gives up while the
old one is already deaf — at that instant nobody accepts -/
example :
    let o := runOld [.sendListeners, .readReady, .stopService, .shutdown, .writeAck, .sleep 3000, .waitDone, .exit]
      100 (shutdownDur 5000 [20000]) 60000
    gaveUpAt o 100 = some 3100 ∧ oldAccepts o 3100 = false ∧ newAccepts o 100 3100 = false := by decide

end UpgHandshakeProps

/-! ## hot upgrade end to end: the schedule the two-process run (kind up2) is judged against -/
section UpgradeEndToEnd
open MosnVerif.Model.UpgHandshake MosnVerif.Gen.UpgHandshake MosnVerif.Model.UpgTiming MosnVerif.Gen.UpgTiming

/-- **upgrade_exit_window**: for EVERY configured graceful timeout (0 = absent), drain time, set of requests in flight
and ready instant within the old process's read deadline, the old process — step list regenerated from
`ReconfigureHandler`, exit timer regenerated from `WaitConnectionsDone` — exits by itself, not before
`ready + 3 s + 2·graceful + 2·readTimeout` and not after that plus the drain time.  (The literal window of the up2
cases; an old process that leaves earlier — e.g. without `WaitConnectionsDone` — or later is outside it.) -/
theorem upgrade_exit_window (tReady drainTime cfg : Nat) (inflight : List Nat) (h : tReady ≤ readyDeadlineMs) :
    ∃ e, (upgrade tReady drainTime inflight (lifetime (graceful cfg) defaultConnReadTimeoutMs)).exitAt = some e ∧
      tReady + 3000 + 2 * graceful cfg + 30000 ≤ e ∧ e ≤ tReady + 3000 + drainTime + 2 * graceful cfg + 30000 := by
  unfold upgrade
  rw [upgrade_eq]
  have hd : shutdownDur drainTime inflight ≤ drainTime := by unfold shutdownDur; exact Nat.min_le_left _ _
  simp only [h, if_true]
  refine ⟨_, rfl, ?_, ?_⟩ <;>
    simp only [lifetime, waitConnectionsDone, defaultConnReadTimeoutMs] <;> omega

/-- **upgrade_handover_inside_lifetime**: in that schedule every transferable connection — whatever the read loop
draws, the stop and the expiry of its timer each noticed up to a read timeout late, the old process started cold or
itself born from an upgrade — is handed over strictly before the old process exits, and from the ready instant to the
exit (and beyond) somebody accepts on the shared listeners. -/
theorem upgrade_handover_inside_lifetime (tReady drainTime cfg r : Nat) (inherited : Bool) (inflight : List Nat)
    (h : tReady ≤ readyDeadlineMs) (hr : r < randBound (transferTimeoutAfterStart inherited cfg)) :
    ∃ s e, (upgrade tReady drainTime inflight (lifetime (graceful cfg) defaultConnReadTimeoutMs)).stopAt = some s ∧
      (upgrade tReady drainTime inflight (lifetime (graceful cfg) defaultConnReadTimeoutMs)).exitAt = some e ∧
      s + shutdownDur drainTime inflight
        + handoverLatest (transferTimeoutAfterStart inherited cfg) r defaultConnReadTimeoutMs < e ∧
      ∀ t, oldAccepts (upgrade tReady drainTime inflight (lifetime (graceful cfg) defaultConnReadTimeoutMs)) t = true ∨
        newAccepts (upgrade tReady drainTime inflight (lifetime (graceful cfg) defaultConnReadTimeoutMs)) tReady t = true := by
  have hb := handover_before_exit inherited cfg defaultConnReadTimeoutMs r hr
  have hacc := upgrade_always_one_acceptor tReady drainTime (lifetime (graceful cfg) defaultConnReadTimeoutMs) inflight
  refine ⟨tReady + 3000, tReady + 3000 + shutdownDur drainTime inflight + lifetime (graceful cfg) defaultConnReadTimeoutMs, ?_, ?_, ?_, hacc⟩
  · unfold upgrade; rw [upgrade_eq]; simp [h]
  · unfold upgrade; rw [upgrade_eq]; simp [h]
  · omega

/-- non-vacuous: graceful_timeout 2 s, drain 2 s, requests in flight for the whole drain: exit 39 s after ready -/
example : (upgrade 0 2000 [2000] (lifetime (graceful 2000) defaultConnReadTimeoutMs)).exitAt = some 39000
    ∧ (upgrade 0 2000 [] (lifetime (graceful 2000) defaultConnReadTimeoutMs)).exitAt = some 37000 := by decide
example : (1999 : Nat) < randBound (transferTimeoutAfterStart false 2000) := by decide
/-- negation witness: an old process that skips `WaitConnectionsDone` is gone before the earliest hand-over -/
example : (runOld [.sendListeners, .readReady, .writeAck, .stopService, .sleep 3000, .shutdown, .exit] 0 2000
      (lifetime (graceful 2000) defaultConnReadTimeoutMs)).exitAt = some 5000
    ∧ 5000 < 3000 + 2000 + transferInstant (transferTimeoutAfterStart false 2000) 0 := by decide

end UpgradeEndToEnd

/-! ## hand-over of a TLS connection: the record-layer state (`Model/TlsHandover.lean`, kinds `tg`, `tx`) -/
section TlsState
open MosnVerif.Model.TlsHandover MosnVerif.Lemmas.TlsHandover

/-- **tls_state_roundtrip** (extends `transfer_roundtrip` to the TLS bytes it carries): for EVERY record-layer state of
an established connection — any key material, any sequence numbers, ANY buffered undecrypted bytes (nothing, one
byte, a header, a partial record, whole unread records) and any undelivered plaintext — restore ∘ serialise of the
regenerated `GetTLSInfo` / `TransferTLSConn` is the identity: the new process's connection has the same keys, the
same sequence numbers and exactly the same buffered bytes, and knows its version. -/
theorem tls_state_roundtrip {κ : Type} (st : RecState κ) (hv : st.haveVers = true) : tlsHandover st = some st := by
  obtain ⟨hs, hb, hk, hh⟩ := code_flags
  cases st with
  | mk keys inSeq outSeq rawInput input haveVers =>
    simp only at hv
    subst hv
    simp only [tlsHandover, tlsHandoverWith, restoreWith, serialiseWith, hs, hb, hk, hh, if_true]
    rw [copyOut_getD _ _ rawInput code_rawCopied code_rawPreLen, copyOut_getD _ _ input code_inputCopied code_inputPreLen]

/-- **handed_over_stream_same**: whatever the record-layer decryption is, and whatever still arrives on the socket, the
reader in the new process gets exactly the plaintext the reader in the old process would have got: no buffered byte of
a request is lost, reordered or preceded by anything. -/
theorem handed_over_stream_same {κ : Type} (dec : κ → Nat → Bytes → Option Bytes) (st : RecState κ)
    (hv : st.haveVers = true) (wire : Bytes) :
    (tlsHandover st).bind (fun st' => futurePlain dec st' wire) = futurePlain dec st wire := by
  rw [tls_state_roundtrip st hv]; rfl

/-- the serialised state carries the buffered bytes themselves — nothing in front of them -/
theorem tls_serialise_exact {κ : Type} (st : RecState κ) :
    (serialise st).rawInput.getD [] = st.rawInput ∧ (serialise st).input.getD [] = st.input ∧
    (serialise st).inSeq = st.inSeq ∧ (serialise st).outSeq = st.outSeq ∧ (serialise st).keys = some st.keys := by
  obtain ⟨hs, _, hk, _⟩ := code_flags
  refine ⟨copyOut_getD _ _ st.rawInput code_rawCopied code_rawPreLen,
    copyOut_getD _ _ st.input code_inputCopied code_inputPreLen, ?_, ?_, ?_⟩ <;>
  simp [serialise, serialiseWith, hs, hk]

-- non-vacuous: a header and a half of a record buffered, two plaintext bytes undelivered
example : tlsHandover (⟨7, 2, 1, [23, 3, 3, 0, 40, 9, 9], [65, 66], true⟩ : RecState Nat)
    = some ⟨7, 2, 1, [23, 3, 3, 0, 40, 9, 9], [65, 66], true⟩ := by decide
example : futurePlain (fun _ _ b => some b) (⟨7, 2, 1, [1, 2], [65], true⟩ : RecState Nat) [3] = some [65, 1, 2, 3] := by decide
/-- negation witness (the code before its repair: `bytes.NewBuffer(make([]byte, n))`): `n` zero bytes in front of the
buffered bytes; only an empty buffer survives -/
example : tlsHandoverWith zeroPrefixCode (⟨7, 2, 1, [23, 3, 3], [], true⟩ : RecState Nat)
    = some ⟨7, 2, 1, [0, 0, 0, 23, 3, 3], [], true⟩ := by decide
example : tlsHandoverWith zeroPrefixCode (⟨7, 2, 1, [], [65], true⟩ : RecState Nat) = some ⟨7, 2, 1, [], [0, 65], true⟩ := by decide
example : tlsHandoverWith zeroPrefixCode (⟨7, 2, 1, [], [], true⟩ : RecState Nat) = some ⟨7, 2, 1, [], [], true⟩ := by decide
/-- negation witnesses: keys recorded before the handshake ⇒ the new process refuses every connection;
`haveVers` not set ⇒ the first record after the hand-over is rejected -/
example : tlsHandoverWith earlyKeysCode (⟨7, 2, 1, [], [], true⟩ : RecState Nat) = none := by decide
example : (tlsHandoverWith noHaveVersCode (⟨7, 2, 1, [], [], true⟩ : RecState Nat)).bind
    (fun s => futurePlain (fun _ _ b => some b) s [1]) = none := by decide

end TlsState

end MosnVerif.Props.C11
