import MosnVerif.Lemmas.Transfer
import MosnVerif.Model.Shutdown
namespace MosnVerif.Props.C11
end MosnVerif.Props.C11
